"""Evaluate one seeded change against the checks (never touches /repo's working tree).

usage: seedtest.py <property> <patch.diff> <demo.py> [--thorough] [--skip-suite]

1. fresh worktree of /repo HEAD under /tmp; the demo must PASS there;
2. apply the patch; the demo must FAIL; the pinned suite must still pass;
3. run ./check <property> --tier quick (then thorough if missed and --thorough) with VERIF_REPO pointing at the
   mutated worktree and VERIF_LEAN at a scratch copy of the Lean project (generated tables are re-derived from the
   mutated tree without disturbing /verif/lean);
4. remove everything; print one JSON line.
"""

from __future__ import annotations

import json
import os
import pathlib
import shutil
import subprocess
import sys
import tempfile
import time

VERIF = pathlib.Path(__file__).resolve().parent.parent


def sh(cmd, cwd=None, env=None, timeout=3600):
    p = subprocess.run(cmd, shell=isinstance(cmd, str), cwd=cwd, env=env, capture_output=True, text=True, timeout=timeout)
    return p.returncode, p.stdout + p.stderr


def main():
    args = [a for a in sys.argv[1:] if not a.startswith("--")]
    flags = {a for a in sys.argv[1:] if a.startswith("--")}
    prop, patch, demo = args[0], pathlib.Path(args[1]).resolve(), pathlib.Path(args[2]).resolve()
    props = [prop] + [a for a in args[3:]]
    res = {"property": prop, "patch": str(patch)}
    base = pathlib.Path(tempfile.mkdtemp(prefix=f"sv-{prop}-"))
    wt = base / "tree"
    lean = base / "lean"
    try:
        rc, out = sh(["git", "-C", "/repo", "worktree", "add", "-q", "--detach", str(wt), "HEAD"])
        if rc:
            res["error"] = "worktree: " + out
            return res
        env = dict(os.environ, PYTHONPATH=str(wt), TREE=str(wt), PYTHONDONTWRITEBYTECODE="1")
        rc, out = sh([ "/venv/bin/python", str(demo)], cwd=base, env=env, timeout=900)
        res["demo_clean"] = {"rc": rc, "tail": out[-300:]}
        rc, out = sh(["git", "apply", str(patch)], cwd=wt)
        if rc:
            # /repo has moved on since the change was written: try a 3-way merge, then a fuzzy patch
            rc, out2 = sh(["git", "apply", "--3way", str(patch)], cwd=wt)
            if rc:
                sh(["git", "checkout", "--", "."], cwd=wt)
                rc, out3 = sh(f"patch -p1 --no-backup-if-mismatch -F3 < {patch}", cwd=wt)
                out2 += out3
            if rc:
                res["error"] = "patch does not apply: " + (out + out2)[-500:]
                return res
            # a 3-way merge that left conflict markers, or a fuzzy patch that broke the syntax, is not an application
            rcc, changed = sh(["git", "diff", "--name-only", "HEAD"], cwd=wt)
            for f in changed.split():
                body = (wt / f).read_text(errors="replace") if (wt / f).exists() else ""
                bad = "<<<<<<< " in body or (f.endswith(".py") and sh(["/venv/bin/python", "-m", "py_compile", str(wt / f)])[0] != 0)
                if bad:
                    res["error"] = f"patch does not apply cleanly to the current tree (conflict in {f}): rebase it by hand"
                    return res
            res["rebased"] = True
            rcd, newdiff = sh(["git", "diff", "HEAD"], cwd=wt)
            res["rebased_diff"] = newdiff
        rc, out = sh(["/venv/bin/python", str(demo)], cwd=base, env=env, timeout=900)
        res["demo_mutated"] = {"rc": rc, "tail": out[-300:]}
        if "--skip-suite" not in flags:
            rc, out = sh(["/venv/bin/python", str(VERIF / "harness" / "baseline.py")], cwd=VERIF, env=dict(os.environ, VERIF_REPO=str(wt)), timeout=1800)
            res["suite"] = {"rc": rc, "tail": out[-300:]}
        shutil.copytree(VERIF / "lean", lean, symlinks=True)
        (base / "out").mkdir()
        cenv = dict(os.environ, VERIF_REPO=str(wt), VERIF_LEAN=str(lean), VERIF_OUT=str(base / "out"))
        res["checks"] = {}
        for p in props:
            for tier in (["quick", "thorough"] if "--thorough" in flags else ["quick"]):
                t0 = time.time()
                rc, out = sh([str(VERIF / "check"), p, "--tier", tier], cwd=VERIF, env=cenv, timeout=7200)
                viol = [l for l in out.splitlines() if l.startswith("VIOLATION")]
                summary = [l for l in out.splitlines() if l.startswith(p + " ")]
                replays = []
                for l in viol[:3]:
                    rp = l.split("replay=")[1].split()[0]
                    try:
                        d = json.loads(pathlib.Path(rp).read_text())
                        replays.append({k: d.get(k) for k in ("signature", "what", "no_failing_input_found", "broken_proof_obligations", "broken_correspondence_streams")})
                    except Exception as e:  # noqa: BLE001
                        replays.append({"error": repr(e)})
                res["checks"][f"{p}:{tier}"] = {"rc": rc, "violations": viol[:5], "summary": summary[-1:] , "replays": replays, "wall_s": round(time.time() - t0, 1),
                                                "tail": out[-400:] if rc not in (0, 1) else ""}
                if rc == 1:
                    break
        return res
    finally:
        sh(["git", "-C", "/repo", "worktree", "remove", "--force", str(wt)])
        shutil.rmtree(base, ignore_errors=True)
        # the evidence files were rewritten by runs against a mutated tree: they are regenerated by the next real run


if __name__ == "__main__":
    print(json.dumps(main(), indent=1))
