/-!
# Model of the local-directory write transaction (C15)

Mirrors, as coded (after the repairs `fix: roll back …` of `write_transaction` and `fix: refuse clashing
temporary file names …` of `open`):

* `capellambse/filehandler/local.py`: `LocalFileHandler.open` (`hOpen`, with the temp-name check `clash`), `write_transaction`
  (`transaction`: the generator's `try / except / else / finally` as an explicit bracket —
  body, then the commit loop in the `else` branch, then the clean-up loop in `finally`),
  `_tmpname` (the parameter `tmp`);
* `capellambse/loader/core.py`: `MelodyLoader.save` (`save`: checks, then one transaction around
  `for … in trees: with open(fname, "wb") as f: tree.write_xml(f)`);
* `capellambse/loader/exs.py`: `write` (`writeFrag`: open happened already, then serialise, then
  `f.write(declaration)`, `f.write(payload)`; the file is closed by the `with` in `save`, also when
  an exception is in flight — `closeExit`).

The file system is a function `path → Option bytes`; the handler's private `__transaction` is
`txn : Option (List P)`.  Every effectful call (`open`, `serialize`, `write`, `close`, `replace`,
`unlink`) consumes one tick of `clock`; the **fault schedule** `σ : Nat → Option Fault` says which
ticks fail and how, so "for every crash point" is a plain `∀`.  Python iterates over a `set`; the
iteration order is the parameter `ord` (any permutation).
Core Lean only.
-/
namespace Capella.Txn

/-- exceptions, as far as the transaction logic can tell them apart -/
inductive Err
  | os (errno : Nat)   -- OSError (ENOSPC, EACCES, EIO, ENOENT …)
  | value              -- ValueError from the serializer
  | interrupt          -- KeyboardInterrupt
  | user               -- an exception raised by the caller's own code inside the transaction
  | alreadyWritten     -- RuntimeError("File already written in this transaction")
  | alreadyOpen        -- RuntimeError("Another transaction is already open")
  | noTxn              -- writing outside a transaction (not reachable from `transaction`)
  | tmpClash           -- RuntimeError("Temporary file name clashes with another file in this transaction")
  deriving DecidableEq, Repr

def Err.isOS : Err → Bool
  | .os _ => true
  | _ => false

/-- an injected failure: the exception, and whether the side effect of the failing call took place
before the exception (`open`: the file was created; `write`: half of the data was written) -/
structure Fault where
  err : Err
  eff : Bool
  deriving DecidableEq, Repr

abbrev Sched := Nat → Option Fault
abbrev Bytes := List Nat

/-- the effectful calls, for the trace compared with the implementation -/
inductive Ev (P : Type)
  | open_ (p : P) | ser | write (p : P) | close (p : P) | rename (p : P) | unlink (p : P)
  deriving DecidableEq, Repr

structure St (P : Type) where
  fs : P → Option Bytes
  txn : Option (List P)
  clock : Nat
  log : List (Ev P)      -- newest first

abbrev Res (P : Type) := St P × Option Err

/-- one file to write: `path`, XML declaration, serialised payload; `nodir`: its directory does not exist -/
structure Frag (P : Type) where
  path : P
  decl : Bytes
  payload : Bytes
  nodir : Bool := false

/-- what the caller does inside the transaction -/
inductive Op (P : Type)
  | frag (f : Frag P)    -- `with handler.open(path, "wb") as f: exs.write(tree, f)`
  | raise (e : Err)      -- the caller's code raises
  | nested               -- `with handler.write_transaction(): …` inside the transaction

section
variable {P : Type} [DecidableEq P]

def fsSet (fs : P → Option Bytes) (p : P) (b : Bytes) : P → Option Bytes :=
  fun q => if q = p then some b else fs q

def fsDel (fs : P → Option Bytes) (p : P) : P → Option Bytes :=
  fun q => if q = p then none else fs q

/-- `os.replace(a, b)` for an existing `a` with content `c` -/
def fsMove (fs : P → Option Bytes) (a b : P) (c : Bytes) : P → Option Bytes :=
  fun q => if q = b then some c else if q = a then none else fs q

/-- one effectful call: advances the clock, records the event, tells whether it fails -/
def tick (σ : Sched) (ev : Ev P) (s : St P) : St P × Option Fault :=
  ({ s with clock := s.clock + 1, log := ev :: s.log }, σ s.clock)

variable (tmp : P → P) (ord : List P → List P) (σ : Sched)

/-- the temp-name check of `LocalFileHandler.open` (added by `fix: refuse clashing temporary file
names …`): `tmppath in ({normpath} | txn | tmps(txn)) or normpath in tmps(txn)` -/
def clash (l : List P) (p : P) : Bool :=
  decide (tmp p = p) || l.any (fun o => decide (tmp p = o) || decide (tmp p = tmp o) || decide (p = tmp o))

/-- `LocalFileHandler.open(name, "wb")` inside a transaction: refuse a second write and a temp-name
clash, add the name to the set, *then* open the temporary file (in that order, as coded). -/
def hOpen (fr : Frag P) (s : St P) : Res P :=
  match s.txn with
  | none => (s, some .noTxn)
  | some l =>
    if fr.path ∈ l then (s, some .alreadyWritten) else
    if clash tmp l fr.path then (s, some .tmpClash) else
    match tick σ (.open_ fr.path) { s with txn := some (l ++ [fr.path]) } with
    | (s2, some f) =>
      ({ s2 with fs := if f.eff && !fr.nodir then fsSet s2.fs (tmp fr.path) [] else s2.fs }, some f.err)
    | (s2, none) =>
      if fr.nodir then (s2, some (.os 2))
      else ({ s2 with fs := fsSet s2.fs (tmp fr.path) [] }, none)

/-- `f.write(data)` on the temporary file of `p` -/
def hWrite (p : P) (data : Bytes) (s : St P) : Res P :=
  match tick σ (.write p) s with
  | (s2, some f) =>
    ({ s2 with fs := if f.eff then fsSet s2.fs (tmp p) ((s2.fs (tmp p)).getD [] ++ data.take (data.length / 2))
                     else s2.fs }, some f.err)
  | (s2, none) => ({ s2 with fs := fsSet s2.fs (tmp p) ((s2.fs (tmp p)).getD [] ++ data) }, none)

/-- `f.close()` at the end of the `with` block -/
def hClose (p : P) (s : St P) : Res P :=
  match tick σ (.close p) s with
  | (s2, some f) => (s2, some f.err)
  | (s2, none) => (s2, none)

/-- leaving the `with` block while `e` is in flight: the file is closed; an error from `close`
replaces `e` (Python chains it as `__context__`) -/
def closeExit (p : P) (e : Err) (s : St P) : Res P :=
  match tick σ (.close p) s with
  | (s2, some f) => (s2, some f.err)
  | (s2, none) => (s2, some e)

/-- one iteration of the loop in `MelodyLoader.save` -/
def writeFrag (fr : Frag P) (s : St P) : Res P :=
  match hOpen tmp σ fr s with
  | (s1, some e) => (s1, some e)
  | (s1, none) =>
    match tick σ (.ser : Ev P) s1 with
    | (s2, some f) => closeExit σ fr.path f.err s2
    | (s2, none) =>
      match hWrite tmp σ fr.path fr.decl s2 with
      | (s3, some e) => closeExit σ fr.path e s3
      | (s3, none) =>
        match hWrite tmp σ fr.path fr.payload s3 with
        | (s4, some e) => closeExit σ fr.path e s4
        | (s4, none) => hClose σ fr.path s4

def runOp : Op P → St P → Res P
  | .frag f, s => writeFrag tmp σ f s
  | .raise e, s => (s, some e)
  | .nested, s => (s, some .alreadyOpen)

def runBody : List (Op P) → St P → Res P
  | [], s => (s, none)
  | o :: os, s =>
    match runOp tmp σ o s with
    | (s1, some e) => (s1, some e)
    | (s1, none) => runBody os s1

/-- the `else` branch: `for file in tuple(set): tmp.replace(file); set.discard(file)` -/
def commit : List P → St P → Res P
  | [], s => (s, none)
  | p :: ps, s =>
    match tick σ (.rename p) s with
    | (s1, some f) => (s1, some f.err)
    | (s1, none) =>
      match s1.fs (tmp p) with
      | none => (s1, some (.os 2))
      | some c => commit ps { s1 with fs := fsMove s1.fs (tmp p) p c, txn := s1.txn.map (·.filter (· ≠ p)) }

/-- the `finally` branch: `unlink(missing_ok=True)` each pending temp file; an `OSError` is logged
and swallowed, anything else propagates out of the loop -/
def cleanup : List P → St P → Res P
  | [], s => (s, none)
  | p :: ps, s =>
    match tick σ (.unlink p) s with
    | (s1, some f) => if f.err.isOS then cleanup ps s1 else (s1, some f.err)
    | (s1, none) => cleanup ps { s1 with fs := fsDel s1.fs (tmp p) }

/-- `with handler.write_transaction(dry_run=dry): body` -/
def transaction (dry : Bool) (body : List (Op P)) (s : St P) : Res P :=
  match s.txn with
  | some _ => (s, some .alreadyOpen)
  | none =>
    match runBody tmp σ body { s with txn := some [] } with
    | (s1, e1) =>
      match (match e1 with
             | some e => (s1, some e)
             | none => if dry then (s1, none) else commit tmp σ (ord (s1.txn.getD [])) s1) with
      | (s2, e2) =>
        match cleanup tmp σ (ord (s2.txn.getD [])) { s2 with txn := none } with
        | (s3, some e3) => (s3, some e3)
        | (s3, none) => (s3, e2)

/-- `MelodyLoader.save`: the checks (`pre`: what they raise, if anything) come before the transaction -/
def save (pre : Option Err) (dry : Bool) (frags : List (Frag P)) (s : St P) : Res P :=
  match pre with
  | some e => (s, some e)
  | none => transaction tmp ord σ dry (frags.map Op.frag) s

/-! ### the pinned code before the repair (kept so that a reverted repair is recognisable by name) -/

/-- `open(name, "wb")` without the temp-name check (before `fix: refuse clashing temporary file names`) -/
def hOpenNoCheck (fr : Frag P) (s : St P) : Res P :=
  match s.txn with
  | none => (s, some .noTxn)
  | some l =>
    if fr.path ∈ l then (s, some .alreadyWritten) else
    match tick σ (.open_ fr.path) { s with txn := some (l ++ [fr.path]) } with
    | (s2, some f) =>
      ({ s2 with fs := if f.eff && !fr.nodir then fsSet s2.fs (tmp fr.path) [] else s2.fs }, some f.err)
    | (s2, none) =>
      if fr.nodir then (s2, some (.os 2))
      else ({ s2 with fs := fsSet s2.fs (tmp fr.path) [] }, none)

/-- one file written through `hOpenNoCheck` without any fault -/
def writeFragNoCheck (fr : Frag P) (s : St P) : Res P :=
  match hOpenNoCheck tmp σ fr s with
  | (s1, some e) => (s1, some e)
  | (s1, none) =>
    match tick σ (.ser : Ev P) s1 with
    | (s2, some f) => closeExit σ fr.path f.err s2
    | (s2, none) =>
      match hWrite tmp σ fr.path fr.decl s2 with
      | (s3, some e) => closeExit σ fr.path e s3
      | (s3, none) =>
        match hWrite tmp σ fr.path fr.payload s3 with
        | (s4, some e) => closeExit σ fr.path e s4
        | (s4, none) => hClose σ fr.path s4

def runBodyNoCheck : List (Frag P) → St P → Res P
  | [], s => (s, none)
  | f :: fs, s =>
    match writeFragNoCheck tmp σ f s with
    | (s1, some e) => (s1, some e)
    | (s1, none) => runBodyNoCheck fs s1

/-- the repaired `write_transaction` around writes that skip the temp-name check -/
def saveNoCheck (dry : Bool) (frags : List (Frag P)) (s : St P) : Res P :=
  match s.txn with
  | some _ => (s, some .alreadyOpen)
  | none =>
    match runBodyNoCheck tmp σ frags { s with txn := some [] } with
    | (s1, e1) =>
      match (match e1 with
             | some e => (s1, some e)
             | none => if dry then (s1, none) else commit tmp σ (ord (s1.txn.getD [])) s1) with
      | (s2, e2) =>
        match cleanup tmp σ (ord (s2.txn.getD [])) { s2 with txn := none } with
        | (s3, some e3) => (s3, some e3)
        | (s3, none) => (s3, e2)

/-- the former `finally` loop: one pass that unlinks (abort / dry run) or replaces (commit), stops at
the first exception, and resets the transaction only if it got through -/
def finishOld (dry : Bool) : List P → St P → Res P
  | [], s => ({ s with txn := none }, none)
  | p :: ps, s =>
    match tick σ (if dry then Ev.unlink p else Ev.rename p) s with
    | (s1, some f) => (s1, some f.err)
    | (s1, none) =>
      match s1.fs (tmp p) with
      | none => (s1, some (.os 2))   -- FileNotFoundError from `unlink()` / `replace()`
      | some c =>
        finishOld dry ps { s1 with fs := if dry then fsDel s1.fs (tmp p) else fsMove s1.fs (tmp p) p c }

/-- `write_transaction` as it was: `except: dry_run = True; raise` / `finally: <loop>; txn = None` -/
def transactionOld (dry : Bool) (body : List (Op P)) (s : St P) : Res P :=
  match s.txn with
  | some _ => (s, some .alreadyOpen)
  | none =>
    match runBody tmp σ body { s with txn := some [] } with
    | (s1, e1) =>
      match finishOld tmp σ (dry || e1.isSome) (ord (s1.txn.getD [])) s1 with
      | (s2, some e2) => (s2, some e2)
      | (s2, none) => (s2, e1)

end

/-- the schedule with exactly one fault -/
def single (c : Nat) (f : Fault) : Sched := fun n => if n = c then some f else none

/-- no fault at all -/
def noFault : Sched := fun _ => none

end Capella.Txn
