/-
Vocabulary for the robustness (continuity / discontinuity) statements about the snapping functions of the
geometry kernel model (`Capella.Model.Geom`): the sup-norm distance, the three-way position of a coordinate
relative to a closed range (the pair of comparisons `__vector_snap_manhattan` makes), the closed forms of the
intersection of the line source–point with an axis-parallel line, and the 2D cross product.

Core Lean only.
-/
import Capella.Model.Geom

namespace Capella.Geom

/-- sup-norm distance of two points -/
def distInf (a b : V2) : Rat := max (rabs (a.x - b.x)) (rabs (a.y - b.y))

/-- position of a coordinate relative to the closed range `[lo, hi]` (the two comparisons `v < lo`, `v > hi` of
`__vector_snap_manhattan`) -/
inductive Zone where
  | below | inside | above
deriving DecidableEq, Repr

def zone (lo hi v : Rat) : Zone := if v < lo then .below else if hi < v then .above else .inside

/-- the zone `__vector_snap_manhattan` looks at: the y-range for a horizontal axis, the x-range for a vertical one -/
def manhattanZone (b : Box) (axis p : V2) : Zone :=
  if axis.x ≠ 0 then zone b.pos.y (b.pos.y + b.size.y) p.y else zone b.pos.x (b.pos.x + b.size.x) p.x

/-- x-coordinate where the line through `s` and `p` meets the horizontal line `y = Y` (`p.y ≠ s.y`) -/
def hlineX (s p : V2) (Y : Rat) : Rat := p.x - (p.y - Y) * (p.x - s.x) / (p.y - s.y)

/-- y-coordinate where the line through `s` and `p` meets the vertical line `x = X` (`p.x ≠ s.x`) -/
def vlineY (s p : V2) (X : Rat) : Rat := p.y - (p.x - X) * (p.y - s.y) / (p.x - s.x)

def cross2 (a b : V2) : Rat := a.x * b.y - a.y * b.x

end Capella.Geom
