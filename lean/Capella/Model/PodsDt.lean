/-
The pure integer part of `datetime.isoformat("T", "milliseconds")` and `datetime.fromisoformat`
(CPython 3.12) as `DatetimePOD` of `/repo/capellambse/model/_pods.py` uses them:

* `DT`                       — an aware `datetime.datetime` (local fields + utcoffset in µs);
* `DT.valid`                 — the field ranges CPython enforces (`_check_date_fields`,
                               `_check_time_fields`, `timezone.__new__`);
* `truncMs`                  — the value with the sub-millisecond part cut off;
* `isoFormat`                — `"%04d-%02d-%02dT%02d:%02d:%02d.%03d"` followed by `_format_offset`;
* `isoParse`                 — `fromisoformat` on exactly the three shapes `isoFormat` emits
                               (`…[+-]HH:MM`, `…[+-]HH:MM:SS`, `…[+-]HH:MM:SS.ffffff`); every other
                               text is `.foreign` (Python accepts many more forms; the driver asks an
                               oracle for those);
* `subSecondOffset`          — the offsets on which CPython's `tzinfo_from_isoformat_results` quirk
                               bites: a whole-seconds part of 0 gives `timezone.utc` even when the
                               microseconds of the offset are not 0.

Text is `List Char`. Core Lean only; every function is structural and computable.
-/
import Capella.Model.Pods

namespace Capella.Pods

/-- an aware `datetime.datetime`: local fields + utcoffset in microseconds -/
structure DT where
  y : Nat
  mo : Nat
  d : Nat
  h : Nat
  mi : Nat
  s : Nat
  us : Nat
  /-- utcoffset, in microseconds -/
  off : Int
deriving DecidableEq, Repr

/-- `_is_leap` -/
def isLeap (y : Nat) : Bool := y % 4 == 0 && (y % 100 != 0 || y % 400 == 0)

/-- `_days_in_month` (31 outside 1..12, where Python asserts) -/
def daysInMonth (y mo : Nat) : Nat :=
  match mo with
  | 2 => if isLeap y then 29 else 28
  | 4 => 30
  | 6 => 30
  | 9 => 30
  | 11 => 30
  | _ => 31

/-- 24 h in microseconds -/
def dayUs : Nat := 86400000000

/-- `_check_date_fields`, `_check_time_fields`, and `timezone`'s "strictly between -24 h and 24 h" -/
def DT.valid (t : DT) : Bool :=
  decide (1 ≤ t.y) && decide (t.y ≤ 9999) && decide (1 ≤ t.mo) && decide (t.mo ≤ 12) &&
  decide (1 ≤ t.d) && decide (t.d ≤ daysInMonth t.y t.mo) &&
  decide (t.h < 24) && decide (t.mi < 60) && decide (t.s < 60) && decide (t.us < 1000000) &&
  decide (-86400000000 < t.off) && decide (t.off < 86400000000)

/-- the value `isoformat(…, "milliseconds")` still shows -/
def truncMs (t : DT) : DT := { t with us := t.us / 1000 * 1000 }

/-- the offsets CPython's `fromisoformat` reads back as UTC although they are not 0 -/
def subSecondOffset (t : DT) : Prop := t.off ≠ 0 ∧ t.off.natAbs < 1000000

instance (t : DT) : Decidable (subSecondOffset t) := by unfold subSecondOffset; exact inferInstance

/-! ## fixed-width decimals -/

/-- the last decimal digit of `n` -/
def dch (n : Nat) : Char := Char.ofNat (48 + n % 10)

/-- value of an ASCII digit -/
def dval (c : Char) : Nat := c.toNat - 48

/-- `"%02d" % n` for `n < 100` (the last two digits otherwise) -/
def pad2 (n : Nat) : Str := [dch (n / 10), dch n]
/-- `"%03d" % n` for `n < 1000` -/
def pad3 (n : Nat) : Str := [dch (n / 100), dch (n / 10), dch n]
/-- `"%04d" % n` for `n < 10000` -/
def pad4 (n : Nat) : Str := [dch (n / 1000), dch (n / 100), dch (n / 10), dch n]
/-- `"%06d" % n` for `n < 1000000` -/
def pad6 (n : Nat) : Str :=
  [dch (n / 100000), dch (n / 10000), dch (n / 1000), dch (n / 100), dch (n / 10), dch n]

def num2 (a b : Char) : Nat := dval a * 10 + dval b
def num3 (a b c : Char) : Nat := dval a * 100 + dval b * 10 + dval c
def num4 (a b c d : Char) : Nat := dval a * 1000 + dval b * 100 + dval c * 10 + dval d
def num6 (a b c d e f : Char) : Nat :=
  dval a * 100000 + dval b * 10000 + dval c * 1000 + dval d * 100 + dval e * 10 + dval f

/-! ## `isoformat("T", "milliseconds")` -/

/-- the sign character of `_format_offset` -/
def sgn (off : Int) : Char := if off < 0 then '-' else '+'

/-- what `_format_offset` emits after `[+-]HH:MM` for `a = |off|`: `:SS` if seconds or microseconds
are not 0, then `.ffffff` if the microseconds are not 0 -/
def offTail (a : Nat) : Str :=
  if a / 1000000 % 60 ≠ 0 ∨ a % 1000000 ≠ 0 then
    ':' :: pad2 (a / 1000000 % 60) ++ (if a % 1000000 ≠ 0 then '.' :: pad6 (a % 1000000) else [])
  else []

/-- `_format_offset` (C: `format_utcoffset` with `sep = ":"`) -/
def fmtOffset (off : Int) : Str :=
  sgn off :: (pad2 (off.natAbs / 3600000000) ++ ':' :: pad2 (off.natAbs / 60000000 % 60) ++
    offTail off.natAbs)

/-- `"%04d-%02d-%02dT%02d:%02d:%02d.%03d"`: date, `T`, time with milliseconds -/
def isoHead (t : DT) : Str :=
  pad4 t.y ++ '-' :: pad2 t.mo ++ '-' :: pad2 t.d ++ 'T' :: pad2 t.h ++ ':' :: pad2 t.mi ++
    ':' :: pad2 t.s ++ '.' :: pad3 (t.us / 1000)

def isoFormat (t : DT) : Str := isoHead t ++ fmtOffset t.off

/-- Capella's form of a whole-minutes offset (`+0100`): what `re_set` leaves of `isoFormat` -/
def isoCompact (t : DT) : Str :=
  isoHead t ++ sgn t.off :: (pad2 (t.off.natAbs / 3600000000) ++ pad2 (t.off.natAbs / 60000000 % 60))

/-! ## `fromisoformat` -/

inductive IsoRes
  /-- an aware datetime -/
  | ok (d : DT)
  /-- ValueError -/
  | bad
  /-- not one of the three shapes `isoFormat` emits: outside the model -/
  | foreign
deriving DecidableEq, Repr

/-- the checks of `new_datetime_ex2` / `new_timezone` on the parsed fields, and
`tzinfo_from_isoformat_results`: `osec` is `HH·3600 + MM·60 + SS` of the offset (the three fields
are not range-checked individually), `ous` its six fraction digits. A whole-seconds part of 0 gives
`timezone.utc` whatever `ous` is. -/
def isoBuild (y mo d h mi s ms : Nat) (neg : Bool) (osec ous : Nat) : IsoRes :=
  let tot := osec * 1000000 + ous
  if y = 0 ∨ mo = 0 ∨ 12 < mo ∨ d = 0 ∨ daysInMonth y mo < d ∨ 23 < h ∨ 59 < mi ∨ 59 < s ∨
      dayUs ≤ tot then .bad
  else .ok ⟨y, mo, d, h, mi, s, ms * 1000,
            if osec = 0 then 0 else if neg then - (tot : Int) else (tot : Int)⟩

/-- the part of the UTC offset after `[+-]HH:MM`: nothing, `:SS` or `:SS.ffffff`; `hm` is
`HH·3600 + MM·60` -/
def isoTail (build : Nat → Nat → IsoRes) (hm : Nat) (tail : Str) : IsoRes :=
  match tail with
  | [] => build hm 0
  | [c8, o5, o6] =>
    if c8 == ':' && o5.isDigit && o6.isDigit then build (hm + num2 o5 o6) 0 else .foreign
  | [c8, o5, o6, c9, u1, u2, u3, u4, u5, u6] =>
    if c8 == ':' && o5.isDigit && o6.isDigit && c9 == '.' &&
        [u1, u2, u3, u4, u5, u6].all Char.isDigit then
      build (hm + num2 o5 o6) (num6 u1 u2 u3 u4 u5 u6)
    else .foreign
  | _ => .foreign

/-- `datetime.fromisoformat` on `YYYY-MM-DDTHH:MM:SS.mmm[+-]HH:MM[:SS[.ffffff]]` -/
def isoParse (s : Str) : IsoRes :=
  match s with
  | y1 :: y2 :: y3 :: y4 :: c1 :: m1 :: m2 :: c2 :: d1 :: d2 :: c3 :: h1 :: h2 :: c4 :: n1 :: n2 ::
      c5 :: s1 :: s2 :: c6 :: f1 :: f2 :: f3 :: sg :: o1 :: o2 :: c7 :: o3 :: o4 :: tail =>
    if c1 == '-' && c2 == '-' && c3 == 'T' && c4 == ':' && c5 == ':' && c6 == '.' && c7 == ':' &&
        isSign sg &&
        [y1, y2, y3, y4, m1, m2, d1, d2, h1, h2, n1, n2, s1, s2, f1, f2, f3, o1, o2, o3, o4].all
          Char.isDigit then
      isoTail
        (isoBuild (num4 y1 y2 y3 y4) (num2 m1 m2) (num2 d1 d2) (num2 h1 h2) (num2 n1 n2)
          (num2 s1 s2) (num3 f1 f2 f3) (sg == '-'))
        (num2 o1 o2 * 3600 + num2 o3 o4 * 60) tail
    else .foreign
  | _ => .foreign

/-- the aware values that `fromisoformat(isoformat(·))` returns unchanged (up to milliseconds) -/
def DT.isoOk (t : DT) : Bool := t.valid && !decide (subSecondOffset t)

/-- the result of `isoParse` as `Params.fromIso` wants it; `foreign` answers for the shapes that are
not modelled (an oracle recorded from CPython) -/
def isoParseP {N : Type} (foreign : Str → Option (N ⊕ DT)) (s : Str) : Option (N ⊕ DT) :=
  match isoParse s with
  | .ok d => some (.inr d)
  | .bad => none
  | .foreign => foreign s

/-- `P` with the concrete datetime codec: aware values are `DT`, `isoformat` / `fromisoformat` /
millisecond truncation are the functions of this file. What stays a parameter: `astimezone()` of a
naive value (`localize`: the local zone) and `fromisoformat` on shapes the code never writes. -/
def withDT (P : Params) (localize : P.N → Option DT) (foreign : Str → Option (P.N ⊕ DT)) : Params :=
  { F := P.F, fZero := P.fZero, fRepr := P.fRepr, fParse := P.fParse, fOfInt := P.fOfInt, fIsZero := P.fIsZero,
    N := P.N, T := DT, localize := localize, iso := isoFormat, fromIso := isoParseP foreign,
    truncMs := truncMs, isoOk := DT.isoOk, repair := P.repair, xhtml := P.xhtml,
    escLinked := P.escLinked, unescLinked := P.unescLinked }

end Capella.Pods
