/-
Model of the typed attribute descriptors ("PODs") of py-capellambse and of `_Specification`.

Mirrors `/repo/capellambse/model/_pods.py` as coded:

* `Attrs`                      — lxml's `_Attrib` of one element (ordered, unique keys);
* `get` / `set` / `del`        — `BasePOD.__get__` / `__set__` / `__delete__` (default elision,
                                 the write-once rule of `writable=False`, lxml's refusal of
                                 XML-illegal text);
* `toXml` / `fromXml`          — the `_to_xml` / `_from_xml` of StringPOD, HTMLStringPOD, BoolPOD,
                                 IntPOD, FloatPOD, DatetimePOD, EnumPOD and of
                                 `extensions/pvmt/_config.py: PVMTDescriptionProperty`;
* `neDefault`                  — Python's `value != self.default` for the values a caller can pass;
* `pyIntRepr` / `pyIntParse`   — `str(int)` / `int(str)` (ASCII digits; see design/C07.md);
* `reSet` / `reGet`            — `DatetimePOD.re_set.sub("", ·)` / `re_get.sub(":", ·)`.

What CPython / libxml2 do is a *parameter* (`Params`): `str(float)`/`float(str)`, `float(int)`,
`datetime.astimezone/isoformat/fromisoformat`, `helpers.repair_html`, `escape_linked_text` /
`unescape_linked_text`. The laws the theorems assume about them are `Params.Lawful`; they are sampled
on the implementation by harness/props/c07.py.

Text is `List Char`. Core Lean only.
-/
import Capella.Model.PodsTable

namespace Capella.Pods

/-! ## lxml attribute map -/

abbrev Attrs := List (Str × Str)

namespace Attrs

/-- `elem.get(k)` / `elem.attrib[k]` -/
def get : Attrs → Str → Option Str
  | [], _ => none
  | (k', v) :: r, k => if k' = k then some v else get r k

/-- `k in elem.attrib` -/
def has (a : Attrs) (k : Str) : Bool := (get a k).isSome

/-- `elem.attrib[k] = v`: an existing attribute keeps its position, a new one goes last -/
def set : Attrs → Str → Str → Attrs
  | [], k, v => [(k, v)]
  | (k', v') :: r, k, v => if k' = k then (k', v) :: r else (k', v') :: set r k v

/-- `elem.attrib.pop(k, None)` -/
def pop (a : Attrs) (k : Str) : Attrs := a.filter (fun p => !decide (p.1 = k))

end Attrs

/-! ## Python exceptions that can leave a descriptor -/

inductive Err
  | typeError | valueError | keyError | assertionError | attributeError | overflowError
  | unsupported          -- a descriptor kind the model does not know (table row `.other`)
deriving DecidableEq, Repr

/-! ## Parameters: CPython and libxml2 -/

inductive FloatV (F : Type)
  | nan | inf | ninf | fin (x : F)
deriving DecidableEq

structure Params where
  /-- finite floats -/
  F : Type
  fZero : F
  /-- `str(x)` -/
  fRepr : F → Str
  /-- `float(s)`; `none` = ValueError -/
  fParse : Str → Option (FloatV F)
  /-- `float(i)`; `none` = OverflowError -/
  fOfInt : Int → Option F
  /-- `x == 0.0` (true for `-0.0`) -/
  fIsZero : F → Bool
  /-- naive resp. aware `datetime.datetime` -/
  N : Type
  T : Type
  /-- `value.astimezone()` for a naive value; `none` = it raises (ValueError/OverflowError/OSError,
  all reported as `valueError`) -/
  localize : N → Option T
  /-- `value.isoformat("T", "milliseconds")` -/
  iso : T → Str
  /-- `datetime.fromisoformat`; `none` = ValueError; the result may be naive -/
  fromIso : Str → Option (N ⊕ T)
  /-- the value with the sub-millisecond part cut off, in a fixed-offset zone -/
  truncMs : T → T
  /-- the aware values that survive `fromisoformat(isoformat(·))`: all, except that CPython's
  `fromisoformat` turns a non-zero UTC offset of less than one second into UTC (see
  `Model/PodsDt.lean`, `subSecondOffset`) -/
  isoOk : T → Bool
  /-- `helpers.repair_html`; `none` = it raises -/
  repair : Str → Option Str
  /-- `os.getenv("CAPELLAMBSE_XHTML") == "1"` -/
  xhtml : Bool
  /-- `helpers.escape_linked_text`; `none` = ValueError -/
  escLinked : Str → Option Str
  /-- `helpers.unescape_linked_text(loader, ·)` -/
  unescLinked : Str → Str

/-! ## Values a caller can pass to / get from a descriptor -/

inductive PyVal (P : Params)
  | none
  | bool (b : Bool)
  | int (i : Int)
  | float (f : FloatV P.F)
  /-- `str` (and its subclass `markupsafe.Markup`) -/
  | str (s : Str)
  /-- a member of an `enum.Enum` class: class, (canonical) member name, member value -/
  | member (cls : Str) (name : Str) (value : Str)
  | naive (n : P.N)
  | aware (t : P.T)
  /-- `pvmt.SelectorRules(raw)` -/
  | selector (raw : Str)
  /-- any other object -/
  | other

/-- `self.default` (hard-coded by each POD class; the enum default comes from the table) -/
def defaultVal (P : Params) (d : Desc) : PyVal P :=
  match d.kind with
  | .string | .html => .str []
  | .bool => .bool false
  | .int => .int 0
  | .float => .float (.fin P.fZero)
  | .datetime => .none
  | .enum e n => .member e.name n ((e.byName n).getD [])
  | .selector => .selector []
  | .other _ => .none

/-- `x != 0` / `x != 0.0` / `x != False` for the numeric tower -/
def neZero (P : Params) : PyVal P → Bool
  | .bool b => b
  | .int i => i != 0
  | .float (.fin x) => !P.fIsZero x
  | _ => true

/-- Python's `value != self.default` (`value` is not `None`). -/
def neDefault (P : Params) (d : Desc) (v : PyVal P) : Bool :=
  match d.kind with
  | .string | .html => match v with | .str s => !s.isEmpty | _ => true
  | .bool | .int | .float => neZero P v
  | .datetime => true
  | .enum e n =>
    match v with
    | .member c m _ => !(decide (c = e.name) && decide (m = n))
    | .str s => !(e.stringy && decide (s = n))         -- `_StringyEnumMixin.__eq__`
    | _ => true
  | .selector => match v with | .selector r => !r.isEmpty | _ => true
  | .other _ => true

/-! ## `str(int)` and `int(str)` -/

def pyIntRepr (i : Int) : Str :=
  if i < 0 then '-' :: Nat.toDigits 10 i.natAbs else Nat.toDigits 10 i.natAbs

/-- what `int()` strips: C `isspace` for ASCII (U+001C–U+001F are *not* stripped, unlike
`str.strip`), `str.isspace` beyond ASCII (`_PyUnicode_TransformDecimalAndSpaceToASCII`) -/
def isPySpace (c : Char) : Bool :=
  let n := c.toNat
  (decide (9 ≤ n) && decide (n ≤ 13)) || n == 32 || n == 0x85 || n == 0xA0 ||
  n == 0x1680 || (decide (0x2000 ≤ n) && decide (n ≤ 0x200A)) || n == 0x2028 || n == 0x2029 ||
  n == 0x202F || n == 0x205F || n == 0x3000

def strip (s : Str) : Str := ((s.dropWhile isPySpace).reverse.dropWhile isPySpace).reverse

/-- `digit ("_"? digit)*` -/
def digitsOk : Str → Bool
  | [] => false
  | [c] => c.isDigit
  | c :: '_' :: r => c.isDigit && digitsOk r
  | c :: r => c.isDigit && digitsOk r

/-- the digits after the optional sign -/
def parseSigned (neg : Bool) (body : Str) : Option Int :=
  if digitsOk body then
    let n : Nat := Nat.ofDigitChars 10 (body.filter (fun c => c != '_')) 0
    some (if neg then - (n : Int) else (n : Int))
  else none

def pyIntParse (s : Str) : Option Int :=
  match strip s with
  | '-' :: r => parseSigned true r
  | '+' :: r => parseSigned false r
  | r => parseSigned false r

/-! ## The two regular expressions of `DatetimePOD` -/

def isSign (c : Char) : Bool := c == '+' || c == '-'

/-- `re_set = (?<=[+-]\d\d):(?=\d\d$)`, `.sub("", s)`. `$` also matches before a final newline.
Written over the reversed string. -/
def reSetRev : Str → Option Str
  | d4 :: d3 :: ':' :: d2 :: d1 :: sg :: rest =>
    if d4.isDigit && d3.isDigit && d2.isDigit && d1.isDigit && isSign sg
    then some (d4 :: d3 :: d2 :: d1 :: sg :: rest) else none
  | _ => none

def reSet (s : Str) : Str :=
  match s.reverse with
  | '\n' :: r =>
    match reSetRev r with
    | some r' => ('\n' :: r').reverse
    | none => s
  | r =>
    match reSetRev r with
    | some r' => r'.reverse
    | none => s

/-- `re_get = (?<=[+-]\d\d)(?=\d\d$)`, `.sub(":", s)` -/
def reGetRev : Str → Option Str
  | d4 :: d3 :: d2 :: d1 :: sg :: rest =>
    if d4.isDigit && d3.isDigit && d2.isDigit && d1.isDigit && isSign sg
    then some (d4 :: d3 :: ':' :: d2 :: d1 :: sg :: rest) else none
  | _ => none

def reGet (s : Str) : Str :=
  match s.reverse with
  | '\n' :: r =>
    match reGetRev r with
    | some r' => ('\n' :: r').reverse
    | none => s
  | r =>
    match reGetRev r with
    | some r' => r'.reverse
    | none => s

/-! ## `_to_xml` / `_from_xml` -/

def boolStr (b : Bool) : Str := if b then ['t','r','u','e'] else ['f','a','l','s','e']

def star : Str := ['*']

/-- `FloatPOD._to_xml` after the int → float coercion -/
def floatToXml (P : Params) : FloatV P.F → Except Err Str
  | .nan => .error .valueError
  | .inf => .ok star
  | .ninf => .error .valueError
  | .fin x => .ok (P.fRepr x)

/-- `_to_xml(value)`; `Except.ok none` never occurs in the classes as coded but is allowed by
`BasePOD.__set__` (`data is None` → pop). -/
def toXml (P : Params) (d : Desc) (v : PyVal P) : Except Err Str :=
  match d.kind with
  | .string =>
    -- returned unchanged; lxml then insists on `str`
    match v with | .str s => .ok s | _ => .error .typeError
  | .html =>
    match v with
    | .str s => match P.repair s with | some r => .ok r | none => .error .valueError
    | _ => .error .typeError
  | .bool =>
    match v with | .bool b => .ok (boolStr b) | _ => .error .assertionError
  | .int =>
    -- `isinstance(value, int)` (bool is a subclass), then `str(int(value))`
    match v with
    | .int i => .ok (pyIntRepr i)
    | .bool b => .ok (pyIntRepr (if b then 1 else 0))
    | _ => .error .typeError
  | .float =>
    match v with
    | .int i => match P.fOfInt i with | some x => floatToXml P (.fin x) | none => .error .overflowError
    | .bool b => match P.fOfInt (if b then 1 else 0) with
                 | some x => floatToXml P (.fin x) | none => .error .overflowError
    | .float f => floatToXml P f
    | _ => .error .typeError
  | .datetime =>
    match v with
    | .naive n => match P.localize n with | some t => .ok (reSet (P.iso t)) | none => .error .valueError
    | .aware t => .ok (reSet (P.iso t))
    | _ => .error .typeError
  | .enum e _ =>
    match v with
    | .str s => match e.byName s with | some x => .ok x | none => .error .keyError
    | .member _ _ x => .ok x                       -- `value.value`, whatever enum it belongs to
    | _ => .error .attributeError
  | .selector =>
    match v with
    | .selector r => .ok r
    | .str s => .ok s
    | _ => .error .typeError
  | .other _ => .error .unsupported

/-- `FloatPOD._from_xml` -/
def floatFromXml (P : Params) (s : Str) : Except Err (FloatV P.F) :=
  if s = star then .ok .inf
  else match P.fParse s with | some f => .ok f | none => .error .valueError

/-- `FloatPOD._from_xml` before the repair (`float(data)` only): kept so that a reverted repair is
recognisable by name (see `Props.C07.float_inf_unreadable_before_fix`). -/
def floatFromXmlOld (P : Params) (s : Str) : Except Err (FloatV P.F) :=
  match P.fParse s with | some f => .ok f | none => .error .valueError

def fromXml (P : Params) (d : Desc) (s : Str) : Except Err (PyVal P) :=
  match d.kind with
  | .string => .ok (.str s)
  | .html =>
    if P.xhtml then
      match P.repair s with | some r => .ok (.str r) | none => .error .valueError
    else .ok (.str s)
  | .bool => .ok (.bool (decide (s = boolStr true)))
  | .int => match pyIntParse s with | some i => .ok (.int i) | none => .error .valueError
  | .float => match floatFromXml P s with | .ok f => .ok (.float f) | .error e => .error e
  | .datetime =>
    match P.fromIso (reGet s) with
    | some (.inl n) => .ok (.naive n)
    | some (.inr t) => .ok (.aware t)
    | none => .error .valueError
  | .enum e _ =>
    match e.byValue s with | some n => .ok (.member e.name n s) | none => .error .valueError
  | .selector => .ok (.selector s)
  | .other _ => .error .unsupported

/-! ## `BasePOD.__get__` / `__set__` / `__delete__` -/

def get (P : Params) (d : Desc) (a : Attrs) : Except Err (PyVal P) :=
  match a.get d.attr with
  | none => .ok (defaultVal P d)
  | some data => fromXml P d data

def isNone {P : Params} : PyVal P → Bool
  | .none => true
  | _ => false

/-- `__set__`: (1) the write-once check, (2) `_to_xml` unless `None`/default, (3) pop or store
(lxml raises ValueError on XML-illegal text and leaves the element unchanged). -/
def set (P : Params) (d : Desc) (a : Attrs) (v : PyVal P) : Except Err Attrs :=
  if !d.writable && a.has d.attr then .error .typeError
  else if !isNone v && neDefault P d v then
    match toXml P d v with
    | .error e => .error e
    | .ok data => if xmlOk data then .ok (a.set d.attr data) else .error .valueError
  else .ok (a.pop d.attr)

def del (P : Params) (d : Desc) (a : Attrs) : Except Err Attrs := set P d a .none

/-! ## `_Specification` (children `bodies` / `languages` of an `ownedSpecification`) -/

structure Kid where
  tag : Str
  text : Option Str
deriving DecidableEq, Repr

abbrev Spec := List Kid

def tBodies : Str := ['b','o','d','i','e','s']
def tLanguages : Str := ['l','a','n','g','u','a','g','e','s']
def kLinked : Str := "capella:linkedText".toList
def kAlias : Str := "LinkedText".toList

/-- `self._aliases.get(k, k)` -/
def specAlias (k : Str) : Str := if k = kAlias then kLinked else k

def langs (s : Spec) : List Kid := s.filter (fun c => c.tag = tLanguages)
def bodies (s : Spec) : List Kid := s.filter (fun c => c.tag = tBodies)

/-- `_index_of`: position among the `languages` children of the first one whose text is `k` -/
def indexOf (s : Spec) (k : Str) : Option Nat := (langs s).findIdx? (fun c => c.text = some k)

/-- `_body_at` -/
def bodyAt (s : Spec) (i : Nat) : Option Kid := (bodies s)[i]?

/-- replace the text of the `i`-th child with tag `t` -/
def setNth (t : Str) (v : Str) : Spec → Nat → Spec
  | [], _ => []
  | c :: r, i =>
    if c.tag = t then
      match i with
      | 0 => { c with text := some v } :: r
      | i + 1 => c :: setNth t v r i
    else c :: setNth t v r i

/-- remove the `i`-th child with tag `t` -/
def delNth (t : Str) : Spec → Nat → Spec
  | [], _ => []
  | c :: r, i =>
    if c.tag = t then
      match i with
      | 0 => r
      | i + 1 => c :: delNth t r i
    else c :: delNth t r i

/-- `__iter__` -/
def specKeys (s : Spec) : List Str := (langs s).map (fun c => c.text.getD [])

def specGet (P : Params) (s : Spec) (k : Str) : Except Err Str :=
  let k := specAlias k
  match indexOf s k with
  | none => .error .keyError
  | some i =>
    match bodyAt s i with
    | none => .error .keyError
    | some b =>
      let v := b.text.getD []
      .ok (if k = kLinked then P.unescLinked v else v)

/-- `__setitem__`. (As coded, a *new* key whose value lxml refuses leaves two empty children
behind before the ValueError propagates; the model reports only the error.) -/
def specSet (P : Params) (s : Spec) (k v : Str) : Except Err Spec :=
  let k := specAlias k
  let v' : Option Str := if k = kLinked then P.escLinked v else some v
  match v' with
  | none => .error .valueError
  | some v =>
    match indexOf s k with
    | none =>
      if xmlOk v && xmlOk k then .ok (s ++ [⟨tBodies, some v⟩, ⟨tLanguages, some k⟩])
      else .error .valueError
    | some i =>
      match bodyAt s i with
      | none => .error .keyError
      | some _ => if xmlOk v then .ok (setNth tBodies v s i) else .error .valueError

def specDel (s : Spec) (k : Str) : Except Err Spec :=
  let k := specAlias k
  match indexOf s k with
  | none => .error .keyError
  | some i =>
    match bodyAt s i with
    | none => .error .keyError
    | some _ => .ok (delNth tBodies (delNth tLanguages s i) i)

end Capella.Pods

/-! ## Specification-level definitions used by the theorems (`Props/C07.lean`) -/

namespace Capella.Pods

/-- where `re_get` undoes `re_set`: either `re_set` matches, or `re_get` does not -/
def IsoShape (s : Str) : Prop := reSet s ≠ s ∨ reGet s = s

/-- What the theorems assume about CPython and libxml2 (sampled on the implementation). -/
structure Params.Lawful (P : Params) : Prop where
  /-- `float(str(x)) == x` for finite `x` -/
  float_rt : ∀ x, P.fParse (P.fRepr x) = some (.fin x)
  /-- `str(x)` is never `"*"` and is XML-legal -/
  float_ne_star : ∀ x, P.fRepr x ≠ star
  float_xml : ∀ x, xmlOk (P.fRepr x) = true
  zero_isZero : P.fIsZero P.fZero = true
  /-- `float(i) == 0.0` iff `i == 0` -/
  ofInt_zero : ∀ i x, P.fOfInt i = some x → P.fIsZero x = decide (i = 0)
  /-- `fromisoformat(isoformat(t, ms))` is `t` cut to milliseconds (for the values `isoOk` admits) -/
  iso_rt : ∀ t, P.isoOk t = true → P.fromIso (P.iso t) = some (.inr (P.truncMs t))
  trunc_ok : ∀ t, P.isoOk t = true → P.isoOk (P.truncMs t) = true
  iso_shape : ∀ t, IsoShape (P.iso t)
  iso_xml : ∀ t, xmlOk (P.iso t) = true
  trunc_idem : ∀ t, P.truncMs (P.truncMs t) = P.truncMs t
  /-- HTML repair keeps the empty string. (Idempotence is *not* a law: libxml2 re-escapes the
  raw-text content of `<script>`/`<style>` on every pass; see `htmlStable`.) -/
  repair_nil : P.repair [] = some []

/-- an HTML value is usable iff `repair_html` accepts it and lxml accepts the result -/
def htmlValid (P : Params) (s : Str) : Bool :=
  match P.repair s with | some r => xmlOk r | none => false

/-- `repair_html` is a fixpoint after one pass on this fragment -/
def htmlStable (P : Params) (s : Str) : Bool :=
  match P.repair s with | some r => decide (P.repair r = some r) | none => false

/-- the inputs on which reading back is a fixpoint: everything, except HTML fragments on which
`repair_html` is not idempotent -/
def stableAt (P : Params) (d : Desc) (v : PyVal P) : Bool :=
  match d.kind, v with
  | .html, .str s => htmlStable P s
  | _, _ => true

/-- the value domain of a descriptor (`None` = delete is always allowed). With
`CAPELLAMBSE_XHTML=1` the getter repairs again, so an HTML value must then be repair-stable. -/
def valid (P : Params) (d : Desc) (v : PyVal P) : Bool :=
  match d.kind, v with
  | _, .none => true
  | .string, .str s => xmlOk s
  | .html, .str s => htmlValid P s && (!P.xhtml || htmlStable P s)
  | .bool, .bool _ => true
  | .int, .int _ => true
  | .int, .bool _ => true
  | .float, .float (.inf) => true
  | .float, .float (.fin _) => true
  | .float, .int i => (P.fOfInt i).isSome
  | .float, .bool b => (P.fOfInt (if b then 1 else 0)).isSome
  | .datetime, .aware t => P.isoOk t
  | .datetime, .naive n => match P.localize n with | some t => P.isoOk t | none => false
  | .enum e _, .member c n x => decide (c = e.name) && decide (e.byName n = some x)
  | .enum e _, .str s => (e.byName s).isSome
  | .selector, .selector r => xmlOk r
  | .selector, .str s => xmlOk s
  | _, _ => false

/-- the value a valid input stands for: what reading back must return -/
def denote (P : Params) (d : Desc) (v : PyVal P) : PyVal P :=
  match d.kind, v with
  | _, .none => defaultVal P d
  | .html, .str s => .str ((P.repair s).getD [])
  | .int, .bool b => .int (if b then 1 else 0)
  | .float, .int i => match P.fOfInt i with | some x => .float (.fin x) | none => v
  | .float, .bool b => match P.fOfInt (if b then 1 else 0) with | some x => .float (.fin x) | none => v
  | .datetime, .aware t => .aware (P.truncMs t)
  | .datetime, .naive n => match P.localize n with | some t => .aware (P.truncMs t) | none => v
  | .enum e _, .str s => .member e.name s ((e.byName s).getD [])
  | .selector, .str s => .selector s
  | _, _ => v

/-- Python `==` on read-back values as far as it differs from identity: `0.0 == -0.0`. -/
def Same (P : Params) (a b : PyVal P) : Prop :=
  a = b ∨ ∃ x y, a = .float (.fin x) ∧ b = .float (.fin y) ∧ P.fIsZero x = true ∧ P.fIsZero y = true

/-- what the theorems need of a descriptor (implied by `Row.wf`) -/
def Desc.wf (d : Desc) : Bool :=
  match d.kind with
  | .enum e n => e.wf && (e.byName n).isSome
  | .other _ => false
  | _ => true

end Capella.Pods

namespace Capella.Pods

/-- every `languages` child has a `bodies` partner (what Capella writes) -/
def Balanced (s : Spec) : Prop := (langs s).length = (bodies s).length

/-- what reading key `k` returns after `v` was assigned to it: `v`, or for linked text the
rendering of the escaped form -/
def specView (P : Params) (k v : Str) : Str :=
  if specAlias k = kLinked then P.unescLinked ((P.escLinked v).getD []) else v

end Capella.Pods
