/-
Model of the ReqIF exporter `capellambse/extensions/reqif/exporter.py` (C20).

Input: a requirements module as the object layer presents it to the exporter — `requirements` and
`folders` lists, requirements with an optional type and a list of value attributes, attributes with an
optional definition, definitions with an optional data type, enumeration data types with values.
Objects reached through references (`req.type`, `attr.definition`, `adef.data_type`) are inlined as
records; Python's object identity is "same uuid" (see `Consistent` in `Lemmas/Reqif.lean`).

Output: the abstract document — every `IDENTIFIER`, every `*-REF` text, the spec objects with their
values, the hierarchy — in document order. Identifiers are kept structured (`Ident`) and rendered to
the strings the code builds by `Ident.render`.

Parameters (not modelled, exercised through the correspondence run only):
* `xhtml : Str → Option Str` — `lxml.html.fromstring` + `html_to_xhtml` (None = `ParserError`);
* the rendering of `datetime` (strftime in UTC) and of finite `float`s (`str`), supplied as strings;
* XML serialisation / zip container bytes (`ser` in `write`).
-/
namespace Capella.Reqif

abbrev Str := List Char

/-- `str.upper()` on the ASCII range (uuids are ASCII). -/
def up (s : Str) : Str := s.map Char.toUpper

/-- first occurrence of every key, in order (Python `dict`/`set` insertion, `visited` sets) -/
def dedupBy {α β : Type} [DecidableEq β] (key : α → β) : List α → List α
  | [] => []
  | a :: l => a :: (dedupBy key l).filter (fun b => key b ≠ key a)

def dedup {α : Type} [DecidableEq α] (l : List α) : List α := dedupBy id l

def nonEmpty (s : Str) : Option Str := if s = [] then none else some s

/-! ## value kinds -/

inductive Kind
  | boolean | date | integer | real | string | enumeration | xhtml
deriving DecidableEq, Repr

/-- the `<T>` in `ATTRIBUTE-VALUE-<T>`, `DATATYPE-DEFINITION-<T>`, … -/
def Kind.name : Kind → Str
  | .boolean => "BOOLEAN".toList
  | .date => "DATE".toList
  | .integer => "INTEGER".toList
  | .real => "REAL".toList
  | .string => "STRING".toList
  | .enumeration => "ENUMERATION".toList
  | .xhtml => "XHTML".toList

/-! ## the module as the exporter sees it -/

structure EnumValue where
  uuid : Str
  longName : Str
  description : Str
deriving DecidableEq

/-- `DataTypeDefinition` (`isEnum = false`; it has no `values` attribute, `values = []` here) /
`EnumerationDataTypeDefinition` -/
structure DataType where
  uuid : Str
  longName : Str
  values : List EnumValue
  isEnum : Bool := true
deriving DecidableEq

/-- `AttributeDefinition` (`isEnum = false`) / `AttributeDefinitionEnumeration` -/
structure AttrDef where
  uuid : Str
  longName : Str
  description : Str
  isEnum : Bool
  multiValued : Bool
  dataType : Option DataType
deriving DecidableEq

inductive RealV
  | posInf | negInf
  | fin (repr : Str)          -- `str(value)`, a parameter
deriving DecidableEq

/-- the six `*ValueAttribute` classes with what the exporter reads from them -/
inductive Value
  | bool (b : Bool)
  | date (v : Option Str)     -- `None` or the UTC timestamp text (strftime is a parameter)
  | int (n : Int)
  | real (v : RealV)
  | string (s : Str)
  | enum (vs : List Str)      -- uuids of `attribute.values`
deriving DecidableEq

/-- `_attrtype2reqif`: class name minus `ValueAttribute`, upper-cased -/
def Value.kind : Value → Kind
  | .bool _ => .boolean | .date _ => .date | .int _ => .integer
  | .real _ => .real | .string _ => .string | .enum _ => .enumeration

structure Attr where
  defn : Option AttrDef
  value : Value
deriving DecidableEq

structure ReqType where
  uuid : Str
  longName : Str
  description : Str
deriving DecidableEq

structure Req where
  uuid : Str
  longName : Str
  identifier : Str
  chapterName : Str
  name : Str
  text : Str
  type : Option ReqType
  attrs : List Attr
deriving DecidableEq

/-- a `Folder`: only its `requirements` and `folders` are read by the exporter -/
inductive Folder
  | mk (reqs : List Req) (folders : List Folder)

structure ModType where
  uuid : Str
  longName : Str

/-- `_AttributeDefinition(attr.definition, _attrtype2reqif(attr))` -/
abbrev ADKey := Option AttrDef × Kind

/-! ### stable sort (`sorted(children, key=…)`), also used to describe a set's iteration order -/

def insertBy {α : Type} (le : α → α → Bool) (a : α) : List α → List α
  | [] => [a]
  | b :: l => if le a b then a :: b :: l else b :: insertBy le a l

def sortBy {α : Type} (le : α → α → Bool) : List α → List α
  | [] => []
  | a :: l => insertBy le a (sortBy le l)

theorem insertBy_perm {α : Type} (le : α → α → Bool) (a : α) : ∀ l : List α, (insertBy le a l).Perm (a :: l)
  | [] => .refl _
  | b :: l => by
    unfold insertBy
    split
    · exact .refl _
    · exact ((insertBy_perm le a l).cons b).trans (.swap a b l)

theorem sortBy_perm {α : Type} (le : α → α → Bool) : ∀ l : List α, (sortBy le l).Perm l
  | [] => .refl _
  | a :: l => (insertBy_perm le a _).trans ((sortBy_perm le l).cons a)

/-- The module together with the iteration order of the `set[_AttributeDefinition]` objects of this run:
`setOrder k l` is the order in which the set collected for requirement type key `k` yields the
definitions first seen in the order `l`. Python fixes it by string hashes (`PYTHONHASHSEED`); here it is
any rearrangement. -/
structure Module where
  modelUuid : Str
  uuid : Str
  longName : Str
  description : Str
  type : Option ModType
  reqs : List Req
  folders : List Folder
  setOrder : Option Str → List ADKey → List ADKey := fun _ l => l
  setOrder_perm : ∀ k l, (setOrder k l).Perm l := by intros; exact .refl _

/-! ## the module's depth-first order (the specification the traversals are compared with) -/

mutual
/-- requirements of a folder first, then its sub-folders in order, recursively -/
def Folder.dfs : Folder → List Req
  | .mk reqs fs => reqs ++ dfsL fs
def dfsL : List Folder → List Req
  | [] => []
  | f :: fs => f.dfs ++ dfsL fs
end

def Module.dfs (m : Module) : List Req := m.reqs ++ dfsL m.folders

/-! ## identifiers -/

inductive Ident
  | obj (u : Str)                                   -- `_<UUID>`
  | hier (u : Str)                                  -- `_<UUID>--HIER`
  | datatype (dt : Option Str) (k : Kind)           -- `_<DT|NULL-DATATYPE>--<T>`
  | attrDef (rt : Option Str) (ad : Option Str) (k : Kind)
        -- `_<AD|NULL-ATTRIBUTE-DEFINITION>.<RT|NULL-SPEC-OBJECT-TYPE>--<T>`
  | stdDatatype (n : Str)                           -- `_STD-DATATYPE-ReqIF.<name>`
  | stdAttr (rt : Option Str) (n : Str)             -- `_STD-ATTRIBUTE-<RT|NULL-SPEC-OBJECT-TYPE>-ReqIF.<name>`
  | stdSpecAttr (mt : Option Str) (n : Str)         -- `_STD-SPECIFICATION-ATTRIBUTE-<MT|NULL-SPECIFICATION-TYPE>-ReqIF.<name>`
  | nullSpecObjectType                              -- `_NULL-SPEC-OBJECT-TYPE`
  | nullSpecificationType                           -- `_NULL-SPECIFICATION-TYPE`
deriving DecidableEq

def nullSOT : Str := "NULL-SPEC-OBJECT-TYPE".toList
def nullST : Str := "NULL-SPECIFICATION-TYPE".toList
def nullDT : Str := "NULL-DATATYPE".toList
def nullAD : Str := "NULL-ATTRIBUTE-DEFINITION".toList

/-- the identifier text after the leading underscore -/
def Ident.body : Ident → Str
  | .obj u => u
  | .hier u => u ++ "--HIER".toList
  | .datatype dt k => dt.getD nullDT ++ '-' :: '-' :: k.name
  | .attrDef rt ad k => ad.getD nullAD ++ '.' :: rt.getD nullSOT ++ '-' :: '-' :: k.name
  | .stdDatatype n => "STD-DATATYPE-ReqIF.".toList ++ n
  | .stdAttr rt n => "STD-ATTRIBUTE-".toList ++ rt.getD nullSOT ++ "-ReqIF.".toList ++ n
  | .stdSpecAttr mt n => "STD-SPECIFICATION-ATTRIBUTE-".toList ++ mt.getD nullST ++ "-ReqIF.".toList ++ n
  | .nullSpecObjectType => nullSOT
  | .nullSpecificationType => nullST

def Ident.render (i : Ident) : Str := '_' :: i.body

/-- `"_" + reqtype.upper()` or `"_NULL-SPEC-OBJECT-TYPE"` -/
def sotIdent : Option Str → Ident
  | some u => .obj u
  | none => .nullSpecObjectType

def stIdent : Option Str → Ident
  | some u => .obj u
  | none => .nullSpecificationType

/-! ## standard attribute tables (`STD_SPEC_OBJECT_ATTRIBUTES`, `STD_SPECIFICATION_ATTRIBUTES`) -/

inductive Field | identifier | chapterName | name | text
deriving DecidableEq, Repr

def Field.get (r : Req) : Field → Str
  | .identifier => r.identifier | .chapterName => r.chapterName | .name => r.name | .text => r.text

/-- is the value a `markupsafe.Markup` (an `HTMLStringPOD`)? Plain strings are escaped before they are
parsed as HTML. -/
def Field.isHtml : Field → Bool
  | .text => true
  | _ => false

/-- `markupsafe.escape` on a plain `str` -/
def escape (s : Str) : Str :=
  s.flatMap fun c =>
    if c = '&' then "&amp;".toList else if c = '<' then "&lt;".toList else if c = '>' then "&gt;".toList
    else if c = '\'' then "&#39;".toList else if c = '"' then "&#34;".toList else [c]

def stdSpecObjectAttrs : List (Str × Kind × Field) :=
  [("ForeignID".toList, .string, .identifier),
   ("ChapterName".toList, .xhtml, .chapterName),
   ("Name".toList, .xhtml, .name),
   ("Text".toList, .xhtml, .text)]

/-- `(name, type)`; the only entry reads `module.long_name` -/
def stdSpecificationAttrs : List (Str × Kind) := [("Description".toList, .xhtml)]

/-! ## the abstract document

Every element stores the *key* its `IDENTIFIER` (and the `*-REF` texts pointing to other elements) is
built from; `…ident`/`…Ref` give the identifiers. Upper-casing has already been applied to the keys. -/

structure EnumValueEl where
  uuid : Str                            -- `_<uuid>`
  longName : Option Str
  desc : Option Str
deriving DecidableEq

inductive DtKey
  | std (n : Str)                       -- `_STD-DATATYPE-ReqIF.<n>`
  | custom (dt : Option Str) (k : Kind) -- `_<dt|NULL-DATATYPE>--<k>`
deriving DecidableEq

def DtKey.ident : DtKey → Ident
  | .std n => .stdDatatype n
  | .custom dt k => .datatype dt k

structure DatatypeEl where
  key : DtKey
  kind : Kind
  longName : Option Str
  values : Option (List EnumValueEl)     -- `SPECIFIED-VALUES` present?
deriving DecidableEq

/-- `ATTRIBUTE-DEFINITION-<kind>` of a definition collected from the module -/
structure AttrDefEl where
  ad : Option Str                        -- definition uuid / `NULL-ATTRIBUTE-DEFINITION`
  kind : Kind
  longName : Option Str
  desc : Option Str
  multiValued : Option Bool
  dt : Option Str                        -- `TYPE`: `DATATYPE-DEFINITION-<kind>-REF` = `_<dt|NULL-DATATYPE>--<kind>`
deriving DecidableEq

/-- `SPEC-OBJECT-TYPE`; the standard attribute definitions are `(name, type)` -/
structure SpecTypeEl where
  rt : Option Str                        -- requirement type uuid / `NULL-SPEC-OBJECT-TYPE`
  longName : Option Str
  desc : Option Str
  std : List (Str × Kind)
  custom : List AttrDefEl

/-- `SPECIFICATION-TYPE` -/
structure SpecificationTypeEl where
  mt : Option Str
  longName : Option Str
  desc : Option Str
  std : List (Str × Kind)

/-- `ATTRIBUTE-VALUE-<kind>` of a standard attribute -/
structure StdValueEl where
  name : Str
  kind : Kind
  theValue : Option Str                  -- `THE-VALUE` attribute resp. converted XHTML child
deriving DecidableEq

/-- `ATTRIBUTE-VALUE-<kind>` of a value attribute -/
structure AttrValueEl where
  ad : Option Str
  kind : Kind
  theValue : Option Str
  enumRefs : List Str                    -- `ENUM-VALUE-REF`s: `_<uuid>`
deriving DecidableEq

structure SpecObjectEl where
  uuid : Str
  longName : Option Str
  rt : Option Str                        -- `SPEC-OBJECT-TYPE-REF`, and the owner of every `DEFINITION` ref
  std : List StdValueEl
  attrs : List AttrValueEl
deriving DecidableEq

/-- `SPEC-HIERARCHY`: `IDENTIFIER = _<uuid>--HIER`, `SPEC-OBJECT-REF = _<uuid>` -/
structure HierEl where
  uuid : Str
deriving DecidableEq

structure SpecificationEl where
  uuid : Str
  longName : Option Str
  desc : Option Str
  mt : Option Str
  values : List StdValueEl
  children : List HierEl

structure Doc where
  headerUuid : Str
  datatypes : List DatatypeEl
  specTypes : List SpecTypeEl
  specificationType : SpecificationTypeEl
  specObjects : List SpecObjectEl
  specification : SpecificationEl

/-! ## `_collect_objects` -/

mutual
/-- `collect_folder`: its own traversal (requirements, then folders) -/
def Folder.collect : Folder → List Req
  | .mk reqs fs => reqs ++ collectL fs
def collectL : List Folder → List Req
  | [] => []
  | f :: fs => f.collect ++ collectL fs
end

/-- the requirements `collect_requirement` does not skip (`if i.uuid in requirements: return`) -/
def collected (m : Module) : List Req := dedupBy (·.uuid) (m.reqs ++ collectL m.folders)

/-- key of `req_types`: `i.type and i.type.uuid` -/
def typeKey (r : Req) : Option Str := r.type.map (·.uuid)

/-- the keys of `req_types` in insertion order, each with the record `model.by_uuid` returns -/
def reqTypes (m : Module) : List (Option ReqType) :=
  dedupBy (fun t => t.map (·.uuid)) ((collected m).map (·.type))

/-- `_AttributeDefinition(attr.definition, _attrtype2reqif(attr))` -/
def adKey (a : Attr) : ADKey := (a.defn, a.value.kind)

/-- `req_types[key]`: the set of definitions used by requirements of that type, in first-seen order -/
def adefsSeen (m : Module) (k : Option Str) : List ADKey :=
  dedup (((collected m).filter (fun r => typeKey r = k)).flatMap (fun r => r.attrs.map adKey))

/-- … as the set yields them when it is iterated (`for attr_def in attr_defs`, `chain.from_iterable`) -/
def adefsOf (m : Module) (k : Option Str) : List ADKey := m.setOrder k (adefsSeen m k)

/-! ## `_synthesize_standard_datatypes`, `_build_datatypes` -/

def stdDatatypes : List DatatypeEl :=
  (dedupBy (·.1) (stdSpecObjectAttrs.map (fun x => (x.1, x.2.1)) ++ stdSpecificationAttrs)).map
    (fun x => { key := .std x.1, kind := x.2, longName := some ("ReqIF.".toList ++ x.1), values := none })

def dtOf (d : Option AttrDef) : Option DataType := d.bind (·.dataType)

/-- `attrdef.data_type.uuid.upper()` or `NULL-DATATYPE` -/
def dtUuid (d : Option AttrDef) : Option Str := (dtOf d).map (fun t => up t.uuid)

def enumValueEl (v : EnumValue) : EnumValueEl :=
  { uuid := up v.uuid, longName := nonEmpty v.longName, desc := nonEmpty v.description }

def datatypeEl (x : ADKey) : DatatypeEl :=
  { key := .custom (dtUuid x.1) x.2
    kind := x.2
    longName := (dtOf x.1).bind (fun t => nonEmpty t.longName)
    values := match x.1 with
      | some d => if d.isEnum && x.2 == .enumeration then some ((((dtOf x.1).map (·.values)).getD []).map enumValueEl) else none
      | none => none }

/-- the test before the repair: `SPECIFIED-VALUES` for every `AttributeDefinitionEnumeration`, also when the
attribute (and hence the datatype element) is of another kind -/
def datatypeElOld (x : ADKey) : DatatypeEl :=
  { datatypeEl x with
    values := match x.1 with
      | some d => if d.isEnum then some ((((dtOf x.1).map (·.values)).getD []).map enumValueEl) else none
      | none => none }

/-- `chain.from_iterable(reqtypes.values())` -/
def allAdefs (m : Module) : List ADKey := (reqTypes m).flatMap (fun t => adefsOf m (t.map (·.uuid)))

/-- `visited_types`: the first definition that yields an identifier emits the datatype -/
def customDatatypes (m : Module) : List DatatypeEl :=
  dedupBy (·.key) ((allAdefs m).map datatypeEl)

/-- the definitions that get past `if id in visited_types: continue` -/
def dtWinners (m : Module) : List ADKey := dedupBy (fun x => (datatypeEl x).key) (allAdefs m)

/-- code point order on strings (Python's `sorted` key order) -/
def strLe : Str → Str → Bool
  | [], _ => true
  | _ :: _, [] => false
  | a :: as, b :: bs => if a.val < b.val then true else if b.val < a.val then false else strLe as bs

def datatypes (m : Module) : List DatatypeEl :=
  sortBy (fun a b => strLe a.key.ident.render b.key.ident.render) (stdDatatypes ++ customDatatypes m)

/-! ## `_build_spec_object_types`, `_build_specification_type` -/

def attrDefEl (x : ADKey) : AttrDefEl :=
  { ad := x.1.map (fun d => up d.uuid)
    kind := x.2
    longName := x.1.bind (fun d => nonEmpty d.longName)
    desc := x.1.bind (fun d => nonEmpty d.description)
    multiValued := if x.2 = .enumeration then x.1.map (·.multiValued) else none
    dt := dtUuid x.1 }

/-- the `reqtype` text of the loop: upper-cased uuid, `none` for `NULL-SPEC-OBJECT-TYPE` -/
def rtOf (t : Option ReqType) : Option Str := t.map (fun t => up t.uuid)

def specObjectType (m : Module) (t : Option ReqType) : SpecTypeEl :=
  { rt := rtOf t
    longName := match t with | some t => nonEmpty t.longName | none => some "Null spec object type".toList
    desc := match t with
      | some t => nonEmpty t.description
      | none => some "No requirement type was selected in Capella.".toList
    std := stdSpecObjectAttrs.map (fun x => (x.1, x.2.1))
    custom := (adefsOf m (t.map (·.uuid))).map attrDefEl }

def specTypes (m : Module) : List SpecTypeEl :=
  sortBy (fun a b => strLe (sotIdent a.rt).render (sotIdent b.rt).render)
    ((reqTypes m).map (specObjectType m))

def mtOf (m : Module) : Option Str := m.type.map (fun t => up t.uuid)

def specificationType (m : Module) : SpecificationTypeEl :=
  { mt := mtOf m
    longName := match m.type with | some t => some t.longName | none => some "Null specification type".toList
    desc := match m.type with | some _ => none | none => some "No module type was selected in Capella.".toList
    std := stdSpecificationAttrs }

/-! ## `_build_spec_objects` -/

def emptyDiv : Str := "<div></div>".toList

/-- the HTML source handed to `lxml.html.fromstring` for a standard XHTML field -/
def htmlSource (f : Field) (v : Str) : Str :=
  if v = [] then emptyDiv else if f.isHtml then v else escape v

/-- `html.fromstring(html_val)`, falling back to the empty value on `ParserError` -/
def toXhtml (xhtml : Str → Option Str) (src : Str) : Option Str :=
  match xhtml src with
  | some x => some x
  | none => xhtml emptyDiv

/-- `_build_standard_attribute_values` -/
def stdValues (xhtml : Str → Option Str) (r : Req) : List StdValueEl :=
  stdSpecObjectAttrs.map fun x =>
    let v := x.2.2.get r
    { name := x.1
      kind := x.2.1
      theValue := if x.2.1 = .string then some v else toXhtml xhtml (htmlSource x.2.2 v) }

/-- `THE-VALUE` of `_build_attribute_value_simple` -/
def Value.render : Value → Option Str
  | .bool b => some (if b then "true".toList else "false".toList)
  | .date none => some "1990-01-01T00:00:00Z".toList
  | .date (some s) => some s
  | .int n => some n.repr.toList
  | .real .posInf => some "Infinity".toList
  | .real .negInf => some "-Infinity".toList
  | .real (.fin s) => some s
  | .string s => some s
  | .enum _ => none

def Value.enumRefs : Value → List Str
  | .enum vs => vs.map up
  | _ => []

/-- `_build_attribute_value_simple` / `_build_attribute_value_enum` with `_ref_attribute_definition` -/
def attrValue (a : Attr) : AttrValueEl :=
  { ad := a.defn.map (fun d => up d.uuid)
    kind := a.value.kind
    theValue := a.value.render
    enumRefs := a.value.enumRefs }

/-- `_build_spec_object` -/
def specObject (xhtml : Str → Option Str) (r : Req) : SpecObjectEl :=
  { uuid := up r.uuid
    longName := nonEmpty r.longName
    rt := rtOf r.type
    std := stdValues xhtml r
    attrs := r.attrs.map attrValue }

mutual
/-- `_build_spec_objects(parent)`: `parent.requirements`, then every folder recursively -/
def Folder.specObjects (x : Str → Option Str) : Folder → List SpecObjectEl
  | .mk reqs fs => reqs.map (specObject x) ++ specObjectsL x fs
def specObjectsL (x : Str → Option Str) : List Folder → List SpecObjectEl
  | [] => []
  | f :: fs => f.specObjects x ++ specObjectsL x fs
end

/-! ## `_build_specifications` -/

/-- `create_hierarchy_object` -/
def hierEl (r : Req) : HierEl := { uuid := up r.uuid }

mutual
/-- `create_hierarchy_folder` -/
def Folder.hierarchy : Folder → List HierEl
  | .mk reqs fs => reqs.map hierEl ++ hierarchyL fs
def hierarchyL : List Folder → List HierEl
  | [] => []
  | f :: fs => f.hierarchy ++ hierarchyL fs
end

/-- `f"<div>{…}</div>"` -/
def wrapDiv (s : Str) : Str := "<div>".toList ++ s ++ "</div>".toList

def specification (xhtml : Str → Option Str) (m : Module) : SpecificationEl :=
  { uuid := up m.uuid
    longName := nonEmpty m.longName
    desc := nonEmpty m.description
    mt := mtOf m
    values := stdSpecificationAttrs.map fun x =>
      { name := x.1, kind := x.2,
        theValue := xhtml (wrapDiv (escape m.longName)) }
    children := m.reqs.map hierEl ++ hierarchyL m.folders }

/-! ## `_build_content` / `export_module` -/

/-- the document that is written when no exception is raised -/
def doc (xhtml : Str → Option Str) (m : Module) : Doc :=
  { headerUuid := up m.modelUuid
    datatypes := datatypes m
    specTypes := specTypes m
    specificationType := specificationType m
    specObjects := m.reqs.map (specObject xhtml) ++ specObjectsL xhtml m.folders
    specification := specification xhtml m }

inductive Err
  | assertion        -- `assert attr_def.modelobj is not None` (enumeration attribute without definition)
  | parser           -- `lxml.etree.ParserError` (only if even `<div></div>` does not parse)
  | attribute        -- `AttributeError`: `.values` of a plain data type, `.multi_valued` of a plain definition
deriving DecidableEq, Repr

/-- `_build_datatypes`: `attrdef.data_type.values` for an `AttributeDefinitionEnumeration` whose data
type is a plain `DataTypeDefinition` (which has no `values`) -/
def dtAttrErr (x : ADKey) : Bool :=
  match x.1 with
  | some d => d.isEnum && x.2 == .enumeration && (match d.dataType with | some t => !t.isEnum | none => false)
  | none => false

/-- `_build_spec_object_types`, `if attr_def.type == "ENUMERATION"`: the assertion for a missing
definition, `modelobj.multi_valued` for a plain `AttributeDefinition` -/
def specTypeErr (x : ADKey) : Option Err :=
  if x.2 = .enumeration then
    match x.1 with
    | none => some .assertion
    | some d => if d.isEnum then none else some .attribute
  else none

/-- does the module hold an enumeration attribute without definition (among the collected requirements)? -/
def hasEnumWithoutDef (m : Module) : Bool :=
  (allAdefs m).any (fun x => x.1.isNone && x.2 == .enumeration)

/-- does the module hold a link the metamodel's classes forbid *and* the exporter trips over: an
enumeration definition whose data type is a plain `DataTypeDefinition` (reached by `_build_datatypes`), or
an enumeration attribute whose definition is a plain `AttributeDefinition`? -/
def hasClassViolation (m : Module) : Bool :=
  (dtWinners m).any dtAttrErr || (allAdefs m).any (fun x => specTypeErr x == some .attribute)

/-- the exceptions the exporter raises, in the order the code reaches them -/
def errors (xhtml : Str → Option Str) (m : Module) : List Err :=
  (if (dtWinners m).any dtAttrErr then [Err.attribute] else [])
  ++ (allAdefs m).filterMap specTypeErr
  ++ (if (m.dfs.any fun r => (stdValues xhtml r).any (fun v => v.theValue.isNone)) then [Err.parser] else [])
  ++ (if ((specification xhtml m).values.any (fun v => v.theValue.isNone)) then [Err.parser] else [])

def «export» (xhtml : Str → Option Str) (m : Module) : Except Err Doc :=
  match errors xhtml m with
  | e :: _ => .error e
  | [] => .ok (doc xhtml m)

/-! ## defined identifiers and references, in document order -/

def DatatypeEl.ids (d : DatatypeEl) : List Ident :=
  d.key.ident :: (d.values.getD []).map (fun v => .obj v.uuid)

def AttrDefEl.ident (rt : Option Str) (a : AttrDefEl) : Ident := .attrDef rt a.ad a.kind
def AttrDefEl.dtRef (a : AttrDefEl) : Ident := .datatype a.dt a.kind

def SpecTypeEl.ids (t : SpecTypeEl) : List Ident :=
  sotIdent t.rt :: (t.std.map (fun x => .stdAttr t.rt x.1) ++ t.custom.map (·.ident t.rt))
def SpecTypeEl.refs (t : SpecTypeEl) : List Ident :=
  t.std.map (fun x => .stdDatatype x.1) ++ t.custom.map (·.dtRef)

def SpecificationTypeEl.ids (t : SpecificationTypeEl) : List Ident :=
  stIdent t.mt :: t.std.map (fun x => .stdSpecAttr t.mt x.1)
def SpecificationTypeEl.refs (t : SpecificationTypeEl) : List Ident :=
  t.std.map (fun x => .stdDatatype x.1)

/-- `DEFINITION` ref followed by the `ENUM-VALUE-REF`s -/
def AttrValueEl.refs (rt : Option Str) (v : AttrValueEl) : List Ident :=
  .attrDef rt v.ad v.kind :: v.enumRefs.map .obj

/-- the `*-REF`s of a `SPEC-OBJECT`: value definitions, enumeration values, and its type -/
def SpecObjectEl.refs (o : SpecObjectEl) : List Ident :=
  o.std.map (fun v => .stdAttr o.rt v.name) ++ o.attrs.flatMap (·.refs o.rt) ++ [sotIdent o.rt]

/-- every `IDENTIFIER` of the document, in document order -/
def Doc.defs (d : Doc) : List Ident :=
  .obj d.headerUuid :: (d.datatypes.flatMap (·.ids) ++ d.specTypes.flatMap (·.ids) ++ d.specificationType.ids
    ++ d.specObjects.map (fun o => .obj o.uuid)
    ++ .obj d.specification.uuid :: d.specification.children.map (fun h => .hier h.uuid))

/-- the text of every `*-REF` element of the document, in document order -/
def Doc.refs (d : Doc) : List Ident :=
  d.specTypes.flatMap (·.refs) ++ d.specificationType.refs
    ++ d.specObjects.flatMap (·.refs)
    ++ stIdent d.specification.mt :: (d.specification.values.map (fun v => .stdSpecAttr d.specification.mt v.name)
    ++ d.specification.children.map (fun h => .obj h.uuid))

/-! ## well-formedness of the input (what "the same object" and "well typed" mean for inlined records) -/

/-- every attribute definition reachable from the module's requirements -/
def allDefs (m : Module) : List AttrDef := m.dfs.flatMap (fun r => r.attrs.filterMap (·.defn))

/-- every data type reachable from those definitions -/
def allDataTypes (m : Module) : List DataType := (allDefs m).filterMap (·.dataType)

/-- The metamodel's typing of enumeration attributes: a definition given to an enumeration attribute is
an `AttributeDefinitionEnumeration`, and the chosen values belong to its data type. -/
def Typed (m : Module) : Prop :=
  ∀ r ∈ m.dfs, ∀ a ∈ r.attrs, ∀ vs d, a.value = .enum vs → a.defn = some d →
    d.isEnum = true ∧ ∀ v ∈ vs, ∃ dt, d.dataType = some dt ∧ v ∈ dt.values.map (·.uuid)

/-- the (upper-cased) uuids of the `ENUM-VALUE` elements of the document -/
def emittedEnumValues (m : Module) : List Str :=
  (customDatatypes m).flatMap (fun d => (d.values.getD []).map (·.uuid))

/-- every enumeration choice of every attribute is a value of a data type the exporter emits with its
values (what `Typed` is needed for, and nothing more) -/
def EnumRefsCovered (m : Module) : Prop :=
  ∀ r ∈ m.dfs, ∀ a ∈ r.attrs, ∀ u ∈ a.value.enumRefs, u ∈ emittedEnumValues m

/-- the (upper-cased) uuids of the elements identified as `_<UUID>`, in document order before sorting:
the model, the enumeration values of the emitted data types, the requirement types in use, the module
type, the requirements, the module -/
def objUuids (m : Module) : List Str :=
  up m.modelUuid ::
    ((customDatatypes m).flatMap (fun d => (d.values.getD []).map (·.uuid))
      ++ (reqTypes m).filterMap rtOf
      ++ (mtOf m).toList
      ++ m.dfs.map (fun r => up r.uuid)
      ++ [up m.uuid])

/-- Object identity: distinct elements have distinct (case-insensitive) uuids, and records inlined at
several places with one uuid are one object. -/
structure Identity (m : Module) : Prop where
  objs : (objUuids m).Nodup
  defs : ∀ d₁ ∈ allDefs m, ∀ d₂ ∈ allDefs m, up d₁.uuid = up d₂.uuid → d₁ = d₂
  dts : ∀ t₁ ∈ allDataTypes m, ∀ t₂ ∈ allDataTypes m, up t₁.uuid = up t₂.uuid → t₁ = t₂

/-! ## vocabulary of the property statements -/

/-- `f.Contains r`: `r` is one of the folder's requirements or contained in one of its sub-folders -/
inductive Folder.Contains : Folder → Req → Prop
  | direct {reqs : List Req} {fs : List Folder} {r : Req} : r ∈ reqs → Folder.Contains (.mk reqs fs) r
  | nested {reqs : List Req} {fs : List Folder} {f : Folder} {r : Req} :
      f ∈ fs → Folder.Contains f r → Folder.Contains (.mk reqs fs) r

def Module.Contains (m : Module) (r : Req) : Prop :=
  r ∈ m.reqs ∨ ∃ f ∈ m.folders, f.Contains r

/-- reading an `ATTRIBUTE-VALUE-<kind>` back (what a ReqIF consumer sees) -/
def Value.decode (k : Kind) (tv : Option Str) (refs : List Str) : Option Value :=
  match k, tv with
  | .boolean, some s => if s = "true".toList then some (.bool true) else if s = "false".toList then some (.bool false) else none
  | .integer, some s => (String.ofList s).toInt?.map .int
  | .string, some s => some (.string s)
  | .date, some s => some (.date (some s))
  | .real, some s => if s = "Infinity".toList then some (.real .posInf)
      else if s = "-Infinity".toList then some (.real .negInf) else some (.real (.fin s))
  | .enumeration, none => some (.enum refs)
  | _, _ => none

/-- values whose export is not a placeholder: a date is present; `str(float)` is not an infinity literal -/
def Value.Proper : Value → Prop
  | .date none => False
  | .real (.fin s) => s ≠ "Infinity".toList ∧ s ≠ "-Infinity".toList
  | _ => True

/-- the value with the (case-insensitive) enumeration uuids upper-cased, as identifiers are -/
def Value.upper : Value → Value
  | .enum vs => .enum (vs.map up)
  | v => v

def hexDash (c : Char) : Bool := c.isDigit || ('A' ≤ c && c ≤ 'F') || c == '-'

/-- upper-cased uuid text: hexadecimal digits and dashes -/
def UuidLike (s : Str) : Prop := ∀ c ∈ s, hexDash c = true

def OptUuidLike (o : Option Str) : Prop := ∀ s, o = some s → UuidLike s

def Ident.Shaped : Ident → Prop
  | .obj u => UuidLike u
  | .hier u => UuidLike u
  | .datatype dt _ => OptUuidLike dt
  | .attrDef rt ad _ => OptUuidLike rt ∧ OptUuidLike ad
  | .stdAttr rt _ => OptUuidLike rt
  | .stdSpecAttr mt _ => OptUuidLike mt
  | _ => True

/-- every uuid the exporter reads is (after upper-casing) hexadecimal digits and dashes -/
structure UuidShaped (m : Module) : Prop where
  model : UuidLike (up m.modelUuid)
  module : UuidLike (up m.uuid)
  moduleType : ∀ t, m.type = some t → UuidLike (up t.uuid)
  req : ∀ r ∈ m.dfs, UuidLike (up r.uuid)
  reqType : ∀ r ∈ m.dfs, ∀ t, r.type = some t → UuidLike (up t.uuid)
  defn : ∀ d ∈ allDefs m, UuidLike (up d.uuid)
  dataType : ∀ t ∈ allDataTypes m, UuidLike (up t.uuid) ∧ ∀ v ∈ t.values, UuidLike (up v.uuid)

/-! ## `export_module`: where the bytes go -/

inductive Target
  | path (p : Str)      -- `str | os.PathLike`
  | stream              -- a binary file object

def endsWith (s suffix : Str) : Bool := suffix.reverse.isPrefixOf s.reverse

/-- an explicit `compress` wins; otherwise compress iff a path ending in `.reqifz` was given -/
def compressDecision (t : Target) (c : Option Bool) : Bool :=
  match c with
  | some b => b
  | none => match t with
    | .path p => endsWith p ".reqifz".toList
    | .stream => false

/-- the decision as coded before the repair: the `else` branch overwrites an explicit value -/
def compressDecisionOld (t : Target) (c : Option Bool) : Bool :=
  match c, t with
  | none, .path p => endsWith p ".reqifz".toList
  | _, _ => false

inductive Output (β : Type)
  | plain (bytes : β)
  | zip (members : List (Str × β))       -- closed archive with its members

/-- `etree.ElementTree(data).write(file, …)` into the target or into the single archive member -/
def write {β : Type} (ser : Doc → β) (d : Doc) (t : Target) (c : Option Bool) : Output β :=
  if compressDecision t c then .zip [("export.reqif".toList, ser d)] else .plain (ser d)

/-- the document a reader gets back: the plain bytes, or the only `*.reqif` member of the archive -/
def Output.document {β : Type} : Output β → Option β
  | .plain b => some b
  | .zip [(_, b)] => some b
  | .zip _ => none

/-! ## reference schemes before the repairs (kept so that a reverted repair is recognisable) -/

/-- `_ref_attribute_definition` as it was: `NULLTYPE--<T>` (no underscore, other word) for a missing
definition, and no scoping by requirement type -/
def refAttrDefOldBody (k : Kind) (d : Option AttrDef) : Str :=
  match d with
  | some d => '_' :: up d.uuid ++ '-' :: '-' :: k.name
  | none => "NULLTYPE--".toList ++ k.name

/-- the identifier `_build_spec_object_types` gave the definition before the repair -/
def attrDefOldBody (k : Kind) (d : Option AttrDef) : Str :=
  '_' :: (d.map (fun d => up d.uuid)).getD nullAD ++ '-' :: '-' :: k.name

end Capella.Reqif
