/-
The edge chain of `capellambse/aird/_edge_factories.py: generic_factory` for edges whose source or target is
another *edge* (`Model/GeomEdge.lean` has two boxes).

What changes for an end that is a `diagram.Edge`:

* `snaptarget` is not called for it (`if isinstance(targetport, diagram.Box)`), so that end of the point list
  stays as decoded / routed (`snapEndE`);
* `sourceport.bounds` is `Edge.bounds` (`edgeBounds`): `refpos` of `_extract_relative_bendpoints`, `route_tree`;
* the default routes use `Edge.center` (`route_oblique`, `route_manhattan`) and
  `Edge.vector_snap(edge.center, …)` (`route_manhattan`; `Edge.vector_snap` ignores `source` and `style`).

`Edge.center` walks half of `Edge.length` along the polyline; segment lengths are `sqrt`s, so it is modelled only
for polylines whose segments are all axis-parallel (`length = |dx| + |dy|` exactly, `segLenAxis`); everything else
answers `Err.degenerate` (= outside the model).  `segment.normalized * k` is `segment * (k / segment.length)`.
`normalized` is only evaluated in the branch `distance + segment.length > half_length`, where (as
`distance ≤ half_length` holds throughout the loop) `segment.length > 0`: no `ZeroDivisionError`.

Core Lean only.
-/
import Capella.Model.GeomEdge

namespace Capella.Geom

/-! ### `Edge.length`, `Edge.center` -/

/-- `(b - a).length` when the segment is axis-parallel -/
def segLenAxis (a b : V2) : Option Rat :=
  if a.x = b.x then some (rabs (b.y - a.y)) else if a.y = b.y then some (rabs (b.x - a.x)) else none

/-- `Edge.length` for an axis-parallel polyline -/
def polyLenAxis : List V2 → Option Rat
  | a :: b :: rest =>
    match segLenAxis a b, polyLenAxis (b :: rest) with
    | some l, some r => some (l + r)
    | _, _ => none
  | _ => some 0

/-- the loop of `Edge.center`: `prev = self[i-1]`, which is also the running answer `point` (the code keeps the two
equal), `distance` the length walked so far.
`if distance + segment.length > half_length: point += segment.normalized * (half_length - distance); break`
else `distance += segment.length; point = self[i]`. -/
def edgeCenterLoop (half distance : Rat) (prev : V2) : List V2 → Option V2
  | [] => some prev
  | nxt :: rest =>
    match segLenAxis prev nxt with
    | none => none
    | some l =>
      if half < distance + l then some (prev + (nxt - prev).smul ((half - distance) / l))
      else edgeCenterLoop half (distance + l) nxt rest

/-- `Edge.center` (axis-parallel polylines only; `none` = outside the model) -/
def edgeCenter : List V2 → Option V2
  | [] => none
  | p0 :: rest =>
    match polyLenAxis (p0 :: rest) with
    | none => none
    | some len => edgeCenterLoop (len / 2) 0 p0 rest

/-! ### what an edge can be attached to -/

/-- what an edge can be attached to: a box with its floating labels, or another edge — its points and its visible
labels -/
inductive End where
  | box (b : Box) (labels : List Box)
  | edge (pts : List V2) (labels : List Box)

namespace End

/-- `Edge.__init__` raises `ValueError("At least two points are required")`: an edge with fewer points cannot be
the end of another edge -/
def valid : End → Bool
  | .box _ _ => true
  | .edge pts _ => decide (2 ≤ pts.length)

/-- `port.bounds`: `Box.bounds` resp. `Edge.bounds` (an `Edge` has at least two points; the value for `[]` is
arbitrary and never used: `edgePointsE` checks `valid` first) -/
def bounds : End → Rect
  | .box b labels => boxBounds b labels
  | .edge [] _ => Rect.ofPoint ⟨0, 0⟩
  | .edge (p0 :: rest) labels => edgeBounds labels p0 rest

/-- `port.center`: `Box.center` resp. `Edge.center` -/
def center : End → Except Err V2
  | .box b _ => .ok b.center
  | .edge pts _ =>
    match edgeCenter pts with
    | some c => .ok c
    | none => .error .degenerate

/-- `port.vector_snap(point, source=source, style=MANHATTAN)`; `Edge.vector_snap` ignores `source` and `style` -/
def snapManhattanAt : End → V2 → V2 → Except Err V2
  | .box b _, point, source => vectorSnap b point source .manhattan
  | .edge pts _, point, _ => edgeSnap pts point

/-- `port.vector_snap(port.center, source=other_center, style=MANHATTAN)` -/
def manhattanPoint (e : End) (other : V2) : Except Err V2 :=
  match e.center with
  | .error err => .error err
  | .ok c => e.snapManhattanAt c other

def translate : End → V2 → End
  | .box b labels, v => .box (b.translate v) (labels.map (·.translate v))
  | .edge pts labels, v => .edge (pts.map (· + v)) (labels.map (·.translate v))

end End

/-! ### default routes -/

/-- `route_oblique`: `[source.center, target.center]` -/
def routeObliqueE (s t : End) : Except Err (List V2) :=
  match s.center, t.center with
  | .ok sc, .ok tc => .ok [sc, tc]
  | .error e, _ => .error e
  | _, .error e => .error e

/-- `route_manhattan`.  Order of evaluation in the code: `source.center`, `target.center` (the arguments of the
first call), `source.vector_snap`, then (`target.center`, `source.center` again, which are pure) `target.vector_snap`;
the error outcomes come in this order.  For two boxes this is `routeManhattan`. -/
def routeManhattanE (s t : End) : Except Err (List V2) :=
  match s.center with
  | .error e => .error e
  | .ok sc =>
    match t.center with
    | .error e => .error e
    | .ok tc =>
      match s.manhattanPoint tc, t.manhattanPoint sc with
      | .ok sp, .ok tp =>
        if rabs (sp.y - tp.y) < rabs (sp.x - tp.x) then
          let p1 : V2 := ⟨(sp.x + tp.x) / 2, sp.y⟩
          .ok [sp, p1, ⟨p1.x, tp.y⟩, tp]
        else
          let p1 : V2 := ⟨sp.x, (sp.y + tp.y) / 2⟩
          .ok [sp, p1, ⟨tp.x, p1.y⟩, tp]
      | .error e, _ => .error e
      | _, .error e => .error e

/-! ### `generic_factory` -/

/-- what `generic_factory` reads for an edge: the two ends, the source anchor, the stored source-relative bend
points, the routing style -/
structure EdgeInE where
  src : End
  tgt : End
  anchor : V2
  rel : List V2
  style : Style

/-- the points `diagram.Edge` is constructed with.  An end that is an edge with fewer than two points does not exist
in the code (`Edge.__init__` raises): `Err.emptyEdge`. -/
def edgePointsE (i : EdgeInE) : Except Err (List V2) :=
  if ¬ (i.src.valid ∧ i.tgt.valid) then .error .emptyEdge
  else
    let bend := extractRelBendpoints i.src.bounds i.anchor i.rel
    if bend ≠ [] then .ok bend
    else
      match i.style with
      | .manhattan => routeManhattanE i.src i.tgt
      | .tree => .ok (routeTree i.src.bounds i.tgt.bounds)
      | .oblique => routeObliqueE i.src i.tgt

/-- `snaptarget` is only called for a `Box` end -/
def snapEndE (dec : V2 → V2 → Bool) (st : Style) : End → List V2 → Except Err (List V2)
  | .box b _, pts => snapEnd dec st b pts
  | .edge _ _, pts => .ok pts

/-- the points of the edge `generic_factory` returns: target end first (on the reversed list), then the source end -/
def edgeRouteE (dec : V2 → V2 → Bool) (i : EdgeInE) : Except Err (List V2) :=
  match edgePointsE i with
  | .error err => .error err
  | .ok pts =>
    match snapEndE dec i.style i.tgt pts.reverse with
    | .error err => .error err
    | .ok r => snapEndE dec i.style i.src r.reverse

def EdgeInE.translate (i : EdgeInE) (v : V2) : EdgeInE :=
  { i with src := i.src.translate v, tgt := i.tgt.translate v }

/-- an edge between two boxes as an `EdgeInE` -/
def EdgeIn.toE (i : EdgeIn) : EdgeInE :=
  ⟨.box i.src i.srcLabels, .box i.tgt i.tgtLabels, i.anchor, i.rel, i.style⟩

end Capella.Geom
