/-!
# Model of the git write transaction (C16)

Mirrors `capellambse/filehandler/git.py` as coded (after the two repairs `fix: roll back the git work
tree …` and `fix: commit on top of the work tree's HEAD …`):

* `_GitTransaction.__init__` (`target`: `remote_branch or revision`, the object-name refusal, the
  `refs/heads/` prefix), `__enter__` (`enter`: `rev-parse HEAD`, "already open" check),
  `__exit__` / `__finish` / `__rollback` (`finish`, `rollback`), `__commit`, `__write_tree`,
  `__get_old_tree_hash`, `__update_target_ref`;
* `_WritableGitFile` (`Op.write`: the file in the work tree is written, `close()` stages it with
  `git add`; `Op.writeAbort`: an exception inside the `with` block still closes and stages);
* `GitFileHandler.open` without a transaction (`openWrite`).

The repository is modelled at the level the handler uses it: commits (parent, tree), refs, and the
handler's private detached work tree (HEAD, index, files).  Every git command the transaction issues
consumes one tick; `fault : Option Nat` names the command that fails (before having any effect).
Core Lean only.
-/
namespace Capella.Git

abbrev Bytes := List Nat
abbrev Str := List Char

/-- a tree (also the index): path → blob, first match wins -/
abbrev Tree (P : Type) := List (P × Bytes)

structure Commit (P : Type) where
  parent : Option Nat
  tree : Tree P
  info : Nat := 0      -- message and author, opaque

inductive Err
  | abort          -- the exception the caller's code raised inside the transaction
  | gitfail        -- `subprocess.CalledProcessError` from a git command
  | objectlike     -- `ValueError("Target ref looks like a git object …")`
  | alreadyOpen    -- `RuntimeError("Another transaction is already open")`
  | nodir          -- `FileNotFoundError`: the directory of a new file does not exist in the work tree
  | needsTxn       -- `TransactionClosedError("Writing to git requires a transaction")`
  deriving DecidableEq, Repr

/-- the git commands a transaction issues (for the trace compared with the implementation) -/
inductive Cmd (P : Type)
  | revParseHead | revParseSym | revParseRev | add (p : P) | writeTree | catFile | commitTree
  | resetSoft | updateRef (target : Str) | resetHard | clean
  | revParseTarget (target : Str)   -- `rev-parse --verify --quiet <target>` (only when pushing)
  | push (target : Str)             -- `push -- origin <target>`
  deriving DecidableEq, Repr

/-- repository + handler -/
structure St (P : Type) where
  commits : List (Commit P)        -- a commit's id is its position
  refs : List (Str × Nat)
  head : Nat                       -- the handler's work tree: detached HEAD …
  index : Tree P                   -- … its index …
  files : P → Option Bytes         -- … and its files
  txnOpen : Bool                   -- `handler._transaction is not None`
  calls : Nat                      -- git commands issued so far in this transaction
  trace : List (Cmd P)             -- newest first

structure Opts where
  dry : Bool := false
  ignoreEmpty : Bool := true
  remoteBranch : Option Str := none
  info : Nat := 0

/-- what the caller does inside the transaction (paths are already subdir-qualified and normalised) -/
inductive Op (P : Type)
  | write (p : P) (b : Bytes)        -- `with h.open(p, "wb") as f: f.write(b)`
  | writeAbort (p : P) (b : Bytes)   -- the same, but the caller's code raises inside the `with`
  | writeIgnored (p : P) (b : Bytes) -- a new file matching `.gitignore`: written, but `git add` refuses it
  | openOnly (p : P) (b : Bytes)     -- opened and written, never closed
  | writeNoDir (p : P)               -- the directory of `p` does not exist
  | raise                            -- the caller's code raises
  | nested                           -- `with h.write_transaction(): …`

section
variable {P : Type} [DecidableEq P]

def Tree.get (t : Tree P) (p : P) : Option Bytes := (t.find? (fun e => e.1 = p)).map (·.2)

def Tree.set (t : Tree P) (p : P) (b : Bytes) : Tree P := (p, b) :: t.filter (fun e => e.1 ≠ p)

/-- same content (git compares tree hashes) -/
def Tree.same (a b : Tree P) : Bool :=
  (a.map (·.1) ++ b.map (·.1)).all (fun p => a.get p == b.get p)

def treeOf (s : St P) (c : Nat) : Tree P :=
  match s.commits[c]? with
  | some k => k.tree
  | none => []

def setRef (refs : List (Str × Nat)) (n : Str) (c : Nat) : List (Str × Nat) :=
  (n, c) :: refs.filter (fun e => e.1 ≠ n)

/-! ### the object-name refusal: `re.compile("(^|/)([0-9a-fA-F]{4,}|(.+_)?HEAD)$").search(name)` -/

def isHex (c : Char) : Bool :=
  ('0' ≤ c && c ≤ '9') || ('a' ≤ c && c ≤ 'f') || ('A' ≤ c && c ≤ 'F')

/-- the part after the last `/` -/
def lastComp (s : Str) : Str := (s.reverse.takeWhile (· ≠ '/')).reverse

def headStr : Str := ['H', 'E', 'A', 'D']
def uHeadStr : Str := ['_', 'H', 'E', 'A', 'D']

/-- does `s` end with `suf`? -/
def endsWith (s suf : Str) : Bool := suf.reverse.isPrefixOf s.reverse

def objectLike (s : Str) : Bool :=
  (4 ≤ (lastComp s).length && (lastComp s).all isHex)     -- a boundary followed by ≥ 4 hex digits up to the end
  || lastComp s = headStr                                   -- a boundary followed by `HEAD`
  || (endsWith s uHeadStr && 6 ≤ s.length)                  -- `^`, a non-empty `.+`, then `_HEAD`

def refsHeads : Str := "refs/heads/".toList

def qualify (t : Str) : Str := if refsHeads.isPrefixOf t then t else refsHeads ++ t

/-! ### git commands -/

/-- one git command: counts, records, tells whether it is the one that fails -/
def call (fault : Option Nat) (name : Cmd P) (s : St P) : St P × Bool :=
  ({ s with calls := s.calls + 1, trace := name :: s.trace }, fault = some s.calls)

/-- `git reset --hard c` in the work tree: HEAD, index and every tracked file follow `c`;
untracked files stay -/
def resetHard (c : Nat) (s : St P) : St P :=
  { s with head := c, index := treeOf s c,
           files := fun p => if (s.index.get p).isSome || ((treeOf s c).get p).isSome
                             then (treeOf s c).get p else s.files p }

/-- `git clean -f -d -x`: whatever is not in the index goes -/
def cleanAll (s : St P) : St P :=
  { s with files := fun p => if (s.index.get p).isSome then s.files p else none }

/-- `git add p` -/
def addPath (p : P) (s : St P) : St P :=
  match s.files p with
  | some b => { s with index := s.index.set p b }
  | none => s

abbrev Res (P : Type) := St P × Option Err

variable (fault : Option Nat)

/-- `_GitTransaction.__rollback`: `reset --hard <old>`, then `clean -f -d -x`; an error of either
replaces whatever was in flight (`e`) -/
def rollback (old : Nat) (e : Option Err) (s : St P) : Res P :=
  match call fault .resetHard s with
  | (s1, true) => (s1, some .gitfail)
  | (s1, false) =>
    match call fault .clean (resetHard old s1) with
    | (s2, true) => (s2, some .gitfail)
    | (s2, false) => (cleanAll s2, e)

/-- closing a written file: `git add` -/
def stage (p : P) (s : St P) : St P × Bool :=
  match call fault (.add p) s with
  | (s1, true) => (s1, true)
  | (s1, false) => (addPath p s1, false)

def runOp (revObjectLike : Bool) : Op P → St P → Res P
  | .write p b, s =>
    match stage fault p { s with files := fun q => if q = p then some b else s.files q } with
    | (s1, true) => (s1, some .gitfail)
    | (s1, false) => (s1, none)
  | .writeAbort p b, s =>
    match stage fault p { s with files := fun q => if q = p then some b else s.files q } with
    | (s1, true) => (s1, some .gitfail)
    | (s1, false) => (s1, some .abort)
  | .writeIgnored p b, s =>
    -- closing the file runs `git add`, which exits non-zero for an ignored path (whether or not the
    -- injected failure hits it): `CalledProcessError`, also replacing an exception raised inside the `with`
    ((call fault (.add p) { s with files := fun q => if q = p then some b else s.files q }).1, some .gitfail)
  | .openOnly p b, s => ({ s with files := fun q => if q = p then some b else s.files q }, none)
  | .writeNoDir _, s => (s, some .nodir)
  | .raise, s => (s, some .abort)
  | .nested, s =>
    -- the inner `_GitTransaction.__init__` / `__enter__`
    if revObjectLike then (s, some .objectlike) else
    match call fault .revParseHead s with
    | (s1, true) => (s1, some .gitfail)
    | (s1, false) => (s1, some .alreadyOpen)

def runBody (revObjectLike : Bool) : List (Op P) → St P → Res P
  | [], s => (s, none)
  | o :: os, s =>
    match runOp fault revObjectLike o s with
    | (s1, some e) => (s1, some e)
    | (s1, none) => runBody revObjectLike os s1

/-- `_GitTransaction.__finish`: returns the state, an error, and whether the target ref was moved -/
def finish (o : Opts) (target : Str) (old : Nat) (s : St P) : St P × Option Err × Bool :=
  match call fault .writeTree s with
  | (s1, true) => (s1, some .gitfail, false)
  | (s1, false) =>
    let tree := s1.index
    -- `if self.__ignore_empty and tree == self.__get_old_tree_hash()`
    match (if o.ignoreEmpty then
             (match call fault .catFile s1 with
              | (s2, true) => (s2, some Err.gitfail, false)
              | (s2, false) => (s2, none, tree.same (treeOf s2 old)))
           else (s1, none, false)) with
    | (s2, some e, _) => (s2, some e, false)
    | (s2, none, true) => (s2, none, false)          -- nothing changed: no commit
    | (s2, none, false) =>
      match call fault .commitTree s2 with
      | (s3, true) => (s3, some .gitfail, false)
      | (s3, false) =>
        let c := s3.commits.length
        let s4 := { s3 with commits := s3.commits ++ [{ parent := some old, tree := tree, info := o.info }] }
        if o.dry then (s4, none, false) else
        match call fault .resetSoft s4 with
        | (s5, true) => (s5, some .gitfail, false)
        | (s5, false) =>
          match call fault (.updateRef target) { s5 with head := c } with
          | (s6, true) => (s6, some .gitfail, false)
          | (s6, false) => ({ s6 with refs := setRef s6.refs target c }, none, true)

/-- `with handler.write_transaction(**opts): body` on a handler whose `revision` is `rev`
(`revObjectLike`: the revision is a commit hash) -/
def transaction (rev : Str) (o : Opts) (body : List (Op P)) (s : St P) : Res P :=
  let s := { s with calls := 0, trace := [] }
  let target0 := o.remoteBranch.getD rev
  -- `if targetref == "HEAD": targetref = self.__resolve_head() or targetref` (detached: stays "HEAD")
  let s := if target0 = headStr then (call fault .revParseSym s).1 else s
  if objectLike target0 then (s, some .objectlike) else
  let target := qualify target0
  -- `__enter__`
  match call fault .revParseHead s with
  | (s1, true) => (s1, some .gitfail)
  | (s1, false) =>
    if s1.txnOpen then (s1, some .alreadyOpen) else
    let old := s1.head
    match runBody fault (objectLike rev) body { s1 with txnOpen := true } with
    | (s2, some e) => rollback fault old (some e) { s2 with txnOpen := false }
    | (s2, none) =>
      match finish fault o target old s2 with
      | (s3, e, true) => ({ s3 with txnOpen := false }, e)
      | (s3, e, false) => rollback fault old e { s3 with txnOpen := false }

/-- `handler.open(p, "wb")`: refused outside a transaction -/
def openWrite (s : St P) : Res P :=
  if s.txnOpen then (s, none) else (s, some .needsTxn)

/-! ### the pinned code before the repairs (witnesses only) -/

/-- `__exit__` as it was: roll back (`reset --hard`, no clean) only when an exception arrives; a dry
run, an unchanged tree and a failing git command leave index and files as they are; `old` was
`rev-parse <revision>` -/
def transactionOld (rev : Str) (o : Opts) (body : List (Op P)) (s : St P) : Res P :=
  let s := { s with calls := 0, trace := [] }
  let target0 := o.remoteBranch.getD rev
  if objectLike target0 then (s, some .objectlike) else
  let target := qualify target0
  match call fault .revParseRev s with
  | (s1, true) => (s1, some .gitfail)
  | (s1, false) =>
    if s1.txnOpen then (s1, some .alreadyOpen) else
    let old := ((s1.refs.find? (fun e => e.1 = rev)).map (·.2)).getD s1.head
    match runBody fault (objectLike rev) body { s1 with txnOpen := true } with
    | (s2, some e) =>
      match call fault .resetHard { s2 with txnOpen := false } with
      | (s3, true) => (s3, some .gitfail)
      | (s3, false) => (resetHard old s3, some e)
    | (s2, none) =>
      match finish fault o target old s2 with
      | (s3, e, _) => ({ s3 with txnOpen := false }, e)

end
end Capella.Git
