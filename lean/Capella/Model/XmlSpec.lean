import Capella.Model.XmlParse
/-
Specification-level definitions for the round-trip theorems of C01/C02:

* `wfDoc` — the decidable predicate "Capella-shaped": what lxml can hold *and* Capella writes
  (no mixed content, no tails, no empty-string text, one prefix per namespace, nothing redeclared).
  Its complement is the boundary of the theorems; `Props/C01.lean` has a witness for each clause.
* `canonDoc` — the order the file imposes: `xmi:version, xmi:type, xmi:id, xsi:type` first, namespace
  declarations sorted by `_ns_sortkey`.  Capella's own files are canonical (`canonDoc d = d`).
* `rawOf`, `toksE` — the prefixed ("raw") tree and the token sequence a well-formed tree is written
  as; they factor the round trip into three independent inverses.
-/
namespace Capella.Xml

/-! ## Structural equality (for the driver; `Elem` is a nested inductive) -/

mutual
def Elem.beq : Elem → Elem → Bool
  | .mk t1 n1 a1 x1 l1 k1, .mk t2 n2 a2 x2 l2 k2 =>
    t1 == t2 && n1 == n2 && a1 == a2 && x1 == x2 && l1 == l2 && Elem.beqL k1 k2
def Elem.beqL : List Elem → List Elem → Bool
  | [], [] => true
  | a :: as, b :: bs => Elem.beq a b && Elem.beqL as bs
  | _, _ => false
end

def Doc.beq (a b : Doc) : Bool := a.pre == b.pre && Elem.beq a.root b.root && a.post == b.post

/-! ## Well-formedness -/

def nameStartOk : Str → Bool
  | c :: _ => c != '!' && c != '?'
  | [] => false

/-- an XML local name / prefix as far as the reader cares: non-empty, no delimiter, no colon, no
brace, not starting like a declaration -/
def nameOk (s : Str) : Bool :=
  nameStartOk s && s.all fun c => nameChar c && c != ':' && c != '{' && c != '}'

def xmlnsStr : Str := "xmlns".toList

/-- a namespace URI that survives being written without escaping -/
def uriOk (u : Str) : Bool :=
  u != [] && u.all fun c => c != '"' && c != '&' && c != '<' && c != '\t' && c != '\n' && c != '\r'

def keysOf (m : List (Str × Str)) : List Str := m.map (·.1)

def distinctStrs : List Str → Bool
  | [] => true
  | x :: xs => !xs.contains x && distinctStrs xs

/-- an element or attribute name in Clark notation whose namespace (if any) has a prefix in scope -/
def qnameOk (nsmap : List (Str × Str)) (isAttr : Bool) (name : Str) : Bool :=
  let p := splitName name
  nameOk p.2 &&
  (if p.1 = [] then name == p.2 && !(isAttr && name == xmlnsStr)
   else (revLookup nsmap p.1).isSome)

def nsdeclsOk (pns nsd : List (Str × Str)) : Bool :=
  nsd.all (fun d => nameOk d.1 && d.1 != xmlnsStr && uriOk d.2 && !(keysOf pns).contains d.1) &&
  distinctStrs (keysOf nsd) &&
  distinctStrs ((scope pns nsd).map (·.2))

def textOk (text : Option Str) (noKids : Bool) : Bool :=
  match text with
  | none => true
  | some t => noKids && t != [] && t.all xmlChar

mutual
/-- well-formed below a parent whose `nsmap` is `pns` -/
def wfElem (pns : List (Str × Str)) : Elem → Bool
  | .mk tag nsd attrs text tail kids =>
    let nsmap := scope pns nsd
    nsdeclsOk pns nsd &&
    qnameOk nsmap false tag &&
    attrs.all (fun kv => qnameOk nsmap true kv.1 && kv.2.all xmlChar) &&
    distinctStrs (keysOf attrs) &&
    textOk text kids.isEmpty &&
    tail.isNone &&
    wfKids nsmap kids
def wfKids (nsmap : List (Str × Str)) : List Elem → Bool
  | [] => true
  | k :: ks => wfElem nsmap k && wfKids nsmap ks
end

/-- no `--`, no trailing `-` -/
def noDoubleDash : Str → Bool
  | '-' :: '-' :: _ => false
  | ['-'] => false
  | _ :: rest => noDoubleDash rest
  | [] => true

def commentOk (c : Comment) : Bool :=
  c.tail.isNone && noDoubleDash c.text &&
  c.text.all fun ch => ch != '>' && ch != '\n' && ch != '\r'

/-- a Capella-shaped document -/
def wfDoc (d : Doc) : Bool :=
  wfElem [] d.root && d.pre.all commentOk && d.post.all commentOk

/-! ## Canonical order -/

def canonAttrs (attrs : List (Str × Str)) : List (Str × Str) :=
  (specialAttrs.filterMap fun a => (lookupAttr a attrs).map fun v => (a, v)) ++
  attrs.filter fun kv => !specialAttrs.contains kv.1

/-- the namespace declarations the writer emits on an element, in its order: everything in scope
that the parent does not declare, sorted by `_ns_sortkey`.  For a root (and for every element of a
Capella file, where only the root declares namespaces) this is `sortNs` of its own declarations. -/
def canonNs (parentKeys : List Str) (nsmap : List (Str × Str)) : List (Str × Str) :=
  (sortNs nsmap).filter fun p => !parentKeys.contains p.1

mutual
def canonElem (pns : List (Str × Str)) (isRoot : Bool) : Elem → Elem
  | .mk tag nsd attrs text tail kids =>
    .mk tag (canonNs (if isRoot then [] else pns.map (·.1)) (scope pns nsd)) (canonAttrs attrs) text tail
      (canonKids (scope pns nsd) kids)
def canonKids (nsmap : List (Str × Str)) : List Elem → List Elem
  | [] => []
  | k :: ks => canonElem nsmap false k :: canonKids nsmap ks
end

def canonDoc (d : Doc) : Doc := ⟨d.pre, canonElem [] true d.root, d.post⟩

/-! ## The raw (prefixed) tree and the token sequence of a well-formed tree -/

/-- `_unmapped_attrs` before escaping: what the reader gets back as attribute list -/
def rawAttrs (parentKeys : List Str) (nsmap : List (Str × Str))
    (attrs : List (Str × Str)) : List (Str × Str) :=
  (specialAttrs.filterMap fun a => (lookupAttr a attrs).map fun v => (unmap nsmap a, v))
  ++ (canonNs parentKeys nsmap).map (fun p => ("xmlns:".toList ++ p.1, p.2))
  ++ ((attrs.filter fun kv => !specialAttrs.contains kv.1).map fun kv => (unmap nsmap kv.1, kv.2))

mutual
/-- the tree the reader builds before namespaces are resolved -/
def rawOf (pns : List (Str × Str)) (isRoot : Bool) : Elem → Elem
  | .mk tag nsd attrs text tail kids =>
    let nsmap := scope pns nsd
    .mk (unmap nsmap tag) [] (rawAttrs (if isRoot then [] else keysOf pns) nsmap attrs)
      text tail (rawKids nsmap kids)
def rawKids (nsmap : List (Str × Str)) : List Elem → List Elem
  | [] => []
  | k :: ks => rawOf nsmap false k :: rawKids nsmap ks
end

mutual
/-- the tokens a well-formed element is written as (layout between the attributes of a tag is not
a token; the line breaks between elements are white-space text tokens) -/
def toksE (pns : List (Str × Str)) (isRoot : Bool) (indent : Nat) : Elem → List Tok
  | .mk tag nsd attrs text _ kids =>
    let nsmap := scope pns nsd
    let name := unmap nsmap tag
    let as := rawAttrs (if isRoot then [] else keysOf pns) nsmap attrs
    if text.isNone && kids.isEmpty && !alwaysExpanded tag then [.stag name as true]
    else
      .stag name as false ::
        ((match text with | some t => if textWritten text kids.isEmpty then [Tok.text t] else [] | none => [])
          ++ toksK nsmap (indent + 1) kids
          ++ (if kids.isEmpty then [] else [.text ('\n' :: ind indent)])
          ++ [.etag name])
def toksK (nsmap : List (Str × Str)) (indent : Nat) : List Elem → List Tok
  | [] => []
  | k :: ks => .text ('\n' :: ind indent) :: (toksE nsmap false indent k ++ toksK nsmap indent ks)
end

/-- tokens of a run of sibling comments; `pend` is white space already written but not yet
part of a token, the second component is the white space left pending at the end -/
def toksCs (pend : Str) : List Comment → List Tok × Str
  | [] => ([], pend)
  | c :: cs =>
    let r := toksCs ['\n'] cs
    (.text (pend ++ ['\n']) :: .comment c.text :: r.1, r.2)

def textTok (p : Str) : List Tok := if p = [] then [] else [.text p]

/-- tokens of `pend ++ serialize ll true [] true d` for a well-formed `d` and white space `pend`
(the line break that ends the XML declaration) -/
def toksDocP (pend : Str) (d : Doc) : List Tok :=
  let a := toksCs pend d.pre
  let b := toksCs [] d.post
  a.1 ++ textTok a.2 ++ toksE [] true 0 d.root ++ b.1 ++ [.text (b.2 ++ ['\n'])]

/-- tokens of `serialize ll true [] true d` for a well-formed `d` -/
def toksDoc (d : Doc) : List Tok := toksDocP [] d

/-- the raw document the reader builds -/
def rawDoc (d : Doc) : Doc := ⟨d.pre, rawOf [] true d.root, d.post⟩

end Capella.Xml
