import Capella.Model.Query
/-!
# C10 — queries over the *generated* class hierarchy and relation table

Core Lean only.  The tables themselves (`Capella/Gen/Hier*.lean`) are dumped from the live classes by
`harness/gen_hierarchy.py`; this file says what a row means and what must hold of it.

Mirrors `model/_descriptors.py`: `ReferenceSearchingAccessor.__candidate_types` (+ the class →
`build_xtype` step of `MelodyModel.search`), `_model._reference_attributes` (which accessors
`find_references` evaluates, in `dir()` order), the read paths of `AttrProxyAccessor` /
`PhysicalLinkEndsAccessor` / `LinkAccessor` with `aslist=None` (`no_list`), `TypecastAccessor`,
`IndexAccessor`, `Alias`.
-/
namespace Capella.QTable
open Capella.Query

/-! ## class hierarchy and back-reference candidates -/

/-- one entry of `XTYPE_HANDLERS[None]` (dict order) with the class's place in the hierarchy -/
structure Handler where
  xt : Nat             -- the registered `xsi:type` (number in the table of type names)
  cls : Nat            -- number of the wrapper class
  supers : List Nat    -- numbers of its proper superclasses (`cls.__mro__[1:]`)
  built : Option Nat   -- `build_xtype(cls)`; `none` = it raises `TypeError`
deriving DecidableEq, Repr

/-- one `ReferenceSearchingAccessor` instance -/
structure BackRef where
  id : Nat
  owner : String
  name : String
  targets : List Nat       -- `target_classes`
  builts : List (Option Nat)  -- `build_xtype` of each target class, in order (`none` = raises)
  attrs : List String      -- the attribute paths looked at on each candidate
  aslist : Bool
deriving DecidableEq, Repr

/-- `issubclass(h.cls, targets)` -/
def isInst (h : Handler) (targets : List Nat) : Bool :=
  targets.any (fun t => t == h.cls || h.supers.contains t)

/-- how `MelodyModel.search` turns a class argument into type strings: every type the class is
registered for; only a class registered for none falls back to `build_xtype` (`none` = `TypeError`) -/
def resolveClass (hs : List Handler) (t : Nat) (built : Option Nat) : List Nat :=
  let reg := (hs.filter (fun h => h.cls == t)).map (·.xt)
  if reg.isEmpty then built.toList else reg

/-- `__candidate_types()` as `search` sees it: the target classes (resolved as above), then the
registered types of their other subclasses; no target class = every type -/
def candidates (hs : List Handler) (b : BackRef) : List Nat :=
  if b.targets.isEmpty then []
  else (List.zipWith (resolveClass hs) b.targets b.builts).flatten ++
    (hs.filter (fun h => isInst h b.targets && !b.targets.contains h.cls)).map (·.xt)

/-- what must hold of a back-reference row for the accessor to see exactly the instances of its
target classes (the defect of 88f31c0 was a violation of the closure that `candidates_closed` derives
from this): one `build_xtype` result per target class; a target class that is registered for no type
at all must at least have a derivable type (`search` raises otherwise), and (B) whatever is registered
under that derived type is an instance of a target class -/
def backrefOk (hs : List Handler) (b : BackRef) : Bool :=
  b.builts.length == b.targets.length &&
  (List.zipWith (fun t bu => hs.any (fun h => h.cls == t) || bu.isSome) b.targets b.builts).all id &&
  b.builts.all (fun x => hs.all (fun h => some h.xt != x || isInst h b.targets))

/-- a type name is a full one (`search` would read anything else as a short name) -/
def typeNameOk (s : String) : Bool := s.toList.contains ':'

/-- a handler row points into the table of type names -/
def handlerOk (ntypes : Nat) (h : Handler) : Bool :=
  decide (h.xt < ntypes) && (match h.built with | some x => decide (x < ntypes) | none => true)

/-! ## the relation table -/

inductive RKind
  | attr (xmlattr : String)                 -- `AttrProxyAccessor`, `PhysicalLinkEndsAccessor`
  | child (tag xtype follow : String)       -- `LinkAccessor(tag, xtype, attr=follow)`
  | typecast (target : String)              -- `TypecastAccessor(cls, target)`
  | index (wrapped : String) (i : Nat)      -- `IndexAccessor(wrapped, i)`
  | alias (target : String)                 -- `Alias(target)`
  | acc (cls : String)                      -- any other accessor class, by name
deriving DecidableEq, Repr

/-- one (descriptor instance, attribute name) -/
structure RelRow where
  id : Nat
  owner : String
  name : String
  kind : RKind
  aslist : Bool
deriving DecidableEq, Repr

/-- the reference attributes of one registered type, in `dir()` order: (row, row of what a
wrapper resolves to on this class — itself for the others) -/
structure ClassRels where
  xt : String
  cls : Nat
  rels : List (Nat × Nat)
deriving DecidableEq, Repr

/-- accessors that read containment (children of the element): no stored link -/
def containmentKinds : List String := ["DirectProxyAccessor", "RoleTagAccessor", "AttributeMatcherAccessor"]

/-- accessors whose value is computed (search, extension bookkeeping, another view of the element) -/
def derivedKinds : List String :=
  ["SpecificationAccessor", "DiagramAccessor", "AlternateAccessor", "AttributeAccessor",
   "ElementRelationAccessor", "RequirementsRelationAccessor"]

/-- accessors that follow links kept in an attribute of a child element (inside the reach of the
XPath's `*/@*` branch); evaluated by the implementation-side monitor only -/
def childLinkKinds : List String := ["AssociatedCriteriaAccessor"]

def RKind.isWrapper : RKind → Bool
  | .typecast _ | .index _ _ | .alias _ => true
  | _ => false

def RKind.linkStoring : RKind → Bool
  | .attr _ | .child _ _ _ => true
  | _ => false

/-- a row is understood: link-storing rows keep their links in a named attribute other than
`href` (which the XPath of `find_references` skips); every other accessor class is a known one -/
def rowOk (r : RelRow) : Bool :=
  match r.kind with
  | .attr a => a != "" && a != "href"
  | .child _ xt f => f != "" && f != "href" && xt != ""
  | .acc c => containmentKinds.contains c || derivedKinds.contains c || childLinkKinds.contains c
  | _ => true

def rowAt (rows : List RelRow) (i : Nat) : Option RelRow := rows[i]?

/-- a class's entries are closed: every entry names an existing row; a wrapper resolves to another,
non-wrapper entry of the same class -/
def classOk (rows : List RelRow) (c : ClassRels) : Bool :=
  c.rels.all (fun p =>
    match rowAt rows p.1, rowAt rows p.2 with
    | some r, some t =>
      r.id == p.1 && t.id == p.2 &&
      (if r.kind.isWrapper then p.1 != p.2 && !t.kind.isWrapper && c.rels.any (fun q => q.1 == p.2 && q.2 == p.2)
       else p.1 == p.2)
    | _, _ => false)

/-! ## evaluation of table relations -/

/-- how the value of the underlying link list is handed out -/
inductive View
  | list                 -- an `ElementList`
  | single               -- `no_list`: `None`, the element, or `RuntimeError` for several
  | index (k : Nat)      -- `IndexAccessor`: element `k`, `RuntimeError` if there are fewer
deriving DecidableEq, Repr

structure TRel where
  base : Rel             -- carries the attribute's own name
  view : View
deriving DecidableEq, Repr

def toBase : RKind → Option RelKind
  | .attr a => some (.attr a.toList)
  | .child tag xt f => some (.child tag.toList xt.toList f.toList)
  | _ => none

/-- the evaluable form of one class entry; `none` = not link-storing -/
def toTRel (rows : List RelRow) (p : Nat × Nat) : Option TRel :=
  match rowAt rows p.1, rowAt rows p.2 with
  | some r, some t =>
    match toBase t.kind with
    | none => none
    | some k =>
      some { base := ⟨r.name.toList, k⟩,
             view := match r.kind with
               | .index _ i => .index i
               | _ => if t.aslist then .list else .single }
  | _, _ => none

def trelsOf (rows : List RelRow) (c : ClassRels) : List TRel := c.rels.filterMap (toTRel rows)

/-- the value of a table relation; `none` = the accessor raised -/
def viewTargets (nodes : List Node) (i : Nat) (t : TRel) : Option (List Nat) :=
  match relTargets nodes i t.base with
  | none => none
  | some ts =>
    match t.view with
    | .list => some ts
    | .single => if ts.length ≤ 1 then some ts else none
    | .index k => (ts[k]?).map (fun x => [x])

/-- what one element contributes to `find_references(y)`, given the values of its relations: a
list-valued relation reports the index, a single-valued one `None` -/
def refsAtTV (val : Nat → TRel → Option (List Nat)) (trels : Nat → List TRel) (y i : Nat) :
    List (Nat × Str × Option Nat) :=
  (trels i).filterMap (fun t =>
    match val i t with
    | none => none
    | some ts =>
      match t.view with
      | .list => (idxOf? ts y).map (fun k => (i, t.base.name, some k))
      | _ => if ts = [y] then some (i, t.base.name, none) else none)

def refsAtT (nodes : List Node) (trels : Nat → List TRel) (y i : Nat) : List (Nat × Str × Option Nat) :=
  refsAtTV (viewTargets nodes) trels y i

/-- `MelodyModel.find_references` over table relations (the driver passes a tabulated `viewTargets nodes`) -/
def findRefsTV (nodes : List Node) (val : Nat → TRel → Option (List Nat)) (trels : Nat → List TRel) (y : Nat) :
    List (Nat × Str × Option Nat) :=
  (prefilter nodes (uidAt nodes y)).flatMap (refsAtTV val trels y)

def findRefsT (nodes : List Node) (trels : Nat → List TRel) (y : Nat) : List (Nat × Str × Option Nat) :=
  findRefsTV nodes (viewTargets nodes) trels y

def bruteRefsTV (nodes : List Node) (val : Nat → TRel → Option (List Nat)) (trels : Nat → List TRel) (y : Nat) :
    List (Nat × Str × Option Nat) :=
  ((List.range nodes.length).filter (nonVisual nodes)).flatMap (refsAtTV val trels y)

def bruteRefsT (nodes : List Node) (trels : Nat → List TRel) (y : Nat) : List (Nat × Str × Option Nat) :=
  bruteRefsTV nodes (viewTargets nodes) trels y

def basesOf (trels : Nat → List TRel) : Nat → List Rel := fun i => (trels i).map (·.base)

/-- does candidate `c` hold `y` in one of the named table relations (`AttributeError` = no such
relation on its class = skipped; a raising accessor propagates: `none`) -/
def holdsT (nodes : List Node) (trels : Nat → List TRel) (attrs : List Str) (y c : Nat) : Option Bool :=
  attrs.foldl (fun acc a =>
    match acc with
    | none => none
    | some true => some true
    | some false =>
      match (trels c).find? (fun t => t.base.name == a) with
      | none => some false
      | some t =>
        match viewTargets nodes c t with
        | none => none
        | some ts => some (ts.contains y)) (some false)

/-- `ReferenceSearchingAccessor.__get__` over the tables: `none` = it raised -/
def backrefT (nodes : List Node) (idx : Index) (trels : Nat → List TRel) (tname : Nat → Str)
    (hs : List Handler) (b : BackRef) (y : Nat) : Option (List Nat) :=
  (search nodes idx ((candidates hs b).map tname) none).foldr (fun c acc =>
    match acc, holdsT nodes trels (b.attrs.map String.toList) y c with
    | some l, some true => some (c :: l)
    | some l, some false => some l
    | _, _ => none) (some [])

/-- what the accessor hands out: a list, or — `aslist=None`, through `no_list` — `None` / the one
referrer / `RuntimeError` for several -/
inductive BackVal
  | list (l : List Nat)
  | one (x : Option Nat)
deriving DecidableEq, Repr

def noList (aslist : Bool) (l : List Nat) : Option BackVal :=
  if aslist then some (.list l)
  else match l with
    | [] => some (.one none)
    | [x] => some (.one (some x))
    | _ => none

/-- `getattr(y, back_reference_name)`; `none` = it raised -/
def backrefGet (nodes : List Node) (idx : Index) (trels : Nat → List TRel) (tname : Nat → Str)
    (hs : List Handler) (b : BackRef) (y : Nat) : Option BackVal :=
  match backrefT nodes idx trels tname hs b y with
  | none => none
  | some l => noList b.aslist l

end Capella.QTable
