import Capella.Model.Query
/-!
# C10 — `ElementList` and its filter objects, as coded

Core Lean only.  Mirrors `capellambse/model/_obj.py`:

* `ElementList.__getattr__` / `MixedElementList.__getattr__` (how `by_X`, `exclude_Xs`, `by_type`,
  `exclude_types` are parsed into a filter object), `_ListFilter.__getattr__` (nesting `by_a.b`);
* `_ListFilter.extract_key` (`operator.attrgetter` on a dotted path, enum members by name),
  `_LowercaseListFilter.extract_key/make_values_container`, `ismatch`, `__call__` (with the `single`
  override), `__iter__`, `__contains__`;
* `ElementList.filter`, `ElementList.map` (the loop with its `newuuids` set, dotted paths),
  `__add`/`__sub` (both reflections, choice of the result class), `__contains__`,
  `__getitem__` (int / slice / str), `_map_find`, `_map_getvalue`, `_mapkey`, `get`, `keys()`, `items()`.

The object graph the attribute paths walk over is a parameter (`World`): what `getattr(obj, name)`
yields for each exported object.  Objects are numbered; a list is a list of object numbers.
-/
namespace Capella.QList
open Capella.Query

/-! ## the object world -/

/-- what `getattr(obj, name)` can yield (enum members already by name) -/
inductive PyVal
  | atom (a : Atom)          -- `str`, `int`, `bool`, `None`, `float`
  | obj (n : Nat)            -- one model element
  | objs (l : List Nat)      -- an `ElementList` (or another iterable of model elements)
  | atoms (l : List Atom)    -- an iterable of plain values
deriving DecidableEq, Repr

/-- the Python exceptions the list code lets through or raises itself -/
inductive Err
  | attributeError | keyError | valueError | typeError | indexError | assertionError
deriving DecidableEq, Repr

/-- `getattr(obj, name)`: `none` = `AttributeError` -/
abbrev World := Nat → Str → Option PyVal

/-- `operator.attrgetter("a.b.c")(obj)`: attribute by attribute; only a model element has further
attributes the exported world knows of -/
def getPath (w : World) : PyVal → List Str → Option PyVal
  | v, [] => some v
  | .obj n, a :: rest => match w n a with
    | some v => getPath w v rest
    | none => none
  | _, _ :: _ => none

def pathOf (w : World) (x : Nat) (path : List Str) : Option PyVal := getPath w (.obj x) path

/-- the key `ismatch` works with: a `str`/non-iterable is an atom (a model element by identity),
any other iterable is `many` -/
def toVal : PyVal → Val
  | .atom a => .atom a
  | .obj n => .atom (.o n)
  | .objs l => .many (l.map Atom.o)
  | .atoms l => .many l

/-- ASCII `str.lower()` (class names and the values compared with them are ASCII identifiers) -/
def lowerChar (c : Char) : Char := if 'A' ≤ c ∧ c ≤ 'Z' then Char.ofNat (c.toNat + 32) else c
def lower (s : Str) : Str := s.map lowerChar

/-- a filter object: `_ListFilter(parent, attr, positive=…, single=…)` or `_LowercaseListFilter` -/
structure Filter where
  path : List Str
  positive : Bool := true
  single : Bool := false
  lowercase : Bool := false
deriving DecidableEq, Repr

/-- split a dotted attribute string (`str.split(".")`) -/
def splitDots : Str → List Str
  | [] => [[]]
  | c :: r =>
    match splitDots r with
    | [] => [[c]]   -- unreachable: the result is never empty
    | h :: t => if c = '.' then [] :: h :: t else (c :: h) :: t

def dropSuffix1 (s : Str) : Str := s.dropLast

/-- `ElementList.__getattr__` (and `MixedElementList.__getattr__` when `mixed`): the filter a name
stands for; `none` = not a filter name (`AttributeError` from the base class lookup) -/
def parseName (mixed : Bool) (name : Str) : Option Filter :=
  if mixed && name = "by_type".toList then
    some { path := ["__class__".toList, "__name__".toList], lowercase := true }
  else if mixed && name = "exclude_types".toList then
    some { path := ["__class__".toList, "__name__".toList], positive := false, lowercase := true }
  else if "by_".toList.isPrefixOf name then
    let a := name.drop 3
    some { path := splitDots a, single := (a = "name".toList || a = "uuid".toList) }
  else if "exclude_".toList.isPrefixOf name && endsWith name "s".toList then
    some { path := splitDots ((name.drop 8).dropLast), positive := false }
  else none

/-- `_ListFilter.__getattr__`: `lst.by_a.b` -/
def Filter.nest (f : Filter) (a : Str) : Option Filter :=
  if "_".toList.isPrefixOf a then none else some { f with path := f.path ++ [a] }

/-- `extract_key` (+ the lowercase variant, which asserts a `str`): `.error attributeError` = the
path does not exist on the element; `.error assertionError` = lowercase filter on a non-string -/
def extractKey (w : World) (f : Filter) (x : Nat) : Except Err Val :=
  match pathOf w x f.path with
  | none => .error .attributeError
  | some v =>
    if f.lowercase then
      match v with
      | .atom (.s s) => .ok (.atom (.s (lower s)))
      | _ => .error .assertionError
    else .ok (toVal v)

/-- `make_values_container`: the lowercase variant calls `.lower()` on every value -/
def valuesOf (f : Filter) (vals : List Atom) : Except Err (List Atom) :=
  if f.lowercase then
    vals.mapM (fun v => match v with
      | .s s => .ok (.s (lower s))
      | _ => .error .attributeError)
  else .ok vals

/-- `_ListFilter.ismatch`: only `AttributeError` is caught -/
def ismatchE (w : World) (f : Filter) (x : Nat) (vals : List Atom) : Except Err Bool :=
  match extractKey w f x with
  | .error .attributeError => .ok (!f.positive)
  | .error e => .error e
  | .ok k => .ok (ismatch true f.positive (some k) vals)

/-- the loop of `__call__`: the first element whose key raises aborts the call -/
def matchesE (w : World) (f : Filter) (vals : List Atom) : List Nat → Except Err (List Nat)
  | [] => .ok []
  | x :: r =>
    match ismatchE w f x vals with
    | .error e => .error e
    | .ok b =>
      match matchesE w f vals r with
      | .error e => .error e
      | .ok t => .ok (if b then x :: t else t)

inductive CallResult
  | list (l : List Nat)
  | one (x : Nat)
deriving DecidableEq, Repr

/-- `_ListFilter.__call__(*values, single=None)` -/
def call (w : World) (f : Filter) (vals : List Atom) (single : Option Bool) (l : List Nat) :
    Except Err CallResult :=
  match valuesOf f vals with
  | .error e => .error e
  | .ok vs =>
    match matchesE w f vs l with
    | .error e => .error e
    | .ok ms =>
      if single.getD f.single then
        match ms with
        | [x] => .ok (.one x)
        | _ => .error .keyError
      else .ok (.list ms)

/-- `ModelElement.__hash__ = None`: a model element cannot go into the `yielded` set -/
def hashable : Atom → Bool
  | .o _ => false
  | _ => true

/-- `_ListFilter.__iter__`: distinct keys in order of first appearance.  Nothing is caught: a
missing attribute raises `AttributeError`, a list-valued key or a model element is unhashable
(`TypeError`) -/
def iterKeys (w : World) (f : Filter) : List Nat → List Atom → Except Err (List Atom)
  | [], _ => .ok []
  | x :: r, yielded =>
    match extractKey w f x with
    | .error e => .error e
    | .ok (.many _) => .error .typeError
    | .ok (.atom a) =>
      if !hashable a then .error .typeError
      else if yielded.contains a then iterKeys w f r yielded
      else match iterKeys w f r (a :: yielded) with
        | .error e => .error e
        | .ok t => .ok (a :: t)

/-- `_ListFilter.__contains__`: `any(...)` stops at the first match -/
def containsE (w : World) (f : Filter) (v : Atom) : List Nat → Except Err Bool
  | [] => .ok false
  | x :: r =>
    match valuesOf f [v] with
    | .error e => .error e
    | .ok vs =>
      match ismatchE w f x vs with
      | .error e => .error e
      | .ok true => .ok true
      | .ok false => containsE w f v r

/-! ## `filter`, `map` -/

/-- Python truthiness of an attribute value -/
def truthy : PyVal → Bool
  | .atom (.s s) => !s.isEmpty
  | .atom (.i n) => n != 0
  | .atom (.f n _) => n != 0
  | .atom .none => false
  | .atom (.o _) => true
  | .obj _ => true
  | .objs l => !l.isEmpty
  | .atoms l => !l.isEmpty

/-- is the attribute value of `x` truthy (an element without the attribute never gets this far) -/
def truthyAt (w : World) (path : List Str) (x : Nat) : Bool :=
  match pathOf w x path with
  | some v => truthy v
  | none => false

/-- does the element have the map key `key` -/
def hasMapKey (w : World) (mk : List Str) (key : Atom) (x : Nat) : Bool :=
  match pathOf w x mk with
  | some v => decide (toVal v = .atom key)
  | none => false

/-- `ElementList.filter("a.b")`: nothing is caught -/
def filterPath (w : World) (path : List Str) : List Nat → Except Err (List Nat)
  | [] => .ok []
  | x :: r =>
    match pathOf w x path with
    | none => .error .attributeError
    | some v =>
      match filterPath w path r with
      | .error e => .error e
      | .ok t => .ok (if truthy v then x :: t else t)

/-- state of the loop in `ElementList.map`: collected elements (in order) and the set of uuids -/
structure MapState where
  elems : List Nat := []
  uuids : List Str := []

/-- the inner `for v in value` loop; `uuid` gives each object's uuid -/
def mapInner (uuid : Nat → Str) : MapState → List Nat → MapState
  | st, [] => st
  | st, v :: r =>
    if st.uuids.contains (uuid v) then mapInner uuid st r
    else mapInner uuid { elems := st.elems ++ [v], uuids := uuid v :: st.uuids } r

/-- what one attribute value contributes: `None` is dropped, a non-iterable is wrapped, anything
that is not a model element is a `TypeError` -/
def mapImages : PyVal → Except Err (List Nat)
  | .obj n => .ok [n]
  | .objs l => .ok l
  | .atom .none => .ok []
  | .atoms [] => .ok []
  | .atom (.s []) => .ok []       -- iterating an empty string yields nothing
  | _ => .error .typeError

/-- `ElementList.map(attrgetter(a))`: `AttributeError` skips the element -/
def mapStep (w : World) (uuid : Nat → Str) (a : Str) : MapState → List Nat → Except Err MapState
  | st, [] => .ok st
  | st, x :: r =>
    match w x a with
    | none => mapStep w uuid a st r
    | some v =>
      match mapImages v with
      | .error e => .error e
      | .ok imgs => mapStep w uuid a (mapInner uuid st imgs) r

def map1 (w : World) (uuid : Nat → Str) (a : Str) (l : List Nat) : Except Err (List Nat) :=
  match mapStep w uuid a {} l with
  | .error e => .error e
  | .ok st => .ok st.elems

/-- `ElementList.map("a.b.c")`: one `map` per path component -/
def mapPath (w : World) (uuid : Nat → Str) : List Str → List Nat → Except Err (List Nat)
  | [], l => .ok l
  | a :: rest, l =>
    match map1 w uuid a l with
    | .error e => .error e
    | .ok l' => mapPath w uuid rest l'

/-- declarative counterpart of the loop: keep the first occurrence of every uuid -/
def firstOcc (uuid : Nat → Str) : List Nat → List Nat
  | [] => []
  | x :: r => x :: (firstOcc uuid r).filter (fun y => uuid y != uuid x)

/-- the images of one element under `map(a)` (skipped element = no images) -/
def imagesOf (w : World) (a : Str) (x : Nat) : Except Err (List Nat) :=
  match w x a with
  | none => .ok []
  | some v => mapImages v

/-! ## list arithmetic, membership -/

/-- the class of a list: `ElementList` with an element class, or `MixedElementList` -/
inductive ListClass
  | plain (elemclass : Str)      -- `ElementList(…, elemclass)`; `"ModelElement"` = the generic one
  | mixed
deriving DecidableEq, Repr

def elemclassOf : ListClass → Str
  | .plain c => c
  | .mixed => "ModelElement".toList

/-- `ElementList.__add` -/
def add (ca cb : ListClass) (a b : List Nat) (reflected : Bool) : ListClass × List Nat :=
  let cls := if elemclassOf ca = elemclassOf cb ∧ elemclassOf ca ≠ "ModelElement".toList
    then ListClass.plain (elemclassOf ca) else ListClass.mixed
  (cls, if reflected then b ++ a else a ++ b)

/-- `ElementList.__sub` (both reflections): by uuid -/
def subE (uuid : Nat → Str) (self other : List Nat) (reflected : Bool) : List Nat :=
  if reflected then sub uuid other self else sub uuid self other

/-- `ElementList.__contains__` for a model element: identity of the XML element -/
def containsObj (l : List Nat) (x : Nat) : Bool := l.contains x

/-! ## indices and slices (`self._elements[idx]`) -/

/-- `list[i]`: negative counts from the end -/
def pyIndex {α : Type} (l : List α) (i : Int) : Option α :=
  let n : Int := l.length
  let j := if i < 0 then i + n else i
  if j < 0 ∨ n ≤ j then none else l[j.toNat]?

structure Slice where
  start : Option Int := none
  stop : Option Int := none
  step : Option Int := none
deriving DecidableEq, Repr

/-- one bound of `slice.indices(n)` -/
def adjust (v : Option Int) (n lower upper dflt : Int) : Int :=
  match v with
  | none => dflt
  | some x =>
    if x < 0 then (if x + n < lower then lower else x + n)
    else (if upper < x then upper else x)

/-- `slice.indices(len)`; `none` = `ValueError` (step 0) -/
def sliceIndices (s : Slice) (len : Nat) : Option (Int × Int × Int) :=
  let n : Int := len
  let step := s.step.getD 1
  if step = 0 then none
  else
    let neg : Bool := decide (step < 0)
    let lower : Int := if neg then -1 else 0
    let upper : Int := if neg then n - 1 else n
    some (adjust s.start n lower upper (if neg then upper else lower),
          adjust s.stop n lower upper (if neg then lower else upper), step)

/-- `PySlice_AdjustIndices`' return value -/
def sliceLen (start stop step : Int) : Nat :=
  if 0 < step then (if start < stop then ((stop - start - 1) / step + 1).toNat else 0)
  else (if stop < start then ((start - stop - 1) / (-step) + 1).toNat else 0)

/-- the copy loop of `list_subscript`: `for (cur = start, i = 0; i < slicelength; cur += step, i++)` -/
def takeStep {α : Type} (l : List α) (step : Int) : Int → Nat → List α
  | _, 0 => []
  | cur, k + 1 =>
    match l[cur.toNat]? with
    | some x => x :: takeStep l step (cur + step) k
    | none => []

def pySlice {α : Type} (s : Slice) (l : List α) : Option (List α) :=
  match sliceIndices s l.length with
  | none => none
  | some (a, b, st) => some (takeStep l st a (sliceLen a b st))

/-! ## lists as mappings -/

/-- `_map_find`: `attrgetter(mapkey)(i) == key`, nothing caught -/
def mapCandidates (w : World) (mapkey : List Str) (key : Atom) : List Nat → Except Err (List Nat)
  | [] => .ok []
  | x :: r =>
    match pathOf w x mapkey with
    | none => .error .attributeError
    | some v =>
      match mapCandidates w mapkey key r with
      | .error e => .error e
      | .ok t => .ok (if toVal v = .atom key then x :: t else t)

def mapFind (w : World) (mapkey : Option (List Str)) (key : Atom) (l : List Nat) : Except Err Nat :=
  match mapkey with
  | none => .error .typeError
  | some mk =>
    match mapCandidates w mk key l with
    | .error e => .error e
    | .ok [x] => .ok x
    | .ok [] => .error .keyError
    | .ok _ => .error .valueError

/-- `_map_getvalue` -/
def mapGetValue (w : World) (mapvalue : Option (List Str)) (x : Nat) : Except Err PyVal :=
  match mapvalue with
  | none => .ok (.obj x)
  | some mv => match pathOf w x mv with
    | some v => .ok v
    | none => .error .attributeError

/-- `lst["key"]` -/
def getStrItem (w : World) (mapkey mapvalue : Option (List Str)) (key : Atom) (l : List Nat) :
    Except Err PyVal :=
  match mapFind w mapkey key l with
  | .error e => .error e
  | .ok x => mapGetValue w mapvalue x

/-- `lst.get(key, default)`: only `KeyError` becomes the default (`none`) -/
def getDefault (w : World) (mapkey mapvalue : Option (List Str)) (key : Atom) (l : List Nat) :
    Except Err (Option PyVal) :=
  match getStrItem w mapkey mapvalue key l with
  | .error .keyError => .ok none
  | .error e => .error e
  | .ok v => .ok (some v)

/-- `_mapkey`: here `AttributeError` is caught and becomes `None` -/
def mapKeyOf (w : World) (mapkey : Option (List Str)) (x : Nat) : Except Err (Option PyVal) :=
  match mapkey with
  | none => .error .typeError
  | some mk => .ok (pathOf w x mk)

/-- `list(lst.keys())` -/
def keysView (w : World) (mapkey : Option (List Str)) (l : List Nat) : Except Err (List (Option PyVal)) :=
  l.mapM (mapKeyOf w mapkey)

end Capella.QList
