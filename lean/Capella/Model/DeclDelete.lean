import Capella.Model.Delete
/-
Model of the declarative deletion entry point, `capellambse/decl.py: _operate_delete` (C09).

    for attr, objs in deletions.items():
        target = getattr(parent, attr)                    # read ONCE per attribute; a coupled list
        if not isinstance(target, ElementList) or not isinstance(objs, list):
            delattr(parent, attr); continue               # `Entry.whole`
        for obj in objs:                                  # `Entry.members` → `delMembers`
            obj = _resolve({}, parent, obj)               # by_uuid: KeyError when the uuid is gone
            idx = target.index(obj)                       # ValueError when it is no member (any more)
            del target[idx]                               # deletes THE MEMBER AT THAT INDEX: accessor.delete(target[idx])
                                                          # (all-or-nothing), then the list in hand forgets it

The loop is written over an arbitrary per-object deletion `del1` (state → member → new state or a refusal with the
state untouched), so that the index arithmetic of the loop is a statement of its own: whatever order the members are
named in, the objects handed to `del1` are exactly the named ones (`Props/C09.lean`). `delGraph` instantiates it
with the two-phase deletion on the reference graph (`Model/Delete.lean`).
-/
namespace Capella.DeclDelete
open Capella.Delete

inductive Err
  | notImplemented   -- a purge context refused / a member is the root of its fragment file
  | keyError         -- `_resolve`: no object with that uuid (e.g. named twice, or a descendant of one deleted before)
  | valueError       -- `target.index(obj)`: the object is no member of that list
  | other
deriving DecidableEq, Repr

/-- where a (possibly aborted) run of the loop ends: the state reached, the members the list in hand still has, the
objects that were deleted (in the order of deletion) and the error that ended the run, if any -/
structure Res (σ : Type) where
  st : σ
  members : List Nat
  deleted : List Nat
  err : Option Err

/-- the inner loop of `_operate_delete` over one coupled list -/
def delMembers {σ : Type} (del1 : σ → Nat → Except Err σ) (resolvable : σ → Nat → Bool) :
    σ → List Nat → List Nat → List Nat → Res σ
  | s, ms, done, [] => ⟨s, ms, done, none⟩
  | s, ms, done, x :: xs =>
    if !resolvable s x then ⟨s, ms, done, some .keyError⟩ else
    match ms.idxOf? x with                       -- `target.index(obj)`
    | none => ⟨s, ms, done, some .valueError⟩
    | some i =>
      match ms[i]? with                          -- `del target[idx]`: the member at that index
      | none => ⟨s, ms, done, some .other⟩        -- IndexError (unreachable: `idxOf?_getElem?`)
      | some y =>
        match del1 s y with
        | .error e => ⟨s, ms, done, some e⟩
        | .ok s' => delMembers del1 resolvable s' (ms.eraseIdx i) (done ++ [y]) xs

/-- deleting the objects `l` one after the other (`none` as soon as one refuses) -/
def applyAll {σ : Type} (del1 : σ → Nat → Except Err σ) : σ → List Nat → Option σ
  | s, [] => some s
  | s, x :: xs => match del1 s x with | .error _ => none | .ok s' => applyAll del1 s' xs

/-! ### on the reference graph -/

/-- what the harness knows of the members of the parent's coupled lists: the subtree of each (`iterdescendants_xt`,
the member itself included), the part of it that hangs below the member in its own fragment file, and the elements
without a parent element (roots of fragment files) -/
structure Ctx where
  subs : List (Nat × List Nat × List Nat)
  parentless : List Nat

def Ctx.sub (c : Ctx) (x : Nat) : List Nat := match c.subs.lookup x with | some (s, _) => s | none => [x]
def Ctx.loc (c : Ctx) (x : Nat) : List Nat := match c.subs.lookup x with | some (_, l) => l | none => [x]

def liftErr : Except Delete.Err G → Except Err G
  | .ok g => .ok g
  | .error .notImplemented => .error .notImplemented
  | .error .other => .error .other

/-- `accessor.delete(target, obj)` (`DirectProxyAccessor.delete` → `_delete(model, [elem])`, `RoleTagAccessor.delete`) -/
def del1 (c : Ctx) (g : G) (x : Nat) : Except Err G :=
  liftErr (checked [x] c.parentless (deleteAcrossFragments g (c.sub x) (c.loc x)))

/-- `by_uuid` succeeds -/
def resolvable (g : G) (x : Nat) : Bool := g.elems.contains x

/-- `delattr(parent, attr)` for a containment list (`DirectProxyAccessor.__delete__` → `_delete(model, all members)`):
ONE transaction over all current members -/
def delWhole (c : Ctx) (g : G) (ms : List Nat) : Except Err G :=
  liftErr (checked ms c.parentless (deleteAcrossFragments g (ms.flatMap c.sub) (ms.flatMap c.loc)))

/-- one `attr: …` entry below `delete:` -/
inductive Entry
  | whole (attr : String)                       -- `attr:` without a list of objects
  | members (attr : String) (uuids : List Nat)

/-- `getattr(parent, attr)` at the time the entry is reached: the members the harness listed for that attribute (in
list order, before the instruction) that are still in the model -/
def readList (lists : List (String × List Nat)) (g : G) (attr : String) : Option (List Nat) :=
  (lists.lookup attr).map (·.filter g.elems.contains)

structure Out where
  g : G
  deleted : List Nat      -- the objects deleted, in order (for a whole-attribute entry: the members, in list order)
  err : Option Err

/-- `_operate_delete(promises, parent, deletions)` -/
def operateDelete (c : Ctx) (lists : List (String × List Nat)) : G → List Nat → List Entry → Out
  | g, done, [] => ⟨g, done, none⟩
  | g, done, .whole attr :: es =>
    match readList lists g attr with
    | none => ⟨g, done, some .other⟩             -- not a containment list the harness described
    | some ms =>
      match delWhole c g ms with
      | .error e => ⟨g, done, some e⟩
      | .ok g' => operateDelete c lists g' (done ++ ms) es
  | g, done, .members attr uuids :: es =>
    match readList lists g attr with
    | none => ⟨g, done, some .other⟩
    | some ms =>
      let r := delMembers (del1 c) resolvable g ms done uuids
      match r.err with
      | some e => ⟨r.st, r.deleted, some e⟩
      | none => operateDelete c lists r.st r.deleted es

end Capella.DeclDelete
