import Capella.Model.Frag
import Capella.Model.ReadTable
/-!
# The READ side of the object layer over a fragment store (property C06)

`__get__` of every relation accessor of `capellambse/model/_descriptors.py`, as coded, as a function over
the fragment `Store` of `Model/Frag.lean`, parameterised by a row of the generated descriptor table
(`Gen/Reads.lean`, vocabulary `Model/ReadTable.lean`).  Each function uses exactly the navigation the
Python uses:

| Lean | Python |
|---|---|
| `findRoots` | `DirectProxyAccessor._findroots` / the root walk of `DeepProxyAccessor._getsubelems` (`iterchildren_xt` per `rootelem` step) |
| `readDirect` | `DirectProxyAccessor.__get__` (`_getsubelems` = `iterchildren_xt(root, *xtypes)`, the `id` filter, `_resolve` with `follow_abstract`, `_make_list`) |
| `readDeep` | `DeepProxyAccessor.__get__` (`iterdescendants_xt` below every root) |
| `linkTargets`, `readLink` | `LinkAccessor.__find_refs` (**raw** `iterchildren(tag)`, no placeholder following), `__follow_ref`, the `seen` de-duplication |
| `followAll`, `readAttrProxy` | `AttrProxyAccessor.__get__` = `follow_links(elem, elem.get(attr, ""))` |
| `roleElems`, `readRoleTag` | `RoleTagAccessor.__get__` (raw `iterchildren(role_tag)`, but every `href` is followed by hand; `isinstance` check) |
| `readParent` | `ParentAccessor.__get__` (`next(iterancestors(elem), None)`) |
| `readSpec` | `SpecificationAccessor.__get__` (**raw** `next(iterchildren("ownedSpecification"))`: a placeholder is returned as it is) |
| `readMatcher` | `AttributeMatcherAccessor.__get__` |
| `xtCache`, `searchFile`, `searchFiles` | `ModelFile.__xtypecache` as `idcache_index` fills it, `ModelFile.iterall_xt`, `MelodyLoader.iterall_xt` = the result **order** of `MelodyModel.search()` |
| `searchBelowOrd` | `MelodyModel.search(*xtypes, below=b)` in the order as coded |
| `getAttr`, `evalPath`, `pathsAny`, `refFilter` | the candidate loop of `ReferenceSearchingAccessor.__get__` (`attrgetter` paths, `AttributeError` swallowed, containment test) |
| `readRow` | `getattr(obj, name)` for a descriptor row: dispatch on the accessor class; `IndexAccessor`, `TypecastAccessor`, `Alias`, `DeprecatedAccessor` delegate by name through the slot table of the object's class |

What fragmentation does not touch is a parameter (`Env`): which elements carry an `id`, the targets of
reference attributes (the link *text* differs between the layouts — `#id` vs `type path#id` — the targets
do not: property C05), plain attribute values.  A reference is resolved by id over all files (`resolve`),
exactly as `follow_link` does.  Elements are addressed by key, as in `Model/Frag.lean`.  Core Lean only.
-/
namespace Capella.RelRead
open Capella.Frag Capella.ReadTable

/-- Python exception classes the read paths can raise -/
inductive Err | keyError | runtimeError | attributeError | typeError | valueError | unsupported
deriving DecidableEq, Repr

/-- what a relation read returns: an `ElementList`, a single object or `None`, or a `_Specification`
wrapping an element that is (`true`) or is not a placeholder -/
inductive Val
  | list (l : List Key)
  | single (o : Option Key)
  | spec (k : Key) (placeholder : Bool)
deriving DecidableEq, Repr

abbrev Res := Except Err Val

structure Env where
  hasId : Key → Bool
  refs : Key → Str → Option (List Key)
  attr : Key → Str → Option Str

/-- `no_list` -/
def noList : List Key → Res
  | [] => .ok (.single none)
  | [k] => .ok (.single (some k))
  | _ => .error .runtimeError

/-- `PhysicalAccessor._make_list` -/
def makeList (aslist : Bool) (l : List Key) : Res := if aslist then .ok (.list l) else noList l

def xtSet (l : List String) : List (Option Str) := l.map (fun s => some s.toList)

/-- keys of `iterchildren_xt(loader[k], *xts)` -/
def childKeys (st : Store) (xts : List (Option Str)) (k : Key) : Option (List Key) :=
  (childrenXt st xts k).map (·.map Prod.fst)

/-- `itertools.chain.from_iterable(f(i) for i in roots)`; `none` = a `KeyError` on the way -/
def flatMapO (f : Key → Option (List Key)) : List Key → Option (List Key)
  | [] => some []
  | k :: ks =>
    match f k with
    | none => none
    | some a =>
      match flatMapO f ks with
      | none => none
      | some b => some (a ++ b)

/-- `_findroots`: one `iterchildren_xt` step per entry of `rootelem` -/
def findRoots (st : Store) : List String → List Key → Option (List Key)
  | [], rs => some rs
  | x :: xs, rs =>
    match flatMapO (childKeys st [some x.toList]) rs with
    | none => none
    | some rs' => findRoots st xs rs'

def kAbstractType : Str := "abstractType".toList
def kOwnedSpecification : Str := "ownedSpecification".toList
def kTrue : Str := "true".toList

/-- `DirectProxyAccessor._resolve` with `follow_abstract`, over the list comprehension of `__get__` -/
def resolveAbstract (st : Store) (env : Env) : List Key → Except Err (List Key)
  | [] => .ok []
  | e :: es =>
    match env.refs e kAbstractType with
    | some [t] =>
      match resolve st t with
      | none => .error .keyError
      | some _ => (resolveAbstract st env es).map (t :: ·)
    | some (_ :: _ :: _) => .error .valueError
    | _ => .error .runtimeError

def readDirect (st : Store) (env : Env) (row : RRow) (aslist : Bool) (k : Key) : Res :=
  match findRoots st row.rootelem [k] with
  | none => .error .keyError
  | some rs =>
    match flatMapO (childKeys st (xtSet row.xtypes)) rs with
    | none => .error .keyError
    | some es =>
      if row.followAbstract then (resolveAbstract st env (es.filter env.hasId)).bind (makeList aslist)
      else makeList aslist (es.filter env.hasId)

def readDeep (st : Store) (env : Env) (df : Nat) (row : RRow) (k : Key) : Res :=
  match findRoots st row.rootelem [k] with
  | none => .error .keyError
  | some rs =>
    match flatMapO (fun r => (descendantsXt st df (xtSet row.xtypes) r).map (·.map (·.2.1))) rs with
    | none => .error .keyError
    | some es => .ok (.list (es.filter env.hasId))

/-- `refelm.get(follow)`: a placeholder carries `xsi:type` and `href` only -/
def rawAttr (env : Env) (a : Str) : FNode → Option (List Key)
  | .href .. => none
  | .elem k _ _ _ => env.refs k a

/-- `iterchildren(tag=t)`; `tag=None` yields every child -/
def tagOk (tag : Option String) (c : FNode) : Bool :=
  match tag with
  | none => true
  | some t => (obsF c).1 == t.toList

/-- the loop of `LinkAccessor.__get__` over `__find_refs` (raw children, placeholders included) -/
def linkTargets (st : Store) (env : Env) (row : RRow) (a : Str) : List FNode → Except Err (List Key)
  | [] => .ok []
  | c :: cs =>
    if tagOk row.tag c && (xtSet row.xtypes).contains (obsF c).2.2 then
      match rawAttr env a c with
      | none => linkTargets st env row a cs
      | some [] => linkTargets st env row a cs
      | some [t] =>
        match resolve st t with
        | none => .error .keyError
        | some _ => (linkTargets st env row a cs).map (t :: ·)
      | some (_ :: _ :: _) => .error .valueError
    else linkTargets st env row a cs

def readLink (st : Store) (env : Env) (row : RRow) (k : Key) : Res :=
  match row.follow with
  | none => .error .unsupported
  | some a =>
    match resolve st k with
    | none => .error .keyError
    | some n => (linkTargets st env row a.toList n.kids).bind (fun l => makeList row.aslist l.eraseDups)

/-- `follow_links` without `ignore_broken` -/
def followAll (st : Store) : List Key → Except Err (List Key)
  | [] => .ok []
  | t :: ts =>
    match resolve st t with
    | none => .error .keyError
    | some _ => (followAll st ts).map (t :: ·)

def readAttrProxy (st : Store) (env : Env) (row : RRow) (k : Key) : Res :=
  match row.follow with
  | none => .error .unsupported
  | some a => (followAll st ((env.refs k a.toList).getD [])).bind (makeList row.aslist)

/-- the list comprehension of `RoleTagAccessor.__get__`: (key, type) of every child with the role tag, a
placeholder replaced by `follow_link(i, href)` -/
def roleElems (st : Store) (tag : Str) : List FNode → Except Err (List (Key × Option Str))
  | [] => .ok []
  | c :: cs =>
    if (obsF c).1 == tag then
      match followHref st c with
      | none => .error .keyError
      | some r => (roleElems st tag cs).map (((obsF r).2.1, (obsF r).2.2) :: ·)
    else roleElems st tag cs

/-- `isinstance(ModelElement.from_model(model, e), acc.classes)` by the element's type -/
def accepts (tb : Table) (row : RRow) (xt : Option Str) : Bool :=
  match xt with
  | none => row.acceptUnknown
  | some x =>
    if tb.classes.any (fun c => c.xtype.toList == x) then row.accept.any (fun a => a.toList == x)
    else row.acceptUnknown

def readRoleTag (tb : Table) (st : Store) (row : RRow) (k : Key) : Res :=
  match row.tag with
  | none => .error .unsupported
  | some tag =>
    match resolve st k with
    | none => .error .keyError
    | some n =>
      match roleElems st tag.toList n.kids with
      | .error e => .error e
      | .ok es =>
        match makeList row.aslist (es.map Prod.fst) with
        | .error e => .error e
        | .ok rv =>
          if row.hasClasses then
            if !row.aslist then .error .typeError
            else if es.all (fun e => accepts tb row e.2) then .ok rv else .error .runtimeError
          else .ok rv

def readParent (st : Store) (k : Key) : Res :=
  match fparent st k with
  | none => .error .attributeError
  | some p => .ok (.single (some p))

def readSpec (st : Store) (k : Key) : Res :=
  match resolve st k with
  | none => .error .keyError
  | some n =>
    match n.kids.find? (fun c => (obsF c).1 == kOwnedSpecification) with
    | none => .error .attributeError
    | some c => .ok (.spec (fkey c) c.isHref)

/-- `all(getattr(elm, k) == v …)` for BoolPOD attributes: absent reads as `False` -/
def podMatch (env : Env) (m : List (String × Bool)) (k : Key) : Bool :=
  m.all (fun p => (env.attr k p.1.toList == some kTrue) == p.2)

def readMatcher (st : Store) (env : Env) (row : RRow) (k : Key) : Res :=
  match readDirect st env row true k with
  | .ok (.list l) => makeList row.aslist (l.filter (podMatch env row.matcher))
  | .ok _ => .error .typeError
  | .error e => .error e

/-! ### `model.search()`: the order as coded -/

mutual
/-- `root.iter()`: every node of a file in document order, placeholders included -/
def nodesT : FNode → List FNode
  | .elem k tag xt kids => .elem k tag xt kids :: nodesL kids
  | .href tag xt k => [.href tag xt k]
def nodesL : List FNode → List FNode
  | [] => []
  | n :: ns => nodesT n ++ nodesL ns
end

/-- `self.__xtypecache[xtype][id(elm)] = elm` on insertion-ordered dictionaries -/
def cacheInsert : List (Str × List FNode) → Str → FNode → List (Str × List FNode)
  | [], x, n => [(x, [n])]
  | (y, l) :: r, x, n => if y = x then (y, l ++ [n]) :: r else (y, l) :: cacheInsert r x n

def cacheStep (c : List (Str × List FNode)) (n : FNode) : List (Str × List FNode) :=
  match (obsF n).2.2 with
  | none => c
  | some x => cacheInsert c x n

/-- `ModelFile.__xtypecache` after `idcache_rebuild()` (placeholders carry `xsi:type` and are indexed) -/
def xtCache (f : FNode) : List (Str × List FNode) := (nodesT f).foldl cacheStep []

/-- `ModelFile.iterall_xt(xtset)` of a semantic file: type after type in the order the types first occur,
placeholders skipped -/
def searchFile (xts : List (Option Str)) (f : FNode) : List Key :=
  (xtCache f).flatMap (fun p => if inSet xts (some p.1) then (p.2.filter (fun n => !n.isHref)).map fkey else [])

/-- `MelodyLoader.iterall_xt(*xtypes, trees=semantic)`: file after file, in loading order -/
def searchFiles (files : List FNode) (xts : List (Option Str)) : List Key := files.flatMap (searchFile xts)

/-- `model.search(*xtypes, below=b)` in the order as coded -/
def searchBelowOrd (st : Store) (files : List FNode) (fuel : Nat) (xts : List (Option Str)) (b : Key) : List Key :=
  (searchFiles files xts).filter (fun k => (ancestors st fuel k).contains b)

/-! ### `ReferenceSearchingAccessor` and the delegating accessors -/

/-- the row `getattr(type(obj), name)` finds for the object wrapping element `k` -/
def slotFor (tb : Table) (st : Store) (name : String) (k : Key) : Except Err (Option RRow) :=
  match resolve st k with
  | none => .error .keyError
  | some n => .ok (tb.slot ((obsF n).2.2.map String.ofList) name)

/-- `getattr(candidate, name)` inside `try … except AttributeError: continue`; `none` = skipped -/
def getAttr (tb : Table) (st : Store) (rd : RRow → Key → Res) (name : String) (k : Key) : Except Err (Option Val) :=
  match slotFor tb st name k with
  | .error e => .error e
  | .ok none => .ok none
  | .ok (some r) =>
    match rd r k with
    | .ok v => .ok (some v)
    | .error .attributeError => .ok none
    | .error e => .error e

/-- `operator.attrgetter("a.b.c")(candidate)`; an intermediate `None` or list has no such attribute -/
def evalPath (tb : Table) (st : Store) (rd : RRow → Key → Res) : List String → Key → Except Err (Option Val)
  | [], _ => .ok none
  | [a], k => getAttr tb st rd a k
  | a :: b :: rest, k =>
    match getAttr tb st rd a k with
    | .error e => .error e
    | .ok (some (.single (some k'))) => evalPath tb st rd (b :: rest) k'
    | .ok _ => .ok none

/-- `isinstance(value, ElementList) and obj in value or isinstance(value, ModelElement) and obj == value` -/
def holds (v : Option Val) (k : Key) : Bool :=
  match v with
  | some (.list l) => l.contains k
  | some (.single (some e)) => e == k
  | _ => false

/-- the inner `for attr in self.attrs` loop with its `break` -/
def pathsAny (tb : Table) (st : Store) (rd : RRow → Key → Res) (k : Key) : List (List String) → Key → Except Err Bool
  | [], _ => .ok false
  | p :: ps, c =>
    match evalPath tb st rd p c with
    | .error e => .error e
    | .ok v => if holds v k then .ok true else pathsAny tb st rd k ps c

/-- the outer `for candidate in search(...)` loop -/
def refFilter (tb : Table) (st : Store) (rd : RRow → Key → Res) (paths : List (List String)) (k : Key) :
    List Key → Except Err (List Key)
  | [] => .ok []
  | c :: cs =>
    match pathsAny tb st rd k paths c with
    | .error e => .error e
    | .ok b => (refFilter tb st rd paths k cs).map (fun r => if b then c :: r else r)

/-- `getattr(obj, name)` where `row` is the descriptor found for `name`.
`files`: the semantic files in loading order (what `search()` walks), `df`: fuel of `iterdescendants`,
the first `Nat`: fuel of the by-name delegation (`Index`/`Typecast`/`Alias`/`Deprecated`, nested reads of
`ReferenceSearching`). -/
def readRow (tb : Table) (st : Store) (files : List FNode) (env : Env) (df : Nat) : Nat → RRow → Key → Res
  | 0, _, _ => .error .unsupported
  | f + 1, row, k =>
    match row.kind with
    | .direct => readDirect st env row row.aslist k
    | .deep => readDeep st env df row k
    | .link => readLink st env row k
    | .attrProxy => readAttrProxy st env row k
    | .roleTag => readRoleTag tb st row k
    | .parent => readParent st k
    | .specification => readSpec st k
    | .attrMatcher => readMatcher st env row k
    | .alternate => .ok (.single (some k))
    | .typecast | .alias | .deprecated =>
      match row.follow with
      | none => .error .unsupported
      | some a =>
        match slotFor tb st a k with
        | .error e => .error e
        | .ok none => .error .unsupported
        | .ok (some r) => readRow tb st files env df f r k
    | .index =>
      match row.follow with
      | none => .error .unsupported
      | some a =>
        match slotFor tb st a k with
        | .error e => .error e
        | .ok none => .error .unsupported
        | .ok (some r) =>
          match readRow tb st files env df f r k with
          | .error e => .error e
          | .ok (.list l) =>
            match l[row.index]? with
            | some e => .ok (.single (some e))
            | none => .error .runtimeError
          | .ok _ => .error .runtimeError
    | .refSearch =>
      match refFilter tb st (readRow tb st files env df f) row.paths k
          (searchFiles files (xtSet row.targets)) with
      | .error e => .error e
      | .ok l => makeList row.aslist l
    | .other _ => .error .unsupported

/-- `getattr(model.by_uuid(id), name)` -/
def readAttr (tb : Table) (st : Store) (files : List FNode) (env : Env) (df f : Nat) (name : String) (k : Key) : Res :=
  match slotFor tb st name k with
  | .error e => .error e
  | .ok none => .error .unsupported
  | .ok (some r) => readRow tb st files env df f r k

end Capella.RelRead
