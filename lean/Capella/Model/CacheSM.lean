import Capella.Model.Cache
/-
Second layer of the diagram-cache model (`capellambse/model/diagram.py`), on top of `Capella.Cache`:

* **faults** — the cache handler's `open(name)` may raise something else than `FileNotFoundError`
  (`OpenR.raises`: `IsADirectoryError` for a directory called `<uuid>.svg`, `PermissionError`, a
  `KeyError` of a mapping-backed handler …) and every converter call (`from_cache`, `convert`,
  `convert_pretty`, plain call) may raise (`OpsF`: `PNGFormat.convert` without cairosvg, …).  The model
  propagates them exactly as the `try/except` clauses of the code do: `FileNotFoundError` → next
  candidate; `KeyError` (wherever raised inside `__load_cache`) → "not in cache"; everything else
  propagates out of `render`.
* **the in-memory render state** of one diagram object (`_render`, `_error`; `_last_render_params`
  is `{}` for the whole life of the object — the code never updates it) and `__render_fresh`,
  `invalidate_cache` on it: `St`, `freshSt`.
* **every entry point** that leads to the lookup, as a function over the same state:
  `renderS` (`render`), `asFmtS` (`as_<fmt>`), `htmlS` (`__html__` = `_repr_html_`), `reprS`
  (`__repr__` with `REPR_DRAW`), `mimebundleS` (`_repr_mimebundle_`), `saveS` (`save`), and the
  call-sequence semantics `run`.

Core Lean only.
-/
namespace Capella.Cache

/-- which `except` clause of the code an exception meets -/
inductive ExcKind
  | keyError        -- a `KeyError` (swallowed by `except KeyError` in `render` / `suppress(KeyError)`)
  | unknownFormat   -- an `UnknownOutputFormat` (re-raised by `as_<fmt>`)
  | other           -- any other `Exception` (`OSError`s of the handler, `RuntimeError`/`ImportError` of a converter …)
deriving DecidableEq, Repr

/-- what `cache_handler.open(name)` + `f.read()` does -/
inductive OpenR (B : Type)
  | found (b : B)
  | notFound                 -- `FileNotFoundError`
  | raises (k : ExcKind)     -- any other exception

/-- the probe loop of `__load_cache` stops at the first name that is found **or raises** -/
def OpenR.stop {B : Type} (n : Str) : OpenR B → Option (B ⊕ (Str × ExcKind))
  | .found b => some (.inl b)
  | .notFound => none
  | .raises k => some (.inr (n, k))

inductive ErrF
  | base (e : Err)                   -- the errors of the first layer, raised by the code itself
  | stored (e : Err)                 -- the exception object kept in `self._error`, re-raised by `__render_fresh`
  | raised (src : Ev) (k : ExcKind)  -- exception of kind `k` raised by the handler / converter call `src`
  | typeError                        -- `save`: the data is neither `str` nor `bytes`
  | noExtension                      -- `save(None, fmt)`: "No known extension for format"
deriving DecidableEq, Repr

/-- `isinstance(err, KeyError)` -/
def ErrF.isKey : ErrF → Bool
  | .base .keyError => true
  | .raised _ .keyError => true
  | _ => false

/-- `isinstance(err, UnknownOutputFormat)` -/
def ErrF.isUnknownFormat : ErrF → Bool
  | .base .unknownFormat => true
  | .raised _ .unknownFormat => true
  | _ => false

/-- not an exception at all: the `depends` walk never ends -/
def ErrF.isDiverge : ErrF → Bool
  | .base .diverges => true
  | _ => false

/-- converters that may raise -/
structure OpsF (B D : Type) where
  fromCache : Str → B → Except ExcKind D
  convert   : Str → D → Except ExcKind D
  pretty    : Str → D → Except ExcKind D
  call      : Str → D → Except ExcKind D
  errImage  : Stage → ErrF → D
  writable  : D → Bool          -- `isinstance(data, (str, bytes))` in `save`

section
variable {B D : Type}

def stepLoadF (ops : OpsF B D) (c : Conv) (d : D) : Ev × Except ExcKind D :=
  if c.hasConvert then (.convert c.id, ops.convert c.id d) else (.call c.id, ops.call c.id d)

def stepRunF (ops : OpsF B D) (pretty : Bool) (c : Conv) (d : D) : Ev × Except ExcKind D :=
  if pretty && c.isPretty then (.pretty c.id, ops.pretty c.id d)
  else if c.isFormat then (.convert c.id, ops.convert c.id d)
  else (.call c.id, ops.call c.id d)

/-- run converters in execution order; the first one that raises ends the loop — its call is in
the trace, nothing after it runs, and **no value** comes out -/
def stepsF (step : Conv → D → Ev × Except ExcKind D) : List Conv → D → List Ev × Except ErrF D
  | [], d => ([], .ok d)
  | c :: rest, d =>
    match step c d with
    | (ev, .error k) => ([ev], .error (.raised ev k))
    | (ev, .ok d') =>
      let r := stepsF step rest d'
      (ev :: r.1, r.2)

/-- `for cv in reversed(chain)` of `__load_cache` -/
def runLoadF (ops : OpsF B D) (chain : List Conv) (d : D) : List Ev × Except ErrF D :=
  stepsF (stepLoadF ops) chain.reverse d

/-- `_run_converter_chain` -/
def runChainF (ops : OpsF B D) (pretty : Bool) (chain : List Conv) (d : D) : List Ev × Except ErrF D :=
  stepsF (stepRunF ops pretty) chain.reverse d

/-- after the probe loop found `b` under converter `c` at position `k`: `from_cache`, then forward -/
def hitResult (ops : OpsF B D) (chain : List Conv) (k : Nat) (c : Conv) (b : B) : List Ev × Except ErrF D :=
  match ops.fromCache c.id b with
  | .error x => ([.fromCache c.id], .error (.raised (.fromCache c.id) x))
  | .ok d0 =>
    let r := runLoadF ops (chain.take k) d0
    (.fromCache c.id :: r.1, r.2)

/-- `__load_cache(chain)` with a handler present -/
def loadCacheF (ops : OpsF B D) (openf : Str → OpenR B) (u : Str) (chain : List Conv) :
    List Ev × Except ErrF D :=
  match probe (fun n => (openf n).stop n) u chain 0 with
  | (names, none) => (names.map .opened, .error (.base .keyError))
  | (names, some (_, _, .inr (n, x))) => (names.map .opened, .error (.raised (.opened n) x))
  | (names, some (i, c, .inl b)) =>
    let r := hitResult ops chain i c b
    (names.map .opened ++ r.1, r.2)

/-- the in-memory render state of one diagram object -/
inductive St (D : Type)
  | empty                          -- neither `_render` nor `_error`
  | rendered (d : D)               -- `_render`
  | failed (e : Err) (img : D)     -- `_error` and `_render` = the "parse"-stage error image
deriving DecidableEq, Repr

def St.hasRender : St D → Bool
  | .empty => false
  | _ => true

/-- what `_create_diagram` + the `except` clause of `__render_fresh` store -/
def created (ops : OpsF B D) (co : Except Err D) : St D :=
  match co with
  | .ok d => .rendered d
  | .error e => .failed e (ops.errImage .parse (.base e))

/-- the state after `__render_fresh(params)`; `pe` = `params == {}`; `co` = what `_create_diagram`
yields if it is called now -/
def freshSt (ops : OpsF B D) (st : St D) (co : Except Err D) (pe : Bool) : St D :=
  if st.hasRender && pe then st else created ops co

/-- did `_create_diagram` run? -/
def willCreate (st : St D) (pe : Bool) : Bool := !(st.hasRender && pe)

/-- `if hasattr(self, "_error"): raise self._error; return self._render` -/
def St.result : St D → Except ErrF D
  | .rendered d => .ok d
  | .failed e _ => .error (.stored e)
  | .empty => .error (.stored .renderError)   -- not reachable after `freshSt`

/-- fixed over the life of a diagram object -/
structure Env (B D : Type) where
  T     : Table
  ops   : OpsF B D
  cfg   : Cfg
  u     : Str                   -- uuid
  name  : Str                   -- diagram name (generated file name of `save`)
  mimes : List (Str × Str)      -- converter id → `mimetype` attribute

/-- may differ from call to call: cache contents / handler behaviour, outcome of the internal renderer -/
structure Req (B D : Type) where
  openf  : Str → OpenR B
  create : Except Err D

abbrev Res (D α : Type) := St D × List Ev × Except ErrF α

/-- `__render_fresh(params)` followed by `_run_converter_chain` -/
def renderFreshS (E : Env B D) (st : St D) (q : Req B D) (pretty pe : Bool) (chain : List Conv) : Res D D :=
  let st' := freshSt E.ops st q.create pe
  match st'.result with
  | .error e => (st', [.fresh], .error e)
  | .ok d =>
    let r := runChainF E.ops pretty chain d
    (st', .fresh :: r.1, r.2)

/-- `AbstractDiagram.render(fmt, pretty_print=pretty, **params)` on a diagram object in state `st` -/
def renderS (E : Env B D) (st : St D) (q : Req B D) (fmt : Option Str) (pretty pe : Bool) : Res D D :=
  match fmt with
  | none => renderFreshS E st q pretty pe []
  | some f =>
    match E.T.entry f with
    | none => (st, [], .error (.base .unknownFormat))
    | some i =>
      match E.T.chain i with
      | none => (st, [], .error (.base .diverges))
      | some chain =>
        if E.cfg.cache then
          match loadCacheF E.ops q.openf E.u chain with
          | (tr, .ok d) => (st, tr, .ok d)
          | (tr, .error e) =>
            if e.isKey then
              if E.cfg.allowRender then
                let r := renderFreshS E st q pretty pe chain
                (r.1, tr ++ r.2.1, r.2.2)
              else (st, tr, .error (.base .notInCache))
            else (st, tr, .error e)
        else renderFreshS E st q pretty pe chain

/-- `if hasattr(self, "_error") and err is self._error: self._render else __create_error_image("render", err)` -/
def errImageOf (ops : OpsF B D) (st : St D) (e : ErrF) : List Ev × D :=
  match e, st with
  | .stored _, .failed _ img => ([], img)
  | _, _ => ([.errImage .render], ops.errImage .render e)

/-- `diagram.as_<fmt>` -/
def asFmtS (E : Env B D) (st : St D) (q : Req B D) (f : Str) : Res D D :=
  match renderS E st q (some f) false true with
  | (st', tr, .ok d) => (st', tr, .ok d)
  | (st', tr, .error e) =>
    if e.isUnknownFormat || e.isDiverge then (st', tr, .error e) else
    let im := errImageOf E.ops st' e
    match (E.T.entry f).bind E.T.chain with
    | none => (st', tr ++ im.1, .error (.base .unknownFormat))
    | some chain =>
      let r := runChainF E.ops false chain im.2
      (st', tr ++ im.1 ++ r.1, r.2)

inductive ReprOut (D : Type)
  | short              -- `<Diagram 'name'>`
  | drawn (d : D)      -- short repr, newline, the terminal escapes
deriving DecidableEq, Repr

/-- what an entry point hands back -/
inductive Out (D : Type)
  | value (d : D)                        -- `render`, `as_<fmt>`
  | figure (d : D)                       -- `__html__`: `<figure>` d `<figcaption>` name `</figcaption></figure>`
  | repr (r : ReprOut D)                 -- `__repr__`
  | bundle (items : List (Str × D))      -- `_repr_mimebundle_`: mimetype → data, in insertion order
  | bundleNone                           -- `_repr_mimebundle_` → `None` (no format selected)
  | bundleText (r : ReprOut D)           -- `{"text/plain": repr(self)}`
  | written (file : Option Str) (d : D)  -- `save`: `d` (utf-8 encoded if `str`) written to the given file (`none`) or to the generated name
  | done                                 -- `invalidate_cache`
deriving DecidableEq, Repr

def termgraphics : Str := "termgraphics".toList
def svgName : Str := "svg".toList

/-- `__repr__`; `draw` = the module global `REPR_DRAW` -/
def reprS (E : Env B D) (st : St D) (q : Req B D) (draw : Bool) : Res D (ReprOut D) :=
  if !draw then (st, [], .ok .short) else
  match renderS E st q (some termgraphics) false true with
  | (st', tr, .ok d) => (st', tr, .ok (.drawn d))
  | (st', tr, .error e) => if e.isDiverge then (st', tr, .error e) else (st', tr, .ok .short)

/-- `__html__` / `_repr_html_` -/
def htmlS (E : Env B D) (st : St D) (q : Req B D) : Res D (Out D) :=
  match asFmtS E st q svgName with
  | (st', tr, .ok d) => (st', tr, .ok (.figure d))
  | (st', tr, .error e) => (st', tr, .error e)

/-- `save(file, fmt, pretty_print=pretty, **params)`; `given` = a file name / file object was passed -/
def saveS (E : Env B D) (st : St D) (q : Req B D) (given : Bool) (f : Str) (pretty pe : Bool) : Res D (Out D) :=
  let nameR : Except ErrF (Option Str) :=
    if given then .ok none else
    match E.T.entry f with
    | none => .error (.base .unknownFormat)
    | some i =>
      match E.T.find i with
      | none => .error (.base .diverges)
      | some c =>
        match c.ext with
        | none => .error .noExtension
        | some e => if e = [] then .error .noExtension
                    else .ok (some (E.name ++ " (".toList ++ E.u ++ ")".toList ++ e))
  match nameR with
  | .error e => (st, [], .error e)
  | .ok n =>
    match renderS E st q (some f) pretty pe with
    | (st', tr, .error e) => (st', tr, .error e)
    | (st', tr, .ok d) =>
      if E.ops.writable d then (st', tr, .ok (.written n d)) else (st', tr, .error .typeError)

/-- a Python `dict` assignment: an existing key keeps its position -/
def dictSet (d : List (Str × Conv)) (k : Str) (v : Conv) : List (Str × Conv) :=
  if d.any (fun p => p.1 == k) then d.map (fun p => if p.1 == k then (k, v) else p) else d ++ [(k, v)]

def mimeOf (E : Env B D) (i : Str) : Option Str := (E.mimes.find? (fun p => p.1 = i)).map (·.2)

/-- the `formats` dict of `_repr_mimebundle_`: every entry point in order, its `mimetype`, the filter -/
def bundleFormats (E : Env B D) (sel : Str → Bool) : List (Str × Conv) :=
  E.T.entries.foldl (fun acc e =>
    match E.T.find e.2 with
    | none => acc
    | some c =>
      match mimeOf E c.id with
      | none => acc
      | some m => if m ≠ [] ∧ sel m then dictSet acc m c else acc) []

/-- first loop (after fix: the WHOLE `depends` chain of the format's converter is handed to `__load_cache`,
as `render` does): `for mime, conv in formats.items(): try: bundle[mime] = self.__load_cache(list(_walk_converters(conv)))
except KeyError: pass; except Exception: LOGGER.exception(..)` — "not cached" and every failure (handler or
converter, e.g. PNG from a cached SVG without cairosvg) skip that MIME type; the calls made are in the trace -/
def bundleCached (E : Env B D) (q : Req B D) : List (Str × Conv) → List Ev × Except ErrF (List (Str × D))
  | [] => ([], .ok [])
  | (m, c) :: rest =>
    match E.T.chain c.id with
    | none => ([], .error (.base .diverges))
    | some chain =>
      let r : List Ev × Except ErrF D :=
        if E.cfg.cache then loadCacheF E.ops q.openf E.u chain else ([], .error (.base .keyError))
      let r' := bundleCached E q rest
      (r.1 ++ r'.1,
       match r.2 with
       | .ok d => r'.2.map ((m, d) :: ·)
       | .error _ => r'.2)

/-- second loop: every selected format converted from the internal rendering; a failing conversion is
logged and skipped -/
def bundleConverted (E : Env B D) (img : D) : List (Str × Conv) → List Ev × Except ErrF (List (Str × D))
  | [] => ([], .ok [])
  | (m, c) :: rest =>
    match E.T.chain c.id with
    | none => ([], .error (.base .diverges))
    | some chain =>
      let r := runChainF E.ops false chain img
      let r' := bundleConverted E img rest
      (r.1 ++ r'.1,
       match r.2 with
       | .ok d => r'.2.map ((m, d) :: ·)
       | .error e => if e.isDiverge then .error e else r'.2)

/-- `_repr_mimebundle_(include, exclude)`; `sel m` = `m in include and m not in exclude`.
After the fix the miss path consults the policy of `render`: with a cache configured and `_allow_render` false
the "Diagram not in cache" `RuntimeError` is raised inside the `try` and becomes the "render"-stage error image
(what `as_<fmt>` / `__html__` show); `__render_fresh` is not called and the state is untouched. -/
def mimebundleS (E : Env B D) (st : St D) (q : Req B D) (sel : Str → Bool) (draw : Bool) : Res D (Out D) :=
  let formats := bundleFormats E sel
  if formats.isEmpty then (st, [], .ok .bundleNone) else
  match bundleCached E q formats with
  | (tr, .error e) => (st, tr, .error e)
  | (tr, .ok (it :: items)) => (st, tr, .ok (.bundle (it :: items)))
  | (tr, .ok []) =>
    let refuse := E.cfg.cache && !E.cfg.allowRender
    let st' := if refuse then st else freshSt E.ops st q.create true
    let im : List Ev × D :=
      if refuse then errImageOf E.ops st (.base .notInCache) else
      match st'.result with
      | .ok d => ([.fresh], d)
      | .error e => (.fresh :: (errImageOf E.ops st' e).1, (errImageOf E.ops st' e).2)
    match bundleConverted E im.2 formats with
    | (tr2, .error e) => (st', tr ++ im.1 ++ tr2, .error e)
    | (tr2, .ok (it :: items)) => (st', tr ++ im.1 ++ tr2, .ok (.bundle (it :: items)))
    | (tr2, .ok []) =>
      match reprS E st' q draw with
      | (st'', tr3, .ok r) => (st'', tr ++ im.1 ++ tr2 ++ tr3, .ok (.bundleText r))
      | (st'', tr3, .error e) => (st'', tr ++ im.1 ++ tr2 ++ tr3, .error e)

/-- the calls a user can make on a diagram object -/
inductive Entry
  | render (fmt : Option Str) (pretty pe : Bool)
  | asFmt (f : Str)
  | html
  | repr (draw : Bool)
  | mimebundle (inc : Option (List Str)) (exc : List Str) (draw : Bool)
  | save (given : Bool) (f : Str) (pretty pe : Bool)
  | invalidate

def selOf (inc : Option (List Str)) (exc : List Str) (m : Str) : Bool :=
  (match inc with | none => true | some l => l.contains m) && !exc.contains m

def liftOut {α : Type} (g : α → Out D) (r : Res D α) : Res D (Out D) :=
  (r.1, r.2.1, r.2.2.map g)

def step (E : Env B D) (st : St D) (q : Req B D) : Entry → Res D (Out D)
  | .render fmt pretty pe => liftOut .value (renderS E st q fmt pretty pe)
  | .asFmt f => liftOut .value (asFmtS E st q f)
  | .html => htmlS E st q
  | .repr draw => liftOut .repr (reprS E st q draw)
  | .mimebundle inc exc draw => mimebundleS E st q (selOf inc exc) draw
  | .save given f pretty pe => saveS E st q given f pretty pe
  | .invalidate => (.empty, [], .ok .done)

/-- a history of calls on one diagram object: the observable output of every call -/
def run (E : Env B D) : St D → List (Req B D × Entry) → List (List Ev × Except ErrF (Out D))
  | _, [] => []
  | st, (q, en) :: rest =>
    let r := step E st q en
    (r.2.1, r.2.2) :: run E r.1 rest

/-- the state a history leaves behind -/
def stateAfter (E : Env B D) : St D → List (Req B D × Entry) → St D
  | st, [] => st
  | st, (q, en) :: rest => stateAfter E (step E st q en).1 rest

end

/-! ### free interpretation with injected faults (driver, examples) -/

/-- `(op, converter id, kind)`: that call raises -/
abbrev ConvFaults := List (Str × Str × ExcKind)

def faultOf (fs : ConvFaults) (op i : Str) : Option ExcKind :=
  (fs.find? (fun f => f.1 = op ∧ f.2.1 = i)).map (·.2.2)

def ExcKind.name : ExcKind → Str
  | .keyError => "KeyError".toList
  | .unknownFormat => "UnknownOutputFormat".toList
  | .other => "Other".toList

def ErrF.tag : ErrF → Str
  | .raised _ k => "Injected:".toList ++ k.name
  | .typeError => "TypeError".toList
  | .noExtension => "NoExtension".toList
  | _ => "?".toList

/-- every converter application recorded as a term; the calls listed in `fs` raise -/
def termOpsF (fs : ConvFaults) : OpsF Str Term where
  fromCache i b := match faultOf fs "from_cache".toList i with
    | some k => .error k | none => .ok (.fromCache i (.file b))
  convert i t := match faultOf fs "convert".toList i with
    | some k => .error k | none => .ok (.convert i t)
  pretty i t := match faultOf fs "convert_pretty".toList i with
    | some k => .error k | none => .ok (.pretty i t)
  call i t := match faultOf fs "call".toList i with
    | some k => .error k | none => .ok (.call i t)
  errImage s e := match e with
    | .base b => .errImage s b
    | .stored b => .errImage s b
    | e => .errImageX s e.tag
  -- format classes produce `str` / `bytes`, plain callables and the renderer produce objects
  writable t := match t with
    | .convert _ _ => true | .pretty _ _ => true | .fromCache _ _ => true | _ => false

/-- a handler holding `present`, raising on the names in `bad` -/
def openOfF (present : List Str) (bad : List (Str × ExcKind)) (name : Str) : OpenR Str :=
  match bad.find? (fun p => p.1 = name) with
  | some p => .raises p.2
  | none => if present.contains name then .found name else .notFound

end Capella.Cache
