/-
Model of the label text wrapping of py-capellambse, generic in the text-extent function (PIL font
metrics are a parameter) and in the whitespace predicate (`str.isspace`).

* `splitBy`, `words`, `lstrip`  — `str.split()` / `str.lstrip()`
* `packW`, `splitIntoLines`     — `capellambse.helpers.word_wrap.<locals>.split_into_lines`
                                  (the current line is kept as its list of words; the Python string
                                  `f"{current_line} {word}"` is `joinSp` of that list)
* `wordWrap`                    — `capellambse.helpers.word_wrap` on the already split input lines
                                  (`text.splitlines()` is applied by the caller / the driver)
* `vOverflow`                   — `capellambse.svg.helpers.check_for_vertical_overflow`
* `hOverflowLines`              — the `lines` component of `check_for_horizontal_overflow`
Core Lean only.
-/

namespace Capella.Wrap

abbrev Str := List Char

/-- pieces between separator characters (always at least one piece) -/
def splitBy (sp : Char → Bool) : Str → List Str
  | [] => [[]]
  | c :: cs =>
    if sp c then [] :: splitBy sp cs
    else match splitBy sp cs with
      | [] => [[c]]
      | p :: ps => (c :: p) :: ps

/-- `s.split()` -/
def words (sp : Char → Bool) (s : Str) : List Str := (splitBy sp s).filter (· ≠ [])

/-- `s.lstrip()` -/
def lstrip (sp : Char → Bool) (s : Str) : Str := s.dropWhile sp

/-- `" ".join(ws)` -/
def joinSp : List Str → Str
  | [] => []
  | [w] => w
  | w :: ws => w ++ ' ' :: joinSp ws

/-- the `for word in words` loop of `split_into_lines`; `cur` = words of `current_line`.
Returns the lines as word lists. -/
def packW (ext : Str → Rat) (width : Rat) : List Str → List Str → List (List Str)
  | cur, [] => if cur = [] then [] else [cur]
  | cur, w :: ws =>
    if ext (joinSp (cur ++ [w])) ≤ width then packW ext width (cur ++ [w]) ws
    else (if cur = [] then [] else [cur]) ++ packW ext width [w] ws

/-- `split_into_lines(line, width)` -/
def splitIntoLines (sp : Char → Bool) (ext : Str → Rat) (width : Rat) (line : Str) : List Str :=
  let ws := words sp line
  if ws = [] then [line] else (packW ext width [] ws).map joinSp

def bullet : Char := '•'

/-- one iteration of the `for i, line in enumerate(input_lines)` loop of `word_wrap` -/
def wrapLine (sp : Char → Bool) (ext : Str → Rat) (width : Rat) (first : Bool) (line : Str) : List Str :=
  let stripped := lstrip sp line
  let leading : Str :=
    if first then line.takeWhile sp
    else if stripped.head? = some bullet ∨ stripped.head? = some '-' then [' '] else []
  match splitIntoLines sp ext width stripped with
  | [] => []
  | l :: ls => (leading ++ l) :: ls

def wrapLines (sp : Char → Bool) (ext : Str → Rat) (width : Rat) : Bool → List Str → List Str
  | _, [] => []
  | first, l :: ls => wrapLine sp ext width first l ++ wrapLines sp ext width false ls

/-- `word_wrap(text, width)` where `lines = text.splitlines()` -/
def wordWrap (sp : Char → Bool) (ext : Str → Rat) (width : Rat) (lines : List Str) : List Str :=
  match wrapLines sp ext width true lines with
  | [] => [[]]
  | out => out

def dots : Str := ['.', '.', '.']

/-- the `for i, (line, (_, line_height))` loop of `check_for_vertical_overflow`:
lines rendered so far and the overflow line (if the loop broke) -/
def fitLoop (extH : Str → Rat) (height : Rat) : Rat → Option Str → List Str → List Str × Option Str
  | _, _, [] => ([], none)
  | th, prev, line :: rest =>
    if th + extH line > height then ([], some (prev.getD line))
    else
      let r := fitLoop extH height (th + extH line) (some line) rest
      (line :: r.1, r.2)

/-- `check_for_vertical_overflow(lines, height, max_text_width)` -/
def vOverflow (sp : Char → Bool) (extW extH : Str → Rat) (lines : List Str) (height maxW : Rat) : List Str :=
  match fitLoop extH height 0 none lines with
  | (rendered, none) => rendered
  | (rendered, some ov) =>
    -- `if overflow is not None:` (repaired; before, `if overflow:` skipped an empty overflow line and
    -- the text was cut without any mark)
    let ov' : Str :=
      if extW (ov ++ dots) < maxW then ov ++ dots
      else
        let w : Rat := ((maxW - extW dots).floor : Int)
        (wordWrap sp (fun s => extW s) w (if ov = [] then [] else [ov])).headD [] ++ dots
    if rendered = [] then [ov'] else rendered.dropLast ++ [ov']

/-- the lines computed by `check_for_horizontal_overflow(text, width, icon_padding, icon_size)` -/
def hOverflowLines (sp : Char → Bool) (extW : Str → Rat) (lines : List Str) (width iconPadding iconSize : Rat) : List Str :=
  wordWrap sp extW (width - iconSize - iconPadding) lines

/-- `max(w for w, _ in map(extent_func, lines))` (`word_wrap` never returns an empty list) -/
def maxWidth (extW : Str → Rat) : List Str → Rat
  | [] => 0
  | l :: ls => ls.foldl (fun m x => max m (extW x)) (extW l)

/-- `text_height` at the end of `check_for_vertical_overflow`: the heights of the lines that fitted -/
def fitHeight (extH : Str → Rat) (height : Rat) (lines : List Str) : Rat :=
  ((fitLoop extH height 0 none lines).1.map extH).foldl (· + ·) 0

/-- one iteration of `for label in builder.labels` in `svg.drawing.render_hbounded_lines`:
`check_for_horizontal_overflow` (`assert max_text_width >= 0`), then `check_for_vertical_overflow` with the
width of the widest wrapped line (`assert height >= text_height`); `none` = `AssertionError` -/
def renderLabel (sp : Char → Bool) (extW extH : Str → Rat) (text : List Str) (rectW rectH iconPadding iconSize : Rat) :
    Option (List Str) :=
  if rectW - iconSize - iconPadding < 0 then none
  else
    let lines := hOverflowLines sp extW text rectW iconPadding iconSize
    if rectH < fitHeight extH rectH lines then none
    else some (vOverflow sp extW extH lines rectH (maxWidth extW lines))

/-- `lines_to_render` of `render_hbounded_lines` for all labels of a builder -/
def renderLabels (sp : Char → Bool) (extW extH : Str → Rat) (rectW rectH iconPadding iconSize : Rat) :
    List (List Str) → Option (List Str)
  | [] => some []
  | t :: ts =>
    match renderLabel sp extW extH t rectW rectH iconPadding iconSize, renderLabels sp extW extH rectW rectH iconPadding iconSize ts with
    | some a, some b => some (a ++ b)
    | _, _ => none

end Capella.Wrap
