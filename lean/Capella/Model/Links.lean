import Capella.Model.Path
import Capella.Model.Quote

/-!
Model of link construction, parsing and resolution in `capellambse.loader.core.MelodyLoader`
and `capellambse.helpers` (property C05).

* `pathStr`, `suffix`            — `str(PurePosixPath)`, `PurePosixPath.suffix` (CPython 3.12)
* `relpathStr`                   — `str(helpers.relpath_pure(to, from))`
* `enc`/`dec`                    — `str.encode('utf-8')` / `bytes.decode('utf-8')` (valid input only)
* `unquoteStr`, `unquoteRef`     — `urllib.parse.unquote`, `loader.core._unquote_ref`
* `loadRef`                      — the path computed in `MelodyLoader.__load_referenced_files`
* `parseLink`                    — `helpers.CROSS_FRAGMENT_LINK.fullmatch(...).groups()`
* `pyWords`, `splitLinks`        — `str.split()`, `helpers.split_links`
* `createLink`, `followLink`, `followLinks` — the loader methods of the same names
* `setLinks`                     — `AttrProxyAccessor.__set_links` (the attribute text written)
* `attrInsert`, `attrDelete`     — `AttrProxyAccessor.insert` / `.delete` on a list written earlier

Text is `List Char`; bytes are `List UInt8`. Core Lean only.
-/
namespace Capella.Links
open Capella.Path Capella.Quote

/-! ### strings and paths -/

/-- `s.encode("utf-8")` -/
def enc (s : Str) : List UInt8 := (String.ofList s).toUTF8.data.toList

/-- `b.decode("utf-8")` on valid input. (CPython's `errors="replace"` behaviour on invalid input
is not modelled: the model answers `[]` there.) -/
def dec (b : List UInt8) : Str :=
  match (ByteArray.mk b.toArray).utf8Decode? with
  | some a => a.toList
  | none => []

/-- `"/".join(parts)` -/
def joinSlash : List Str → Str
  | [] => []
  | [a] => a
  | a :: b :: rest => a ++ '/' :: joinSlash (b :: rest)

/-- `str(p)` for a `PurePosixPath` -/
def pathStr (p : PPath) : Str :=
  if p.root = [] ∧ p.parts = [] then ['.'] else p.root ++ joinSlash p.parts

/-- `str(helpers.relpath_pure(PurePosixPath(*to), PurePosixPath(*from)))`; the function ends in
`PurePosixPath(*reversed(parts))`, i.e. it re-parses the computed components. -/
def relpathStr (to «from» : List Str) : Str := pathStr (mkPath (relpath to «from»))

/-- `name.rfind('.')` -/
def rfindDot : Str → Option Nat
  | [] => none
  | c :: cs =>
    match rfindDot cs with
    | some i => some (i + 1)
    | none => if c = '.' then some 0 else none

/-- `PurePosixPath.suffix` of a path whose last component is `name` -/
def suffix (name : Str) : Str :=
  match rfindDot name with
  | some i => if 0 < i ∧ i < name.length - 1 then name.drop i else []
  | none => []

def nameOf (path : List Str) : Str := path.getLast?.getD []

inductive Kind | semantic | visual | other
deriving DecidableEq, Repr

/-- `VISUAL_EXTS` -/
def visualExts : List Str := [".aird".toList, ".airdfragment".toList]
/-- `SEMANTIC_EXTS` -/
def semanticExts : List Str :=
  [".capella".toList, ".capellafragment".toList, ".melodyfragment".toList, ".melodymodeller".toList]

/-- `ModelFile.fragment_type` -/
def kindOf (path : List Str) : Kind :=
  let s := suffix (nameOf path)
  if s ∈ semanticExts then .semantic else if s ∈ visualExts then .visual else .other

/-! ### percent-unquoting of a `str` and reference normalisation -/

/-- `urllib.parse.unquote(s)` up to the final decoding: `%XX` decodes to a byte, every other
character contributes its UTF-8 encoding. -/
def unquoteStr : Str → List UInt8
  | '%' :: a :: b :: rest =>
    match hexVal a, hexVal b with
    | some x, some y => UInt8.ofNat (16 * x + y) :: unquoteStr rest
    | _, _ => UInt8.ofNat 37 :: unquoteStr (a :: b :: rest)
  | c :: rest => String.utf8EncodeChar c ++ unquoteStr rest
  | [] => []

def platformPrefix : Str := "platform:/resource/".toList

/-- `s.replace(pat, rep)` for a non-empty pattern (left to right, non-overlapping);
`fuel` = length of `s`. -/
def replaceAll (pat rep : Str) : Nat → Str → Str
  | 0, s => s
  | _, [] => []
  | n + 1, c :: cs =>
    if pat.isPrefixOf (c :: cs) ∧ pat ≠ [] then rep ++ replaceAll pat rep n ((c :: cs).drop pat.length)
    else c :: replaceAll pat rep n cs

/-- `loader.core._unquote_ref` -/
def unquoteRef (ref : Str) : Str :=
  let r := dec (unquoteStr ref)
  if platformPrefix.isPrefixOf r then replaceAll platformPrefix ['.', '.', '/'] r.length r else r

/-- the tree key computed in `__load_referenced_files` for a reference `ref` found in the
fragment with key `resourcePath`: `normalize_pure_path(_unquote_ref(ref), base=resource_path.parent)` -/
def loadRef (resourcePath : List Str) (ref : Str) : List Str :=
  normalize resourcePath.dropLast [unquoteRef ref]

/-! ### the link grammar -/

/-- `[A-Za-z0-9_-]` -/
def isUuidChar (c : Char) : Bool :=
  let n := c.toNat
  (65 ≤ n && n ≤ 90) || (97 ≤ n && n ≤ 122) || (48 ≤ n && n ≤ 57) || c == '_' || c == '-'

/-- `[A-Za-z0-9_-]+` -/
def isUuid (s : Str) : Bool := s ≠ [] && s.all isUuidChar

/-- `[^ #]+` -/
def noSpHash (s : Str) : Bool := s ≠ [] && s.all (fun c => c != ' ' && c != '#')

/-- split at the first occurrence of `c` -/
def splitFirst (c : Char) : Str → Option (Str × Str)
  | [] => none
  | x :: xs =>
    if x = c then some ([], xs)
    else match splitFirst c xs with
      | some (a, b) => some (x :: a, b)
      | none => none

structure Link where
  xtype : Option Str
  fragment : Option Str
  ref : Str
deriving DecidableEq, Repr

/-- `CROSS_FRAGMENT_LINK.fullmatch(s)`: `((xtype ' ')? fragment)? '#')? uuid`, hand-written.
Returns the three groups. -/
def parseLink (s : Str) : Option Link :=
  match splitFirst '#' s with
  | none => if isUuid s then some ⟨none, none, s⟩ else none
  | some (pre, ref) =>
    if !isUuid ref then none
    else if pre = [] then some ⟨none, none, ref⟩
    else match splitFirst ' ' pre with
      | none => if noSpHash pre then some ⟨none, some pre, ref⟩ else none
      | some (xt, fr) =>
        if noSpHash xt && noSpHash fr then some ⟨some xt, some fr, ref⟩ else none

/-- `str.isspace()` for one character (the code points CPython treats as whitespace) -/
def isPySpace (c : Char) : Bool :=
  let n := c.toNat
  (9 ≤ n && n ≤ 13) || (28 ≤ n && n ≤ 32) || n == 0x85 || n == 0xA0 || n == 0x1680 ||
  (0x2000 ≤ n && n ≤ 0x200A) || n == 0x2028 || n == 0x2029 || n == 0x202F || n == 0x205F ||
  n == 0x3000

/-- `s.split()`; `cur` is the word being collected (reversed). -/
def pyWordsAux : Str → Str → List Str
  | cur, [] => if cur = [] then [] else [cur.reverse]
  | cur, c :: cs =>
    if isPySpace c then
      (if cur = [] then pyWordsAux [] cs else cur.reverse :: pyWordsAux [] cs)
    else pyWordsAux (c :: cur) cs

def pyWords (s : Str) : List Str := pyWordsAux [] s

inductive Err
  | valueError      -- malformed link / element without usable ID
  | keyMissing      -- KeyError(link)
  | keyAmbiguous    -- KeyError("Ambiguous reference")
  | typeError       -- expected xsi:type does not match
deriving DecidableEq, Repr

/-- results are compared in examples and in the driver -/
instance instDecEqExcept {α : Type} [DecidableEq α] : DecidableEq (Except Err α)
  | .ok a, .ok b => if h : a = b then isTrue (by rw [h]) else isFalse (fun e => h (Except.ok.inj e))
  | .error a, .error b =>
    if h : a = b then isTrue (by rw [h]) else isFalse (fun e => h (Except.error.inj e))
  | .ok _, .error _ => isFalse (fun e => by cases e)
  | .error _, .ok _ => isFalse (fun e => by cases e)

/-- `helpers.split_links` (generator fully consumed); `next` is `next_xtype`. -/
def splitWords : Str → List Str → Except Err (List Str)
  | next, [] => if next ≠ [] then .error .valueError else .ok []
  | next, part :: rest =>
    if '#' ∈ part then
      let part' := if next ≠ [] then next ++ ' ' :: part else part
      if (parseLink part').isNone then .error .valueError
      else match splitWords [] rest with
        | .ok r => .ok (part' :: r)
        | .error e => .error e
    else if next ≠ [] then .error .valueError
    else splitWords part rest

def splitLinks (links : Str) : Except Err (List Str) := splitWords [] (pyWords links)

/-! ### elements, fragments, loader -/

inductive IdAttr | id | uid | xmiId
deriving DecidableEq, Repr

/-- What the link code sees of an XML element. -/
structure El where
  /-- the ID-like attributes present (`id`, `uid`, `xmi:id`) with their values -/
  ids : List (IdAttr × Str)
  /-- `helpers.xtype_of(element)` -/
  xtype : Option Str
deriving DecidableEq, Repr

/-- A loaded file: its key in `MelodyLoader.trees` (resource name :: file parts) and its elements
in document order. -/
structure Frag where
  path : List Str
  elems : List El
deriving DecidableEq, Repr

def Frag.kind (f : Frag) : Kind := kindOf f.path

/-- `IDTYPES_PER_FILETYPE[suffix]`, in sorted order (`sorted()` puts `uid` before `{…XMI}id`) -/
def idAttrs : Kind → List IdAttr
  | .semantic => [.id]
  | .visual => [.uid, .xmiId]
  | .other => []

/-- does `ModelFile.idcache_index` file element `e` under `ref`? -/
def El.hasId (k : Kind) (e : El) (ref : Str) : Bool :=
  e.ids.any (fun p => p.1 ∈ idAttrs k && p.2 == ref)

/-- `ModelFile.__getitem__`: the id cache is a dict filled in document order, so the last element
carrying the id wins. -/
def Frag.lookup (f : Frag) (ref : Str) : Option El :=
  (f.elems.filter (fun e => e.hasId f.kind ref)).getLast?

/-- `MelodyLoader.trees` in insertion order -/
structure Loader where
  trees : List Frag
deriving Repr

/-- the ID attribute `create_link` puts into the link: the first attribute, in the order of
`idAttrs`, that the target's file type indexes and the element carries. -/
def linkId (k : Kind) (e : El) : Option Str :=
  (idAttrs k).findSome? (fun a => (e.ids.find? (fun p => p.1 = a)).map (·.2))

/-- `MelodyLoader.create_link(from_element, to_element, include_target_type=…)` where the two
elements live in the fragments `fromF` resp. `toF`. -/
def createLink (fromF toF : Frag) (b : El) (includeType : Option Bool := none) :
    Except Err Str :=
  match linkId toF.kind b with
  | none => .error .valueError
  | some id =>
    if fromF.path = toF.path then .ok ('#' :: id)
    else
      let incl := includeType.getD (!(suffix (nameOf fromF.path) ∈ visualExts))
      let link := quote true (enc (relpathStr toF.path fromF.path))
      if !incl then .ok (link ++ '#' :: id)
      else match b.xtype with
        | some (c :: t) => .ok ((c :: t) ++ ' ' :: link ++ '#' :: id)
        | _ => .ok (link ++ '#' :: id)

/-- `MelodyLoader.follow_link(_, link)` -/
def followLink (l : Loader) (link : Str) : Except Err El :=
  match parseLink link with
  | none => .error .valueError
  | some lk =>
    match l.trees.filterMap (fun f => f.lookup lk.ref) with
    | [] => .error .keyMissing
    | [m] =>
      (match lk.xtype with
      | some x => if m.xtype = some x then .ok m else .error .typeError
      | none => .ok m)
    | _ => .error .keyAmbiguous

/-- `MelodyLoader.follow_links(_, links, ignore_broken=ign)`: `split_links` is a generator, so
splitting and following are interleaved and the first problem in text order decides the error. -/
def followWords (l : Loader) (ign : Bool) : Str → List Str → Except Err (List El)
  | next, [] => if next ≠ [] then .error .valueError else .ok []
  | next, part :: rest =>
    if '#' ∈ part then
      let part' := if next ≠ [] then next ++ ' ' :: part else part
      if (parseLink part').isNone then .error .valueError
      else match followLink l part' with
        | .ok e =>
          (match followWords l ign [] rest with
          | .ok r => .ok (e :: r)
          | .error er => .error er)
        | .error er =>
          if ign && (er = .keyMissing || er = .keyAmbiguous || er = .valueError) then
            followWords l ign [] rest
          else .error er
    else if next ≠ [] then .error .valueError
    else followWords l ign part rest

def followLinks (l : Loader) (links : Str) (ign : Bool := false) : Except Err (List El) :=
  followWords l ign [] (pyWords links)

/-- `" ".join(parts)` -/
def joinSpace : List Str → Str
  | [] => []
  | [a] => a
  | a :: b :: rest => a ++ ' ' :: joinSpace (b :: rest)

/-- The attribute text written by `AttrProxyAccessor.__set_links(obj, values)`:
each target comes with the fragment it lives in. -/
def setLinks (fromF : Frag) : List (Frag × El) → Except Err (List Str)
  | [] => .ok []
  | (toF, b) :: rest =>
    match createLink fromF toF b with
    | .error e => .error e
    | .ok s => match setLinks fromF rest with
      | .ok r => .ok (s :: r)
      | .error e => .error e

/-! ### editing a list attribute that was written before

Between two writes of one attribute the referrer or a member may have been moved into another file
(`DirectProxyAccessor.insert` re-parents the element, its id is unchanged).  The state the writers see is
the loader at the time of the write: every member comes with the fragment that holds it NOW. -/

/-- `AttrProxyAccessor.insert(elmlist, index, value)` (the attribute text written; `0 ≤ index`):
`objs = [*elmlist[:index], value, *elmlist[index:]]`, then `__set_links(parent, objs)` — the link of EVERY
member is created anew, the text that stood in the attribute is not reused. -/
def attrInsert (fromF : Frag) (members : List (Frag × El)) (index : Nat) (value : Frag × El) :
    Except Err (List Str) :=
  setLinks fromF (members.take index ++ value :: members.drop index)

/-- `AttrProxyAccessor.delete(elmlist, obj)`: `objs = [i for i in elmlist if i._element is not obj._element]`,
then `__set_links`; `index` is the position of `obj` in a list without repeated members. -/
def attrDelete (fromF : Frag) (members : List (Frag × El)) (index : Nat) : Except Err (List Str) :=
  setLinks fromF (members.eraseIdx index)

end Capella.Links
