import Capella.Model.XmlEdit
/-
Model of the namespace-map recomputation `MelodyLoader.save()` performs before it writes anything:

* `capellambse/_namespaces.py`: `get_namespace_prefix`, `Plugin.matches_version`
* `capellambse/helpers.py`: `xtype_of`
* `capellambse/loader/core.py`: `ModelFile.update_namespaces`, `MelodyLoader.update_namespaces`,
  `MelodyLoader.referenced_viewpoints` / `__find_metadata`

The plugin table (`NAMESPACES_PLUGINS`) is a parameter `t : List Plugin`; the live table is generated
into `Capella/Gen/Ns.lean` on every run together with the kernel-checked facts the theorems need.

Mirrored **as coded**, including what only shows on trees Capella never writes: the text and tail of a
replaced root are not copied, comments *after* the root come back in reverse order (`addnext` in a
forward loop) and comments around the root lose their tails, a type prefix that is neither a known plugin nor declared is skipped with a log line.

Two situations are *not* modelled, they are reported as `NsErr.childDeclares` / `NsErr.needsFixup`
(never silently treated as success): when the root has to be replaced and (1) an element below the root
carries namespace declarations of its own, or (2) a tag or attribute name lives in a namespace the new
map does not contain — there lxml's `moveNodeToDocument` / `makeelement` invent declarations
(`ns0`, re-declaration on the moved child).  Assumption on inputs: namespace URIs contain no line
break and no non-ASCII decimal digit (Python's `\d`, `int()` accept those).
-/
namespace Capella.Xml

/-! ## The plugin table -/

/-- `Plugin.version`: `None`, one version, or a `(min, max)` range -/
inductive PVersion where
  | none
  | exact (v : Str)
  | range (lo hi : Str)
  deriving DecidableEq, Repr

/-- one entry of `NAMESPACES_PLUGINS` (`key` is the dictionary key, i.e. the namespace prefix) -/
structure Plugin where
  key : Str
  name : Str
  version : PVersion
  viewpoint : Option Str
  precision : Nat
  deriving DecidableEq, Repr

inductive NsErr where
  | unsupportedPlugin     -- `UnsupportedPluginError`
  | unsupportedVersion    -- `UnsupportedPluginVersionError`
  | ambiguous             -- `RuntimeError("Ambiguous namespace …")`
  | valueError            -- `int()` of a non-number inside `matches_version`
  | viewpointMissing      -- `CorruptModelError("Viewpoint not activated: …")`
  | assertion             -- `assert new_nsmap.get(ns) in (None, uri)` / `assert plugin.viewpoint is not None`
  | noMetadata            -- `RuntimeError("Cannot find …")`
  | keyError              -- `i.attrib["vpId"]` / `["version"]`
  | childDeclares         -- not modelled: an element below the replaced root declares namespaces
  | needsFixup            -- not modelled: lxml has to invent a declaration (`ns0`, re-declaration)
  deriving DecidableEq, Repr

/-! ## `get_namespace_prefix` -/

def isDigitA (c : Char) : Bool := 48 ≤ c.toNat && c.toNat ≤ 57

/-- `s.split(sep)` (never empty) -/
def splitOnC (sep : Char) : Str → List Str
  | [] => [[]]
  | c :: rest =>
    if c = sep then [] :: splitOnC sep rest
    else match splitOnC sep rest with
      | l :: ls => (c :: l) :: ls
      | [] => [[c]]

/-- full match of `(?:\d+\.)*\d+` -/
def isVersionStr (s : Str) : Bool :=
  (splitOnC '.' s).all fun part => part != [] && part.all isDigitA

/-- split after the last `/`: (up to and including it, the rest) -/
def splitLastSlash : Str → Option (Str × Str)
  | [] => none
  | c :: rest =>
    match splitLastSlash rest with
    | some (a, b) => some (c :: a, b)
    | none => if c = '/' then some ([c], rest) else none

/-- `re.match(r"(.*/)((?:\d+\.)*\d+)$", url)`: `(plugin_name, version)`; `.*` is greedy, so the split
is at the last `/`, and the rest has to be a dotted number -/
def splitVersion (url : Str) : Str × Option Str :=
  match splitLastSlash url with
  | some (a, b) => if isVersionStr b then (a, some b) else (url, none)
  | none => (url, none)

/-- `int(s)` for an ASCII digit string -/
def intOf (s : Str) : Option Nat := numOf 10 decVal s

/-- the `zip(min.split("."), max.split("."), value.split("."))` loop of `matches_version`;
`none` = `ValueError` -/
def rangeLoop : List Str → List Str → List Str → Option Bool
  | lo :: los, hi :: his, v :: vs =>
    match intOf lo, intOf v, intOf hi with
    | some a, some b, some c => if a ≤ b && b ≤ c then rangeLoop los his vs else some false
    | _, _, _ => none
  | _, _, _ => some true

/-- `Plugin.matches_version(value)`; `none` = `ValueError` -/
def matchesVersion (pv : PVersion) (value : Option Str) : Option Bool :=
  match value with
  | none => some (pv == .none)
  | some v =>
    match pv with
    | .none => some true
    | .exact w => some (w == v)
    | .range lo hi => rangeLoop (splitOnC '.' lo) (splitOnC '.' hi) (splitOnC '.' v)

/-- `_namespaces.get_namespace_prefix(url)` -/
def nsPrefixOf (t : List Plugin) (url : Str) : Except NsErr Str :=
  let pv := splitVersion url
  match t.filter (fun p => p.name == pv.1 || p.name == url) with
  | [] => .error .unsupportedPlugin
  | [p] =>
    match matchesVersion p.version pv.2 with
    | none => .error .valueError
    | some true => .ok p.key
    | some false => .error .unsupportedVersion
  | _ => .error .ambiguous

/-- `get_namespace_prefix(url) == key` (for the generated obligations) -/
def nsPrefixIs (t : List Plugin) (url key : Str) : Bool :=
  match nsPrefixOf t url with
  | .ok k => k == key
  | .error _ => false

/-! ## `helpers.xtype_of` -/

def attXT : Str := clark XSI "type".toList
def attXMT : Str := clark XMI "type".toList

/-- a non-empty attribute value (`if xtype := elem.get(…)`) -/
def truthyAttr (k : Str) (attrs : List (Str × Str)) : Option Str :=
  match lookupAttr k attrs with
  | some (c :: cs) => some (c :: cs)
  | _ => none

/-- `xtype_of(elem)`: `xsi:type`, else `xmi:type`, else reconstructed from a namespaced tag -/
def xtypeOf (t : List Plugin) (tag : Str) (attrs : List (Str × Str)) : Except NsErr (Option Str) :=
  match truthyAttr attXT attrs with
  | some x => .ok (some x)
  | none =>
    match truthyAttr attXMT attrs with
    | some x => .ok (some x)
    | none =>
      let q := splitName tag
      if q.1 = [] then .ok none
      else match nsPrefixOf t q.1 with
        | .ok k => .ok (some (k ++ ':' :: q.2))
        | .error e => .error e

/-- `xtype.partition(":")[0]` -/
def typePrefix (x : Str) : Str :=
  match splitColon x with
  | some (p, _) => p
  | none => x

/-! ## `ModelFile.update_namespaces` -/

/-- `s.rstrip("/")` -/
def rstripSlash (s : Str) : Str := (s.reverse.dropWhile (· == '/')).reverse

/-- a character a namespace URI may contain if it is to survive being written unescaped (`uriOk`) -/
def uriCharOk (c : Char) : Bool :=
  c != '"' && c != '&' && c != '<' && c != '\t' && c != '\n' && c != '\r'

/-- what a row of the plugin table must satisfy for the theorems about `updateNs`: a well-formed prefix
as key, a URI stem that can be written unescaped, a positive precision (`assert prec > 0`), versioned
plugins have a viewpoint (`Plugin.__post_init__`), range bounds are dotted numbers.  Checked by the
kernel for every row of the live table (`Capella/Gen/Ns.lean`). -/
def Plugin.ok (p : Plugin) : Bool :=
  nameOk p.key && p.key != xmlnsStr && uriOk (rstripSlash p.name) && decide (0 < p.precision) &&
  (match p.version with
   | .none => true
   | .exact v => p.viewpoint.isSome && v.all (fun c => c != '?')
   | .range lo hi => p.viewpoint.isSome && isVersionStr lo && isVersionStr hi)

/-- `NAMESPACES_PLUGINS.get(ns)` -/
def findPlugin (t : List Plugin) (ns : Str) : Option Plugin := t.find? (·.key == ns)

/-- the URI a known plugin is declared with: its name, for versioned plugins followed by the
activated viewpoint's version rounded to the plugin's precision -/
def pluginUri (vps : List (Str × Str)) (p : Plugin) : Except NsErr Str :=
  let base := rstripSlash p.name
  if p.version = .none then .ok base
  else match p.viewpoint with
    | none => .error .assertion
    | some vp =>
      match lookupNs vp vps with
      | some (c :: cs) => .ok (base ++ '/' :: roundVersion (c :: cs) p.precision)
      | _ => .error .viewpointMissing

/-- what one element asks of the namespace map, before its own `nsmap` is consulted -/
inductive Ask where
  | nothing                     -- no type at all, or the empty prefix
  | fixed (b : Str × Str)       -- a known plugin: prefix and computed URI
  | lookup (ns : Str)           -- an unknown prefix: whatever `elem.nsmap[ns]` says
  deriving DecidableEq, Repr

/-- the part of the loop body that does not depend on `elem.nsmap` -/
def ask (t : List Plugin) (vps : List (Str × Str)) (tag : Str) (attrs : List (Str × Str)) :
    Except NsErr Ask :=
  match xtypeOf t tag attrs with
  | .error e => .error e
  | .ok none => .ok .nothing
  | .ok (some x) =>
    let ns := typePrefix x
    match findPlugin t ns with
    | none =>
      -- `elem.nsmap[ns]`; lxml's key for the default namespace is `None`, never `""`
      if ns = [] then .ok .nothing else .ok (.lookup ns)
    | some p =>
      match pluginUri vps p with
      | .ok uri => .ok (.fixed (ns, uri))
      | .error e => .error e

/-- what one element asks for: `none` = nothing (no type, or an unknown undeclared prefix —
"Undefined and unknown namespace", `continue`), `some (ns, uri)` = the binding `new_nsmap` must hold.
`nsmap` is `elem.nsmap`. -/
def wanted (t : List Plugin) (vps : List (Str × Str)) (nsmap : List (Str × Str)) (tag : Str)
    (attrs : List (Str × Str)) : Except NsErr (Option (Str × Str)) :=
  match ask t vps tag attrs with
  | .error e => .error e
  | .ok .nothing => .ok none
  | .ok (.fixed b) => .ok (some b)
  | .ok (.lookup ns) => .ok ((lookupNs ns nsmap).map fun uri => (ns, uri))

/-- `assert new_nsmap.get(ns) in (None, uri); new_nsmap[ns] = uri` -/
def addBinding (acc : List (Str × Str)) (b : Str × Str) : Except NsErr (List (Str × Str)) :=
  match lookupNs b.1 acc with
  | none => .ok (acc ++ [b])
  | some u => if u = b.2 then .ok acc else .error .assertion

/-- one element of `self.root.iter()` as the loop sees it: `(elem.nsmap, elem.tag, elem.attrib)` -/
abbrev Item := List (Str × Str) × Str × List (Str × Str)

mutual
/-- `root.iter()`: the elements in document order, each with its `nsmap` -/
def iterS (pns : List (Str × Str)) : Elem → List Item
  | .mk tag nsd attrs _ _ kids => (scope pns nsd, tag, attrs) :: iterSL (scope pns nsd) kids
def iterSL (nsmap : List (Str × Str)) : List Elem → List Item
  | [] => []
  | k :: ks => iterS nsmap k ++ iterSL nsmap ks
end

/-- the `for elem in self.root.iter()` loop -/
def scanGo (t : List Plugin) (vps : List (Str × Str)) : List Item → List (Str × Str) →
    Except NsErr (List (Str × Str))
  | [], acc => .ok acc
  | x :: rest, acc =>
    match wanted t vps x.1 x.2.1 x.2.2 with
    | .error e => .error e
    | .ok none => scanGo t vps rest acc
    | .ok (some b) =>
      match addBinding acc b with
      | .error e => .error e
      | .ok acc' => scanGo t vps rest acc'

/-- specification side: some element of the tree asks for the binding `b` -/
def Asked (t : List Plugin) (vps : List (Str × Str)) (items : List Item) (b : Str × Str) : Prop :=
  ∃ x ∈ items, wanted t vps x.1 x.2.1 x.2.2 = .ok (some b)

def nsInit : List (Str × Str) := [("xmi".toList, XMI), ("xsi".toList, XSI)]

/-- `new_nsmap` -/
def newNsmap (t : List Plugin) (vps : List (Str × Str)) (root : Elem) : Except NsErr (List (Str × Str)) :=
  scanGo t vps (iterS [] root) nsInit

/-- `dict == dict` for association lists with distinct keys -/
def dictEq (a b : List (Str × Str)) : Bool :=
  (a.all fun p => lookupNs p.1 b == some p.2) && (b.all fun p => lookupNs p.1 a == some p.2)

/-- the namespace of a name in Clark notation is one of `uris` (or the name has none) -/
def nameCovered (uris : List Str) (name : Str) : Bool :=
  (splitName name).1 = [] || uris.contains (splitName name).1

mutual
def urisCovered (uris : List Str) : Elem → Bool
  | .mk tag _ attrs _ _ kids =>
    nameCovered uris tag && attrs.all (fun kv => nameCovered uris kv.1) && urisCoveredL uris kids
def urisCoveredL (uris : List Str) : List Elem → Bool
  | [] => true
  | k :: ks => urisCovered uris k && urisCoveredL uris ks
end

mutual
def noDecls : Elem → Bool
  | .mk _ nsd _ _ _ kids => nsd.isEmpty && noDeclsL kids
def noDeclsL : List Elem → Bool
  | [] => true
  | k :: ks => noDecls k && noDeclsL ks
end

/-- the replaced root: same tag, attributes and children; `nsmap=dict(sorted(new_nsmap.items()))`;
text and tail are not copied -/
def replaceRoot (n : List (Str × Str)) : Elem → Elem
  | .mk tag _ attrs _ _ kids => .mk tag (sortKV n) attrs none none kids

/-- a comment re-attached next to the new root with `addprevious` / `addnext`: the new root is the root of
its own document (`etree.Element`), and lxml discards the tail of a node that becomes a sibling of a
document root -/
def dropTail (c : Comment) : Comment := ⟨c.text, none⟩

/-- `ModelFile.update_namespaces(viewpoints)` on the document of a fragment.  Comments in front of the
root keep their order (`addprevious` over the reversed backwards iteration), comments behind it end
up reversed (`addnext` in a forward loop); both lose their tails. -/
def updateNs (t : List Plugin) (vps : List (Str × Str)) (d : Doc) : Except NsErr Doc :=
  match newNsmap t vps d.root with
  | .error e => .error e
  | .ok n =>
    if dictEq d.root.nsdecls n then .ok d
    else if !noDeclsL d.root.kids then .error .childDeclares
    else if !urisCovered ((sortKV n).map (·.2)) d.root then .error .needsFixup
    else .ok ⟨d.pre.map dropTail, replaceRoot n d.root, d.post.reverse.map dropTail⟩

/-- specification side: the prefix of every type occurring in the tree is declared on the root -/
def typePrefixesDeclared (t : List Plugin) (d : Doc) : Bool :=
  (iterS [] d.root).all fun x =>
    match xtypeOf t x.2.1 x.2.2 with
    | .ok (some ty) => (d.root.nsdecls.map (·.1)).contains (typePrefix ty)
    | _ => true

/-! ## Fragment placeholders

In the parent file of a fragment the fragmented element is represented by a placeholder: containment tag,
`xsi:type` and `href="<file>#<id>"`, no children.  `update_namespaces` walks `self.root.iter()`, which makes no
difference between a placeholder and any other element: the placeholder's type asks for its namespace like every
other type (a project fragmented per architecture layer has `oa:OperationalAnalysis` *only* on a placeholder of the
main file).  The definitions below are the specification side of that: what a collection that looked at
non-placeholders only (e.g. one representative per type out of `ModelFile.iterall_xt`, which hides placeholders)
would compute. -/

/-- the element carries an `href` attribute (a fragment placeholder in a semantic file) -/
def isPlaceholder (x : Item) : Bool := (lookupAttr "href".toList x.2.2).isSome

/-- NOT what the code does: the namespace map collected from the non-placeholder elements only -/
def newNsmapSkippingPlaceholders (t : List Plugin) (vps : List (Str × Str)) (root : Elem) :
    Except NsErr (List (Str × Str)) :=
  scanGo t vps ((iterS [] root).filter fun x => !isPlaceholder x) nsInit

/-! ## `MelodyLoader.referenced_viewpoints`, `MelodyLoader.update_namespaces` -/

def METADATA_NS : Str := "http://www.polarsys.org/kitalpha/ad/metadata/1.0.0".toList
def METADATA_TAG : Str := clark METADATA_NS "Metadata".toList

mutual
/-- `next(root.iter(tag), None)` -/
def findTag (tag : Str) : Elem → Option Elem
  | .mk tg nsd attrs text tail kids =>
    if tg = tag then some (.mk tg nsd attrs text tail kids) else findTagL tag kids
def findTagL (tag : Str) : List Elem → Option Elem
  | [] => none
  | k :: ks => match findTag tag k with
    | some e => some e
    | none => findTagL tag ks
end

/-- `dict(...)` over `(vpId, version)` of the `viewpointReferences` children -/
def vpRefs : List Elem → List (Str × Str) → Except NsErr (List (Str × Str))
  | [], acc => .ok acc
  | k :: ks, acc =>
    if k.tag = "viewpointReferences".toList then
      match lookupAttr "vpId".toList k.attrs, lookupAttr "version".toList k.attrs with
      | some i, some v => vpRefs ks (setKV i v acc)
      | _, _ => .error .keyError
    else vpRefs ks acc

/-- `dict(self.referenced_viewpoints())` from the root of the primary `.afm` file -/
def viewpointsOf (afmRoot : Option Elem) : Except NsErr (List (Str × Str)) :=
  match afmRoot with
  | none => .error .noMetadata
  | some r =>
    match findTag METADATA_TAG r with
    | none => .error .noMetadata
    | some m => vpRefs m.kids []

/-- the loop of `MelodyLoader.update_namespaces` over `self.trees` (every resource, semantic fragments
only); the first error aborts `save()` before anything is written -/
def updateFrags (t : List Plugin) (vps : List (Str × Str)) :
    List (FragKind × Doc) → Except NsErr (List (FragKind × Doc))
  | [] => .ok []
  | (k, d) :: rest =>
    if k = .semantic then
      match updateNs t vps d with
      | .error e => .error e
      | .ok d' => match updateFrags t vps rest with
        | .error e => .error e
        | .ok r => .ok ((k, d') :: r)
    else match updateFrags t vps rest with
      | .error e => .error e
      | .ok r => .ok ((k, d) :: r)

def updateAll (t : List Plugin) (afmRoot : Option Elem) (frags : List (FragKind × Doc)) :
    Except NsErr (List (FragKind × Doc)) :=
  match viewpointsOf afmRoot with
  | .error e => .error e
  | .ok vps => updateFrags t vps frags

end Capella.Xml
