import Capella.Model.GitPush

/-!
# Transaction objects: making one and entering it are two steps (C16)

`handler.write_transaction(**opts)` only *makes* a `_GitTransaction` (`__init__`: options, the target ref with
its object-name refusal); nothing about the repository's revisions is read.  `with tx:` *enters* it:
`__enter__` reads `rev-parse HEAD` — the base of the new commit and the roll-back target — runs the "already
open" check, the body follows, `__exit__` finishes or rolls back and forgets the base again
(`del self.__old_sha`).  The idiomatic `with handler.write_transaction(...):` does both at once
(`Capella.Git.transactionPush`); but nothing forbids to prepare several objects and to enter them later, in
any order, or to enter one object twice (the outer context of `FileHandler.write_transaction` is re-enterable).

This file mirrors that split (`create`, `enterRun`), histories of such steps on one handler (`Step`, `World`,
`step`, `runSteps`), and — for the witness theorem only — the variant in which the base revision is read when
the object is made and kept (`createStale`, `enterRunStale`).  Core Lean only.
-/
namespace Capella.Git

/-- the object `handler.write_transaction(**opts)` returns (`_GitTransaction` after `__init__`): the options and
the resolved target ref.  It holds NO revision. -/
structure Txn where
  o : Opts
  po : PushOpts
  target : Str

section
variable {P : Type} [DecidableEq P]
variable (fault : Option Nat)

/-- `_GitTransaction.__init__`: `target = remote_branch or revision`, the `"HEAD"` resolution, the object-name
refusal, the `refs/heads/` prefix -/
def create (rev : Str) (o : Opts) (po : PushOpts) (s : St P) : St P × Except Err Txn :=
  let s := { s with calls := 0, trace := [] }
  let target0 := o.remoteBranch.getD rev
  let s := if target0 = headStr then (call fault .revParseSym s).1 else s
  if objectLike target0 then (s, .error .objectlike) else
  (s, .ok { o := o, po := po, target := qualify target0 })

/-- `with tx: body` — `__enter__` (`rev-parse HEAD` **now**, "already open" check), the body, `__exit__` -/
def enterRun (rev : Str) (tx : Txn) (body : List (Op P)) (s : St P) (rem : Remote) : Res P × Remote :=
  match call fault .revParseHead s with
  | (s1, true) => ((s1, some .gitfail), rem)
  | (s1, false) =>
    if s1.txnOpen then ((s1, some .alreadyOpen), rem) else
    let old := s1.head
    match runBody fault (objectLike rev) body { s1 with txnOpen := true } with
    | (s2, some e) => (rollback fault old (some e) { s2 with txnOpen := false }, rem)
    | (s2, none) =>
      match finishPush fault tx.o tx.po tx.target old s2 rem with
      | ((s3, e, true), rem') => (({ s3 with txnOpen := false }, e), rem')
      | ((s3, e, false), rem') => (rollback fault old e { s3 with txnOpen := false }, rem')

/-! ### histories on one handler -/

/-- one step of a history -/
inductive Step (P : Type)
  | create (o : Opts) (po : PushOpts)                           -- `tx = handler.write_transaction(**opts)`
  | run (i : Nat) (fault : Option Nat) (body : List (Op P))     -- `with pool[i]: body`

/-- repository + handler, the remote, and the transaction objects made so far (in order of creation; a
refused creation leaves no object) -/
structure World (P : Type) where
  st : St P
  rem : Remote
  pool : List Txn

def step (rev : Str) : Step P → World P → World P × Option Err
  | .create o po, w =>
    match create none rev o po w.st with
    | (s, .ok tx) => ({ w with st := s, pool := w.pool ++ [tx] }, none)
    | (s, .error e) => ({ w with st := s }, some e)
  | .run i fault body, w =>
    match w.pool[i]? with
    | none => (w, none)
    | some tx =>
      let r := enterRun fault rev tx body { w.st with calls := 0, trace := [] } w.rem
      ({ w with st := r.1.1, rem := r.2 }, r.1.2)

def runSteps (rev : Str) : List (Step P) → World P → World P
  | [], w => w
  | st :: rest, w => runSteps rev rest (step rev st w).1

/-! ### the variant that reads the base revision when the object is made (witness only — NOT the code) -/

/-- `__init__` that also runs `rev-parse HEAD` and keeps the answer in the object -/
def createStale (rev : Str) (o : Opts) (po : PushOpts) (s : St P) : St P × Except Err (Txn × Nat) :=
  match create fault rev o po s with
  | (s0, .error e) => (s0, .error e)
  | (s0, .ok tx) =>
    match call fault .revParseHead s0 with
    | (s1, true) => (s1, .error .gitfail)
    | (s1, false) => (s1, .ok (tx, s1.head))

/-- `with tx: body` on top of the remembered base -/
def enterRunStale (rev : Str) (tx : Txn) (base : Nat) (body : List (Op P)) (s : St P) (rem : Remote) : Res P × Remote :=
  if s.txnOpen then ((s, some .alreadyOpen), rem) else
  match runBody fault (objectLike rev) body { s with txnOpen := true } with
  | (s2, some e) => (rollback fault base (some e) { s2 with txnOpen := false }, rem)
  | (s2, none) =>
    match finishPush fault tx.o tx.po tx.target base s2 rem with
    | ((s3, e, true), rem') => (({ s3 with txnOpen := false }, e), rem')
    | ((s3, e, false), rem') => (rollback fault base e { s3 with txnOpen := false }, rem')

end
end Capella.Git
