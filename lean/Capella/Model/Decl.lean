/-
`capellambse.decl.apply` as a small-step machine over an abstract object graph.

Mirrors (as coded) `apply`, `_resolve`, `_resolve_findby`, `_operate_create/extend/set/sync/delete`,
`_create_complex_objects`, `_create_complex_object` of `/repo/capellambse/decl.py`.

* The Python generators are consumed lazily by the loop in `apply`: a `(promise, object)` pair is
  registered (duplicate check, `promises[p] = obj`, `instructions.extend(deferred.pop(p))`) *before*
  the generator continues.  The machine therefore keeps an explicit **agenda** (the not yet executed
  rest of the instruction that is being applied, a stack in generator order) next to the
  `instructions` deque (`queue`), the `promises` dict (`ps`) and the `deferred` defaultdict
  (`deferred`, one flat list in insertion order; `pop p` = the entries filed under `p`, in order).
* A deferred entry `{"parent": <object>, "extend": {attr: [child]}}` (resp. `set`, `sync`) is the
  `Action.piece`; an instruction whose parent promise is unresolved is re-filed whole (`Action.whole`).
* Fresh UUIDs are *inputs*: every creation site of the document carries the id its object will get
  (`nid`; a sync entry carries a second one for the re-creation described at `Work.resync`).
* The metamodel is a parameter `MM` (generated from the live classes as `Capella/Gen/DeclMeta*.lean`):
  for every (class, attribute) what `getattr(parent, attr)` is for `_create_complex_objects` (no such
  attribute / not a list, a list that is not model-coupled, a coupled list with the way its accessor
  creates members, its `single_attr` and `fixed_length`), and which `_type` hints `_match_xtype` accepts.
  `MM.free dflt` is the permissive metamodel (every attribute a coupled list, every hint a class).
-/
namespace Capella.Decl

abbrev Str := List Char
abbrev Id := Nat

/-- a resolved attribute value: a plain string or a model object -/
inductive RVal
  | str (s : Str)
  | obj (i : Id)
  deriving DecidableEq, Repr, Inhabited

/-- scalar value as written: plain string, `!promise`, `!uuid`, or an already resolved model element
(`_resolve` replaces list entries in place, and deferred pieces carry the resolved parent) -/
inductive Atom
  | str (s : Str)
  | promise (p : Str)
  | uuid (i : Id)
  | obj (i : Id)
  deriving DecidableEq, Repr, Inhabited

/-- an `Atom` or a `!find {_type: ty, k: v, …}` (values of find keys are atoms: no nested `!find`) -/
inductive Val
  | atom (a : Atom)
  | find (ty : Option Str) (keys : List (Str × Atom))
  deriving DecidableEq, Repr, Inhabited

/-- an entry of a list below `extend:`/`create:`/`set:` — an object description
(`promise_id`, `_type`, simple attributes in document order, list-valued attributes in document order)
or a reference to be appended -/
inductive Item
  | obj (nid : Id) (pid : Option Str) (ty : Option Str) (scal : List (Str × Val))
      (kids : List (Str × List Item))
  | ref (v : Val)
  /-- a plain string child: `target.create_singleattr(child)`; `nid` is the id its object gets -/
  | str (nid : Id) (s : Str)
  deriving Inhabited

inductive SetVal
  | scalar (v : Val)
  | list (l : List Item)
  deriving Inhabited

/-- an entry of a list below `sync:` — `find` (type hint + keys), `promise_id`, `set`, `extend`, `sync` -/
inductive SyncObj
  | mk (nid nid2 : Id) (ty : Option Str) (keys : List (Str × Atom)) (pid : Option Str)
      (set : List (Str × SetVal)) (ext : List (Str × List Item)) (sync : List (Str × List SyncObj))
  deriving Inhabited

structure Instr where
  parent : Val
  create : List (Str × List Item) := []
  ext : List (Str × List Item) := []
  set : List (Str × SetVal) := []
  sync : List (Str × List SyncObj) := []
  del : List (Str × List Val) := []
  deriving Inhabited

/-- the three shapes of `{"parent": obj, op: {attr: …}}` filed by the operators -/
inductive Piece
  | item (attr : Str) (x : Item)          -- {"extend": {attr: [x]}}
  | setE (attr : Str) (v : SetVal)        -- {"set": {attr: v}}
  | sync (attr : Str) (so : SyncObj)      -- {"sync": {attr: [so]}}
  /-- {"sync": {attr: [{find, sync}]}}: the reduced entry of the create branch's recursive call -/
  | resync (attr : Str) (nid2 : Id) (ty : Option Str) (keys : List (Str × Atom))
      (sync : List (Str × List SyncObj))

/-- what sits in `instructions` and `deferred` -/
inductive Action
  | whole (i : Instr)
  | piece (par : Id) (w : Piece)

/-- the rest of the instruction being applied, in generator order -/
inductive Work
  | items (par : Id) (attr : Str) (l : List Item)       -- `_create_complex_objects` loop
  | sets (par : Id) (l : List (Str × SetVal))           -- `_operate_set` loop
  | syncs (par : Id) (attr : Str) (l : List SyncObj)    -- `_operate_sync` inner loop
  /-- the recursive call `_operate_sync(promises, parent, {attr: [obj]})` after the create branch
  (`obj` is by then `{find, sync}`) -/
  | resync (par : Id) (attr : Str) (nid2 : Id) (ty : Option Str) (keys : List (Str × Atom))
      (sync : List (Str × List SyncObj))
  | fulfil (p : Str) (i : Id)                           -- `yield (promise, candidate)` of the found branch
  | dels (par : Id) (attr : Str) (l : List Val)         -- `_operate_delete` inner loop

inductive Err
  | dupPromise (p : Str)          -- ValueError "promise_id defined twice"
  | unfulfilled (ps : List Str)   -- UnfulfilledPromisesError(frozenset(deferred))
  | notFound                      -- _NoObjectFoundError outside sync
  | ambiguous                     -- ValueError "Ambiguous match directive"
  | keyError                      -- by_uuid on an unknown id
  | typeError
  | valueError
  | diverge                       -- the recursion of the sync create branch would never end
  | outOfFuel
  deriving DecidableEq, Repr, Inhabited

/-! ## the abstract object graph -/

structure Graph where
  /-- (id, class) in creation order -/
  objs : List (Id × Str) := []
  /-- scalar attributes, at most one entry per (object, attribute) -/
  scal : List ((Id × Str) × RVal) := []
  /-- list membership (owner, attribute, member) in insertion order -/
  edges : List (Id × Str × Id) := []
  deriving DecidableEq, Repr, Inhabited

namespace Graph

def has (g : Graph) (i : Id) : Bool := g.objs.any (·.1 == i)

def clsOf (g : Graph) (i : Id) : Option Str := g.objs.lookup i

def getScal (g : Graph) (i : Id) (k : Str) : Option RVal := g.scal.lookup (i, k)

/-- replace the value at `key`, or append a new entry (the position of an existing entry is kept, so
that assigning the value an attribute already has leaves the graph literally unchanged) -/
def upd (key : Id × Str) (v : RVal) : List ((Id × Str) × RVal) → List ((Id × Str) × RVal)
  | [] => [(key, v)]
  | e :: t => if e.1 == key then (key, v) :: t else e :: upd key v t

/-- `setattr(obj, k, v)` -/
def setScal (g : Graph) (i : Id) (k : Str) (v : RVal) : Graph :=
  { g with scal := upd (i, k) v g.scal }

def setScals (g : Graph) (i : Id) : List (Str × RVal) → Graph
  | [] => g
  | (k, v) :: t => setScals (g.setScal i k v) i t

/-- `getattr(parent, attr)` as a list of ids, in order -/
def members (g : Graph) (par : Id) (attr : Str) : List Id :=
  (g.edges.filter (fun e => e.1 == par && e.2.1 == attr)).map (·.2.2)

/-- `target.append(obj)` -/
def append (g : Graph) (par : Id) (attr : Str) (i : Id) : Graph :=
  { g with edges := g.edges ++ [(par, attr, i)] }

/-- `target.create(*type_hint, **simple_attrs)`: new object, its attributes, appended to the list -/
def create (g : Graph) (par : Id) (attr : Str) (nid : Id) (cls : Str) (sc : List (Str × RVal)) : Graph :=
  (({ g with objs := g.objs ++ [(nid, cls)] } : Graph).setScals nid sc).append par attr nid

/-- `getattr(parent, attr).clear()` (members of a containment list become unreachable) -/
def clear (g : Graph) (par : Id) (attr : Str) : Graph :=
  { g with edges := g.edges.filter (fun e => !(e.1 == par && e.2.1 == attr)) }

/-- `del target[target.index(obj)]`: the first occurrence -/
def remove (g : Graph) (par : Id) (attr : Str) (i : Id) : Graph :=
  { g with edges := g.edges.erase (par, attr, i) }

/-- the filter of `_resolve_findby`: optional type, then equality on every key -/
def isMatch (g : Graph) (ty : Option Str) (rk : List (Str × RVal)) (i : Id) : Bool :=
  (match ty with | none => true | some t => g.clsOf i == some t) &&
  rk.all (fun kv => g.getScal i kv.1 == some kv.2)

/-- zero / one / several candidates -/
def findAmong (g : Graph) (cands : List Id) (ty : Option Str) (rk : List (Str × RVal)) :
    Except Err (Option Id) :=
  match cands.filter (g.isMatch ty rk) with
  | [] => .ok none
  | [c] => .ok (some c)
  | _ => .error .ambiguous

end Graph

/-! ## `_resolve` / `_resolve_findby` -/

/-- `_UnresolvablePromise(p)` or an ordinary exception -/
inductive Sig
  | unres (p : Str)
  | err (e : Err)
  deriving DecidableEq, Repr

abbrev Promises := List (Str × Id)

def resolveAtom (ps : Promises) (g : Graph) : Atom → Except Sig RVal
  | .str s => .ok (.str s)
  | .promise p => match ps.lookup p with
    | some i => .ok (.obj i)
    | none => .error (.unres p)
  | .uuid i => if g.has i then .ok (.obj i) else .error (.err .keyError)
  | .obj i => .ok (.obj i)

/-- the loop `for k, v in attrs.items(): attrs[k] = _resolve(…)`: first failure wins -/
def resolveKeys (ps : Promises) (g : Graph) : List (Str × Atom) → Except Sig (List (Str × RVal))
  | [] => .ok []
  | (k, a) :: t => do
    let v ← resolveAtom ps g a
    let r ← resolveKeys ps g t
    pure ((k, v) :: r)

/-- `_resolve_findby` with candidates `cands`; `none` = `_NoObjectFoundError` -/
def resolveFind (ps : Promises) (g : Graph) (cands : List Id) (ty : Option Str)
    (keys : List (Str × Atom)) : Except Sig (Option Id × List (Str × RVal)) := do
  let rk ← resolveKeys ps g keys
  match g.findAmong cands ty rk with
  | .error e => .error (.err e)
  | .ok c => pure (c, rk)

def resolveVal (ps : Promises) (g : Graph) : Val → Except Sig RVal
  | .atom a => resolveAtom ps g a
  | .find ty keys => do
    let (c, _) ← resolveFind ps g (g.objs.map (·.1)) ty keys
    match c with
    | none => .error (.err .notFound)
    | some i => pure (.obj i)

/-- simple attributes of an object description, in document order -/
def resolveScal (ps : Promises) (g : Graph) : List (Str × Val) → Except Sig (List (Str × RVal))
  | [] => .ok []
  | (k, v) :: t => do
    let r ← resolveVal ps g v
    let rs ← resolveScal ps g t
    pure ((k, r) :: rs)

/-- `_resolve(promises, parent, value)` for a list below `set:`: entries that are references are
replaced in place, object descriptions are left alone; on the first unresolvable promise the list
(with the replacements made so far) is what gets deferred. Returns the rewritten list and the
signal, if any. -/
def resolveRefs (ps : Promises) (g : Graph) : List Item → List Item × Option Sig
  | [] => ([], none)
  | .obj n p t s k :: l =>
    let (l', e) := resolveRefs ps g l
    (.obj n p t s k :: l', e)
  | .str n s :: l =>
    let (l', e) := resolveRefs ps g l
    (.str n s :: l', e)
  | .ref v :: l =>
    match resolveVal ps g v with
    | .error e => (.ref v :: l, some e)
    | .ok (.obj i) =>
      let (l', e) := resolveRefs ps g l
      (.ref (.atom (.obj i)) :: l', e)
    | .ok (.str s) =>
      let (l', e) := resolveRefs ps g l
      (.ref (.atom (.str s)) :: l', e)

/-! ## the machine -/

structure State where
  g : Graph
  ps : Promises := []
  deferred : List (Str × Action) := []
  queue : List Action := []
  agenda : List Work := []

/-- `deferred[p].append(a)` -/
def State.defer (s : State) (p : Str) (a : Action) : State :=
  { s with deferred := s.deferred ++ [(p, a)] }

/-- the body of the `for promise, outcome in apply_op(...)` loop for an object outcome -/
def State.fulfil (s : State) (p : Str) (i : Id) : Except Err State :=
  if (s.ps.lookup p).isSome then .error (.dupPromise p)
  else .ok { s with
    ps := s.ps ++ [(p, i)]
    queue := s.queue ++ (s.deferred.filter (fun e => e.1 == p)).map (·.2)
    deferred := s.deferred.filter (fun e => !(e.1 == p)) }

def State.fulfilOpt (s : State) (pid : Option Str) (i : Id) : Except Err State :=
  match pid with
  | none => .ok s
  | some p => s.fulfil p i

/-! ## the metamodel (what `decl` asks of the object layer) -/

/-- how the accessor of a coupled list creates a member (`WritableAccessor.create` and its overrides) -/
inductive Creator
  /-- `_create`: a `_type` hint goes through `_match_xtype`, no hint through `_guess_xtype`
  (`dflt = none`: "Multiple/No matching xsi:type" ValueError) -/
  | xtype (dflt : Option Str)
  /-- `WritableAccessor.create` not overridden: TypeError "Cannot create objects" -/
  | cannot
  /-- an accessor whose `create` is not modelled (outcome not compared) -/
  | other (name : Str)
  deriving DecidableEq, Repr, Inhabited

/-- what `getattr(parent, attr)` is, as far as `_create_complex_objects` looks -/
inductive AttrKind
  /-- AttributeError, or not an `ElementList`: TypeError -/
  | absent
  /-- an `ElementList` without `ElementListCouplingMixin`: TypeError "not model-coupled" -/
  | uncoupled
  /-- a coupled list: its creator, `single_attr`, `fixed_length` (0 = free) -/
  | coupled (cr : Creator) (single : Option Str) (fixed : Nat)
  deriving DecidableEq, Repr, Inhabited

structure MM where
  /-- class → attribute → kind -/
  kind : Str → Str → AttrKind
  /-- `_match_xtype(hint)`: the class, or ValueError (unknown / ambiguous) -/
  hint : Str → Option Str

/-- the permissive metamodel: every attribute of every class is a free coupled list creating
`dflt[attr]` (or a class named like the attribute), every hint names a class -/
def MM.free (dflt : List (Str × Str)) : MM where
  kind := fun _ attr => .coupled (.xtype (some ((dflt.lookup attr).getD attr))) none 0
  hint := fun h => some h

/-- table-driven metamodel (rows generated from the live classes) -/
def MM.ofTable (attrs : List ((Str × Str) × AttrKind)) (hints : List (Str × Option Str)) : MM where
  kind := fun c a => (attrs.lookup (c, a)).getD .absent
  hint := fun h => (hints.lookup h).getD none

/-- `getattr(parent, attr)` for an object of the graph (an id outside the graph has the class `""`,
which the generated tables do not know) -/
def attrKind (mm : MM) (g : Graph) (par : Id) (attr : Str) : AttrKind :=
  mm.kind ((g.clsOf par).getD []) attr

/-- the class `accessor.create(list, *type_hint, …)` instantiates, or its exception -/
def Creator.classFor (mm : MM) : Creator → Option Str → Except Err Str
  | .cannot, _ => .error .typeError
  | .other _, _ => .error .typeError
  -- `if typehint:` — an empty hint counts as none
  | .xtype (some d), some [] => .ok d
  | .xtype none, some [] => .error .valueError
  | .xtype _, some h => match mm.hint h with
    | some c => .ok c
    | none => .error .valueError
  | .xtype (some d), none => .ok d
  | .xtype none, none => .error .valueError

/-- the checks at the head of `_create_complex_objects` -/
def checkTarget (mm : MM) (g : Graph) (par : Id) (attr : Str) : Except Err (Creator × Option Str × Nat) :=
  match attrKind mm g par attr with
  | .absent => .error .typeError
  | .uncoupled => .error .typeError
  | .coupled cr sg fx => .ok (cr, sg, fx)

/-- `ElementListCouplingMixin.create`: the fixed-length guard, then the accessor -/
def createClass (mm : MM) (g : Graph) (par : Id) (attr : Str) (cr : Creator) (fx : Nat) (ty : Option Str) :
    Except Err Str :=
  if fx ≠ 0 ∧ fx ≤ (g.members par attr).length then .error .typeError else cr.classFor mm ty

/-- one child of `_create_complex_objects` (the agenda already holds the rest of the loop); the target
checks run at the head of the generator, i.e. before the first child — re-evaluating them per child gives
the same answer, the class of `par` and the metamodel do not change -/
def stepItem (mm : MM) (s : State) (par : Id) (attr : Str) (x : Item) : Except Err State :=
  match checkTarget mm s.g par attr with
  | .error e => .error e
  | .ok (cr, sg, fx) =>
  match x with
  | .ref v =>
    match resolveVal s.ps s.g v with
    | .error (.unres p) => .ok (s.defer p (.piece par (.item attr (.ref v))))
    | .error (.err e) => .error e
    | .ok (.obj i) => .ok { s with g := s.g.append par attr i }
    | .ok (.str _) => .error .typeError
  | .str nid str =>
    -- `create_singleattr`: TypeError without `single_attr`, else `create(**{single_attr: child})`
    match sg with
    | none => .error .typeError
    | some k =>
      match createClass mm s.g par attr cr fx none with
      | .error e => .error e
      | .ok cls => .ok { s with g := s.g.create par attr nid cls [(k, .str str)] }
  | .obj nid pid ty scal kids =>
    match resolveScal s.ps s.g scal with
    | .error (.unres p) => .ok (s.defer p (.piece par (.item attr (.obj nid pid ty scal kids))))
    | .error (.err e) => .error e
    | .ok rs =>
      match createClass mm s.g par attr cr fx ty with
      | .error e => .error e
      | .ok cls => do
        let s1 := { s with g := s.g.create par attr nid cls rs }
        let s2 ← s1.fulfilOpt pid nid
        pure { s2 with agenda := kids.map (fun kl => Work.items nid kl.1 kl.2) ++ s2.agenda }

/-- one entry of `_operate_set` -/
def stepSet (s : State) (par : Id) (attr : Str) : SetVal → Except Err State
  | .scalar v =>
    match resolveVal s.ps s.g v with
    | .error (.unres p) => .ok (s.defer p (.piece par (.setE attr (.scalar v))))
    | .error (.err e) => .error e
    | .ok r => .ok { s with g := s.g.setScal par attr r }
  | .list l =>
    match resolveRefs s.ps s.g l with
    | (l', some (.unres p)) => .ok (s.defer p (.piece par (.setE attr (.list l'))))
    | (_, some (.err e)) => .error e
    | (l', none) =>
      .ok { s with g := s.g.clear par attr, agenda := Work.items par attr l' :: s.agenda }

/-- `dict | dict`: keys keep the position of their first insertion, values are overwritten -/
def dictSet {α : Type} (k : Str) (v : α) : List (Str × α) → List (Str × α)
  | [] => [(k, v)]
  | (k', v') :: t => if k' = k then (k, v) :: t else (k', v') :: dictSet k v t

def dictUnion {α : Type} (a b : List (Str × α)) : List (Str × α) :=
  b.foldl (fun acc kv => dictSet kv.1 kv.2 acc) a

/-- value of a merged creation dict: simple or list-valued -/
inductive PropVal
  | s (v : Val)
  | l (items : List Item)

def setProp : SetVal → PropVal
  | .scalar v => .s v
  | .list l => .l l

def propsOf (keys : List (Str × Atom)) (set : List (Str × SetVal)) (ext : List (Str × List Item)) :
    List (Str × PropVal) :=
  dictUnion
    (dictUnion (keys.map (fun ka => (ka.1, PropVal.s (.atom ka.2))))
      (set.map (fun kv => (kv.1, setProp kv.2))))
    (ext.map (fun kl => (kl.1, PropVal.l kl.2)))

def propScal : List (Str × PropVal) → List (Str × Val)
  | [] => []
  | (k, .s v) :: t => (k, v) :: propScal t
  | (_, .l _) :: t => propScal t

def propKids : List (Str × PropVal) → List (Str × List Item)
  | [] => []
  | (_, .s _) :: t => propKids t
  | (k, .l l) :: t => (k, l) :: propKids t

/-- the loop `for v in obj.get("set", {}).values(): if isinstance(v, Promise | _ObjectFinder): _resolve(…)`
of the create branch: the first failure (unresolvable promise, or an ordinary exception), if any -/
def checkSetScalars (ps : Promises) (g : Graph) : List (Str × SetVal) → Option Sig
  | [] => none
  | (_, .scalar v) :: t =>
    match resolveVal ps g v with
    | .error e => some e
    | .ok _ => checkSetScalars ps g t
  | (_, .list _) :: t => checkSetScalars ps g t

/-- one entry of the inner loop of `_operate_sync` -/
def stepSync (s : State) (par : Id) (attr : Str) : SyncObj → Except Err State
  | .mk nid nid2 ty keys pid set ext sync =>
    match resolveFind s.ps s.g (s.g.members par attr) ty keys with
    | .error (.unres p) =>
      .ok (s.defer p (.piece par (.sync attr (.mk nid nid2 ty keys pid set ext sync))))
    | .error (.err e) => .error e
    | .ok (some c, _) =>
      .ok { s with agenda :=
        (sync.map (fun kl => Work.syncs c kl.1 kl.2) ++ [Work.sets c set] ++
        ext.map (fun kl => Work.items c kl.1 kl.2) ++
        (match pid with | none => [] | some p => [Work.fulfil p c]) ++ s.agenda) }
    | .ok (none, _) =>
      -- create branch; an unresolved promise among the scalar `set` values defers the whole entry
      match checkSetScalars s.ps s.g set with
      | some (.unres p) =>
        .ok (s.defer p (.piece par (.sync attr (.mk nid nid2 ty keys pid set ext sync))))
      | some (.err e) => .error e
      | none =>
      let props := propsOf keys set ext
      let item := Item.obj nid pid ty (propScal props) (propKids props)
      .ok { s with agenda :=
              Work.items par attr [item] ::
                ((match sync with | [] => [] | _ => [Work.resync par attr nid2 ty keys sync]) ++ s.agenda) }

/-- the recursive `_operate_sync` call of the create branch: find again; when the object is still
not there (its creation was deferred, or a `set` key overrode a `find` key) create one from the find
keys alone and find once more — a third miss would recurse forever in Python (`Err.diverge`). -/
def stepResync (mm : MM) (s : State) (par : Id) (attr : Str) (nid2 : Id)
    (ty : Option Str) (keys : List (Str × Atom)) (sync : List (Str × List SyncObj)) :
    Except Err State :=
  match resolveFind s.ps s.g (s.g.members par attr) ty keys with
  | .error (.unres p) => .ok (s.defer p (.piece par (.resync attr nid2 ty keys sync)))
  | .error (.err e) => .error e
  | .ok (some c, _) => .ok { s with agenda := sync.map (fun kl => Work.syncs c kl.1 kl.2) ++ s.agenda }
  | .ok (none, rk) =>
    -- `_create_complex_objects(promises, parent, attr, [find_args.attributes | …])`
    match checkTarget mm s.g par attr with
    | .error e => .error e
    | .ok (cr, _, fx) =>
    match createClass mm s.g par attr cr fx ty with
    | .error e => .error e
    | .ok cls =>
    let g' := s.g.create par attr nid2 cls rk
    match g'.findAmong (g'.members par attr) ty rk with
    | .error e => .error e
    | .ok none => .error .diverge
    | .ok (some c) =>
      .ok { s with g := g', agenda := sync.map (fun kl => Work.syncs c kl.1 kl.2) ++ s.agenda }

/-- one object of the inner loop of `_operate_delete` (`_resolve({}, parent, obj)`: no promises) -/
def stepDel (s : State) (par : Id) (attr : Str) : Val → Except Err State
  | .atom (.promise _) => .error .valueError
  | v =>
    match resolveVal [] s.g v with
    | .error (.unres _) => .error .valueError
    | .error (.err e) => .error e
    | .ok (.str _) => .error .valueError
    | .ok (.obj i) =>
      if (s.g.members par attr).contains i then .ok { s with g := s.g.remove par attr i }
      else .error .valueError

/-- the operators of one instruction in `_OPERATIONS` order -/
def worksOf (par : Id) (i : Instr) : List Work :=
  i.create.map (fun kl => Work.items par kl.1 kl.2) ++
  i.ext.map (fun kl => Work.items par kl.1 kl.2) ++
  [Work.sets par i.set] ++
  i.sync.map (fun kl => Work.syncs par kl.1 kl.2) ++
  i.del.map (fun kl => Work.dels par kl.1 kl.2)

/-- `instruction = instructions.popleft()` (the agenda is empty, `s.queue` is already the rest) -/
def startAction (mm : MM) (s : State) : Action → Except Err State
  | .whole i =>
    match resolveVal s.ps s.g i.parent with
    | .error (.unres p) => .ok (s.defer p (.whole i))
    | .error (.err e) => .error e
    | .ok (.str _) => .error .typeError
    | .ok (.obj par) => .ok { s with agenda := worksOf par i }
  | .piece par (.item attr x) => stepItem mm s par attr x
  | .piece par (.setE attr v) => stepSet s par attr v
  | .piece par (.sync attr so) => stepSync s par attr so
  | .piece par (.resync attr nid2 ty keys sync) => stepResync mm s par attr nid2 ty keys sync

def stepWork (mm : MM) (s : State) : Work → Except Err State
  | .items par attr [] => (checkTarget mm s.g par attr).map fun _ => s
  | .items par attr (x :: l) => stepItem mm { s with agenda := Work.items par attr l :: s.agenda } par attr x
  | .sets _ [] => .ok s
  | .sets par ((attr, v) :: l) => stepSet { s with agenda := Work.sets par l :: s.agenda } par attr v
  | .syncs _ _ [] => .ok s
  | .syncs par attr (so :: l) => stepSync { s with agenda := Work.syncs par attr l :: s.agenda } par attr so
  | .resync par attr nid2 ty keys sync => stepResync mm s par attr nid2 ty keys sync
  | .fulfil p i => s.fulfil p i
  | .dels _ _ [] => .ok s
  | .dels par attr (v :: l) => stepDel { s with agenda := Work.dels par attr l :: s.agenda } par attr v

/-- one transition; `none` = the `while instructions` loop has ended -/
def step (mm : MM) (s : State) : Except Err (Option State) :=
  match s.agenda with
  | w :: rest => (stepWork mm { s with agenda := rest } w).map some
  | [] =>
    match s.queue with
    | [] => .ok none
    | a :: q => (startAction mm { s with queue := q } a).map some

/-- the `while instructions:` loop with fuel; `none` = fuel exhausted (never happens with the fuel
`apply` supplies: `run_measure_some`) -/
def run (mm : MM) : Nat → State → Option (Except Err State)
  | 0, _ => none
  | n + 1, s =>
    match step mm s with
    | .error e => some (.error e)
    | .ok none => some (.ok s)
    | .ok (some s') => run mm n s'

/-- `if deferred: raise UnfulfilledPromisesError(frozenset(deferred))`, else `return promises` -/
def finish (s : State) : Except Err (Graph × Promises) :=
  match s.deferred with
  | [] => .ok (s.g, s.ps)
  | d => .error (.unfulfilled (d.map (·.1)).eraseDups)

def init (g : Graph) (doc : List Instr) : State :=
  { g := g, queue := doc.map Action.whole }

/-! ## the termination measure (used as fuel by `apply`; see `Lemmas/Decl.lean`) -/

/-- weight of a `promise_id`: `pidN (fun _ => 1)` counts declaration sites,
`pidN (fun q => if q = p then 1 else 0)` counts the sites declaring `p` -/
def optN (f : Str → Nat) : Option Str → Nat
  | none => 0
  | some p => f p

mutual
def Item.mass : Item → Nat
  | .obj _ _ _ _ kids => 1 + kidsMass kids
  | .ref _ => 1
  | .str _ _ => 1
def kidsMass : List (Str × List Item) → Nat
  | [] => 0
  | (_, l) :: t => 1 + itemsMass l + kidsMass t
def itemsMass : List Item → Nat
  | [] => 0
  | x :: t => x.mass + itemsMass t
end

mutual
def Item.pidN (f : Str → Nat) : Item → Nat
  | .obj _ pid _ _ kids => optN f pid + kidsPidN f kids
  | .ref _ => 0
  | .str _ _ => 0
def kidsPidN (f : Str → Nat) : List (Str × List Item) → Nat
  | [] => 0
  | (_, l) :: t => itemsPidN f l + kidsPidN f t
def itemsPidN (f : Str → Nat) : List Item → Nat
  | [] => 0
  | x :: t => x.pidN f + itemsPidN f t
end

def SetVal.mass : SetVal → Nat
  | .scalar _ => 1
  | .list l => 2 + itemsMass l

def SetVal.pidN (f : Str → Nat) : SetVal → Nat
  | .scalar _ => 0
  | .list l => itemsPidN f l

def setMass : List (Str × SetVal) → Nat
  | [] => 0
  | (_, v) :: t => v.mass + setMass t

def setPidN (f : Str → Nat) : List (Str × SetVal) → Nat
  | [] => 0
  | (_, v) :: t => v.pidN f + setPidN f t

mutual
def SyncObj.mass : SyncObj → Nat
  | .mk _ _ _ _ _ set ext sync => 5 + setMass set + kidsMass ext + syncMass sync
def syncMass : List (Str × List SyncObj) → Nat
  | [] => 0
  | (_, l) :: t => 1 + sosMass l + syncMass t
def sosMass : List SyncObj → Nat
  | [] => 0
  | x :: t => x.mass + sosMass t
end

mutual
def SyncObj.pidN (f : Str → Nat) : SyncObj → Nat
  | .mk _ _ _ _ pid set ext sync => optN f pid + setPidN f set + kidsPidN f ext + syncPidN f sync
def syncPidN (f : Str → Nat) : List (Str × List SyncObj) → Nat
  | [] => 0
  | (_, l) :: t => sosPidN f l + syncPidN f t
def sosPidN (f : Str → Nat) : List SyncObj → Nat
  | [] => 0
  | x :: t => x.pidN f + sosPidN f t
end

def delMass : List (Str × List Val) → Nat
  | [] => 0
  | (_, l) :: t => 1 + l.length + delMass t

def Instr.mass (i : Instr) : Nat :=
  2 + kidsMass i.create + kidsMass i.ext + setMass i.set + syncMass i.sync + delMass i.del

def Instr.pidN (f : Str → Nat) (i : Instr) : Nat :=
  kidsPidN f i.create + kidsPidN f i.ext + setPidN f i.set + syncPidN f i.sync

def Piece.mass : Piece → Nat
  | .item _ x => x.mass
  | .setE _ v => v.mass
  | .sync _ so => so.mass
  | .resync _ _ _ _ sy => 1 + syncMass sy

def Piece.pidN (f : Str → Nat) : Piece → Nat
  | .item _ x => x.pidN f
  | .setE _ v => v.pidN f
  | .sync _ so => so.pidN f
  | .resync _ _ _ _ sy => syncPidN f sy

def Action.mass : Action → Nat
  | .whole i => i.mass
  | .piece _ w => w.mass

def Action.pidN (f : Str → Nat) : Action → Nat
  | .whole i => i.pidN f
  | .piece _ w => w.pidN f

def Work.mass : Work → Nat
  | .items _ _ l => 1 + itemsMass l
  | .sets _ l => 1 + setMass l
  | .syncs _ _ l => 1 + sosMass l
  | .resync _ _ _ _ _ sync => 1 + syncMass sync
  | .fulfil _ _ => 1
  | .dels _ _ l => 1 + l.length

def Work.pidN (f : Str → Nat) : Work → Nat
  | .items _ _ l => itemsPidN f l
  | .sets _ l => setPidN f l
  | .syncs _ _ l => sosPidN f l
  | .resync _ _ _ _ _ sync => syncPidN f sync
  | .fulfil p _ => f p
  | .dels _ _ _ => 0

def sumBy {α : Type} (f : α → Nat) : List α → Nat
  | [] => 0
  | a :: t => f a + sumBy f t

/-- mass of what can still run without a further fulfilment: agenda + queue -/
def State.Q (s : State) : Nat := sumBy Work.mass s.agenda + sumBy Action.mass s.queue
/-- total mass of everything pending (never increases) -/
def State.T (s : State) : Nat := s.Q + sumBy (fun e => e.2.mass) s.deferred
/-- weighted number of `promise_id` sites still pending -/
def State.pidN (f : Str → Nat) (s : State) : Nat :=
  sumBy (Work.pidN f) s.agenda + sumBy (Action.pidN f) s.queue + sumBy (fun e => e.2.pidN f) s.deferred
def State.D (s : State) : Nat := s.pidN (fun _ => 1)
/-- the measure: lexicographic (D, Q) flattened with the bound `Q ≤ T` -/
def State.measure (s : State) : Nat := s.D * (s.T + 1) + s.Q

/-- `decl.apply`: run the loop (fuel = the measure of the initial state, proved sufficient), then
the terminal check -/
def apply (mm : MM) (g : Graph) (doc : List Instr) : Except Err (Graph × Promises) :=
  match run mm ((init g doc).measure + 1) (init g doc) with
  | none => .error .outOfFuel
  | some r => r.bind finish

end Capella.Decl
