/-!
# C10 — queries: type search, reference search, back-references, list filters

Core Lean only.  Mirrors, as coded,

* `loader/core.py`: `ModelFile.iterall_xt` / `MelodyLoader.iterall_xt` (iteration over the
  hand-maintained type index, fragment by fragment, type by type), `iterancestors`;
* `model/_model.py`: `MelodyModel.search` (type-argument resolution, index scan, `below=` test),
  `find_references` (XPath pre-filter "the element or one of its children has an attribute value
  containing `#uuid`", then evaluation of the element's relations), `_reference_attributes`;
* `model/_descriptors.py`: `AttrProxyAccessor.__get__` (space-separated links in one attribute),
  `LinkAccessor.__get__` (child elements of one tag/type carrying a link, de-duplicated),
  `ReferenceSearchingAccessor.__get__`;
* `model/_obj.py`: `_ListFilter.ismatch/__call__` (as coded and as repaired), `single=True`,
  `ElementList.__sub__`, `ElementList.map`.
-/
namespace Capella.Query

abbrev Str := List Char
abbrev Attrs := List (Str × Str)

def aget (a : Attrs) (k : Str) : Option Str := a.lookup k

/-- one XML element of the loaded model; the list of all nodes is in document order, fragment
after fragment -/
structure Node where
  uid : Str := []
  tag : Str := []
  xtype : Str := []            -- `helpers.xtype_of`; `[]` = none
  attrs : Attrs := []
  parent : Option Nat := none  -- `getparent()`, hopping from a fragment root to its placeholder's parent
  sem : Bool := true           -- lives in a SEMANTIC fragment
  placeholder : Bool := false  -- has an `href` attribute: stands for a fragment root stored elsewhere
  visual : Bool := false       -- lives in a VISUAL fragment
deriving DecidableEq, Repr

/-! ## type search -/

/-- the type index (`__xtypecache` of every semantic fragment, concatenated in load order):
type ↦ nodes in insertion order -/
abbrev Index := List (Str × List Nat)

/-- `iterancestors`: follow `parent`; the fuel is the number of nodes (the code asserts acyclicity) -/
def ancestorsAux (nodes : List Node) : Nat → Nat → List Nat
  | 0, _ => []
  | f + 1, i =>
    match (nodes[i]?).bind (·.parent) with
    | none => []
    | some p => p :: ancestorsAux nodes f p

def ancestors (nodes : List Node) (i : Nat) : List Nat := ancestorsAux nodes nodes.length i

/-- `_nonempty_hashset`: no types given = every type -/
def typeOk (xts : List Str) (xt : Str) : Bool := xts.isEmpty || xts.contains xt

def belowOk (nodes : List Node) (below : Option Nat) (i : Nat) : Bool :=
  match below with
  | none => true
  | some b => (ancestors nodes i).contains b

def isPlaceholder (nodes : List Node) (i : Nat) : Bool :=
  match nodes[i]? with
  | some n => n.placeholder
  | none => false

/-- `MelodyModel.search` after type resolution: scan of the index (`ModelFile.iterall_xt` skips the
placeholders of fragmented elements), then the ancestor test -/
def search (nodes : List Node) (idx : Index) (xts : List Str) (below : Option Nat) : List Nat :=
  (((idx.filter (fun p => typeOk xts p.1)).flatMap (·.2)).filter (fun i => !isPlaceholder nodes i)).filter
    (belowOk nodes below)

/-- the brute-force scan of the trees -/
def scan (nodes : List Node) (xts : List Str) (below : Option Nat) : List Nat :=
  (List.range nodes.length).filter (fun i =>
    match nodes[i]? with
    | none => false
    | some n => n.sem && !n.xtype.isEmpty && !n.placeholder && typeOk xts n.xtype && belowOk nodes below i)

/-- the index is what a scan of the trees yields: same (type, node) pairs, no node twice -/
structure IndexConsistent (nodes : List Node) (idx : Index) : Prop where
  mem_iff : ∀ (xt : Str) (i : Nat),
    (∃ p ∈ idx, p.1 = xt ∧ i ∈ p.2) ↔ ∃ n, nodes[i]? = some n ∧ n.sem = true ∧ n.xtype = xt ∧ xt ≠ []
  nodup : (idx.flatMap (·.2)).Nodup

/-- decidable version used by the driver on exported implementation states -/
def indexConsistentB (nodes : List Node) (idx : Index) : Bool :=
  let flat := idx.flatMap (fun p => p.2.map (fun i => (i, p.1)))
  let want := nodes.zipIdx.filterMap (fun p =>
    if p.1.sem && !p.1.xtype.isEmpty then some (p.2, p.1.xtype) else none)
  flat.all (fun q => want.contains q) && want.all (fun q => flat.contains q) &&
    decide ((idx.flatMap (·.2)).Nodup)

/-- every index entry lists its nodes in document order and the entries of one type follow each
other in document order (true of a freshly loaded model: the index is filled by a tree walk,
fragment after fragment) -/
def indexSortedB (idx : Index) (xt : Str) : Bool :=
  let l := (idx.filter (fun p => typeOk [xt] p.1)).flatMap (·.2)
  (l.zip l.tail).all (fun p => p.1 < p.2)

/-- type arguments of `search`: a class (as the types it is registered for — only a class
registered for none is turned into the one type string `build_xtype` derives) or a string -/
inductive TypeArg
  | cls (xtypes : List Str)
  | str (s : Str)
deriving DecidableEq, Repr

def genericNames : List Str :=
  ["GenericElement".toList, "ModelElement".toList, "ModelObject".toList]

def endsWith (s suf : Str) : Bool := suf.reverse.isPrefixOf s.reverse

/-- the resolution loop of `search`, as coded: a generic name clears what was collected *and stops
the loop*; an unknown short name raises `ValueError` -/
def resolve (handlers : List Str) : List TypeArg → List Str → Except Unit (List Str)
  | [], acc => .ok acc
  | .cls xs :: rest, acc => resolve handlers rest (acc ++ xs)
  | .str s :: rest, acc =>
    if s.contains ':' then resolve handlers rest (acc ++ [s])
    else if genericNames.contains s then .ok []
    else
      let m := handlers.filter (fun h => endsWith h (':' :: s))
      if m.isEmpty then .error () else resolve handlers rest (acc ++ m)

/-! ## reference search -/

def isInfix (needle : Str) : Str → Bool
  | [] => needle.isEmpty
  | c :: r => needle.isPrefixOf (c :: r) || isInfix needle r

def hrefName : Str := "href".toList

/-- some attribute other than `href` has a value containing `#u` (`@*[name() != 'href'][contains(., '#u')]`:
the `href` of a fragment placeholder is containment, not a reference) -/
def hasRef (a : Attrs) (u : Str) : Bool := a.any (fun kv => kv.1 != hrefName && isInfix ('#' :: u) kv.2)

def childrenOf (nodes : List Node) (i : Nat) : List Nat :=
  (nodes.zipIdx.filter (fun p => p.1.parent == some i)).map (·.2)

def attrsAt (nodes : List Node) (i : Nat) : Attrs := ((nodes[i]?).map (·.attrs)).getD []

def nonVisual (nodes : List Node) (i : Nat) : Bool :=
  match nodes[i]? with
  | some n => !n.visual
  | none => false

/-- the elements with an attribute value containing `#u` -/
def hits (nodes : List Node) (u : Str) : List Nat :=
  (nodes.zipIdx.filter (fun p => hasRef p.1.attrs u)).map (·.2)

def parentAt (nodes : List Node) (j : Nat) : Option Nat := (nodes[j]?).bind (·.parent)

/-- the XPath `//*[@*[name() != 'href'][contains(., '#u')] | */@*[name() != 'href'][contains(., '#u')]]` on the non-visual trees:
an element is selected if it is a hit itself or the parent of a hit -/
def prefilter (nodes : List Node) (u : Str) : List Nat :=
  let h := hits nodes u
  let ps := h.filterMap (parentAt nodes)
  (List.range nodes.length).filter (fun i => nonVisual nodes i && (h.contains i || ps.contains i))

def isWs (c : Char) : Bool := c = ' ' || c = '\t' || c = '\n' || c = '\r' || c = '\x0b' || c = '\x0c'

/-- `str.split()` -/
def wordsAux : Str → Str → List Str
  | cur, [] => if cur = [] then [] else [cur]
  | cur, c :: cs =>
    if isWs c then (if cur = [] then wordsAux [] cs else cur :: wordsAux [] cs)
    else wordsAux (cur ++ [c]) cs

def words (s : Str) : List Str := wordsAux [] s

/-- what follows the last `c` (`none` if there is no `c`) -/
def afterLast (c : Char) : Str → Option Str
  | [] => none
  | x :: xs =>
    match afterLast c xs with
    | some r => some r
    | none => if x = c then some xs else none

/-- first node with that id (`loader[ref]`; `none` = `KeyError`) -/
def lookupId (nodes : List Node) (ref : Str) : Option Nat :=
  (nodes.zipIdx.find? (fun p => p.1.uid == ref)).map (·.2)

/-- a link-storing relation of a class -/
inductive RelKind
  | attr (xmlattr : Str)                         -- `AttrProxyAccessor(…, attr, aslist=…)`
  | child (tag : Str) (xtype : Str) (follow : Str)  -- `LinkAccessor(tag, xtype, attr=follow, aslist=…)`
deriving DecidableEq, Repr

structure Rel where
  name : Str
  kind : RelKind
deriving DecidableEq, Repr

/-- the id a single link string points to; `CROSS_FRAGMENT_LINK` also accepts a bare id -/
def linkTarget (link : Str) : Str := (afterLast '#' link).getD link

def dedup : List Nat → List Nat
  | [] => []
  | x :: r => x :: (dedup r).filter (· ≠ x)

/-- the ids listed in an attribute: only the `#`-bearing words are links (the others are type
prefixes of cross-fragment links) -/
def attrLinks (nodes : List Node) (i : Nat) (a : Str) : List Str :=
  (words ((aget (attrsAt nodes i) a).getD [])).filterMap (fun w => afterLast '#' w)

/-- `iterchildren(tag=self.tag)` + the type test; an unspecified tag (deprecated, `None`) matches
every child -/
def isRefChild (nodes : List Node) (tag xt : Str) (j : Nat) : Bool :=
  match nodes[j]? with
  | some n => (tag.isEmpty || n.tag == tag) && n.xtype == xt
  | none => false

def childLink (nodes : List Node) (follow : Str) (j : Nat) : Option Str :=
  match aget (attrsAt nodes j) follow with
  | some l => if l.isEmpty then none else some (linkTarget l)
  | none => none

/-- the ids the reference children of `i` point to -/
def childLinks (nodes : List Node) (i : Nat) (tag xt follow : Str) : List Str :=
  ((childrenOf nodes i).filter (isRefChild nodes tag xt)).filterMap (childLink nodes follow)

/-- the value of a relation: `none` = the accessor raised (a broken link), which `find_references`
swallows -/
def relTargets (nodes : List Node) (i : Nat) (r : Rel) : Option (List Nat) :=
  match r.kind with
  | .attr a => (attrLinks nodes i a).mapM (lookupId nodes)
  | .child tag xt follow => ((childLinks nodes i tag xt follow).mapM (lookupId nodes)).map dedup

def idxOf? (l : List Nat) (y : Nat) : Option Nat :=
  if l.contains y then some (l.idxOf y) else none

/-- what one element contributes to `find_references(y)`, given the values of its relations -/
def refsAtV (val : Nat → Rel → Option (List Nat)) (rels : Nat → List Rel) (y : Nat) (i : Nat) :
    List (Nat × Str × Nat) :=
  (rels i).filterMap (fun r =>
    match val i r with
    | some ts => (idxOf? ts y).map (fun k => (i, r.name, k))
    | none => none)

def refsAt (nodes : List Node) (rels : Nat → List Rel) (y : Nat) (i : Nat) : List (Nat × Str × Nat) :=
  refsAtV (relTargets nodes) rels y i

def uidAt (nodes : List Node) (y : Nat) : Str := ((nodes[y]?).map (·.uid)).getD []

/-- `MelodyModel.find_references`, with the relation values as a parameter (the driver passes a
tabulated `relTargets nodes`) -/
def findRefsV (nodes : List Node) (val : Nat → Rel → Option (List Nat)) (rels : Nat → List Rel) (y : Nat) :
    List (Nat × Str × Nat) :=
  (prefilter nodes (uidAt nodes y)).flatMap (refsAtV val rels y)

/-- `MelodyModel.find_references` -/
def findRefs (nodes : List Node) (rels : Nat → List Rel) (y : Nat) : List (Nat × Str × Nat) :=
  findRefsV nodes (relTargets nodes) rels y

def bruteRefsV (nodes : List Node) (val : Nat → Rel → Option (List Nat)) (rels : Nat → List Rel) (y : Nat) :
    List (Nat × Str × Nat) :=
  ((List.range nodes.length).filter (nonVisual nodes)).flatMap (refsAtV val rels y)

/-- the same evaluation without pre-filter, over every non-visual element -/
def bruteRefs (nodes : List Node) (rels : Nat → List Rel) (y : Nat) : List (Nat × Str × Nat) :=
  bruteRefsV nodes (relTargets nodes) rels y

/-- what the pre-filter relies on: the stored links of child relations contain a `#` (what
`create_link` writes; C05), and no link-storing relation keeps its links in an XML attribute called
`href`, which the XPath skips (a fact about the relation table: kernel-checked for every relation of
every class in `Gen/Hier*.lean`) -/
structure LinkShape (nodes : List Node) (rels : Nat → List Rel) : Prop where
  hash : ∀ i r tag xt follow, r ∈ rels i → r.kind = .child tag xt follow →
    ∀ j ∈ childrenOf nodes i, ∀ l, aget (attrsAt nodes j) follow = some l → l ≠ [] → '#' ∈ l
  nohref : ∀ i r, r ∈ rels i →
    (∀ a, r.kind = .attr a → a ≠ hrefName) ∧ (∀ tag xt f, r.kind = .child tag xt f → f ≠ hrefName)

/-- does candidate `c` hold `y` in one of the named relations -/
def holds (nodes : List Node) (rels : Nat → List Rel) (attrs : List Str) (y c : Nat) : Bool :=
  attrs.any (fun a =>
    match (rels c).find? (fun r => r.name == a) with
    | some r => match relTargets nodes c r with
      | some ts => ts.contains y
      | none => false
    | none => false)

/-- `ReferenceSearchingAccessor.__get__`: candidates from `search(*classes)`, kept if a named
relation holds `y` -/
def backref (nodes : List Node) (idx : Index) (rels : Nat → List Rel)
    (classes attrs : List Str) (y : Nat) : List Nat :=
  (search nodes idx classes none).filter (holds nodes rels attrs y)

/-! ## list filters -/

inductive Atom
  | s (x : Str)
  | i (x : Int)      -- Python `bool` compares equal to 0/1 and is exported as such
  | none
  | o (n : Nat)      -- a model element: `ModelElement.__eq__` is identity of the XML element
  | f (num : Int) (den : Nat)  -- a non-integral `float` as its exact fraction (integral ones are `i`)
deriving DecidableEq, Repr

/-- what `extract_key` yields (enum members already replaced by their name) -/
inductive Val
  | atom (a : Atom)          -- a `str` or a non-iterable
  | many (l : List Atom)     -- any other iterable
deriving DecidableEq, Repr

/-- `none` = `extract_key` raised `AttributeError` -/
abbrev Key := Option Val

/-- `_ListFilter.ismatch`. `repaired = false`: as pinned (`AttributeError` → `False` for both
polarities); `repaired = true`: `AttributeError` → `not positive`. -/
def ismatch (repaired positive : Bool) (k : Key) (vals : List Atom) : Bool :=
  match k with
  | none => if repaired then !positive else false
  | some (.atom a) => positive == vals.contains a
  | some (.many l) => positive == vals.any (fun v => l.contains v)

/-- `_ListFilter.__call__(*vals, single=False)` -/
def filterBy {α : Type} (repaired positive : Bool) (key : α → Key) (vals : List Atom) (l : List α) : List α :=
  l.filter (fun x => ismatch repaired positive (key x) vals)

inductive SingleErr | noMatch | multiple   -- both are `KeyError`
deriving DecidableEq, Repr

/-- `single=True` -/
def single {α : Type} (ms : List α) : Except SingleErr α :=
  match ms with
  | [] => .error .noMatch
  | [x] => .ok x
  | _ => .error .multiple

/-- rebuild a list from a mask and its two halves -/
def merge {α : Type} : List Bool → List α → List α → List α
  | true :: m, a :: as, bs => a :: merge m as bs
  | false :: m, as, b :: bs => b :: merge m as bs
  | _, _, _ => []

/-- `ElementList.__sub__`: drop what has a uuid occurring in `other` -/
def sub {α : Type} (key : α → Str) (l other : List α) : List α :=
  l.filter (fun x => !(other.map key).contains (key x))

/-- keep the first occurrence of every key -/
def dedupBy {β : Type} (key : β → Str) : List β → List Str → List β
  | [], _ => []
  | x :: r, seen => if seen.contains (key x) then dedupBy key r seen else x :: dedupBy key r (key x :: seen)

/-- `ElementList.map`: flatten, drop `None` (not represented), de-duplicate by uuid -/
def mapFlat {α β : Type} (f : α → List β) (key : β → Str) (l : List α) : List β :=
  dedupBy key (l.flatMap f) []

end Capella.Query
