/-
Model of the pure path arithmetic py-capellambse relies on.

* `PPath`, `parseRaw`, `posixJoin`, `mkPath` — `pathlib.PurePosixPath(*args)` of CPython 3.12
  (posixpath.join + posixpath.splitroot + the `x and x != '.'` filter).
* `normalize` — `capellambse.helpers.normalize_pure_path(path, base=…)`.
* `relpath` — `capellambse.helpers.relpath_pure(path, start)`.
* `target` — per file handler: the handler-root-relative parts that an `open(name)`
  touches, exactly as the handler code composes them.

Text is `List Char` (`Str`); `String` only at the driver boundary. No imports beyond core.
-/

namespace Capella.Path

abbrev Str := List Char

/-- split on '/' (like `str.split('/')`: always at least one piece). -/
def splitSlash : Str → List Str
  | [] => [[]]
  | c :: cs =>
    if c = '/' then [] :: splitSlash cs
    else match splitSlash cs with
      | [] => [[c]]           -- unreachable; keeps the function total
      | p :: ps => (c :: p) :: ps

structure PPath where
  root  : Str          -- "", "/" or "//"
  parts : List Str
deriving DecidableEq, Repr

def dotdot : Str := ['.', '.']
def dot : Str := ['.']

/-- keep what `_parse_path` keeps: `x and x != '.'` -/
def keepComp (c : Str) : Bool := c ≠ [] && c ≠ dot

def leadingSlashes : Str → Nat
  | '/' :: cs => leadingSlashes cs + 1
  | _ => 0

/-- `PurePosixPath._parse_path` on an already joined raw string. -/
def parseRaw (s : Str) : PPath :=
  let n := leadingSlashes s
  let root : Str := if n = 0 then [] else if n = 2 then ['/', '/'] else ['/']
  { root := root, parts := (splitSlash (s.drop n)).filter keepComp }

/-- one step of `posixpath.join` -/
def joinStep (path b : Str) : Str :=
  if b.head? = some '/' then b
  else if path = [] ∨ path.getLast? = some '/' then path ++ b
  else path ++ '/' :: b

def posixJoin (a : Str) (ps : List Str) : Str := ps.foldl joinStep a

/-- `PurePosixPath(*args)` for string arguments. -/
def mkPath : List Str → PPath
  | [] => parseRaw []
  | [a] => parseRaw a
  | a :: rest => parseRaw (posixJoin a rest)

/-- the `for i in path.parts[1:]` loop of `normalize_pure_path` -/
def collapseStep (acc : List Str) (c : Str) : List Str :=
  if c = dotdot then acc.dropLast else acc ++ [c]

def collapse (parts : List Str) : List Str := parts.foldl collapseStep []

/-- `normalize_pure_path(path, base=base)`; `base`/`path` are the raw argument strings
(a `PurePosixPath` argument contributes its raw segments, hence lists). The result is the
parts list of the returned relative `PurePosixPath`. -/
def normalize (base path : List Str) : List Str :=
  collapse (mkPath ([['/']] ++ base ++ path)).parts

/-- `relpath_pure(path, start)` on parts lists. State: (reversed stack, prefix flag). -/
def relStep (st : List Str × Bool) (part : Str) : List Str × Bool :=
  let (stack, pre) := st
  if pre then
    match stack with
    | top :: rest => if top = part then (rest, true) else (stack, false)
    | [] => (stack, false)
  else (dotdot :: stack, false)
-- NB: Python keeps `parts` reversed and pops/pushes at the end; we keep the same list
-- un-reversed and pop/push at the head, which is the identical stack.

def relpath (path start : List Str) : List Str :=
  (start.foldl relStep (path, true)).1

/-- resolve a relative reference against a directory (what following a link does:
`normalize_pure_path(ref, base=dir)` on clean inputs) -/
def resolve (dir ref : List Str) : List Str := collapse (dir ++ ref)

inductive Handler | localDir | memory | zip | git | http | glart
deriving DecidableEq, Repr

/-- Handler-root-relative parts touched by `handler.open(name)` for a handler configured with
`subdir` (raw string as given by the caller). Mirrors each handler's `__init__` + `open`. -/
def target (h : Handler) (subdir name : Str) : List Str :=
  let sd := normalize [] [subdir]            -- FileHandler.__init__: self.subdir = normalize(subdir)
  match h with
  | .localDir => sd ++ normalize [] [name]   -- Path(path, normalize(subdir)) / normalize(name)
  | .http     => sd ++ normalize [] [name]   -- self.subdir / normalize(name)
  | .memory   => sd ++ normalize [] [name]
  | .zip      => sd ++ normalize [] [name]
  | .git      => sd ++ normalize [] [name]
  | .glart    => sd ++ normalize [] [name]

/-- the unrepaired composition (`normalize(name, base=self.subdir)`), kept for the
counter-example theorem and for judging old trees -/
def targetViaBase (subdir name : Str) : List Str :=
  normalize (normalize [] [subdir]) [name]

/-- `FilePath.joinpath(path)` on a handler-relative `_path` -/
def joinpath (self : List Str) (path : Str) : List Str := normalize self [path]

/-- `len(os.fsencode(name))`: the number of bytes of the UTF-8 encoding (text without lone surrogates) -/
def utf8Len : Str → Nat
  | [] => 0
  | c :: cs => c.utf8Size + utf8Len cs

/-- the `while len(os.fsencode(name)) > limit: name = name[:-1]` loop of `_tmpname`: whole characters
are dropped from the end until the encoding fits, i.e. the longest prefix of at most `n` bytes -/
def takeBytes : Nat → Str → Str
  | _, [] => []
  | n, c :: cs => if c.utf8Size ≤ n then c :: takeBytes (n - c.utf8Size) cs else []

/-- `local._tmpname` on the last component; `limit = 255 - 5` **bytes** (as coded after the repair;
the pinned code cut after 250 characters: `tmpNameOld`). -/
def tmpName (name : Str) : Str := '.' :: (takeBytes 250 name ++ ['.', 't', 'm', 'p'])

/-- the pinned `_tmpname` (250 characters, whatever their size), kept for the witness theorems -/
def tmpNameOld (name : Str) : Str := '.' :: (name.take 250 ++ ['.', 't', 'm', 'p'])

def tmpPath (parts : List Str) : List Str :=
  match parts.getLast? with
  | none => parts
  | some n => parts.dropLast ++ [tmpName n]

end Capella.Path
