/-
`urllib.parse.quote(s, safe=…)` / `unquote` at the level of UTF-8 bytes.
The str↔UTF-8 conversion is done by the driver (trusted: CPython and Lean agree on UTF-8).
-/
namespace Capella.Quote

def hexDigit (n : Nat) : Char :=
  if n < 10 then Char.ofNat (48 + n) else Char.ofNat (55 + n)   -- '0'.. / 'A'..

def hexVal (c : Char) : Option Nat :=
  let n := c.toNat
  if 48 ≤ n ∧ n ≤ 57 then some (n - 48)
  else if 65 ≤ n ∧ n ≤ 70 then some (n - 55)
  else if 97 ≤ n ∧ n ≤ 102 then some (n - 87)
  else none

/-- `_ALWAYS_SAFE`: letters, digits, `_.-~` -/
def alwaysSafe (b : Nat) : Bool :=
  (65 ≤ b && b ≤ 90) || (97 ≤ b && b ≤ 122) || (48 ≤ b && b ≤ 57) ||
  b == 95 || b == 46 || b == 45 || b == 126

/-- is byte `b` kept literally, given whether `/` is in `safe` -/
def isSafe (slashSafe : Bool) (b : Nat) : Bool :=
  alwaysSafe b || (slashSafe && b == 47)

def quoteByte (slashSafe : Bool) (b : UInt8) : List Char :=
  if isSafe slashSafe b.toNat then [Char.ofNat b.toNat]
  else ['%', hexDigit (b.toNat / 16), hexDigit (b.toNat % 16)]

def quote (slashSafe : Bool) (bs : List UInt8) : List Char :=
  bs.flatMap (quoteByte slashSafe)

/-- `unquote_to_bytes`: `%XX` with two hex digits decodes, everything else is literal. -/
def unquote : List Char → List UInt8
  | '%' :: a :: b :: rest =>
    match hexVal a, hexVal b with
    | some x, some y => UInt8.ofNat (16 * x + y) :: unquote rest
    | _, _ => UInt8.ofNat 37 :: unquote (a :: b :: rest)
  | c :: rest => UInt8.ofNat c.toNat :: unquote rest
  | [] => []

end Capella.Quote
