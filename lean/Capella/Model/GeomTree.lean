/-
Model of box nesting: what `capellambse/aird/_box_factories.py: generic_factory` and
`diagram.Box.snap_to_parent` do to a whole tree of notation nodes, over exact rationals.

* `layoutRel`, `layoutSize` — the arithmetic of `generic_factory` on the stored `layoutConstraint`
  (`x`, `y`, `width`, `height`): the `(5, 5)` resp. `(-1, -1)` offset of children resp. ports,
  `PORT_SIZE = (10, 10)`, the drop shadow removed from `FlatContainerStyle` boxes.
* `snapToParent` — `Box.snap_to_parent` on a box with a positive stored size: `snapPort` for ports,
  `snapChild` (both in `Model/Geom.lean`) otherwise.
* `place`, `placeList` — the factory applied down a tree: every node is positioned relative to the
  *snapped* position of its parent (`refpos = parent.bounds.pos`), then snapped, then its children follow.

Outside the model (declared, `Err.degenerate`): a child whose size is clamped to a non-positive component — the
`size` property of the real `Box` then recomputes it from the label text and the children, which depends on text
extents (PIL) and on the order in which later children arrive.  `parent.bounds.pos` is `parent.pos`: parents carry
no floating label that reaches further up or left than the box itself (only ports and symbols have floating labels).

Core Lean only.
-/
import Capella.Model.Geom

namespace Capella.Geom

/-- `pos = refpos + (x, y) + (5, 5)` resp. `(-1, -1)` for a port, relative to `refpos` -/
def layoutRel (x y : Rat) (port : Bool) : V2 := ⟨x, y⟩ + (if port then ⟨-1, -1⟩ else ⟨5, 5⟩)

/-- `size`: `PORT_SIZE` for a port; else `(width, height)`, minus the drop shadow for a `FlatContainerStyle` -/
def layoutSize (w h : Rat) (port flat : Bool) : V2 :=
  if port then ⟨10, 10⟩
  else if flat then ⟨w - (if 2 ≤ w then 2 else 0), h - (if 2 ≤ h then 2 else 0)⟩
  else ⟨w, h⟩

/-- `Box.snap_to_parent` for a box with a positive stored size; `oh`/`m` are the parent's `PORT_OVERHANG` and
`CHILD_MARGIN` -/
def snapToParent (oh m : Rat) (parent child : Box) : Except Err Box :=
  if child.port then
    match snapPort parent child oh with
    | .ok p => .ok { child with pos := p }
    | .error e => .error e
  else
    let r := snapChild parent child child.size m
    if 0 < r.2.x ∧ 0 < r.2.y then .ok { pos := r.1, size := r.2, port := false }
    else .error .degenerate

/-- a notation node: position relative to its parent's reference point, size, port flag, children -/
inductive Node where
  | mk (rel size : V2) (port : Bool) (kids : List Node)

/-- a placed box with its placed children -/
inductive Placed where
  | mk (box : Box) (kids : List Placed)

mutual
/-- place one node below the (already placed) `parent`, then its children below it -/
def place (oh m : Rat) (parent : Box) : Node → Except Err Placed
  | .mk rel size port kids =>
    match snapToParent oh m parent { pos := parent.pos + rel, size := size, port := port } with
    | .error e => .error e
    | .ok box =>
      match placeList oh m box kids with
      | .error e => .error e
      | .ok ks => .ok (.mk box ks)
/-- … and a list of siblings, in document order -/
def placeList (oh m : Rat) (parent : Box) : List Node → Except Err (List Placed)
  | [] => .ok []
  | n :: ns =>
    match place oh m parent n with
    | .error e => .error e
    | .ok p =>
      match placeList oh m parent ns with
      | .error e => .error e
      | .ok ps => .ok (p :: ps)
end

/-- a top-level node: `refpos = (0, 0)`, no parent, nothing to snap to -/
def placeTop (oh m : Rat) : Node → Except Err Placed
  | .mk rel size port kids =>
    let box : Box := { pos := rel, size := size, port := port }
    match placeList oh m box kids with
    | .error e => .error e
    | .ok ks => .ok (.mk box ks)

mutual
def Placed.translate (v : V2) : Placed → Placed
  | .mk box kids => .mk (box.translate v) (Placed.translateList v kids)
def Placed.translateList (v : V2) : List Placed → List Placed
  | [] => []
  | p :: ps => p.translate v :: Placed.translateList v ps
end

/-- moving a top-level node: only its stored position changes -/
def Node.moveTop (v : V2) : Node → Node
  | .mk rel size port kids => .mk (rel + v) size port kids

/-- `inner` lies inside `outer` keeping a margin `m` on every side -/
def insideMargin (m : Rat) (outer inner : Box) : Prop :=
  outer.pos.x + m ≤ inner.pos.x ∧ outer.pos.y + m ≤ inner.pos.y ∧
  inner.pos.x + inner.size.x ≤ outer.pos.x + outer.size.x - m ∧
  inner.pos.y + inner.size.y ≤ outer.pos.y + outer.size.y - m

instance (m : Rat) (o i : Box) : Decidable (insideMargin m o i) := by unfold insideMargin; infer_instance

/-- the hypotheses of `port_on_border`: the port is at least as large as the overhang and the parent large enough
for the mid box to be proper -/
def portFits (oh : Rat) (parent port : Box) : Prop :=
  oh ≤ port.size.x ∧ oh ≤ port.size.y ∧ port.size.x < parent.size.x + 2 * oh ∧ port.size.y < parent.size.y + 2 * oh

mutual
/-- every box of the placed tree sits correctly in its parent: a non-port inside it with the margin, a (fitting)
port attached to its border — recursively -/
def Nested (oh m : Rat) (parent : Box) : Placed → Prop
  | .mk box kids =>
    (box.port = false → insideMargin m parent box) ∧
    (box.port = true → portFits oh parent box → portAttached parent box.pos box.size) ∧
    NestedList oh m box kids
def NestedList (oh m : Rat) (parent : Box) : List Placed → Prop
  | [] => True
  | p :: ps => Nested oh m parent p ∧ NestedList oh m parent ps
end

mutual
/-- every box that is reached from the root through non-port boxes only lies inside `outer` -/
def AllInside (outer : Box) : Placed → Prop
  | .mk box kids => box.port = true ∨ (insideMargin 0 outer box ∧ AllInsideList outer kids)
def AllInsideList (outer : Box) : List Placed → Prop
  | [] => True
  | p :: ps => AllInside outer p ∧ AllInsideList outer ps
end

mutual
/-- all boxes of a placed tree, parents before children (the order in which the parser emits them) -/
def Placed.boxes : Placed → List Box
  | .mk box kids => box :: Placed.boxesList kids
def Placed.boxesList : List Placed → List Box
  | [] => []
  | p :: ps => p.boxes ++ Placed.boxesList ps
end

end Capella.Geom
