/-!
Vocabulary of the generated READ-side descriptor table (harness/gen_reads.py → Capella/Gen/ReadDescr*.lean,
Capella/Gen/ReadSlots*.lean): one `RRow` per relation descriptor *instance* of the registered model classes
with every parameter its `__get__` reads, and per registered `xsi:type` the resolved attribute slots
(`getattr(type(obj), name)` as Python's MRO resolves it) as indices into the row list.

Core Lean only.
-/
namespace Capella.ReadTable

/-- the accessor classes of `capellambse.model._descriptors` by what their `__get__` does -/
inductive RKind
  | direct          -- DirectProxyAccessor
  | deep            -- DeepProxyAccessor
  | link            -- LinkAccessor
  | attrProxy       -- AttrProxyAccessor, PhysicalLinkEndsAccessor (same `__get__`)
  | roleTag         -- RoleTagAccessor
  | parent          -- ParentAccessor
  | refSearch       -- ReferenceSearchingAccessor
  | specification   -- SpecificationAccessor
  | attrMatcher     -- AttributeMatcherAccessor (all matchers are BoolPODs; otherwise the row is `.other`)
  | index           -- IndexAccessor
  | typecast        -- TypecastAccessor
  | alternate       -- AlternateAccessor
  | alias           -- Alias
  | deprecated      -- DeprecatedAccessor
  | other (name : String)
deriving DecidableEq, Repr

structure RRow where
  cls : String                    -- class that defines the descriptor
  attr : String
  kind : RKind
  aslist : Bool                   -- `acc.aslist is not None` (AttributeMatcher: its private `__aslist`)
  xtypes : List String            -- `acc.xtypes` (a set; sorted)
  rootelem : List String          -- Direct/Deep/AttributeMatcher: `acc.rootelem`
  followAbstract : Bool
  tag : Option String             -- Link: `tag`; RoleTag: `role_tag`
  follow : Option String          -- Link: `follow`; AttrProxy: `attr`; Typecast: `attr`; Index: `wrapped`;
                                  -- Alias: `target`; Deprecated: `alternative`
  index : Nat                     -- Index: `index`
  hasClasses : Bool               -- RoleTag: `bool(acc.classes)`
  accept : List String            -- RoleTag: the registered xtypes whose class passes `isinstance(_, acc.classes)`
  acceptUnknown : Bool            -- RoleTag: does plain `ModelElement` pass (elements of unregistered type)
  matcher : List (String × Bool)  -- AttributeMatcher: (XML attribute of the BoolPOD, expected value)
  targets : List String           -- RefSearch: what `__candidate_types()` hands to `search()`, as xtypes, in order
  paths : List (List String)      -- RefSearch: the dotted `attrgetter` paths
deriving DecidableEq, Repr

/-- how a row reads the XML: through the fragment-aware loader primitives only, through a raw child
iteration, by delegating to another attribute of the same object, by a model-wide search, or not modelled -/
inductive RClass | aware | raw | delegating | searching | extension
deriving DecidableEq, Repr

/-- accessor kinds of the extensions and the diagram layer that the read model does not implement; a kind
that is neither modelled nor listed here fails the table obligation -/
def knownExtensions : List String :=
  ["ElementRelationAccessor", "RequirementsRelationAccessor", "AttributeAccessor", "DiagramAccessor",
   "AssociatedCriteriaAccessor", "AppliedPropertyValueGroupXMLAttributeAccessor", "ValidationResultsAccessor",
   "RulesAccessor", "ManagedGroupDescriptor", "ViewpointAccessor", "PropertyValueProxy"]

def RRow.classify (r : RRow) : Option RClass :=
  match r.kind with
  | .direct | .deep | .attrProxy | .roleTag | .parent | .attrMatcher | .alternate => some .aware
  | .link | .specification => some .raw
  | .index | .typecast | .alias | .deprecated => some .delegating
  | .refSearch => some .searching
  | .other n =>
    -- "attr:<type>": a property or POD that is reachable through an `attrgetter` path of a searching accessor
    if knownExtensions.contains n || "attr:".isPrefixOf n then some .extension else none

/-- the parameters the kind's `__get__` needs are present -/
def RRow.wellFormed (r : RRow) : Bool :=
  match r.kind with
  | .link => r.follow.isSome && r.xtypes.length == 1
  | .attrProxy => r.follow.isSome
  | .roleTag => r.tag.isSome && (r.aslist || !r.hasClasses)
  | .index | .typecast | .alias | .deprecated => r.follow.isSome
  | .refSearch => r.paths.all (fun p => !p.isEmpty)
  | .attrMatcher => !r.matcher.isEmpty
  | _ => true

def RRow.ok (r : RRow) : Bool := r.classify.isSome && r.wellFormed

/-- resolved attribute slots of one registered `xsi:type` (`""` = plain `ModelElement`, the class of
elements whose type is not registered) -/
structure Slots where
  xtype : String
  slots : List (String × Nat)
deriving DecidableEq, Repr

structure Table where
  rows : List RRow
  classes : List Slots
deriving Repr

def Table.slotsOf (tb : Table) (xt : Option String) : List (String × Nat) :=
  match tb.classes.find? (fun c => some c.xtype == xt) with
  | some c => c.slots
  | none =>
    match tb.classes.find? (fun c => c.xtype == "") with
    | some c => c.slots
    | none => []

/-- `getattr(type(obj), name)` for the class `from_model` picks for an element of type `xt` -/
def Table.slot (tb : Table) (xt : Option String) (name : String) : Option RRow :=
  match (tb.slotsOf xt).find? (fun p => p.1 == name) with
  | some p => tb.rows[p.2]?
  | none => none

end Capella.ReadTable
