/-
Descriptor-table vocabulary shared by the generated tables (`Capella/Gen/Pods*.lean`) and the
behavioural model (`Capella/Model/Pods.lean`): kinds, descriptors, enum classes, table rows and the
well-formedness predicate the generated files discharge with `decide +kernel`.
Core Lean only.
-/

namespace Capella.Pods

abbrev Str := List Char

/-- characters lxml accepts in attribute values / text (`_utf8`, `valid_xml_utf8`):
TAB, LF, CR and everything from U+0020 except U+FFFE/U+FFFF (surrogates are not `Char`s). -/
def xmlChar (c : Char) : Bool :=
  let n := c.toNat
  n == 9 || n == 10 || n == 13 || (decide (32 ≤ n) && n != 0xFFFE && n != 0xFFFF)

def xmlOk (s : Str) : Bool := s.all xmlChar

/-! ## Descriptors -/

structure EnumCls where
  name : Str
  /-- `_StringyEnumMixin`: members compare equal to their name -/
  stringy : Bool
  /-- `enumcls.__members__`: (name, value) in declaration order (no aliases: `@enum.unique`) -/
  members : List (Str × Str)
deriving DecidableEq, Repr

inductive Kind
  | string | html | bool | int | float | datetime
  | enum (cls : EnumCls) (default : Str)      -- default member's name
  | selector
  | other (name : Str)
deriving DecidableEq, Repr

structure Desc where
  kind : Kind
  attr : Str
  writable : Bool
deriving DecidableEq, Repr

def EnumCls.byName (e : EnumCls) (n : Str) : Option Str :=
  (e.members.find? (fun m => m.1 = n)).map (·.2)

def EnumCls.byValue (e : EnumCls) (v : Str) : Option Str :=
  (e.members.find? (fun m => m.2 = v)).map (·.1)

/-! ## Rows of the generated descriptor table (`Capella/Gen/Pods*.lean`) -/


/-- the descriptor's `default` as found on the live object -/
inductive DefaultLit
  | emptyStr | emptyMarkup | false | zeroInt | zeroFloat | none | selectorEmpty
  | member (name : Str)
  | other (repr : String)
deriving DecidableEq, Repr

structure Row where
  /-- qualified name of the registered model class (label) -/
  cls : String
  /-- attribute name on the Python class (label) -/
  pyname : String
  /-- class that declares the descriptor (label) -/
  owner : String
  desc : Desc
  default : DefaultLit
deriving DecidableEq, Repr

def allDistinct : List Str → Bool
  | [] => true
  | x :: r => !r.contains x && allDistinct r

def EnumCls.wf (e : EnumCls) : Bool :=
  !e.members.isEmpty && allDistinct (e.members.map (·.1)) && allDistinct (e.members.map (·.2)) &&
  e.members.all (fun m => xmlOk m.2) && e.stringy

/-- what the model assumes about a row: known kind, the default the POD class hard-codes,
a usable XML attribute name, and a well-formed enum. -/
def Row.wf (r : Row) : Bool :=
  !r.desc.attr.isEmpty &&
  match r.desc.kind, r.default with
  | .string, .emptyStr => true
  | .html, .emptyMarkup => true
  | .bool, .false => r.desc.writable
  | .int, .zeroInt => true
  | .float, .zeroFloat => true
  | .datetime, .none => true
  | .selector, .selectorEmpty => r.desc.writable
  | .enum e n, .member m => decide (n = m) && e.wf && (e.byName n).isSome
  | _, _ => false

/-- no two descriptor slots of one class share an XML attribute -/
def slotsDistinct (rows : List Row) : Bool :=
  let keys := rows.map (fun r => (r.cls, r.desc.attr))
  let rec go : List (String × Str) → Bool
    | [] => true
    | x :: r => !r.contains x && go r
  go keys



end Capella.Pods
