/-!
# C11 — the render cache of `AbstractDiagram` as a state machine

Core Lean only.  Mirrors `capellambse/model/diagram.py: AbstractDiagram.__render_fresh`,
`invalidate_cache` and the part of `render(None, **params)` that uses them: the object keeps the last
picture (`_render`), the last error (`_error`) and `_last_render_params`, and re-renders when there is
no picture or the parameters differ from `_last_render_params`.

`.coded` is the code as it is: `_last_render_params` is initialised to `{}` and **never assigned
again**.  `.keyed` is the behaviour the docstring describes ("handing over parameters that differ … will
force a fresh rendering"): the parameters of a fresh render are remembered.

The picture is abstract: `create : Params → Except Err Pic` is the parser on the current tree.
-/
namespace Capella.RenderCache

abbrev Str := List Char
/-- render parameters as the sorted item list of the `dict` (dict equality ignores order) -/
abbrev Params := List (Str × Str)

inductive Variant | coded | keyed
deriving DecidableEq, Repr

structure Cache (Pic Err : Type) where
  render : Option Pic          -- `hasattr(self, "_render")`
  error : Option Err           -- `hasattr(self, "_error")`
  last : Params                -- `_last_render_params`

def Cache.init {Pic Err : Type} : Cache Pic Err := { render := none, error := none, last := [] }

/-- `invalidate_cache`: both attributes are deleted; the remembered parameters stay -/
def invalidate {Pic Err : Type} (c : Cache Pic Err) : Cache Pic Err := { c with render := none, error := none }

/-- the re-render branch of `__render_fresh`: `invalidate_cache()`, then `_create_diagram(params)`; an exception is
stored and replaced by the error image -/
def fresh {Pic Err : Type} (v : Variant) (create : Params → Except Err Pic) (errImg : Err → Pic)
    (c : Cache Pic Err) (p : Params) : Cache Pic Err × Bool × Except Err Pic :=
  let c0 := invalidate c
  let c0 : Cache Pic Err := match v with | .coded => c0 | .keyed => { c0 with last := p }
  match create p with
  | .ok pic => ({ c0 with render := some pic }, true, .ok pic)
  | .error e => ({ c0 with error := some e, render := some (errImg e) }, true, .error e)

/-- `__render_fresh(params)`: the new state, whether `_create_diagram` ran, and what is returned / raised -/
def renderFresh {Pic Err : Type} (v : Variant) (create : Params → Except Err Pic) (errImg : Err → Pic)
    (c : Cache Pic Err) (p : Params) : Cache Pic Err × Bool × Except Err Pic :=
  match c.render with
  | none => fresh v create errImg c p
  | some pic =>
    if c.last ≠ p then fresh v create errImg c p
    else match c.error with
      | some e => (c, false, .error e)
      | none => (c, false, .ok pic)

inductive Op
  | render (p : Params)
  | invalidate
deriving DecidableEq, Repr

def step {Pic Err : Type} (v : Variant) (create : Params → Except Err Pic) (errImg : Err → Pic)
    (c : Cache Pic Err) : Op → Cache Pic Err × Option (Bool × Except Err Pic)
  | .render p => let r := renderFresh v create errImg c p; (r.1, some r.2)
  | .invalidate => (invalidate c, none)

/-- a history of `render(None, **p)` / `invalidate_cache()` calls on one diagram object -/
def run {Pic Err : Type} (v : Variant) (create : Params → Except Err Pic) (errImg : Err → Pic) :
    Cache Pic Err → List Op → List (Option (Bool × Except Err Pic))
  | _, [] => []
  | c, op :: r => (step v create errImg c op).2 :: run v create errImg (step v create errImg c op).1 r

/-- what a render without any cache answers -/
def spec {Pic Err : Type} (create : Params → Except Err Pic) : Op → Option (Except Err Pic)
  | .render p => some (create p)
  | .invalidate => none

/-- the cache invariant of the keyed variant: what is stored is what `create` gives for the remembered parameters -/
def Inv {Pic Err : Type} (create : Params → Except Err Pic) (errImg : Err → Pic) (c : Cache Pic Err) : Prop :=
  match c.render with
  | none => c.error = none
  | some pic =>
    match c.error with
    | some e => create c.last = .error e ∧ pic = errImg e
    | none => create c.last = .ok pic

end Capella.RenderCache
