/-
Model of two-phase deletion (`DirectProxyAccessor._delete`, `RoleTagAccessor.delete`), C09.

The model state is the reference graph as the object layer exposes it: for every element the
references it stores, each classified by the accessor that exposes it. Deleting the elements `sub`
(target + descendants, computed by `iterdescendants_xt`) runs in two phases under one `ExitStack`:

* enter: for every element of `sub`, for every reference `find_references` reports whose accessor is
  writable and not the deleting accessor itself, `acc.purge_references(ref, obj)` is entered — a
  generator context manager: the part before `yield` only *collects* (LinkAccessor) or refuses
  (PhysicalLinkEndsAccessor raises NotImplementedError), it never writes;
* the elements are un-indexed and removed;
* exit (LIFO): each context rewrites / deletes the attribute or removes the collected link elements.

If an `enter` raises, `ExitStack.__exit__` throws the exception into the generators already
entered; they do not catch it, so none of their post-`yield` code runs: nothing was written.
-/
namespace Capella.Delete

inductive RefKind
  | attrList      -- AttrProxyAccessor with aslist: attribute holding a space-separated link list
  | attrSingle    -- AttrProxyAccessor without aslist: attribute holding one link
  | linkElem      -- LinkAccessor: a child element of the owner whose `follow` attribute is the link
  | refusing      -- PhysicalLinkEndsAccessor: purge_references raises NotImplementedError
  | readOnly      -- exposed only by non-writable accessors (back-references, parents, deep views)
  | unexposed     -- stored in the XML but exposed by no accessor of the owner's class
deriving DecidableEq, Repr

structure Ref where
  owner   : Nat        -- element that stores the reference
  slot    : String     -- XML attribute / link-element tag
  kind    : RefKind
  target  : Nat
  carrier : Nat        -- the link element for `linkElem`, else the owner
deriving DecidableEq, Repr

structure G where
  elems : List Nat     -- all elements (nids)
  refs  : List Ref
deriving Repr

inductive Err | notImplemented | other
deriving DecidableEq, Repr

/-- what a purge context will do on exit -/
inductive Exit
  | rewriteList (owner : Nat) (slot : String)   -- drop every link to a removed element from the list
  | dropAttr (owner : Nat) (slot : String)
  | dropLinkElems (carriers : List Nat)
deriving DecidableEq, Repr

/-- `acc.purge_references(ref, obj).__enter__()` for one reported reference -/
def enter (g : G) (r : Ref) : Except Err (Option Exit) :=
  match r.kind with
  | .refusing => .error .notImplemented
  | .attrList => .ok (some (.rewriteList r.owner r.slot))
  | .attrSingle => .ok (some (.dropAttr r.owner r.slot))
  | .linkElem =>
    -- collects every link element of that owner/slot that points at the target
    .ok (some (.dropLinkElems ((g.refs.filter (fun q => q.owner = r.owner ∧ q.slot = r.slot ∧
        q.kind = .linkElem ∧ q.target = r.target)).map (·.carrier))))
  | .readOnly | .unexposed => .ok none

def enterAll (g : G) : List Ref → Except Err (List Exit)
  | [] => .ok []
  | r :: rs => do
    let e ← enter g r
    let es ← enterAll g rs
    pure (match e with | some x => x :: es | none => es)

/-- effect of one exit on the reference list, after the elements `sub` are gone -/
def runExit (sub : List Nat) (refs : List Ref) : Exit → List Ref
  | .rewriteList o s => refs.filter (fun q => !(q.owner = o ∧ q.slot = s ∧ q.target ∈ sub))
  | .dropAttr o s => refs.filter (fun q => !(q.owner = o ∧ q.slot = s))
  | .dropLinkElems cs => refs.filter (fun q => !(q.carrier ∈ cs))   -- everything stored on a removed link element goes with it

def purgedCarriers : List Exit → List Nat
  | [] => []
  | .dropLinkElems cs :: es => cs ++ purgedCarriers es
  | _ :: es => purgedCarriers es

/-- the references `find_references` reports for the elements of `sub` that reach a purge context:
exposed by a writable accessor other than the containment relation doing the delete -/
def reported (g : G) (sub : List Nat) : List Ref :=
  g.refs.filter (fun r => r.target ∈ sub)

/-- `_delete`: returns the new graph, or the error with the graph untouched -/
def delete (g : G) (sub : List Nat) : Except Err G := do
  let exits ← enterAll g (reported g sub)
  -- removal of the subtree: its elements, and every reference stored inside it
  let refs1 := g.refs.filter (fun q => q.owner ∉ sub ∧ q.carrier ∉ sub)
  let refs2 := exits.reverse.foldl (runExit sub) refs1
  let gone := sub ++ purgedCarriers exits
  pure { elems := g.elems.filter (· ∉ gone), refs := refs2 }

/-- `_check_deletable` in front of `_delete`: when one of the elements to delete (`roots`) has no parent element — it
is the root of its own fragment file — the call raises NotImplementedError before any purge context is entered. -/
def checked (roots parentless : List Nat) (k : Except Err G) : Except Err G :=
  if roots.any (· ∈ parentless) then .error .notImplemented else k

end Capella.Delete

namespace Capella.Delete

/-- `_delete` as coded when the subtree continues in other fragment files: `iterdescendants_xt`
follows the placeholders, so purge contexts are entered for **all** of `sub`, but
`parent.remove(elm)` only detaches what hangs below the target in its own file (`localSub`);
the members living in other fragment files stay loaded. With `localSub = sub` this is `delete`. -/
def deleteAcrossFragments (g : G) (sub localSub : List Nat) : Except Err G := do
  let exits ← enterAll g (reported g sub)
  let refs1 := g.refs.filter (fun q => q.owner ∉ localSub ∧ q.carrier ∉ localSub)
  let refs2 := exits.reverse.foldl (runExit sub) refs1
  let gone := localSub ++ purgedCarriers exits
  pure { elems := g.elems.filter (· ∉ gone), refs := refs2 }

end Capella.Delete
