import Capella.Model.Path
import Capella.Model.Quote

/-!
# Model of the URL templating of `HTTPFileHandler` (C14)

Mirrors `capellambse/filehandler/http.py` as coded:

* `HTTPFileHandler.__init__`: `if not re.search("%[%a-z]", path): path = path.rstrip("/") + "/%s"` (`initTemplate`);
* `HTTPFileHandler.open`: `fname = self.subdir / normalize_pure_path(filename)`, the `replace` dictionary
  (`%s %q %d %n %e %%`, all values computed eagerly — so `with_suffix("")` on an empty name raises
  `ValueError` whatever the template says), then `re.sub("%[%a-z]", lambda m: replace[m.group(0)], path)`
  (`scan` + `expand`; an escape that is not in the dictionary raises `KeyError`);
* `PurePosixPath.__str__`, `.parent`, `.suffix`, `.with_suffix("")`, `.name` of CPython 3.12 on relative paths.

Text is `List Char`; `urllib.parse.quote` works on the UTF-8 bytes (`Capella.Quote`).  Core Lean only.
-/
namespace Capella.Http
open Capella.Path (Str)

/-- UTF-8 encoding of a text -/
def utf8 (s : Str) : List UInt8 := s.flatMap String.utf8EncodeChar

/-- `urllib.parse.quote(s, safe="/" if slashSafe else "")` -/
def q (slashSafe : Bool) (s : Str) : Str := Capella.Quote.quote slashSafe (utf8 s)

/-- `str(PurePosixPath(*parts))` for a relative path: `"."` for no parts -/
def pathStr (parts : List Str) : Str :=
  if parts = [] then ['.'] else ['/'].intercalate parts

/-- position of the last `.` in `n` (`str.rfind(".")`) -/
def rfindDot (n : Str) : Option Nat :=
  let r := n.reverse
  match r.findIdx? (· = '.') with
  | some k => some (n.length - 1 - k)
  | none => none

/-- `PurePosixPath.suffix` (3.12): from the last dot, unless that dot is the first or the last character -/
def suffix (n : Str) : Str :=
  match rfindDot n with
  | some i => if 0 < i ∧ i < n.length - 1 then n.drop i else []
  | none => []

/-- `path.with_suffix("").name` -/
def stem (n : Str) : Str := n.take (n.length - (suffix n).length)

/-- one piece of the template, as `re.sub("%[%a-z]", …)` sees it -/
inductive Piece
  | lit (c : Char)      -- copied
  | esc (c : Char)      -- `%c` with `c` in `[%a-z]`: looked up in the dictionary
  deriving DecidableEq, Repr

def isEscChar (c : Char) : Bool := c = '%' || ('a' ≤ c && c ≤ 'z')

/-- left-to-right, non-overlapping matches of `%[%a-z]` -/
def scan : Str → List Piece
  | '%' :: c :: rest => if isEscChar c then .esc c :: scan rest else .lit '%' :: scan (c :: rest)
  | c :: rest => .lit c :: scan rest
  | [] => []

def hasEsc (t : Str) : Bool := (scan t).any (fun p => match p with | .esc _ => true | .lit _ => false)

def rstripSlash (t : Str) : Str := (t.reverse.dropWhile (· = '/')).reverse

/-- `HTTPFileHandler.__init__`: a template without escape gets `/%s` appended -/
def initTemplate (t : Str) : Str := if hasEsc t then t else rstripSlash t ++ ['/', '%', 's']

/-- the `replace` dictionary for the handler-relative parts of the file (`none`: `KeyError`) -/
def value (parts : List Str) (c : Char) : Option Str :=
  let name := parts.getLast?.getD []
  if c = 's' then some (q true (pathStr parts))
  else if c = 'q' then some (q false (pathStr parts))
  else if c = 'd' then some (q true (pathStr parts.dropLast))
  else if c = 'n' then some (q true (stem name))
  else if c = 'e' then some (q true ((suffix name).dropWhile (· = '.')))
  else if c = '%' then some ['%']
  else none

inductive Res
  | url (u : Str)
  | valueError          -- `with_suffix("")` on a path without a name (the file name normalised to nothing)
  | keyError (c : Char) -- an escape `%c` the dictionary does not have
  deriving DecidableEq, Repr

/-- the substitution loop -/
def subst (parts : List Str) : List Piece → Except Char Str
  | [] => .ok []
  | .lit c :: rest => (subst parts rest).map (c :: ·)
  | .esc c :: rest =>
    match value parts c with
    | none => .error c
    | some v => (subst parts rest).map (v ++ ·)

/-- `HTTPFileHandler.open(name)` up to the request: the URL asked for (template as stored by `__init__`,
`parts` = normalised subdir ++ normalised name) -/
def expand (template : Str) (parts : List Str) : Res :=
  if parts = [] then .valueError else
  match subst parts (scan template) with
  | .ok u => .url u
  | .error c => .keyError c

/-- the request of a handler constructed with `path`, `subdir` for `open(name)` -/
def request (path subdir name : Str) : Res :=
  expand (initTemplate path) (Capella.Path.target .http subdir name)

end Capella.Http
