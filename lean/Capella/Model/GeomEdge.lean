/-
Model of the edge chain of `capellambse/aird/_edge_factories.py` over exact rationals: what
`generic_factory` does to the points of an edge between two boxes.

* `extractRelBendpoints` — `_extract_relative_bendpoints` (source-relative decoding of the stored
  `points="[sx, sy, tx, ty]$…"`; only the first two numbers of each item are used by the code; the
  "all bend points coincide" collapse to `[]`).
* `edgePoints` — `generic_factory`: stored bend points, or `route_manhattan` / `route_tree` /
  `route_oblique` (in `Model/Geom.lean`) when there are none.
* `snapObliqueEnd`, `snapManhattanEnd`, `snapTreeEnd`, `snapEnd` — `snap_oblique` (with the
  "deviation of one radian or more" re-snap), `snap_manhattan` (axis projection of the end point, bend
  insertion), `snap_tree` (bend insertion), `snaptarget`.
* `edgeRoute` — the two `snaptarget` calls of `generic_factory`: target end first, then source end.

Conventions and departures from the letter of the code (documented in design/C17.md):

* The Python functions mutate a list and address the end by `(i, next_i) = (-1, -2)` or `(0, 1)`.
  `points.insert(i + (i > next_i), x)` appends after the last point resp. prepends before the first
  one, so in both cases the inserted point becomes the new *outermost* point.  The model therefore
  works on the list in outermost-first order `e :: nx :: rest` and `edgeRoute` reverses the list for
  the target end.  `points[next_i - i + next_i]` is the third point from that end (`rest.head?`).
* `math.isclose(a, b)` (relative tolerance `1e-9`, no absolute one) is `a = b`; the driver reports the
  inputs on which the two differ (`0 < |a - b| ≤ 1e-8·max(|a|, |b|)`) as declared ties.
* `math.isclose(axis.angleto(direction), 0)` for a unit axis vector is "`direction` is a non-negative
  multiple of `axis`" (`onAxis`).
* `abs(delta) >= 1` in `snap_oblique` compares an angle computed with `atan2` to one radian; no
  rational formulation exists (`cos 1` is transcendental).  Every function takes the decision as a
  parameter `dec : V2 → V2 → Bool` applied to the two *difference* vectors the code passes to
  `angleto`; the theorems hold for every `dec`.  The driver instantiates it with `angleGe`
  (`θ ≥ 1 ⇔ a·b ≤ 0 ∨ (a·b)² ≤ cos²(1)·|a|²|b|²`, with `atan2(0, 0) = 0` mirrored by `angDir`) for a
  rational enclosure `cosSqLo < cos² 1 < cosSqHi` and declares the band in between as a tie.

Core Lean only.
-/
import Capella.Model.Geom

namespace Capella.Geom

/-! ### `_extract_relative_bendpoints` -/

/-- `if len(bendpoints) == 1 or all(b == bendpoints[0] for b in bendpoints): return []` -/
def collapseEqual (pts : List V2) : List V2 :=
  match pts with
  | [] => []
  | p0 :: rest => if rest.all (fun b => b = p0) then [] else pts

/-- `_extract_relative_bendpoints`: `sb` is `sourceport.bounds`, `anchor` the parsed `sourceAnchor`
(`(0.5, 0.5)` when absent), `rel` the first two numbers of every `$`-separated item. -/
def extractRelBendpoints (sb : Rect) (anchor : V2) (rel : List V2) : List V2 :=
  let refpos : V2 := sb.toBox.pos + sb.toBox.size.had anchor
  collapseEqual (rel.map (fun r => refpos + r))

/-! ### the angle decision of `snap_oblique` -/

/-- `atan2(0, 0) = 0`: in `angleto` a zero vector behaves like `(1, 0)` -/
def angDir (a : V2) : V2 := if a = ⟨0, 0⟩ then ⟨1, 0⟩ else a

/-- "the angle between `a` and `b` is at least `arccos √c`" -/
def angleGe (c : Rat) (a b : V2) : Bool :=
  let a := angDir a
  let b := angDir b
  decide (a.dot b ≤ 0 ∨ a.dot b * a.dot b ≤ c * a.sqlength * b.sqlength)

/-- rational enclosure of `cos² 1 = 0.29192658172642888…`, generously wider than the rounding of `atan2` -/
def cosSqLo : Rat := 291926581 / 1000000000
def cosSqHi : Rat := 291926583 / 1000000000

/-- the inputs on which the float code's `abs(delta) >= 1` is not determined by the enclosure -/
def angleTie (a b : V2) : Bool := angleGe cosSqHi a b && !angleGe cosSqLo a b

/-! ### `snap_oblique`, `snap_manhattan`, `snap_tree` on the points in outermost-first order -/

/-- `snap_oblique`: `e = points[i]`, `nx = points[next_i]`, `nx2 = points[2*next_i - i]` if there are
at least three points.  Returns the new `points[i]`. -/
def snapObliqueEnd (dec : V2 → V2 → Bool) (b : Box) (e nx : V2) (nx2 : Option V2) : Except Err V2 :=
  match vectorSnap b e nx .oblique with
  | .error err => .error err
  | .ok q =>
    if dec (e - nx) (q - nx) then vectorSnap b nx (nx2.getD nx) .oblique
    else .ok q

/-- `math.isclose(axis.angleto(direction), 0)` for a unit axis vector -/
def onAxis (axis d : V2) : Prop := d.x * axis.y - d.y * axis.x = 0 ∧ 0 ≤ d.dot axis

instance (axis d : V2) : Decidable (onAxis axis d) := by unfold onAxis; infer_instance

def absV (a : V2) : V2 := ⟨rabs a.x, rabs a.y⟩

/-- `points[i] @ abs(axis) + points[next_i] @ (not axis.x, not axis.y)`: the end point moved onto the
axis-parallel line through its neighbour -/
def manhattanProject (axis e nx : V2) : V2 :=
  e.had (absV axis) + nx.had ⟨b2r (axis.x = 0), b2r (axis.y = 0)⟩

/-- the second half of `snap_manhattan`: snap the (axis-aligned) end point `e1`, insert a bend if the snapped point
left the axis-parallel line.  Returns the points that replace `points[i]`, outermost first. -/
def manhattanFinish (b : Box) (axis e1 nx : V2) : Except Err (List V2) :=
  match vectorSnap b e1 nx .manhattan with
  | .error err => .error err
  | .ok q =>
    if axis.x ≠ 0 then
      if q.y = e1.y then .ok [q] else .ok [q, ⟨q.x, e1.y⟩]
    else if q.x = e1.x then .ok [q]
    else .ok [q, ⟨e1.x, q.y⟩]

/-- `snap_manhattan`: returns the points that replace `points[i]`, outermost first. -/
def snapManhattanEnd (b : Box) (e nx : V2) : Except Err (List V2) :=
  let axis := closestaxis (e - nx)
  manhattanFinish b axis (if onAxis axis (e - nx) then e else manhattanProject axis e nx) nx

/-- `snap_tree` (as repaired: the bend `(endpoint.x, points[next_i].y)` replaces `points[i]` and the
end point is inserted outermost, like in `snap_manhattan`; before the repair the two were stored the
other way round and the edge ended in the bend): returns the points that replace `points[i]`,
outermost first. -/
def snapTreeEnd (b : Box) (e nx : V2) : Except Err (List V2) :=
  match vectorSnap b e nx .tree with
  | .error err => .error err
  | .ok q => if q.x = e.x then .ok [q] else .ok [q, ⟨q.x, nx.y⟩]

/-- `snaptarget(points, i, next_i, target, routingstyle=…)` with snapping enabled and a `Box` target,
on the points in outermost-first order. `Edge.__init__` guarantees two points. -/
def snapEnd (dec : V2 → V2 → Bool) (st : Style) (b : Box) : List V2 → Except Err (List V2)
  | e :: nx :: rest =>
    match st with
    | .oblique => (snapObliqueEnd dec b e nx rest.head?).map (fun q => q :: nx :: rest)
    | .manhattan => (snapManhattanEnd b e nx).map (fun l => l ++ nx :: rest)
    | .tree => (snapTreeEnd b e nx).map (fun l => l ++ nx :: rest)
  | _ => .error .emptyEdge

/-! ### `generic_factory` -/

/-- what `generic_factory` reads for an edge between two boxes: the two end boxes with their floating
labels (`bounds`), the source anchor, the stored source-relative bend points, the routing style
(`"manhattan"`, `"tree"`, anything else is oblique) -/
structure EdgeIn where
  src : Box
  srcLabels : List Box
  tgt : Box
  tgtLabels : List Box
  anchor : V2
  rel : List V2
  style : Style

/-- the points `diagram.Edge` is constructed with -/
def edgePoints (i : EdgeIn) : Except Err (List V2) :=
  let bend := extractRelBendpoints (boxBounds i.src i.srcLabels) i.anchor i.rel
  if bend ≠ [] then .ok bend
  else
    match i.style with
    | .manhattan => routeManhattan i.src i.tgt
    | .tree => .ok (routeTree (boxBounds i.src i.srcLabels) (boxBounds i.tgt i.tgtLabels))
    | .oblique => .ok (routeOblique i.src i.tgt)

/-- the points of the edge `generic_factory` returns: target end snapped first, then the source end -/
def edgeRoute (dec : V2 → V2 → Bool) (i : EdgeIn) : Except Err (List V2) :=
  match edgePoints i with
  | .error err => .error err
  | .ok pts =>
    match snapEnd dec i.style i.tgt pts.reverse with
    | .error err => .error err
    | .ok r => snapEnd dec i.style i.src r.reverse

def EdgeIn.translate (i : EdgeIn) (v : V2) : EdgeIn :=
  { i with src := i.src.translate v, srcLabels := i.srcLabels.map (·.translate v),
           tgt := i.tgt.translate v, tgtLabels := i.tgtLabels.map (·.translate v) }

end Capella.Geom
