import Capella.Model.XmlSpec
/-
Tree edits as the object layer performs them on lxml elements (`element.set`, `attrib.pop`,
`element.text = …`, `element.insert`, `element.remove`), addressed by a child-index path, and
information equality of trees (attribute and declaration order are not information).
Used by C02: what survives `save()` + reload.
-/
namespace Capella.Xml

/-! ## Edits -/

/-- `dict`-style update: replace the value in place, or append -/
def setKV (k v : Str) : List (Str × Str) → List (Str × Str)
  | [] => [(k, v)]
  | (a, w) :: rest => if a = k then (a, v) :: rest else (a, w) :: setKV k v rest

def Elem.setAttr (k v : Str) : Elem → Elem
  | .mk t n a x tl ks => .mk t n (setKV k v a) x tl ks

def Elem.delAttr (k : Str) : Elem → Elem
  | .mk t n a x tl ks => .mk t n (a.filter fun kv => kv.1 != k) x tl ks

def Elem.setText (txt : Option Str) : Elem → Elem
  | .mk t n a _ tl ks => .mk t n a txt tl ks

def insertNth (i : Nat) (x : Elem) : List Elem → List Elem
  | [] => [x]
  | y :: ys => match i with
    | 0 => x :: y :: ys
    | j + 1 => y :: insertNth j x ys

def removeNth : Nat → List Elem → List Elem
  | _, [] => []
  | 0, _ :: ys => ys
  | j + 1, y :: ys => y :: removeNth j ys

def Elem.insertKid (i : Nat) (kid : Elem) : Elem → Elem
  | .mk t n a x tl ks => .mk t n a x tl (insertNth i kid ks)

def Elem.removeKid (i : Nat) : Elem → Elem
  | .mk t n a x tl ks => .mk t n a x tl (removeNth i ks)

def modifyNth (f : Elem → Elem) : Nat → List Elem → List Elem
  | _, [] => []
  | 0, y :: ys => f y :: ys
  | j + 1, y :: ys => y :: modifyNth f j ys

/-- apply `f` to the element at `path` (child indices from the root); an invalid path changes nothing -/
def editAt : List Nat → (Elem → Elem) → Elem → Elem
  | [], f, e => f e
  | i :: p, f, .mk t n a x tl ks => .mk t n a x tl (modifyNth (editAt p f) i ks)

inductive Edit where
  | setAttr (path : List Nat) (k v : Str)
  | delAttr (path : List Nat) (k : Str)
  | setText (path : List Nat) (t : Option Str)
  | insertKid (path : List Nat) (i : Nat) (kid : Elem)
  | removeKid (path : List Nat) (i : Nat)

def Edit.path : Edit → List Nat
  | .setAttr p _ _ | .delAttr p _ | .setText p _ | .insertKid p _ _ | .removeKid p _ => p

def Edit.fn : Edit → Elem → Elem
  | .setAttr _ k v => Elem.setAttr k v
  | .delAttr _ k => Elem.delAttr k
  | .setText _ t => Elem.setText t
  | .insertKid _ i kid => Elem.insertKid i kid
  | .removeKid _ i => Elem.removeKid i

def Edit.apply (ed : Edit) (d : Doc) : Doc := ⟨d.pre, editAt ed.path ed.fn d.root, d.post⟩

def applyAll : List Edit → Doc → Doc
  | [], d => d
  | e :: es, d => applyAll es (e.apply d)

/-- the check an edit has to pass at its target (scope `m`): the API only sets attributes with
declared names and XML-legal values, text only on childless elements, and inserts well-formed
children below elements without text -/
def Edit.okAtTarget (m : List (Str × Str)) : Edit → Elem → Bool
  | .setAttr _ k v, .mk _ nsd _ _ _ _ => qnameOk (scope m nsd) true k && v.all xmlChar
  | .delAttr _ _, _ => true
  | .setText _ t, .mk _ _ _ _ _ ks => textOk t ks.isEmpty
  | .insertKid _ _ kid, .mk _ nsd _ x _ _ => x.isNone && wfElem (scope m nsd) kid
  | .removeKid _ _, _ => true

def nthKid : Nat → List Elem → Option Elem
  | _, [] => none
  | 0, y :: _ => some y
  | j + 1, _ :: ys => nthKid j ys

/-- walk down `path`, tracking the namespace scope, and check the edit at its target -/
def okAt (m : List (Str × Str)) (chk : List (Str × Str) → Elem → Bool) : List Nat → Elem → Bool
  | [], e => chk m e
  | i :: p, .mk _ nsd _ _ _ ks =>
    match nthKid i ks with
    | some k => okAt (scope m nsd) chk p k
    | none => false

def Edit.ok (ed : Edit) (d : Doc) : Bool := okAt [] ed.okAtTarget ed.path d.root

def okAll : List Edit → Doc → Bool
  | [], _ => true
  | e :: es, d => e.ok d && okAll es (e.apply d)

/-! ## Information equality -/

mutual
/-- same element: same tag, the same attributes and namespace declarations in any order, same
text and tail, children pairwise the same, in order -/
def InfoEq : Elem → Elem → Prop
  | .mk t1 n1 a1 x1 l1 k1, .mk t2 n2 a2 x2 l2 k2 =>
    t1 = t2 ∧ n1.Perm n2 ∧ a1.Perm a2 ∧ x1 = x2 ∧ l1 = l2 ∧ InfoEqL k1 k2
def InfoEqL : List Elem → List Elem → Prop
  | [], [] => True
  | a :: as, b :: bs => InfoEq a b ∧ InfoEqL as bs
  | _, _ => False
end

def InfoEqDoc (a b : Doc) : Prop := a.pre = b.pre ∧ InfoEq a.root b.root ∧ a.post = b.post

/-! ### executable version for the driver: sort by key, compare -/

def insertKV (x : Str × Str) : List (Str × Str) → List (Str × Str)
  | [] => [x]
  | y :: ys => if strLt y.1 x.1 then y :: insertKV x ys else x :: y :: ys

def sortKV : List (Str × Str) → List (Str × Str)
  | [] => []
  | x :: xs => insertKV x (sortKV xs)

mutual
def normInfo : Elem → Elem
  | .mk t n a x tl ks =>
    .mk t (sortKV n) (sortKV a) (match x with | some [] => none | o => o)
      (match tl with | some [] => none | o => o) (normInfoL ks)
def normInfoL : List Elem → List Elem
  | [] => []
  | k :: ks => normInfo k :: normInfoL ks
end

def infoEqB (a b : Doc) : Bool :=
  a.pre == b.pre && Elem.beq (normInfo a.root) (normInfo b.root) && a.post == b.post

end Capella.Xml
