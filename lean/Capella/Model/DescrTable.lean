/-
Vocabulary of the generated descriptor table (harness/gen_descriptors.py → Capella/Gen/Descr*.lean):
one row per relation descriptor instance of the registered model classes.
-/
namespace Capella.DescrTable

inductive Kind
  | directProxyAccessor | attributeMatcherAccessor | roleTagAccessor | deepProxyAccessor
  | linkAccessor | attrProxyAccessor | physicalLinkEndsAccessor | typecastAccessor
  | indexAccessor | parentAccessor | referenceSearchingAccessor | specificationAccessor
  | alternateAccessor | alias | deprecatedAccessor | diagramAccessor
  | attributeAccessor | elementRelationAccessor | requirementsRelationAccessor
  | associatedCriteriaAccessor     -- extensions/filtering.py: read-only PhysicalAccessor attached by init()
  | other (name : String)
deriving DecidableEq, Repr

structure Row where
  cls : String
  attr : String
  kind : Kind
  writable : Bool        -- isinstance(acc, WritableAccessor)
  aslist : Bool          -- acc.aslist is not None
  fixed : Nat            -- fixed_length (0 = free)
  unique : Bool          -- LinkAccessor.unique
  hasTag : Bool          -- LinkAccessor.tag is not None
  rootelem : Bool
  followAbstract : Bool
deriving DecidableEq, Repr

/-- how a writable list relation stores its members -/
inductive Storage | containment | linkElements | attrLinks | view | virtual
deriving DecidableEq, Repr

def Row.storage (r : Row) : Option Storage :=
  match r.kind with
  | .directProxyAccessor | .attributeMatcherAccessor | .roleTagAccessor => some .containment
  | .linkAccessor => some .linkElements
  | .attrProxyAccessor | .physicalLinkEndsAccessor => some .attrLinks
  | .typecastAccessor => some .view              -- filtered view over another relation
  | .elementRelationAccessor | .requirementsRelationAccessor | .attributeAccessor => some .virtual
  | _ => none

/-- a row is covered when it is not a writable list, or its storage is one the C08 theorems treat
(the fixed-length rule is enforced by the list front-end before the accessor is reached, for every
storage alike); a link-element list needs its XML tag to be writable at all -/
def Row.covered (r : Row) : Bool :=
  if r.writable && r.aslist then
    r.storage.isSome
  else
    match r.kind with | .other _ => false | _ => true

end Capella.DescrTable
