/-!
# C11 — effects of the diagram parser: who reads and who writes the model trees

Core Lean only.  Two parts.

**A. The static effect table** (types of what `harness/gen_effects.py` generates from the live
`capellambse.aird` package): one `EffRow` per access site in the source of every function — the kind
of the receiver (an element of a model tree, its `attrib`, the loader, a diagram object under
construction, the element builder, a local container …) and the operation — the call edges between the
functions, the dispatch tables (`STYLECLASS_LOOKUP`, `VISUAL_TYPES`, `COMPOSITE_FILTERS`,
`GLOBAL_FILTERS`) and the read-only entry points.  `Table.reach` is the call-graph closure;
`EffRow.okIn` is the obligation every row of a reachable function must meet.

**B. Programs with explicit tree effects**: a factory is a `Prog Out` — a tree of requests to the
model trees (`Instr`: reads *and* writes are available) with continuations.  `exec` runs a program
on a `Tree` and returns the tree it leaves behind, the answer and the trace of requests.  Purity
is not built in: `Instr.setAttr` & co. change the tree, and the three factories as they were coded
before the repair are expressible (and are not `ReadOnly`).
-/
namespace Capella.Effects

abbrev Str := List Char
abbrev Attrs := List (Str × Str)

/-! ## A. the static table -/

/-- what kind of object an access site touches -/
inductive Recv
  | xml        -- an element of a model tree (semantic or visual fragment)
  | attrib     -- `elem.attrib`
  | xmllist    -- a Python list / iterator of elements (the list itself is not part of the model)
  | loader     -- the `MelodyLoader`
  | diag       -- a `diagram.*` object under construction (the output)
  | builder    -- `ElementBuilder` / `SemanticElementBuilder` (per-element context)
  | args       -- `FilterArguments`
  | localv     -- local Python values and containers
  | modelobj   -- a `MelodyModel` / model-level `Diagram`
  | self       -- instance of a class of the package that is not a diagram object
  | global     -- a module-level name
  | unknown    -- the analyser could not classify the receiver
deriving DecidableEq, Repr

inductive Op
  | get | index | iter | parent | xpath | follow | field           -- reads
  | call                                                           -- method call that is not a known mutator
  | store | del_ | setm | append | insert | remove | extend | clear | pop | update | setdefault | fieldStore
  | escape      -- a model handle is passed to a function outside the analysed package (`key` = its name)
  | dyncall     -- a model handle is passed to a callable taken from a variable (`key` = the variable)
  | other       -- anything else (`key` says what)
deriving DecidableEq, Repr

def Op.isRead : Op → Bool
  | .get | .index | .iter | .parent | .xpath | .follow | .field => true
  | _ => false

def Op.isWrite : Op → Bool
  | .store | .del_ | .setm | .append | .insert | .remove | .extend | .clear | .pop | .update
  | .setdefault | .fieldStore => true
  | _ => false

/-- receivers that are (part of) what `save()` writes; `unknown` is treated as if it were -/
def Recv.isModel : Recv → Bool
  | .xml | .attrib | .loader | .modelobj | .unknown => true
  | _ => false

structure EffRow where
  fn : Nat
  recv : Recv
  op : Op
  key : Str
deriving DecidableEq, Repr

/-- functions outside the package that receive elements / the loader and are known to only read them
(`capellambse.helpers`); they are covered by the run-time write barrier, not by this table -/
def knownExternals : List Str :=
  [/- helpers.xtype_of -/ ['h', 'e', 'l', 'p', 'e', 'r', 's', '.', 'x', 't', 'y', 'p', 'e', '_', 'o', 'f'], /- helpers.xpath_fetch_unique -/ ['h', 'e', 'l', 'p', 'e', 'r', 's', '.', 'x', 'p', 'a', 't', 'h', '_', 'f', 'e', 't', 'c', 'h', '_', 'u', 'n', 'i', 'q', 'u', 'e'], /- helpers.unescape_linked_text -/ ['h', 'e', 'l', 'p', 'e', 'r', 's', '.', 'u', 'n', 'e', 's', 'c', 'a', 'p', 'e', '_', 'l', 'i', 'n', 'k', 'e', 'd', '_', 't', 'e', 'x', 't']]

/-- variables through which the parser calls "whatever the dispatch table says": the callee is one of
the registered table entries, all of which are roots of the reachability analysis -/
def knownDyncalls : List Str :=
  [/- drawtype -/ ['d', 'r', 'a', 'w', 't', 'y', 'p', 'e'], /- factory -/ ['f', 'a', 'c', 't', 'o', 'r', 'y'], /- fltfunc -/ ['f', 'l', 't', 'f', 'u', 'n', 'c'], /- p2flt -/ ['p', '2', 'f', 'l', 't'], /- boxtype -/ ['b', 'o', 'x', 't', 'y', 'p', 'e']]

/-- the obligation on one access site -/
def EffRow.ok (r : EffRow) : Bool :=
  match r.op with
  | .escape => knownExternals.contains r.key
  | .dyncall => knownDyncalls.contains r.key
  | .other => false
  | .call => !(r.recv == .modelobj)
  | op => op.isRead || !r.recv.isModel

inductive TableKind | semantic | visual | composite | global
deriving DecidableEq, Repr

inductive Role | any | box | edge
deriving DecidableEq, Repr

/-! the factories and filters the hand-written model knows, by the qualified name of the Python function -/
inductive Factory
  | boxGeneric | boxStacked | boxClass | boxComponentPort | boxConstraint | boxControlNode | boxEnumeration
  | boxPart | boxRequirement | boxRegion | boxStateMode | boxFcif | boxPseudo
  | edgeGeneric | edgeLabelless | edgePortAllocation | edgeStateTransition | edgeSequenceLink
  | edgeConstraint | edgeFcil | edgeEie | edgeFex | edgeReqRel | edgeIncExt | edgeAssociation
  | skip | visConnector | visShape
  | fltHideEmptyPorts
  | gHideAssociationLabels | gHideRoleNames | gShowNameAndEiFex | gShowEiFex | gShowEiCex | gShowEiCexNoFex
  | gHideAllEmptyPorts | gHideAllocFex
  | other (name : Str)
deriving DecidableEq, Repr

def Factory.names : List (Str × Factory) := [
  -- _box_factories:generic_factory
  (['_', 'b', 'o', 'x', '_', 'f', 'a', 'c', 't', 'o', 'r', 'i', 'e', 's', ':', 'g', 'e', 'n', 'e', 'r', 'i', 'c', '_', 'f', 'a', 'c', 't', 'o', 'r', 'y'], .boxGeneric),
  -- _box_factories:generic_stacked_factory
  (['_', 'b', 'o', 'x', '_', 'f', 'a', 'c', 't', 'o', 'r', 'i', 'e', 's', ':', 'g', 'e', 'n', 'e', 'r', 'i', 'c', '_', 's', 't', 'a', 'c', 'k', 'e', 'd', '_', 'f', 'a', 'c', 't', 'o', 'r', 'y'], .boxStacked),
  -- _box_factories:class_factory
  (['_', 'b', 'o', 'x', '_', 'f', 'a', 'c', 't', 'o', 'r', 'i', 'e', 's', ':', 'c', 'l', 'a', 's', 's', '_', 'f', 'a', 'c', 't', 'o', 'r', 'y'], .boxClass),
  -- _box_factories:component_port_factory
  (['_', 'b', 'o', 'x', '_', 'f', 'a', 'c', 't', 'o', 'r', 'i', 'e', 's', ':', 'c', 'o', 'm', 'p', 'o', 'n', 'e', 'n', 't', '_', 'p', 'o', 'r', 't', '_', 'f', 'a', 'c', 't', 'o', 'r', 'y'], .boxComponentPort),
  -- _box_factories:constraint_factory
  (['_', 'b', 'o', 'x', '_', 'f', 'a', 'c', 't', 'o', 'r', 'i', 'e', 's', ':', 'c', 'o', 'n', 's', 't', 'r', 'a', 'i', 'n', 't', '_', 'f', 'a', 'c', 't', 'o', 'r', 'y'], .boxConstraint),
  -- _box_factories:control_node_factory
  (['_', 'b', 'o', 'x', '_', 'f', 'a', 'c', 't', 'o', 'r', 'i', 'e', 's', ':', 'c', 'o', 'n', 't', 'r', 'o', 'l', '_', 'n', 'o', 'd', 'e', '_', 'f', 'a', 'c', 't', 'o', 'r', 'y'], .boxControlNode),
  -- _box_factories:enumeration_factory
  (['_', 'b', 'o', 'x', '_', 'f', 'a', 'c', 't', 'o', 'r', 'i', 'e', 's', ':', 'e', 'n', 'u', 'm', 'e', 'r', 'a', 't', 'i', 'o', 'n', '_', 'f', 'a', 'c', 't', 'o', 'r', 'y'], .boxEnumeration),
  -- _box_factories:part_factory
  (['_', 'b', 'o', 'x', '_', 'f', 'a', 'c', 't', 'o', 'r', 'i', 'e', 's', ':', 'p', 'a', 'r', 't', '_', 'f', 'a', 'c', 't', 'o', 'r', 'y'], .boxPart),
  -- _box_factories:requirements_box_factory
  (['_', 'b', 'o', 'x', '_', 'f', 'a', 'c', 't', 'o', 'r', 'i', 'e', 's', ':', 'r', 'e', 'q', 'u', 'i', 'r', 'e', 'm', 'e', 'n', 't', 's', '_', 'b', 'o', 'x', '_', 'f', 'a', 'c', 't', 'o', 'r', 'y'], .boxRequirement),
  -- _box_factories:region_factory
  (['_', 'b', 'o', 'x', '_', 'f', 'a', 'c', 't', 'o', 'r', 'i', 'e', 's', ':', 'r', 'e', 'g', 'i', 'o', 'n', '_', 'f', 'a', 'c', 't', 'o', 'r', 'y'], .boxRegion),
  -- _box_factories:statemode_factory
  (['_', 'b', 'o', 'x', '_', 'f', 'a', 'c', 't', 'o', 'r', 'i', 'e', 's', ':', 's', 't', 'a', 't', 'e', 'm', 'o', 'd', 'e', '_', 'f', 'a', 'c', 't', 'o', 'r', 'y'], .boxStateMode),
  -- _box_factories:fcif_factory
  (['_', 'b', 'o', 'x', '_', 'f', 'a', 'c', 't', 'o', 'r', 'i', 'e', 's', ':', 'f', 'c', 'i', 'f', '_', 'f', 'a', 'c', 't', 'o', 'r', 'y'], .boxFcif),
  -- _box_factories:pseudo_symbol_factory
  (['_', 'b', 'o', 'x', '_', 'f', 'a', 'c', 't', 'o', 'r', 'i', 'e', 's', ':', 'p', 's', 'e', 'u', 'd', 'o', '_', 's', 'y', 'm', 'b', 'o', 'l', '_', 'f', 'a', 'c', 't', 'o', 'r', 'y'], .boxPseudo),
  -- _edge_factories:generic_factory
  (['_', 'e', 'd', 'g', 'e', '_', 'f', 'a', 'c', 't', 'o', 'r', 'i', 'e', 's', ':', 'g', 'e', 'n', 'e', 'r', 'i', 'c', '_', 'f', 'a', 'c', 't', 'o', 'r', 'y'], .edgeGeneric),
  -- _edge_factories:labelless_factory
  (['_', 'e', 'd', 'g', 'e', '_', 'f', 'a', 'c', 't', 'o', 'r', 'i', 'e', 's', ':', 'l', 'a', 'b', 'e', 'l', 'l', 'e', 's', 's', '_', 'f', 'a', 'c', 't', 'o', 'r', 'y'], .edgeLabelless),
  -- _edge_factories:port_allocation_factory
  (['_', 'e', 'd', 'g', 'e', '_', 'f', 'a', 'c', 't', 'o', 'r', 'i', 'e', 's', ':', 'p', 'o', 'r', 't', '_', 'a', 'l', 'l', 'o', 'c', 'a', 't', 'i', 'o', 'n', '_', 'f', 'a', 'c', 't', 'o', 'r', 'y'], .edgePortAllocation),
  -- _edge_factories:state_transition_factory
  (['_', 'e', 'd', 'g', 'e', '_', 'f', 'a', 'c', 't', 'o', 'r', 'i', 'e', 's', ':', 's', 't', 'a', 't', 'e', '_', 't', 'r', 'a', 'n', 's', 'i', 't', 'i', 'o', 'n', '_', 'f', 'a', 'c', 't', 'o', 'r', 'y'], .edgeStateTransition),
  -- _edge_factories:sequence_link_factory
  (['_', 'e', 'd', 'g', 'e', '_', 'f', 'a', 'c', 't', 'o', 'r', 'i', 'e', 's', ':', 's', 'e', 'q', 'u', 'e', 'n', 'c', 'e', '_', 'l', 'i', 'n', 'k', '_', 'f', 'a', 'c', 't', 'o', 'r', 'y'], .edgeSequenceLink),
  -- _edge_factories:constraint_factory
  (['_', 'e', 'd', 'g', 'e', '_', 'f', 'a', 'c', 't', 'o', 'r', 'i', 'e', 's', ':', 'c', 'o', 'n', 's', 't', 'r', 'a', 'i', 'n', 't', '_', 'f', 'a', 'c', 't', 'o', 'r', 'y'], .edgeConstraint),
  -- _edge_factories:fcil_factory
  (['_', 'e', 'd', 'g', 'e', '_', 'f', 'a', 'c', 't', 'o', 'r', 'i', 'e', 's', ':', 'f', 'c', 'i', 'l', '_', 'f', 'a', 'c', 't', 'o', 'r', 'y'], .edgeFcil),
  -- _edge_factories:eie_factory
  (['_', 'e', 'd', 'g', 'e', '_', 'f', 'a', 'c', 't', 'o', 'r', 'i', 'e', 's', ':', 'e', 'i', 'e', '_', 'f', 'a', 'c', 't', 'o', 'r', 'y'], .edgeEie),
  -- _edge_factories:fex_factory
  (['_', 'e', 'd', 'g', 'e', '_', 'f', 'a', 'c', 't', 'o', 'r', 'i', 'e', 's', ':', 'f', 'e', 'x', '_', 'f', 'a', 'c', 't', 'o', 'r', 'y'], .edgeFex),
  -- _edge_factories:req_relation_factory
  (['_', 'e', 'd', 'g', 'e', '_', 'f', 'a', 'c', 't', 'o', 'r', 'i', 'e', 's', ':', 'r', 'e', 'q', '_', 'r', 'e', 'l', 'a', 't', 'i', 'o', 'n', '_', 'f', 'a', 'c', 't', 'o', 'r', 'y'], .edgeReqRel),
  -- _edge_factories:include_extend_factory
  (['_', 'e', 'd', 'g', 'e', '_', 'f', 'a', 'c', 't', 'o', 'r', 'i', 'e', 's', ':', 'i', 'n', 'c', 'l', 'u', 'd', 'e', '_', 'e', 'x', 't', 'e', 'n', 'd', '_', 'f', 'a', 'c', 't', 'o', 'r', 'y'], .edgeIncExt),
  -- _edge_factories:association_factory
  (['_', 'e', 'd', 'g', 'e', '_', 'f', 'a', 'c', 't', 'o', 'r', 'i', 'e', 's', ':', 'a', 's', 's', 'o', 'c', 'i', 'a', 't', 'i', 'o', 'n', '_', 'f', 'a', 'c', 't', 'o', 'r', 'y'], .edgeAssociation),
  -- _common:SkipObject.raise_
  (['_', 'c', 'o', 'm', 'm', 'o', 'n', ':', 'S', 'k', 'i', 'p', 'O', 'b', 'j', 'e', 'c', 't', '.', 'r', 'a', 'i', 's', 'e', '_'], .skip),
  -- _visual:connector_factory
  (['_', 'v', 'i', 's', 'u', 'a', 'l', ':', 'c', 'o', 'n', 'n', 'e', 'c', 't', 'o', 'r', '_', 'f', 'a', 'c', 't', 'o', 'r', 'y'], .visConnector),
  -- _visual:shape_factory
  (['_', 'v', 'i', 's', 'u', 'a', 'l', ':', 's', 'h', 'a', 'p', 'e', '_', 'f', 'a', 'c', 't', 'o', 'r', 'y'], .visShape),
  -- _filters.composite:hide_empty_ports
  (['_', 'f', 'i', 'l', 't', 'e', 'r', 's', '.', 'c', 'o', 'm', 'p', 'o', 's', 'i', 't', 'e', ':', 'h', 'i', 'd', 'e', '_', 'e', 'm', 'p', 't', 'y', '_', 'p', 'o', 'r', 't', 's'], .fltHideEmptyPorts),
  -- _filters.global:hide_association_labels
  (['_', 'f', 'i', 'l', 't', 'e', 'r', 's', '.', 'g', 'l', 'o', 'b', 'a', 'l', ':', 'h', 'i', 'd', 'e', '_', 'a', 's', 's', 'o', 'c', 'i', 'a', 't', 'i', 'o', 'n', '_', 'l', 'a', 'b', 'e', 'l', 's'], .gHideAssociationLabels),
  -- _filters.global:hide_role_names
  (['_', 'f', 'i', 'l', 't', 'e', 'r', 's', '.', 'g', 'l', 'o', 'b', 'a', 'l', ':', 'h', 'i', 'd', 'e', '_', 'r', 'o', 'l', 'e', '_', 'n', 'a', 'm', 'e', 's'], .gHideRoleNames),
  -- _filters.global:show_name_and_exchangeitems_fex
  (['_', 'f', 'i', 'l', 't', 'e', 'r', 's', '.', 'g', 'l', 'o', 'b', 'a', 'l', ':', 's', 'h', 'o', 'w', '_', 'n', 'a', 'm', 'e', '_', 'a', 'n', 'd', '_', 'e', 'x', 'c', 'h', 'a', 'n', 'g', 'e', 'i', 't', 'e', 'm', 's', '_', 'f', 'e', 'x'], .gShowNameAndEiFex),
  -- _filters.global:show_exchangeitems_fex
  (['_', 'f', 'i', 'l', 't', 'e', 'r', 's', '.', 'g', 'l', 'o', 'b', 'a', 'l', ':', 's', 'h', 'o', 'w', '_', 'e', 'x', 'c', 'h', 'a', 'n', 'g', 'e', 'i', 't', 'e', 'm', 's', '_', 'f', 'e', 'x'], .gShowEiFex),
  -- _filters.global:show_exchangeitems_cex
  (['_', 'f', 'i', 'l', 't', 'e', 'r', 's', '.', 'g', 'l', 'o', 'b', 'a', 'l', ':', 's', 'h', 'o', 'w', '_', 'e', 'x', 'c', 'h', 'a', 'n', 'g', 'e', 'i', 't', 'e', 'm', 's', '_', 'c', 'e', 'x'], .gShowEiCex),
  -- _filters.global:show_exchangeitems_cex_no_fex
  (['_', 'f', 'i', 'l', 't', 'e', 'r', 's', '.', 'g', 'l', 'o', 'b', 'a', 'l', ':', 's', 'h', 'o', 'w', '_', 'e', 'x', 'c', 'h', 'a', 'n', 'g', 'e', 'i', 't', 'e', 'm', 's', '_', 'c', 'e', 'x', '_', 'n', 'o', '_', 'f', 'e', 'x'], .gShowEiCexNoFex),
  -- _filters.global:hide_all_empty_ports
  (['_', 'f', 'i', 'l', 't', 'e', 'r', 's', '.', 'g', 'l', 'o', 'b', 'a', 'l', ':', 'h', 'i', 'd', 'e', '_', 'a', 'l', 'l', '_', 'e', 'm', 'p', 't', 'y', '_', 'p', 'o', 'r', 't', 's'], .gHideAllEmptyPorts),
  -- _filters.global:hide_alloc_func_exch
  (['_', 'f', 'i', 'l', 't', 'e', 'r', 's', '.', 'g', 'l', 'o', 'b', 'a', 'l', ':', 'h', 'i', 'd', 'e', '_', 'a', 'l', 'l', 'o', 'c', '_', 'f', 'u', 'n', 'c', '_', 'e', 'x', 'c', 'h'], .gHideAllocFex)]

def Factory.ofName (n : Str) : Factory :=
  match (Factory.names.find? (fun p => p.1 == n)) with
  | some p => p.2
  | none => .other n

def Factory.isOther : Factory → Bool
  | .other _ => true
  | _ => false

/-- one (table, key, role) of a live dispatch table and the function it dispatches to -/
structure DispatchRow where
  table : TableKind
  key : Str
  styleclass : Option Str
  role : Role
  fn : Option Nat          -- index into the function list; `none` = not a function the analyser knows
  name : Str               -- `module:qualname`
deriving DecidableEq, Repr

/-- the row's function is one the hand-written model implements -/
def DispatchRow.modelledB (r : DispatchRow) : Bool := !(Factory.ofName r.name).isOther

structure Table where
  nfn : Nat
  calls : List (Nat × List Nat)
  dispatch : List DispatchRow
  entry : List Nat

/-- every table entry resolves to a function of the package whose source was analysed -/
def Table.dispatchKnownB (t : Table) : Bool := t.dispatch.all (fun r => r.fn.isSome)

def Table.roots (t : Table) : List Nat := t.entry ++ t.dispatch.filterMap (·.fn)

def Table.succs (t : Table) (n : Nat) : List Nat := (t.calls.lookup n).getD []

def addNew (seen : List Nat) : List Nat → List Nat
  | [] => seen
  | x :: r => if seen.contains x then addNew seen r else addNew (seen ++ [x]) r

def Table.step (t : Table) (seen : List Nat) : List Nat := addNew seen (seen.flatMap t.succs)

def iter (f : List Nat → List Nat) : Nat → List Nat → List Nat
  | 0, s => s
  | n + 1, s => iter f n (f s)

/-- call-graph closure of the roots (`nfn` rounds suffice: every round that changes something adds a function) -/
def Table.reach (t : Table) : List Nat := iter t.step t.nfn (addNew [] t.roots)

/-- `s` is closed under the call edges -/
def Table.closedB (t : Table) (s : List Nat) : Bool := s.all (fun n => (t.succs n).all s.contains)

/-- the obligation on a row: if its function can run during a read-only operation the site must be harmless -/
def EffRow.okIn (reachable : List Nat) (r : EffRow) : Bool := !(reachable.contains r.fn) || r.ok

/-! ## B. programs over model trees -/

/-- one XML element of any fragment; `Tree` is an arena, a reference is an index -/
structure Node where
  tag : Str
  attrs : Attrs          -- keys without namespace (`id`, `type` for xsi/xmi type, …) as the exporter writes them
  kids : List Nat
  parent : Option Nat
  text : Option Str
deriving DecidableEq, Repr

abbrev Tree := List Node

def aget (a : Attrs) (k : Str) : Option Str := a.lookup k

def aset : Attrs → Str → Str → Attrs
  | [], k, v => [(k, v)]
  | (k', v') :: r, k, v => if k' = k then (k, v) :: r else (k', v') :: aset r k v

def adel (a : Attrs) (k : Str) : Attrs := a.filter (fun p => p.1 ≠ k)

def modify (t : Tree) (n : Nat) (f : Node → Node) : Tree :=
  match t[n]? with
  | some x => t.set n (f x)
  | none => t

/-- what follows the last `#` of a link (the whole string if there is none) -/
def linkId (l : Str) : Str := l.foldl (fun acc c => if c = '#' then [] else acc ++ [c]) []

def idKeys : List Str := [/- id -/ ['i', 'd'], /- uid -/ ['u', 'i', 'd'], /- xmi:id -/ ['x', 'm', 'i', ':', 'i', 'd']]

/-- `loader[link]` / `follow_link`: first node carrying the id (`none` = `KeyError`) -/
def findId (t : Tree) (i : Str) : Option Nat :=
  t.findIdx? (fun x => idKeys.any (fun k => aget x.attrs k == some i))

inductive Instr
  | getAttr (n : Nat) (k : Str)            -- `elem.get(k)`, `elem.attrib.get(k)`, `elem.attrib[k]`
  | allAttrs (n : Nat)                     -- `set(elem.attrib)`, `dict(elem.attrib)`
  | kids (n : Nat) (tag : Option Str)      -- `elem.iterchildren(tag)`, `list(elem)`
  | parent (n : Nat)                       -- `elem.getparent()`
  | follow (link : Str)                    -- `loader.follow_link(_, link)`, `loader[link]`
  | tag (n : Nat)
  | text (n : Nat)
  | setAttr (n : Nat) (k v : Str)          -- `elem.attrib[k] = v`, `elem.set(k, v)`
  | delAttr (n : Nat) (k : Str)            -- `del elem.attrib[k]`
  | setText (n : Nat) (v : Option Str)
  | appendKid (n : Nat) (x : Node)         -- `elem.append(new)`
  | removeKid (n c : Nat)                  -- `elem.remove(c)`
deriving DecidableEq, Repr

def Instr.isRead : Instr → Bool
  | .getAttr .. | .allAttrs .. | .kids .. | .parent .. | .follow .. | .tag .. | .text .. => true
  | _ => false

inductive Ans
  | str (o : Option Str)
  | attrs (a : Attrs)
  | refs (l : List Nat)
  | ref (o : Option Nat)
  | unit
deriving DecidableEq, Repr

/-- carry out one request: the tree afterwards and the answer -/
def perform (t : Tree) : Instr → Tree × Ans
  | .getAttr n k => (t, .str ((t[n]?).bind (fun x => aget x.attrs k)))
  | .allAttrs n => (t, .attrs (((t[n]?).map (·.attrs)).getD []))
  | .kids n tg =>
    (t, .refs ((((t[n]?).map (·.kids)).getD []).filter (fun c =>
      match tg with
      | none => true
      | some g => ((t[c]?).map (·.tag)) == some g)))
  | .parent n => (t, .ref ((t[n]?).bind (·.parent)))
  | .follow l => (t, .ref (findId t (linkId l)))
  | .tag n => (t, .str ((t[n]?).map (·.tag)))
  | .text n => (t, .str ((t[n]?).bind (·.text)))
  | .setAttr n k v => (modify t n (fun x => { x with attrs := aset x.attrs k v }), .unit)
  | .delAttr n k => (modify t n (fun x => { x with attrs := adel x.attrs k }), .unit)
  | .setText n v => (modify t n (fun x => { x with text := v }), .unit)
  | .appendKid n x =>
    match t[n]? with
    | some _ => (modify (t ++ [{ x with parent := some n }]) n (fun y => { y with kids := y.kids ++ [t.length] }), .unit)
    | none => (t, .unit)
  | .removeKid n c => (modify t n (fun x => { x with kids := x.kids.filter (· ≠ c) }), .unit)

/-- a computation that talks to the model trees only through requests -/
inductive Prog (α : Type) where
  | ret (a : α)
  | op (i : Instr) (k : Ans → Prog α)

namespace Prog

def bind {α β : Type} : Prog α → (α → Prog β) → Prog β
  | .ret a, f => f a
  | .op i k, f => .op i (fun a => bind (k a) f)

instance : Monad Prog where
  pure := .ret
  bind := bind

/-- run a program: the tree it leaves behind and its result -/
def exec {α : Type} : Prog α → Tree → Tree × α
  | .ret a, t => (t, a)
  | .op i k, t => exec (k (perform t i).2) (perform t i).1

/-- the requests a run issues, in order -/
def trace {α : Type} : Prog α → Tree → List Instr
  | .ret _, _ => []
  | .op i k, t => i :: trace (k (perform t i).2) (perform t i).1

/-- no write request can be reached, whatever the answers are -/
inductive ReadOnly {α : Type} : Prog α → Prop
  | ret (a : α) : ReadOnly (.ret a)
  | op (i : Instr) (k : Ans → Prog α) : i.isRead = true → (∀ a, ReadOnly (k a)) → ReadOnly (.op i k)

/-- `[f x for x in l]` with effects, left to right -/
def mapP {β γ : Type} (f : β → Prog γ) : List β → Prog (List γ)
  | [] => .ret []
  | x :: r => bind (f x) (fun y => bind (mapP f r) (fun ys => .ret (y :: ys)))

end Prog

/-! ### the primitive requests as programs -/

def getA (n : Nat) (k : String) : Prog (Option Str) :=
  .op (.getAttr n k.toList) (fun a => match a with | .str o => .ret o | _ => .ret none)

def allA (n : Nat) : Prog Attrs :=
  .op (.allAttrs n) (fun a => match a with | .attrs x => .ret x | _ => .ret [])

def kidsP (n : Nat) (tag : String) : Prog (List Nat) :=
  .op (.kids n (some tag.toList)) (fun a => match a with | .refs l => .ret l | _ => .ret [])

def allKids (n : Nat) : Prog (List Nat) :=
  .op (.kids n none) (fun a => match a with | .refs l => .ret l | _ => .ret [])

def parentP (n : Nat) : Prog (Option Nat) :=
  .op (.parent n) (fun a => match a with | .ref o => .ret o | _ => .ret none)

def followP (l : Str) : Prog (Option Nat) :=
  .op (.follow l) (fun a => match a with | .ref o => .ret o | _ => .ret none)

def tagP (n : Nat) : Prog Str :=
  .op (.tag n) (fun a => match a with | .str (some s) => .ret s | _ => .ret [])

def textP (n : Nat) : Prog (Option Str) :=
  .op (.text n) (fun a => match a with | .str o => .ret o | _ => .ret none)

def setA (n : Nat) (k : String) (v : Str) : Prog Unit :=
  .op (.setAttr n k.toList v) (fun _ => .ret ())

end Capella.Effects
