import Capella.Model.Svg

/-!
The `<defs>` section of a drawing **as a state**: what `capellambse.svg.drawing.Drawing` keeps between
`draw_object` calls and how it changes.

* `DState`            — `Drawing.__drawing.defs.elements` (in document order) and `Drawing.deco_cache`
* `addDeco`           — `Drawing._add_decofactory` (symbol appended first, then the dependencies that are
                        not cached yet — recursively —, then the name enters `deco_cache`; the `Error`
                        fallback is renamed to the requested id)
* `useLoop`           — the guards `if class_ not in self.deco_cache: self._add_decofactory(class_)` of
                        `_draw_symbol`, `_add_port`, `_add_label_image`
* `deployDefs`        — `Drawing._deploy_defs`: `defs_ids` = ids of the *top-level* elements of `<defs>`;
                        `for attr in styling` (`Styling.__iter__`: marker attributes found in the defaults
                        first, then `dir(self)`, i.e. the attribute names sorted by code point), a gradient
                        per iterable value unless its id is in `defs_ids`; then `marker-start`, `marker-end`:
                        id from `_generate_id(marker, [stroke])`, factory looked up only if the id is new
* `drawObjectS`       — `Drawing.draw_object`: draw function first (symbols), then `_deploy_defs(obj_style)`,
                        `_deploy_defs(text_style)`
* `renderS`           — `SVGDiagram.__init__`: one `Drawing`, objects drawn in order

`log` records the branches taken (read by the driver for the coverage report; no definition or theorem
depends on it). Core Lean only.
-/

namespace Capella.Svg

inductive DefKind | symbol | marker | gradient
deriving DecidableEq, Repr

/-- one child of `<defs>` -/
structure DefEl where
  kind : DefKind
  id : Str            -- the `id` attribute of the element itself (what `defs_ids` sees)
  ids : List Str      -- every id defined by the element, its own included, in document order
  refs : List Str     -- ids referenced from inside the element
deriving DecidableEq, Repr

inductive Br
  | decoRow | decoFallback | depCached | depNew | useCached | useNew
  | gradNew | gradDup | gradSkip | iterMarker | markerNone | markerNew | markerDup
deriving DecidableEq, Repr

structure DState where
  defs : List DefEl := []
  cache : List Str := []
  log : List Br := []
deriving Repr

def DState.topIds (st : DState) : List Str := st.defs.map (·.id)
def DState.allIds (st : DState) : List Str := st.defs.flatMap (·.ids)
def DState.push (st : DState) (e : DefEl) : DState := { st with defs := st.defs ++ [e] }
def DState.note (st : DState) (b : Br) : DState := { st with log := b :: st.log }
def DState.cached (st : DState) (n : Str) : DState := { st with cache := n :: st.cache }

/-- the `<symbol>` a registered factory returns -/
def symEl (r : SymbolRow) : DefEl :=
  { kind := .symbol, id := r.producedId.getD [], ids := r.ids, refs := r.refs }

/-- the `Error` fragment after `symbol["id"] = f"{name}Symbol"` -/
def fallbackEl (name : Str) (e : SymbolRow) : DefEl :=
  { kind := .symbol, id := name ++ symbolSuffix,
    ids := (name ++ symbolSuffix) :: e.ids.filter (fun i => some i ≠ e.producedId), refs := e.refs }

/-- `for x in xs: if x not in self.deco_cache: f(x)` -/
def guardLoop (hit miss : Br) (f : Str → DState → Except Err DState) : List Str → DState → Except Err DState
  | [], st => .ok st
  | d :: ds, st =>
    if st.cache.contains d then guardLoop hit miss f ds (st.note hit)
    else do
      let st' ← f d (st.note miss)
      guardLoop hit miss f ds st'

/-- `Drawing._add_decofactory(name)`; `fuel` bounds the recursion depth (Python: `RecursionError`) -/
def addDeco (symbols : List SymbolRow) : Nat → Str → DState → Except Err DState
  | 0, _, _ => .error .diverges
  | fuel + 1, name, st =>
    match findSymbol symbols name with
    | some r => do
      let st2 ← guardLoop .depCached .depNew (addDeco symbols fuel) r.deps ((st.push (symEl r)).note .decoRow)
      pure (st2.cached name)
    | none =>
      match findSymbol symbols errorName with
      | some e => do
        let st2 ← guardLoop .depCached .depNew (addDeco symbols fuel) e.deps
          ((st.push (fallbackEl name e)).note .decoFallback)
        pure (st2.cached name)
      | none => .error .unsupported

/-- the symbol deployments of one draw function, in the order of the `use` elements -/
def useLoop (symbols : List SymbolRow) (uses : List Str) (st : DState) : Except Err DState :=
  guardLoop .useCached .useNew (addDeco symbols (symbols.length + 1)) uses st

/-! ### `_deploy_defs` -/

/-- `a < b` for Python strings (code points, shorter prefix first) -/
def strLt : Str → Str → Bool
  | [], [] => false
  | [], _ :: _ => true
  | _ :: _, [] => false
  | a :: as, b :: bs => a.toNat < b.toNat || (a = b && strLt as bs)

def insertPair (p : Str × Val) : List (Str × Val) → List (Str × Val)
  | [] => [p]
  | x :: xs => if strLt p.1 x.1 then p :: x :: xs else x :: insertPair p xs

/-- the instance attributes in the order of `dir(self)`: sorted by name -/
def sortPairs (ps : List (Str × Val)) : List (Str × Val) := ps.foldr insertPair []

/-- `Styling.__iter__`: the marker attributes that the defaults know (the `getattr(super(), …)` test never
sees instance attributes), then `dir(self)`; each with the instance value (irrelevant for marker names) -/
def iterItems (defaults : List (Str × Val)) (s : Styling) : List (Str × Val) :=
  (([markerStart, markerEnd].filter fun a => (lookup defaults (s.styleName a)).isSome).map fun a => (a, Val.none))
    ++ sortPairs s.attrs

def gradEl (hs : List Str) : DefEl := { kind := .gradient, id := gradId hs, ids := [gradId hs], refs := [] }

/-- body of `for attr in styling:` — `getattr(styling, attr)` builds the `url(...)` string for a marker
attribute (and raises if the stroke is no colour); an iterable value gets its gradient -/
def gradStep (defaults : List (Str × Val)) (s : Styling) (st : DState) (kv : Str × Val) : Except Err DState :=
  if isMarkerKey kv.1 then do
    let _ ← hexOf (refStroke defaults s)
    pure (st.note .iterMarker)
  else
    match kv.2 with
    | .grad hs =>
      if st.topIds.contains (gradId hs) then pure (st.note .gradDup)
      else pure ((st.push (gradEl hs)).note .gradNew)
    | _ => pure (st.note .gradSkip)

def gradLoop (defaults : List (Str × Val)) (s : Styling) : List (Str × Val) → DState → Except Err DState
  | [], st => .ok st
  | kv :: ks, st => do
    let st' ← gradStep defaults s st kv
    gradLoop defaults s ks st'

def markerEl (id : Str) : DefEl := { kind := .marker, id := id, ids := [id], refs := [] }

/-- body of `for marker in markers:` for one attribute -/
def markerStep (defaults : List (Str × Val)) (markers : List MarkerRow) (s : Styling) (st : DState) (attr : Str) :
    Except Err DState :=
  match deployMarkerName true defaults s attr with
  | none | some .none => pure (st.note .markerNone)
  | some (.str m) => do
    let h ← hexOf (deployStroke defaults s)
    let id := joinId m [h]
    if st.topIds.contains id then pure (st.note .markerDup)
    else if hasMarker markers m then pure ((st.push (markerEl id)).note .markerNew)
    else .error .unknownMarker
  | some _ => .error .unsupported

/-- `Drawing._deploy_defs(styling)` -/
def deployDefs (styles : List StyleEntry) (markers : List MarkerRow) (s : Styling) (st : DState) : Except Err DState := do
  let defaults ← getStyle styles s.dc s.cls
  let st1 ← gradLoop defaults s (iterItems defaults s) st
  let st2 ← markerStep defaults markers s st1 markerStart
  markerStep defaults markers s st2 markerEnd

/-! ### `draw_object`, the document -/

structure DrawnS where
  group : Group
  outer : List Str    -- ids referenced from the group itself: `url(#…)` of markers and gradients, `href="#…Symbol"`
  inner : List Str    -- ids referenced from inside the symbol fragments the group relies on
deriving Repr

def DrawnS.refs (d : DrawnS) : List Str := d.outer ++ d.inner

/-- `Drawing.draw_object(obj)` on the drawing state `st` -/
def drawObjectS (T : Tables) (dc : Option Str) (o : Obj) (st : DState) : Except Err (DrawnS × DState) := do
  let defaults ← getStyle T.styles dc (styleType o.kind ++ '.' :: o.cls)
  let p := prepare T dc o defaults
  if useRejects T o p then .error .invalidAttribute
  else do
    let shapeRefs ← styleRefs T.styles p.objStyle
    let textRefs ← textRefsOf T p
    let st1 ← useLoop T.symbols p.uses st
    let st2 ← deployDefs T.styles T.markers p.objStyle st1
    let st3 ← deployDefs T.styles T.markers p.textStyle st2
    pure ({ group := { id := o.id, cls := groupClass o.kind o.cls o.context },
            outer := shapeRefs ++ textRefs ++ p.uses.map (· ++ symbolSuffix),
            inner := p.uses.flatMap (symbolInnerRefs T.symbols (T.symbols.length + 1)) }, st3)

/-- `for obj in objects: self.draw_object(obj)` -/
def drawAllS (T : Tables) (dc : Option Str) : List Obj → DState → Except Err (List DrawnS × DState)
  | [], st => .ok ([], st)
  | o :: os, st => do
    let (d, st1) ← drawObjectS T dc o st
    let (ds, st2) ← drawAllS T dc os st1
    pure (d :: ds, st2)

structure DocS where
  viewBox : Int × Int × Int × Int
  groups : List Group
  refs : List Str
  outerRefs : List Str    -- the references made by the groups themselves
  defs : List DefEl       -- the children of `<defs>`, in document order
  log : List Br

/-- `convert_svgdiagram` + `SVGDiagram.__init__` on a fresh `Drawing` -/
def renderS (T : Tables) (d : Diagram) : Except Err DocS := do
  let (box, objs) := encodeDiagram d
  let (drawn, st) ← drawAllS T d.cls objs {}
  pure { viewBox := viewBox box, groups := drawn.map (·.group), refs := drawn.flatMap (·.refs),
         outerRefs := drawn.flatMap (·.outer), defs := st.defs, log := st.log }

/-! ### conditions on the generated tables (checked by the kernel) -/

/-- colour values are hex strings (what `RGB.tohex()` returns) -/
def Val.hexOK : Val → Bool
  | .color h => h.all hexDigit
  | .grad hs => hs.all (·.all hexDigit)
  | _ => true

def entryHexOK (e : StyleEntry) : Bool := e.props.all fun p => p.2.hexOK

/-- the dependencies of a symbol have no dependencies themselves -/
def depthOK (symbols : List SymbolRow) (r : SymbolRow) : Bool :=
  r.deps.all fun d => match findSymbol symbols d with | some s => s.deps.isEmpty | none => true

def rankOf (symbols : List SymbolRow) (cls : Str) : Nat :=
  match findSymbol symbols cls with
  | some r => if r.deps.isEmpty then 0 else 1
  | none => 0

/-- marker names (and `CustomGradient`) contain no `_`: `_generate_id` can be read back -/
def markerNameOK (m : MarkerRow) : Bool := !m.name.contains '_'

/-- a `STYLES` entry, for "every bare element draws": markers only on `Edge` entries and naming a factory; no marker
under the `text_` prefix (in either spelling); the stroke of an `Edge` entry is a colour -/
def entryPlainOK (markers : List MarkerRow) (e : StyleEntry) : Bool :=
  e.props.all fun p =>
    (if isMarkerKey p.1 then decide (e.oc.takeWhile (· ≠ '.') = edgeName) &&
        (match p.2 with | .str m => hasMarker markers m | _ => false) else true) &&
    !(textPfx.isPrefixOf p.1 && isMarkerKey (attrName (p.1.drop 5))) &&
    (if p.1 = strokeKey ∧ e.oc.takeWhile (· ≠ '.') = edgeName then isColor p.2 else true)

/-- a style override, for "every element draws": the rules of `entryPlainOK` for an element of `Edge` type or not;
a stroke only has to parse as a colour (`#RGB`, `#RRGGBB[AA]`) -/
def overridePlainOK (markers : List MarkerRow) (edgeType : Bool) (p : Str × Val) : Bool :=
  (if isMarkerKey p.1 then edgeType && (match p.2 with | .str m => hasMarker markers m | _ => false) else true) &&
  !(textPfx.isPrefixOf p.1 && isMarkerKey (attrName (p.1.drop 5))) &&
  (if p.1 = strokeKey ∧ edgeType = true then (match hexOf p.2 with | .ok _ => true | .error _ => false) else true)

def isEdgeType (k : Kind) : Bool := match k with | .edge | .circle => true | _ => false

/-- `0-9A-F`: the digits `RGB.tohex()` writes -/
def upperHex (c : Char) : Bool := ('0' ≤ c ∧ c ≤ '9') || ('A' ≤ c ∧ c ≤ 'F')

def Val.upperOK : Val → Bool
  | .color h => h.all upperHex
  | .grad hs => hs.all (·.all upperHex)
  | _ => true

def entryUpperOK (e : StyleEntry) : Bool := e.props.all fun p => p.2.upperOK

/-- the last character of an id made by `_generate_id` from at least one colour -/
def genTail (c : Char) : Bool := upperHex c || c = '_'

/-- the ids inside a symbol fragment: pairwise different, none looks like a generated marker / gradient id, and only
the fragment's own id ends in `Symbol` -/
def rowIdsOK (r : SymbolRow) : Bool :=
  decide r.ids.Nodup && r.ids.all fun x =>
    (match x.getLast? with | some c => !genTail c | none => false) && x != gradName &&
    (x == r.name || !symbolSuffix.isSuffixOf x)

/-- the `Error` fragment defines nothing but its own id (it is deployed under many names) -/
def errorIdsOK (symbols : List SymbolRow) : Bool :=
  match findSymbol symbols errorName with
  | some e => e.ids.all fun i => some i == e.producedId
  | none => false

/-- no two *deployed* registered symbols share an id -/
def noClash (symbols : List SymbolRow) (topIds : List Str) : Bool :=
  symbols.all fun r1 => symbols.all fun r2 =>
    !(topIds.contains r1.name && topIds.contains r2.name) || r1.name == r2.name ||
    r1.ids.all fun x => !r2.ids.contains x

/-- ids defined more than once by the fragments of the symbol table -/
def clashIds (symbols : List SymbolRow) : List Str :=
  let all := symbols.flatMap (·.ids)
  (all.filter fun i => all.count i > 1).eraseDups

/-- (row, id, digest of the canonical form of the defining element): equal ids have equal digests -/
def digestsConsistent (ds : List (Str × Str × Str)) : Bool :=
  ds.all fun a => ds.all fun b => a.2.1 != b.2.1 || a.2.2 == b.2.2

end Capella.Svg
