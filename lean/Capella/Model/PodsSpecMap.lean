/-
`_Specification` as a `MutableMapping[str, str]`: operation histories and the reference semantics.

`/repo/capellambse/model/_descriptors.py: class _Specification` stores a mapping as XML children of an
`ownedSpecification` element (`Capella/Model/Pods.lean`: `Spec`, `specGet`, `specSet`, `specDel`,
`specKeys`). This file adds

* `specLen`                     — `__len__` (`sum(1 for _ in self)`);
* `SpecOp` / `SpecRes`          — one call of the mapping interface and what the caller observes;
* `specStep` / `specRun`        — the XML representation under one call / a whole history;
* `Dict`, `dictGet` / `dictSet` / `dictDel` / `dictKeys` / `dictLen`, `dictStep` / `dictRun`
                                — the reference: a Python `dict` (insertion-ordered association list with
                                  unique keys) holding the raw stored body text;
* `WellPaired`                  — the representation invariant;
* `absDict`                     — the abstraction function `Spec → Dict`;
* `others`                      — the children the mapping must never touch.

The refinement theorems are in `Capella/Lemmas/PodsSpecMap.lean`. Core Lean only.
-/
import Capella.Model.Pods

namespace Capella.Pods

/-! ## The mapping interface over the XML representation -/

/-- `__len__`: `sum(1 for _ in self)` -/
def specLen (s : Spec) : Nat := (specKeys s).length

/-- one call of the `MutableMapping` interface -/
inductive SpecOp
  /-- `spec[k]` -/
  | get (k : Str)
  /-- `spec[k] = v` -/
  | set (k v : Str)
  /-- `del spec[k]` -/
  | del (k : Str)
  /-- `list(spec)` -/
  | keys
  /-- `len(spec)` -/
  | len
deriving DecidableEq, Repr

/-- what the caller observes -/
inductive SpecRes
  | val (v : Str)
  | unit
  | keys (l : List Str)
  | len (n : Nat)
  | err (e : Err)
deriving DecidableEq, Repr

/-- one call on the XML representation; a call that raises leaves the children unchanged -/
def specStep (P : Params) (s : Spec) : SpecOp → Spec × SpecRes
  | .get k =>
    match specGet P s k with
    | .ok v => (s, .val v)
    | .error e => (s, .err e)
  | .set k v =>
    match specSet P s k v with
    | .ok s' => (s', .unit)
    | .error e => (s, .err e)
  | .del k =>
    match specDel s k with
    | .ok s' => (s', .unit)
    | .error e => (s, .err e)
  | .keys => (s, .keys (specKeys s))
  | .len => (s, .len (specLen s))

/-- a history of calls: final children and everything the caller observed, in order -/
def specRun (P : Params) : Spec → List SpecOp → Spec × List SpecRes
  | s, [] => (s, [])
  | s, op :: ops =>
    let p := specStep P s op
    let q := specRun P p.1 ops
    (q.1, p.2 :: q.2)

/-! ## Reference semantics: a Python `dict` -/

/-- insertion-ordered association list; the values are the raw stored body texts -/
abbrev Dict := List (Str × Str)

/-- `d.get(k)` -/
def dictGet : Dict → Str → Option Str
  | [], _ => none
  | (k', v) :: r, k => if k' = k then some v else dictGet r k

/-- `d[k] = v`: an existing key keeps its position, a new one goes last -/
def dictSet : Dict → Str → Str → Dict
  | [], k, v => [(k, v)]
  | (k', v') :: r, k, v => if k' = k then (k', v) :: r else (k', v') :: dictSet r k v

/-- `del d[k]` (no-op when absent): the other pairs keep their order -/
def dictDel : Dict → Str → Dict
  | [], _ => []
  | (k', v) :: r, k => if k' = k then r else (k', v) :: dictDel r k

/-- `list(d)` -/
def dictKeys (m : Dict) : List Str := m.map (·.1)

/-- `len(d)` -/
def dictLen (m : Dict) : Nat := m.length

/-- one call on the reference dict. Keys go through the alias table first; the key
`capella:linkedText` stores the escaped text and reads it back unescaped; lxml's refusal of
XML-illegal text is a `ValueError` that leaves the dict unchanged. -/
def dictStep (P : Params) (m : Dict) : SpecOp → Dict × SpecRes
  | .get k =>
    let K := specAlias k
    match dictGet m K with
    | none => (m, .err .keyError)
    | some raw => (m, .val (if K = kLinked then P.unescLinked raw else raw))
  | .set k v =>
    let K := specAlias k
    match (if K = kLinked then P.escLinked v else some v) with
    | none => (m, .err .valueError)
    | some v' =>
      match dictGet m K with
      | some _ =>
        if xmlOk v' then (dictSet m K v', .unit) else (m, .err .valueError)
      | none =>
        if xmlOk v' && xmlOk K then (m ++ [(K, v')], .unit) else (m, .err .valueError)
  | .del k =>
    let K := specAlias k
    match dictGet m K with
    | none => (m, .err .keyError)
    | some _ => (dictDel m K, .unit)
  | .keys => (m, .keys (dictKeys m))
  | .len => (m, .len (dictLen m))

def dictRun (P : Params) : Dict → List SpecOp → Dict × List SpecRes
  | m, [] => (m, [])
  | m, op :: ops =>
    let p := dictStep P m op
    let q := dictRun P p.1 ops
    (q.1, p.2 :: q.2)

/-! ## Representation invariant and abstraction -/

/-- what Capella writes and what every mapping call keeps: as many `bodies` as `languages`
children, every `languages` child has text, no key twice -/
def WellPaired (s : Spec) : Prop :=
  Balanced s ∧ (∀ c ∈ langs s, c.text.isSome = true) ∧ (specKeys s).Nodup

instance (s : Spec) : Decidable (WellPaired s) := by
  unfold WellPaired Balanced
  exact inferInstance

/-- the raw texts of the `bodies` children, in order -/
def specVals (s : Spec) : List Str := (bodies s).map (fun c => c.text.getD [])

/-- the dict a specification element stands for: i-th key with i-th body -/
def absDict (s : Spec) : Dict := List.zip (specKeys s) (specVals s)

/-- the children that are neither `bodies` nor `languages` -/
def others (s : Spec) : Spec :=
  s.filter (fun c => decide (c.tag ≠ tBodies) && decide (c.tag ≠ tLanguages))

end Capella.Pods
