import Capella.Model.Xml
/-
A reader for the language the writer of `Model/Xml.lean` produces: the model of
`etree.parse(f, XMLParser(remove_blank_text=True))` as `ModelFile.__init__` calls it, restricted to
what Capella files contain (elements, attributes, namespace declarations, character and the five
predefined entity references, comments next to the root, an optional XML declaration).  DTDs,
CDATA sections, processing instructions and comments *inside* elements are rejected (`none`).

lxml/libxml2 is not verified; this reader is compared with lxml on everything the writer emits in
the correspondence runs.  Three layers, each with its own inverse in `Lemmas/`:
characters → tokens (`nextTok`, `lexAll`), tokens → raw tree (`build`), raw tree → tree with
resolved namespaces (`resolve`).
-/
namespace Capella.Xml

/-! ## Entity and character references -/

def hexVal (c : Char) : Option Nat :=
  let n := c.toNat
  if 48 ≤ n ∧ n ≤ 57 then some (n - 48)
  else if 65 ≤ n ∧ n ≤ 70 then some (n - 55)
  else if 97 ≤ n ∧ n ≤ 102 then some (n - 87)
  else none

def decVal (c : Char) : Option Nat :=
  let n := c.toNat
  if 48 ≤ n ∧ n ≤ 57 then some (n - 48) else none

def numGo (base : Nat) (digit : Char → Option Nat) : Nat → Str → Option Nat
  | acc, [] => some acc
  | acc, c :: rest => match digit c with
    | some d => numGo base digit (acc * base + d) rest
    | none => none

/-- a non-empty digit string -/
def numOf (base : Nat) (digit : Char → Option Nat) (s : Str) : Option Nat :=
  if s = [] then none else numGo base digit 0 s

/-- XML 1.0 production `Char` -/
def xmlCharN (n : Nat) : Bool :=
  n == 9 || n == 10 || n == 13 || (0x20 ≤ n && n ≤ 0xD7FF) || (0xE000 ≤ n && n ≤ 0xFFFD) ||
  (0x10000 ≤ n && n ≤ 0x10FFFF)

def xmlChar (c : Char) : Bool := xmlCharN c.toNat

/-- a code point from a character reference; with `strict` only XML `Char`s are accepted (what
libxml2 does), without it every Unicode scalar value -/
def cpChar (strict : Bool) (n : Nat) : Option Char :=
  if (strict && !xmlCharN n) || !(n < 0xD800 || (0xE000 ≤ n && n < 0x110000)) then none
  else some (Char.ofNat n)

/-- the text between `&` and `;` -/
def decodeEntity (strict : Bool) (body : Str) : Option Char :=
  if body = "amp".toList then some '&'
  else if body = "lt".toList then some '<'
  else if body = "gt".toList then some '>'
  else if body = "quot".toList then some '"'
  else if body = "apos".toList then some '\''
  else match body with
    | '#' :: 'x' :: hs => (numOf 16 hexVal hs).bind (cpChar strict)
    | '#' :: ds => (numOf 10 decVal ds).bind (cpChar strict)
    | _ => none

/-- replace references by the characters they stand for; `pend` holds the (reversed) body of a
reference being read.  A bare `&` or an unknown reference is an error. -/
def unescGo (strict : Bool) : Str → Option Str → Option Str
  | [], none => some []
  | [], some _ => none
  | c :: rest, none =>
    if c = '&' then unescGo strict rest (some [])
    else (unescGo strict rest none).map (c :: ·)
  | c :: rest, some b =>
    if c = ';' then
      match decodeEntity strict b.reverse with
      | some ch => (unescGo strict rest none).map (ch :: ·)
      | none => none
    else unescGo strict rest (some (c :: b))

/-- the inverse of `_escape`, for any code point -/
def unescape (s : Str) : Option Str := unescGo false s none
/-- what the XML parser does (character references must denote XML `Char`s) -/
def unescapeXml (s : Str) : Option Str := unescGo true s none

/-! ## Normalisations the XML processor applies -/

/-- end-of-line handling (XML 1.0 §2.11) -/
def normEol : Str → Str
  | [] => []
  | '\r' :: '\n' :: rest => '\n' :: normEol rest
  | '\r' :: rest => '\n' :: normEol rest
  | c :: rest => c :: normEol rest

/-- attribute-value normalisation of literal white space (§3.3.3, CDATA attributes) -/
def attrNorm (s : Str) : Str :=
  (normEol s).map fun c => if c = '\t' || c = '\n' || c = '\r' then ' ' else c

/-! ## Characters → tokens -/

def isWs (c : Char) : Bool := c == ' ' || c == '\n' || c == '\t' || c == '\r'

/-- characters that end a name -/
def isNameEnd (c : Char) : Bool :=
  isWs c || c == '=' || c == '/' || c == '>' || c == '<' || c == '"' || c == '\'' || c == '&'

def nameChar (c : Char) : Bool := !isNameEnd c

def skipWs (s : Str) : Str := s.dropWhile isWs

inductive Tok where
  | stag (name : Str) (attrs : List (Str × Str)) (selfClose : Bool)
  | etag (name : Str)
  | text (s : Str)
  | comment (s : Str)
  deriving DecidableEq, Repr

def startsWithWs : Str → Bool
  | c :: _ => isWs c
  | [] => false

def distinctKeys : List (Str × Str) → Bool
  | [] => true
  | (k, _) :: rest => !(rest.any fun p => p.1 == k) && distinctKeys rest

/-- one attribute `name S? = S? "value"` (or `'value'`) at the start of `s`:
`(name, decoded value, rest)` -/
def lexOneAttr (s : Str) : Option (Str × Str × Str) :=
  let name := s.takeWhile nameChar
  if name = [] then none else
  match skipWs (s.dropWhile nameChar) with
  | '=' :: s3 =>
    match skipWs s3 with
    | q :: s4 =>
      if q = '"' || q = '\'' then
        let raw := s4.takeWhile (· != q)
        match s4.dropWhile (· != q) with
        | _ :: s5 =>
          if raw.contains '<' then none else
          match unescapeXml (attrNorm raw) with
          | none => none
          | some v => some (name, v, s5)
        | [] => none
      else none
    | [] => none
  | _ => none

/-- how a start tag ends -/
def tagCloser : Str → Option (Bool × Str)
  | '/' :: '>' :: r => some (true, r)
  | '>' :: r => some (false, r)
  | _ => none

/-- the attributes of a start tag up to and including `>` or `/>`:
`(attributes, self-closing, rest)`; `fuel` bounds the number of attributes -/
def lexAttrs : Nat → Str → Option (List (Str × Str) × Bool × Str)
  | 0, _ => none
  | f + 1, s =>
    match tagCloser (skipWs s) with
    | some (sc, r) => some ([], sc, r)
    | none =>
      if !startsWithWs s then none else
      match lexOneAttr (skipWs s) with
      | none => none
      | some (name, v, s5) =>
        match lexAttrs f s5 with
        | some (as, sc, r) => some ((name, v) :: as, sc, r)
        | none => none

/-- the body of a comment after `<!--`: up to `-->`; `--` inside is an error -/
def splitComment : Str → Option (Str × Str)
  | '-' :: '-' :: '>' :: rest => some ([], rest)
  | '-' :: '-' :: _ => none
  | c :: rest => (splitComment rest).map fun p => (c :: p.1, p.2)
  | [] => none

/-- does the string contain `]]>` (not allowed in character data) -/
def hasCdataEnd : Str → Bool
  | ']' :: ']' :: '>' :: _ => true
  | _ :: rest => hasCdataEnd rest
  | [] => false

inductive Res where
  | eof
  | err
  | tok (t : Tok) (rest : Str)

/-- after `<!` -/
def lexBang (r : Str) : Res :=
  match r with
  | '-' :: '-' :: r' =>
    match splitComment r' with
    | some (body, rest) => .tok (.comment (normEol body)) rest
    | none => .err
  | _ => .err          -- DOCTYPE, CDATA: not read

/-- after `</` -/
def lexEtag (r : Str) : Res :=
  let name := r.takeWhile nameChar
  match skipWs (r.dropWhile nameChar) with
  | '>' :: rest => if name = [] then .err else .tok (.etag name) rest
  | _ => .err

/-- after `<`, a start tag -/
def lexStag (r : Str) : Res :=
  let name := r.takeWhile nameChar
  if name = [] then .err else
  match lexAttrs (r.length + 1) (r.dropWhile nameChar) with
  | some (as, sc, rest) => if distinctKeys as then .tok (.stag name as sc) rest else .err
  | none => .err

/-- after `<` -/
def lexMarkup (r : Str) : Res :=
  match r with
  | '!' :: r' => lexBang r'
  | '?' :: _ => .err          -- processing instructions: not read
  | '/' :: r' => lexEtag r'
  | _ => lexStag r

/-- character data up to the next `<` -/
def lexText (s : Str) : Res :=
  let raw := s.takeWhile (· != '<')
  if hasCdataEnd raw then .err else
  match unescapeXml (normEol raw) with
  | some t => .tok (.text t) (s.dropWhile (· != '<'))
  | none => .err

/-- one token -/
def nextTok (s : Str) : Res :=
  match s with
  | [] => .eof
  | '<' :: r => lexMarkup r
  | _ => lexText s

def lexAll : Nat → Str → Option (List Tok)
  | 0, _ => none
  | f + 1, s =>
    match nextTok s with
    | .eof => some []
    | .err => none
    | .tok t r => (lexAll f r).map (t :: ·)

def lex (s : Str) : Option (List Tok) := lexAll (s.length + 1) s

/-! ## Tokens → raw tree

A raw tree is an `Elem` whose names are still prefixed (`p:local`), whose `nsdecls` are empty and
whose `xmlns:*` attributes are ordinary attributes. -/

structure Frame where
  name : Str
  attrs : List (Str × Str)
  text : Option Str
  kids : List Elem            -- reversed
  deriving Repr

def isBlank (s : Str) : Bool := s.all isWs

def Frame.close (f : Frame) : Elem := .mk f.name [] f.attrs f.text none f.kids.reverse

def appendTail (s : Str) : Elem → Elem
  | .mk t n a x tl k => .mk t n a x (some (tl.getD [] ++ s)) k

def Frame.addText (f : Frame) (s : Str) : Frame :=
  match f.kids with
  | [] => { f with text := some (f.text.getD [] ++ s) }
  | k :: ks => { f with kids := appendTail s k :: ks }

def Frame.addKid (f : Frame) (e : Elem) : Frame := { f with kids := e :: f.kids }

def isEtag : Option Tok → Bool
  | some (.etag _) => true
  | _ => false

/-- libxml2's `areBlanks` heuristic under `XML_PARSE_NOBLANKS` (no DTD): a white-space-only text
is dropped unless it is the only content of its element, or follows/leads other text. -/
def dropBlank (f : Frame) (next : Option Tok) : Bool :=
  next.isSome &&
  !(f.kids.isEmpty && f.text.isNone && isEtag next) &&
  f.text.isNone &&
  (match f.kids with | [] => true | k :: _ => k.tail.isNone)

structure BState where
  pre : List Comment          -- reversed
  stack : List Frame
  root : Option Elem
  post : List Comment         -- reversed
  deriving Repr

def BState.init : BState := ⟨[], [], none, []⟩

/-- an element is complete: hang it below the open element, or make it the root -/
def BState.place (st : BState) (e : Elem) : Option BState :=
  match st.stack with
  | f :: fs => some { st with stack := f.addKid e :: fs }
  | [] => if st.root.isSome then none else some { st with root := some e }

def step (st : BState) (t : Tok) (next : Option Tok) : Option BState :=
  match t with
  | .comment c =>
    match st.stack with
    | _ :: _ => none                       -- comments inside elements: not read
    | [] => if st.root.isSome then some { st with post := ⟨c, none⟩ :: st.post }
            else some { st with pre := ⟨c, none⟩ :: st.pre }
  | .text s =>
    match st.stack with
    | [] => if isBlank s then some st else none
    | f :: fs =>
      if isBlank s && dropBlank f next then some st
      else some { st with stack := f.addText s :: fs }
  | .stag n as sc =>
    if sc then st.place (.mk n [] as none none [])
    else if st.stack.isEmpty && st.root.isSome then none
    else some { st with stack := ⟨n, as, none, []⟩ :: st.stack }
  | .etag n =>
    match st.stack with
    | [] => none
    | f :: fs => if f.name = n then ({ st with stack := fs } : BState).place f.close else none

def build : BState → List Tok → Option BState
  | st, [] => some st
  | st, t :: rest => match step st t rest.head? with
    | some st' => build st' rest
    | none => none

def BState.finish (st : BState) : Option Doc :=
  match st.stack, st.root with
  | [], some r => some ⟨st.pre.reverse, r, st.post.reverse⟩
  | _, _ => none

/-! ## Raw tree → namespaces resolved -/

/-- `xmlns:p` / `xmlns` attributes: the declared (prefix, uri) -/
def nsDeclOf (kv : Str × Str) : Option (Str × Str) :=
  match kv.1 with
  | 'x' :: 'm' :: 'l' :: 'n' :: 's' :: ':' :: p => some (p, kv.2)
  | ['x', 'm', 'l', 'n', 's'] => some ([], kv.2)
  | _ => none

/-- first `:` splits: (prefix, local) -/
def splitColon : Str → Option (Str × Str)
  | [] => none
  | c :: rest =>
    if c = ':' then some ([], rest)
    else match splitColon rest with
      | some (a, b) => some (c :: a, b)
      | none => none

def lookupNs (p : Str) : List (Str × Str) → Option Str
  | [] => none
  | (k, v) :: rest => if k = p then some v else lookupNs p rest

/-- a prefixed name → Clark notation; `dflt` = apply the default namespace (elements only) -/
def resolveName (nsmap : List (Str × Str)) (dflt : Bool) (name : Str) : Option Str :=
  match splitColon name with
  | some (p, loc) =>
    match lookupNs p nsmap with
    | some uri => some (clark uri loc)
    | none => none
  | none =>
    if dflt then
      match lookupNs [] nsmap with
      | some uri => some (clark uri name)
      | none => some name
    else some name

def resolveAttrs (nsmap : List (Str × Str)) : List (Str × Str) → Option (List (Str × Str))
  | [] => some []
  | kv :: rest =>
    match nsDeclOf kv with
    | some _ => resolveAttrs nsmap rest
    | none =>
      match resolveName nsmap false kv.1, resolveAttrs nsmap rest with
      | some k, some r => some ((k, kv.2) :: r)
      | _, _ => none

mutual
def resolve (pns : List (Str × Str)) : Elem → Option Elem
  | .mk tag _ attrs text tail kids =>
    let nsd := attrs.filterMap nsDeclOf
    let nsmap := scope pns nsd
    match resolveName nsmap true tag, resolveAttrs nsmap attrs, resolveKids nsmap kids with
    | some t, some a, some k => some (.mk t nsd a text tail k)
    | _, _, _ => none
def resolveKids (nsmap : List (Str × Str)) : List Elem → Option (List Elem)
  | [] => some []
  | k :: ks =>
    match resolve nsmap k, resolveKids nsmap ks with
    | some e, some es => some (e :: es)
    | _, _ => none
end

/-! ## The reader -/

/-- an XML declaration at the very start is skipped (`<?xml … ?>`) -/
def skipPI : Str → Option Str
  | '?' :: '>' :: rest => some rest
  | _ :: rest => skipPI rest
  | [] => none

def stripDecl (s : Str) : Option Str :=
  match s with
  | '<' :: '?' :: 'x' :: 'm' :: 'l' :: rest => skipPI rest
  | _ => some s

/-- the document after the declaration: tokens, tree, namespaces -/
def parseBody (body : Str) : Option Doc :=
  match lex body with
  | none => none
  | some ts =>
    match build BState.init ts with
    | none => none
    | some st =>
      match st.finish with
      | none => none
      | some raw =>
        match resolve [] raw.root with
        | some r => some ⟨raw.pre, r, raw.post⟩
        | none => none

/-- characters → document (`none` = not well-formed, or outside the supported subset) -/
def parse (s : Str) : Option Doc :=
  match stripDecl s with
  | none => none
  | some body => parseBody body

end Capella.Xml
