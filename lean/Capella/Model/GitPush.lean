import Capella.Model.Git

/-!
# Pushing: the remote as a second ref store (C16)

Mirrors the part of `_GitTransaction.__finish` that runs when `push=True` (as coded after
`fix: take the commit off the local branch again when the push fails`):

* before anything else `__read_target_ref` (`rev-parse --verify --quiet <target>`; skipped for a dry run),
* then `__finish` as without push (`Capella.Git.finish`),
* if the target ref was moved: `__push_updates("origin")` (`git push -- origin <target>`, no force);
  if the push fails, `__restore_target_ref` (`update-ref <target> <old> <new>` resp. `update-ref -d`)
  puts the local branch back, the error propagates and `__exit__` rolls the work tree back.

The remote `origin` is its refs (`Remote`); objects are shared with the local repository (a commit's id
is its position).  `git push` without force is accepted iff the remote does not decline (`declines`: a
hook, no such remote, unreachable — a parameter) and the update is a fast-forward: the remote ref is
absent or its commit is an ancestor of the pushed one.  Core Lean only.
-/
namespace Capella.Git

/-- the refs of the remote repository `origin` -/
abbrev Remote := List (Str × Nat)

def getRef (refs : List (Str × Nat)) (n : Str) : Option Nat := (refs.find? (fun e => e.1 = n)).map (·.2)

def delRef (refs : List (Str × Nat)) (n : Str) : List (Str × Nat) := refs.filter (fun e => e.1 ≠ n)

structure PushOpts where
  push : Bool := false        -- `push=True`
  declines : Bool := false    -- the remote refuses whatever is pushed (hook / unreachable / not configured)

section
variable {P : Type} [DecidableEq P]

/-- is commit `a` reachable from commit `c` along the parent links? (`fuel` ≥ number of commits suffices) -/
def isAncestor (commits : List (Commit P)) : Nat → Nat → Nat → Bool
  | 0, a, c => a == c
  | fuel + 1, a, c =>
    a == c ||
    match commits[c]? with
    | some k =>
      match k.parent with
      | some p => isAncestor commits fuel a p
      | none => false
    | none => false

/-- would the remote take `git push origin <target>` with `target` at commit `c` locally? -/
def remoteAccepts (declines : Bool) (commits : List (Commit P)) (rem : Remote) (target : Str) (c : Nat) : Bool :=
  !declines &&
  match getRef rem target with
  | none => true
  | some r => isAncestor commits commits.length r c

variable (fault : Option Nat)

/-- the branch back at `oldT`: `update-ref <target> <old> <new>`, or `update-ref -d <target> <new>` if it did not exist -/
def putBack (refs : List (Str × Nat)) (target : Str) : Option Nat → List (Str × Nat)
  | some t => setRef refs target t
  | none => delRef refs target

/-- `__restore_target_ref`: one more `update-ref`; if that is refused the branch stays where it is -/
def restoreRef (target : Str) (oldT : Option Nat) (s : St P) : St P × Option Err × Bool :=
  match call fault (.updateRef target) s with
  | (s1, true) => (s1, some .gitfail, false)
  | (s1, false) => ({ s1 with refs := putBack s1.refs target oldT }, some .gitfail, false)

/-- `_GitTransaction.__finish` with `push`: state, error, "target ref moved", and the remote -/
def finishPush (o : Opts) (po : PushOpts) (target : Str) (old : Nat) (s : St P) (rem : Remote) :
    (St P × Option Err × Bool) × Remote :=
  if !(po.push && !o.dry) then (finish fault o target old s, rem) else
  match call fault (.revParseTarget target) s with
  | (s1, true) => ((s1, some .gitfail, false), rem)
  | (s1, false) =>
    let oldT := getRef s1.refs target
    match finish fault o target old s1 with
    | (s2, e, false) => ((s2, e, false), rem)
    | (s2, e, true) =>
      match call fault (.push target) s2 with
      | (s3, true) => (restoreRef fault target oldT s3, rem)
      | (s3, false) =>
        if remoteAccepts po.declines s3.commits rem target s3.head
        then ((s3, e, true), setRef rem target s3.head)
        else (restoreRef fault target oldT s3, rem)

/-- `with handler.write_transaction(push=…, **opts): body` together with the remote -/
def transactionPush (rev : Str) (o : Opts) (po : PushOpts) (body : List (Op P)) (s : St P) (rem : Remote) :
    Res P × Remote :=
  let s := { s with calls := 0, trace := [] }
  let target0 := o.remoteBranch.getD rev
  let s := if target0 = headStr then (call fault .revParseSym s).1 else s
  if objectLike target0 then ((s, some .objectlike), rem) else
  let target := qualify target0
  match call fault .revParseHead s with
  | (s1, true) => ((s1, some .gitfail), rem)
  | (s1, false) =>
    if s1.txnOpen then ((s1, some .alreadyOpen), rem) else
    let old := s1.head
    match runBody fault (objectLike rev) body { s1 with txnOpen := true } with
    | (s2, some e) => (rollback fault old (some e) { s2 with txnOpen := false }, rem)
    | (s2, none) =>
      match finishPush fault o po target old s2 rem with
      | ((s3, e, true), rem') => (({ s3 with txnOpen := false }, e), rem')
      | ((s3, e, false), rem') => (rollback fault old e { s3 with txnOpen := false }, rem')

/-- `__finish` before the repair: a failing push just raised — the local branch kept the commit -/
def finishPushOld (o : Opts) (po : PushOpts) (target : Str) (old : Nat) (s : St P) (rem : Remote) :
    (St P × Option Err × Bool) × Remote :=
  match finish fault o target old s with
  | (s2, e, false) => ((s2, e, false), rem)
  | (s2, e, true) =>
    if !po.push then ((s2, e, true), rem) else
    match call fault (.push target) s2 with
    | (s3, true) => ((s3, some .gitfail, false), rem)
    | (s3, false) =>
      if remoteAccepts po.declines s3.commits rem target s3.head
      then ((s3, e, true), setRef rem target s3.head)
      else ((s3, some .gitfail, false), rem)

def transactionPushOld (rev : Str) (o : Opts) (po : PushOpts) (body : List (Op P)) (s : St P) (rem : Remote) :
    Res P × Remote :=
  let s := { s with calls := 0, trace := [] }
  let target0 := o.remoteBranch.getD rev
  let s := if target0 = headStr then (call fault .revParseSym s).1 else s
  if objectLike target0 then ((s, some .objectlike), rem) else
  let target := qualify target0
  match call fault .revParseHead s with
  | (s1, true) => ((s1, some .gitfail), rem)
  | (s1, false) =>
    if s1.txnOpen then ((s1, some .alreadyOpen), rem) else
    let old := s1.head
    match runBody fault (objectLike rev) body { s1 with txnOpen := true } with
    | (s2, some e) => (rollback fault old (some e) { s2 with txnOpen := false }, rem)
    | (s2, none) =>
      match finishPushOld fault o po target old s2 rem with
      | ((s3, e, true), rem') => (({ s3 with txnOpen := false }, e), rem')
      | ((s3, e, false), rem') => (rollback fault old e { s3 with txnOpen := false }, rem')

end
end Capella.Git
