import Capella.Model.DescrTable
/-
Vocabulary of the generated accessor-parameter tables (harness/gen_descriptors.py →
Capella/Gen/AccRows*.lean, Capella/Gen/AccClasses*.lean): for every relation descriptor instance of the
registered model classes ALL parameters that the mutation methods of `capellambse.model._descriptors`
read, and for every registered class what `ModelElement.__init__` / `_match_xtype` / `_guess_xtype` read.
Core Lean only.
-/
namespace Capella.AccTable
open Capella.DescrTable

structure ARow where
  cls : String               -- defining class, `module.qualname`
  attr : String
  kind : Kind
  writable : Bool            -- isinstance(acc, WritableAccessor)
  aslist : Bool              -- acc.aslist is not None
  fixed : Nat                -- list_extra_args["fixed_length"] (0 = free)
  unique : Bool              -- LinkAccessor.unique
  xtypes : List String       -- PhysicalAccessor.xtypes, sorted
  tag : Option String        -- LinkAccessor.tag / RoleTagAccessor.role_tag
  follow : Option String     -- LinkAccessor.follow / AttrProxyAccessor.attr / TypecastAccessor.attr
  backattr : Option String   -- LinkAccessor.backattr
  rootelem : List String     -- DirectProxyAccessor.rootelem (path of xsi:types)
  followAbstract : Bool
  elemClass : Option String  -- `class_` as module.qualname; none = ModelElement (generic)
  classes : List String      -- RoleTagAccessor.classes, module.qualname
  singleAttr : Option String
  matcher : List (String × String)   -- AttributeMatcherAccessor.attributes (repr of the values)
deriving DecidableEq, Repr

structure CRow where
  name : String              -- module.qualname
  short : String             -- __name__
  xtype : Option String      -- key under which the class is registered in XTYPE_HANDLERS[None]
  xmltag : Option String     -- _xmltag
  required : List String     -- union of `_required_attrs` over the MRO
  mro : List String          -- module.qualname of every class in the MRO (self first)
  built : Option String := none   -- `_xtype.build_xtype(cls)`; none = it raises TypeError (module below no xtype anchor)
deriving DecidableEq, Repr

/-- the kinds whose mutation methods `Model/Accessor.lean` implements -/
def implementedKind : Kind → Bool
  | .directProxyAccessor | .attributeMatcherAccessor | .roleTagAccessor
  | .linkAccessor | .attrProxyAccessor | .physicalLinkEndsAccessor => true
  | _ => false

/-- kinds that are writable only by delegation to another relation (`TypecastAccessor` forwards every
mutation to `getattr(class_, attr)`) or that are virtual views kept by the ReqIF extension; they are
listed by name so that a NEW writable kind is not silently accepted -/
def delegatingKind : Kind → Bool
  | .typecastAccessor | .elementRelationAccessor | .requirementsRelationAccessor | .attributeAccessor => true
  | _ => false

/-- obligation discharged per generated chunk: a writable relation is of an implemented kind, or of a
delegating kind named above; a link-element relation names the attribute it follows; an attribute
relation names its attribute; a role-tag relation its tag -/
def ARow.implemented (r : ARow) : Bool :=
  if r.writable then
    (implementedKind r.kind || delegatingKind r.kind) &&
    (match r.kind with
     | .linkAccessor => r.follow.isSome && r.xtypes.length == 1
     | .attrProxyAccessor | .physicalLinkEndsAccessor => r.follow.isSome
     | .roleTagAccessor => r.tag.isSome
     | .typecastAccessor => r.follow.isSome && r.elemClass.isSome
     | _ => true)
  else true   -- a read-only relation has no mutation method (its kind may be one this vocabulary does not name)

end Capella.AccTable
