/-
Model of model-coupled lists (`ElementListCouplingMixin` + the owning accessor), C08.

The owner's XML children are a list of `(nid, matches)` pairs: `matches` says whether the child belongs
to the relation (xsi:type / tag selected by the accessor); the other children are the heterogeneous
siblings. The list a user holds is the *view*: the matching children in document order.
`pyInsert` is Python's `list.insert` (the specification, and what `lxml`'s `Element.insert` does on
the children sequence).
-/
namespace Capella.CoupledList

abbrev Child := Nat × Bool

def view (kids : List Child) : List Nat := (kids.filter (·.2)).map (·.1)
def others (kids : List Child) : List Nat := (kids.filter (fun c => !c.2)).map (·.1)

/-- Python's index normalisation for `list.insert(i, x)` on a list of length `n` -/
def normIndex (n : Nat) (i : Int) : Nat :=
  if i < 0 then (i + n).toNat else min i.toNat n

/-- `list.insert(i, x)`: also the behaviour of `lxml.etree._Element.insert` on the children -/
def pyInsert {α} (l : List α) (i : Int) (x : α) : List α :=
  let k := normIndex l.length i
  l.take k ++ x :: l.drop k

/-- position of the child with identity `n` (`parent.index(elem)`; `none` = ValueError) -/
def indexOf (kids : List Child) (n : Nat) : Option Nat :=
  match kids with
  | [] => none
  | c :: cs => if c.1 = n then some 0 else (indexOf cs n).map (· + 1)

inductive Err | indexError | valueError | typeError | nonUnique
deriving DecidableEq, Repr

/-- `elmlist._elements[j]` with Python's negative indexing (IndexError outside) -/
def pyGet (l : List Nat) (j : Int) : Except Err Nat :=
  let n : Int := l.length
  if 0 ≤ j ∧ j < n then (match l[j.toNat]? with | some v => .ok v | none => .error .indexError)
  else if -n ≤ j ∧ j < 0 then (match l[(j + n).toNat]? with | some v => .ok v | none => .error .indexError)
  else .error .indexError

/-- `DirectProxyAccessor.insert` / `RoleTagAccessor.insert` **as repaired**: the index is first
normalised the way `list.insert` does, then translated into a child position next to the
neighbouring list member; `x` is the (matching) element being inserted, not yet a child. -/
def insertChild (kids : List Child) (i : Int) (x : Nat) : List Child :=
  let elems := view kids
  let k := normIndex elems.length i
  let pos : Nat :=
    if k = 0 then 0
    else match elems[k - 1]? with
      | some prev => (match indexOf kids prev with | some p => p + 1 | none => kids.length)
      | none => kids.length
  kids.take pos ++ (x, true) :: kids.drop pos

/-- The translation as it was before the repair (kept for the counter-example and for judging old
trees): `index > 0`: after `elements[index-1]`; `index < -1`: before-1 of `elements[index+1]`;
`0`/`-1`: used as child position directly; ValueError → append. IndexError escapes. -/
def insertChildOld (kids : List Child) (i : Int) (x : Nat) : Except Err (List Child) := do
  let elems := view kids
  let pos : Int ←
    if i > 0 then do
      let prev ← pyGet elems (i - 1)
      pure (match indexOf kids prev with | some p => ((p + 1 : Nat) : Int) | none => kids.length)
    else if i < -1 then do
      let nxt ← pyGet elems (i + 1)
      pure (match indexOf kids nxt with | some p => (p : Int) - 1 | none => kids.length)
    else pure i
  pure (pyInsert kids pos (x, true))

/-- `accessor.delete` + `parent.remove(elem)` -/
def deleteChild (kids : List Child) (x : Nat) : List Child := kids.filter (·.1 ≠ x)

/-! link-element lists (`LinkAccessor`): the view is the targets of the owner's link elements -/

/-- position of the first occurrence of `b` (`__backref` finds the link element by its target) -/
def posOf (l : List Nat) (b : Nat) : Option Nat :=
  match l with
  | [] => none
  | a :: as => if a = b then some 0 else (posOf as b).map (· + 1)

/-- `LinkAccessor.insert` as repaired: negative indices are normalised like `list.insert`, then
`before = elmlist[index] if index < len(elmlist) else None`; uniqueness check in `__create_link`. -/
def linkInsert (targets : List Nat) (unique : Bool) (i : Int) (x : Nat) : Except Err (List Nat) :=
  if unique && targets.contains x then .error .nonUnique
  else
    let j : Nat := if i < 0 then (i + targets.length).toNat else i.toNat
    match targets[j]? with
    | some b => (match posOf targets b with
        | some p => .ok (targets.take p ++ x :: targets.drop p)
        | none => .error .valueError)
    | none => .ok (targets ++ [x])

/-- attribute-link lists (`AttrProxyAccessor.insert`): `[*elmlist[:index], value, *elmlist[index:]]` -/
def attrInsert (targets : List Nat) (i : Int) (x : Nat) : List Nat := pyInsert targets i x

/-- fixed-length front-end check of `ElementListCouplingMixin.insert/create/__delitem__` -/
def fixedLenInsert (fixed : Nat) (targets : List Nat) (i : Int) (x : Nat) : Except Err (List Nat) :=
  if fixed ≠ 0 ∧ targets.length ≥ fixed then .error .typeError else .ok (attrInsert targets i x)

end Capella.CoupledList

namespace Capella.CoupledList

/-- one iteration of the repaired `DirectProxyAccessor.__set__` loop: `if list[i] is v: continue`,
else `self.insert(list, i, v)` — lxml *moves* `v` when it already is a child further down -/
def assignStep (kids : List Child) (i : Nat) (x : Nat) : List Child :=
  if (view kids)[i]? = some x then kids else insertChild (deleteChild kids x) (i : Int) x

def assignLoop (kids : List Child) : Nat → List Nat → List Child
  | _, [] => kids
  | i, x :: xs => assignLoop (assignStep kids i x) (i + 1) xs

/-- `DirectProxyAccessor.__set__` for a list (as repaired): delete the members that are not part of the
new value, then put every new member in its place. This is also what `lst[i] = x` runs. -/
def assign (kids : List Child) (new : List Nat) : List Child :=
  assignLoop (kids.filter (fun c => !c.2 || new.contains c.1)) 0 new

end Capella.CoupledList

namespace Capella.CoupledList

/-- a child element as a link-element relation sees it: identity, XML tag, xsi:type, target -/
structure LinkKid where
  nid : Nat
  tag : String
  xt : String
  target : Nat
deriving DecidableEq, Repr

/-- `LinkAccessor.__find_refs`: children with the relation's tag (any tag when none is configured)
whose xsi:type is one of the relation's types -/
def isRef (tag : Option String) (xts : List String) (k : LinkKid) : Bool :=
  (match tag with | some t => k.tag == t | none => true) && xts.contains k.xt

def linkTargets (tag : Option String) (xts : List String) (kids : List LinkKid) : List Nat :=
  (kids.filter (isRef tag xts)).map (·.target)

/-- `LinkAccessor.__delete__`: remove exactly the relation's own link elements -/
def linkClear (tag : Option String) (xts : List String) (kids : List LinkKid) : List LinkKid :=
  kids.filter (fun k => !isRef tag xts k)

end Capella.CoupledList
