import Capella.Model.Txn
/-!
# Symbolic links in the directory of the write transaction (C15, round 5)

The directory map `fs : path → Option bytes` of `Model/Txn.lean` holds the directory's *entries as `lstat` sees
them*.  An entry may be a symbolic link: `linkOf b = some q` says that the entry with bytes `b` is a link that leads
to the path `q` (the harness enters a link as marker ++ link text ++ kind of target, and what the link leads to under
that path's own name).  The calls of `LocalFileHandler.open / write_transaction` act on entries, never on what a
link at the last component leads to:

* `(self.path / tmpname).open("wb")` creates the entry `tmp p` **beside `p`** (`hOpen`: `fsSet fs (tmp p) []`) — also
  when `p` is a link; it would follow a link only if the *temporary name itself* were one (a stale temp file, excluded
  like every stale temp file by `hclean` / reported as `tmp-named-file-lost`);
* `Path.replace(tmp p, p)` is `rename(2)`: it replaces the entry `p` whatever it is (`fsMove`) — a link is replaced by
  the regular file, the file it led to is not touched;
* `Path.unlink(tmp p)` removes the entry `tmp p` (`fsDel`).

So the model needs no new operation; what links add is the *reading* side below, and the statements in
`Props/C15.lean` that a failed or dry-run save leaves every link a link with the same text, the file behind it
unchanged, and no new entry anywhere — in particular none beside the file a link leads to.
Core Lean only.
-/
namespace Capella.Txn

section
variable {P : Type}

/-- what `open(p, "rb")` gives: links are followed (at most `fuel` of them — `ELOOP` beyond) -/
def readThrough (linkOf : Bytes → Option P) (fs : P → Option Bytes) : Nat → P → Option Bytes
  | 0, _ => none
  | n + 1, p =>
    match fs p with
    | none => none
    | some b =>
      match linkOf b with
      | none => some b
      | some q => readThrough linkOf fs n q

end
end Capella.Txn
