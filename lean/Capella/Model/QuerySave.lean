import Capella.Model.Query

/-!
# C10 — the type index across `save()`

Core Lean only.  Mirrors, as coded, `loader/core.py`:

* `ModelFile.idcache_index` / `idcache_rebuild` (type part): a walk of the tree in document order;
  `self.__xtypecache[xtype][id(elm)] = elm` on a `defaultdict(dict)` — a type seen for the first time
  opens a new bucket at the end, an element is appended at the end of its type's bucket;
* `ModelFile.update_namespaces`: the namespace map a fragment needs is `xmi`, `xsi` and the prefix of
  every `xtype_of` in the tree; when it differs from what the root declares, the root element is
  re-created (children moved over) and the fragment's indexes are rebuilt by a walk — otherwise
  nothing is touched;
* `MelodyLoader.save` → `update_namespaces` for every semantic fragment.
-/
namespace Capella.Query

/-- `self.__xtypecache[xt][id(elm)] = elm` for an element that is not indexed yet -/
def insertIdx : Index → Str → Nat → Index
  | [], xt, i => [(xt, [i])]
  | p :: rest, xt, i => if p.1 = xt then (p.1, p.2 ++ [i]) :: rest else p :: insertIdx rest xt i

/-- `idcache_rebuild` (type part) over the typed elements `(node, type)` of one fragment in document order -/
def rebuildOf (items : List (Nat × Str)) : Index :=
  items.foldl (fun idx it => insertIdx idx it.2 it.1) []

/-- the typed elements of the semantic trees, in document order: what a walk of the trees indexes -/
def typedItems (nodes : List Node) : List (Nat × Str) :=
  nodes.zipIdx.filterMap (fun p => if p.1.sem && !p.1.xtype.isEmpty then some (p.2, p.1.xtype) else none)

/-- the typed elements of the fragment stored at positions `lo ≤ i < hi` -/
def itemsIn (nodes : List Node) (lo hi : Nat) : List (Nat × Str) :=
  (typedItems nodes).filter (fun p => decide (lo ≤ p.1) && decide (p.1 < hi))

/-- namespace prefix of a type: the text before the first `:` -/
def nsPrefix (xt : Str) : Str := xt.takeWhile (· != ':')

def insertNew (l : List Str) (s : Str) : List Str := if l.contains s then l else l ++ [s]

/-- the prefixes of `new_nsmap` in `update_namespaces`: `xmi`, `xsi`, then the prefix of every type in the tree -/
def neededPrefixes (items : List (Nat × Str)) : List Str :=
  items.foldl (fun acc it => insertNew acc (nsPrefix it.2)) ["xmi".toList, "xsi".toList]

def sameSet (a b : List Str) : Bool := a.all (b.contains ·) && b.all (a.contains ·)

/-- `if self.root.nsmap == new_nsmap: return` — compared on the prefixes (the URI of a prefix is a
function of the prefix and the activated viewpoints, which a save does not change) -/
def needsNewRoot (declared : List Str) (items : List (Nat × Str)) : Bool :=
  !sameSet declared (neededPrefixes items)

/-- the type index of one fragment after `update_namespaces`: rebuilt by a walk of the new tree when
the root had to be replaced, untouched otherwise -/
def afterSave (replaced : Bool) (old : Index) (items : List (Nat × Str)) : Index :=
  if replaced then rebuildOf items else old

/-- one semantic fragment at `save()`: was its root replaced, its index before, its typed elements -/
structure SavedFragment where
  replaced : Bool
  old : Index
  items : List (Nat × Str)

/-- the model-wide index (`MelodyLoader.iterall_xt` chains the fragments) after `save()` -/
def savedIndex (frs : List SavedFragment) : Index :=
  frs.flatMap (fun f => afterSave f.replaced f.old f.items)

/-- a fragment's index lists exactly its typed elements, each once -/
structure FragExact (idx : Index) (items : List (Nat × Str)) : Prop where
  mem_iff : ∀ (xt : Str) (i : Nat), (∃ p ∈ idx, p.1 = xt ∧ i ∈ p.2) ↔ (i, xt) ∈ items
  perm : (idx.flatMap (·.2)).Perm (items.map (·.1))

/-- decidable version for exported states: same `(node, type)` pairs, no node twice -/
def fragExactB (idx : Index) (items : List (Nat × Str)) : Bool :=
  let flat := idx.flatMap (fun p => p.2.map (fun i => (i, p.1)))
  flat.all (fun q => items.contains q) && items.all (fun q => flat.contains q) &&
    decide ((idx.flatMap (·.2)).Nodup)

end Capella.Query
