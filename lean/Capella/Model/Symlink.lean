import Capella.Model.Path

/-!
# Symbolic links below a handler root (C14)

The handlers confine *names* lexically (`Capella.Path.target`); what the operating system then opens is
the physical location of that path, i.e. after following symbolic links.  This file models that
resolution — `os.path.realpath` / the kernel's path walk — over a table of links:

* `Links`: which absolute paths (as parts lists) are symbolic links, with their raw target strings;
* `realpath`: walk the components left to right; `""` and `.` are skipped, `..` drops the last resolved
  component, a component that is a link is replaced by the components of its target (an absolute target
  restarts at `/`); every step costs one unit of fuel, running out of fuel is `ELOOP` (`none`);
* `physical`: where `handler.open(name)` really lands for a handler rooted at `root` (local directory and
  git work tree: `<root>/<subdir>/<normalised name>`).

Core Lean only.
-/
namespace Capella.Path

/-- location (absolute, as parts) ↦ raw link target -/
abbrev Links := List (List Str × Str)

def linkAt (ls : Links) (p : List Str) : Option Str := (ls.find? (fun e => e.1 = p)).map (·.2)

/-- `realpath` of `acc ++ comps`, `acc` already resolved -/
def realpath (ls : Links) : Nat → List Str → List Str → Option (List Str)
  | _, acc, [] => some acc
  | 0, _, _ :: _ => none
  | fuel + 1, acc, c :: rest =>
    if c = [] ∨ c = dot then realpath ls fuel acc rest
    else if c = dotdot then realpath ls fuel acc.dropLast rest
    else
      match linkAt ls (acc ++ [c]) with
      | none => realpath ls fuel (acc ++ [c]) rest
      | some t =>
        if t.head? = some '/' then realpath ls fuel [] (splitSlash t ++ rest)
        else realpath ls fuel acc (splitSlash t ++ rest)

/-- the physical location of `handler.open(name)` for a handler on the directory `root`
(`root` itself is a physical path: no link along it) -/
def physical (ls : Links) (fuel : Nat) (root : List Str) (h : Handler) (subdir name : Str) : Option (List Str) :=
  realpath ls fuel root (target h subdir name)

end Capella.Path
