import Capella.Model.Effects

/-!
# C11 — the element factories of the diagram parser as programs over the model trees

Core Lean only.  Mirrors `capellambse/aird/__init__.py: parse_diagram, _element_from_xml`,
`_semantic.py: from_xml, FactorySelector`, `_visual.py: from_xml, shape_factory, connector_factory`,
`_filters/__init__.py: setfilters` and every factory of `_box_factories.py` / `_edge_factories.py`
that a live dispatch table names, as far as the *semantic* content of the drawn element goes:
whether it is drawn or skipped, its style class, label texts, features, the symbol / port / hidden /
hide-label flags and its parent.  Geometry (positions, sizes, bend points, snapping), style
overrides and text that goes through libxml2's HTML parser (`ownedSpecification` bodies,
`ReqIFText`) are not modelled; the reads they perform on the trees are.

Every factory is a `Prog`: it can only talk to the trees through `Instr` requests, and write
requests exist.  Reads are hoisted to the front of each program (a read has no side effect), so on
early exits the model may read more than the code does; the order of *writes* — there are none in
the factories as they are now; `Coded.*` keeps the three that used to write — is as coded.
-/
namespace Capella.Factories
open Capella.Effects

/-! ## small string helpers (Python `str` methods used by the factories) -/

def afterLast (c : Char) (s : Str) : Str := s.foldl (fun acc x => if x = c then [] else acc ++ [x]) []

/-- `s.split(":")[1]` (`none` = `IndexError`) -/
def splitSecond (s : Str) : Option Str :=
  match s.splitOn ':' with
  | _ :: b :: _ => some b
  | _ => none

def capitalize : Str → Str
  | [] => []
  | c :: r => c.toUpper :: r.map Char.toLower

def startsWith (p s : Str) : Bool := p.isPrefixOf s
def endsWith (p s : Str) : Bool := p.isSuffixOf s
def joinWith (sep : Str) : List Str → Str
  | [] => []
  | [x] => x
  | x :: r => x ++ sep ++ joinWith sep r

def S (s : String) : Str := s.toList

/-! ## context and results -/

/-- `SemanticElementBuilder`, as far as the factories use it -/
structure Seb where
  data : Nat                 -- `data_element` (`children` / `edges` node of the notation tree)
  diag : Nat                 -- `diag_element` (`ownedDiagramElements` … of the diagram tree)
  dtree : Nat                -- `diagram_tree`
  objs : List Nat            -- `melodyobjs`
  styleclass : Option Str
deriving Repr

/-- what `target_diagram` knows about an element drawn earlier -/
structure Drawn where
  uid : Str
  isBox : Bool
  styleclass : Option Str
deriving DecidableEq, Repr

abbrev Ctx := List Drawn

def Ctx.find (c : Ctx) (u : Str) : Option Drawn := List.find? (fun d => d.uid == u) c

structure Elem where
  uid : Str
  isBox : Bool
  styleclass : Option Str
  label : Str                      -- `box.label` (boxes)
  labels : List Str                -- floating label texts (boxes) / label texts (edges)
  features : Option (List Str)
  symbol : Bool
  port : Bool
  hidden : Bool
  hidelabel : Bool
  parent : Option Str
deriving DecidableEq, Repr

inductive Res
  | drawn (e : Elem)
  | skip                                         -- `SkipObject`
  | feats (parent : Str) (fs : List Str)         -- `statemode_activities_factory`: sets the parent's features, then `SkipObject`
  | error (why : Str)                            -- any other exception: the whole diagram fails
deriving DecidableEq, Repr

/-! ## reads shared by several factories -/

/-- `setfilters`: `(hidden, hidelabel)` from `visible` and the `graphicalFilters` children; composite filters
only register callbacks (they touch diagram objects, never the trees) -/
def setfilters (s : Seb) : Prog (Bool × Bool) := do
  let vis ← getA s.diag "visible"
  let gfs ← kidsP s.diag "graphicalFilters"
  let tys ← Prog.mapP (fun g => getA g "xmi:type") gfs
  let hidden0 := vis.getD (S "true") != S "true"
  let hide := tys.any (fun t => t == some (S "diagram:HideFilter") || t == some (S "diagram:CollapseFilter"))
  let hl := tys.any (fun t => t == some (S "diagram:HideLabelFilter"))
  pure (hidden0 || hide, hl)

/-- the name of the first semantic element, `""` if it has none -/
def objName (n : Nat) : Prog Str := do
  let v ← getA n "name"
  pure (v.getD [])

/-- `follow_link` of an optional link attribute -/
def followOpt (l : Option Str) : Prog (Option Nat) :=
  match l with
  | some x => followP x
  | none => pure none

/-! ## box factories -/

/-- `_box_factories.generic_factory` -/
def boxGeneric (s : Seb) (ctx : Ctx) (symbol : Bool := false) : Prog Res := do
  let dp ← parentP s.diag
  let dpUid ← (match dp with | some p => getA p "uid" | none => pure none)
  let lay ← kidsP s.data "layoutConstraint"
  let sty ← kidsP s.diag "ownedStyle"
  let dtag ← tagP s.diag
  let wp ← (match sty.head? with | some o => getA o "workspacePath" | none => pure none)
  let name ← (match s.objs.head? with | some o => objName o | none => pure [])
  let uid ← getA s.data "element"
  let (hidden, hidelabel) ← setfilters s
  let parentUid : Option Str := if dp == some s.dtree then none else dpUid
  match dp, s.objs.head?, uid with
  | some _, some _, some u =>
    let parent? : Option (Option Drawn) := match parentUid with
      | none => some none
      | some pu => (ctx.find pu).map some
    match parent? with
    | none => pure .skip                        -- parent not in diagram
    | some parent =>
      if lay.isEmpty || sty.isEmpty then pure .skip
      else
        let isPort := dtag == S "ownedBorderedNodes"
        let isSymbol := symbol || wp.isSome
        let floating := !name.isEmpty && (isPort || isSymbol)
        pure (.drawn {
          uid := u, isBox := true, styleclass := s.styleclass
          label := if floating then [] else name
          labels := if floating then [name] else []
          features := none, symbol := isSymbol, port := isPort
          hidden := hidden, hidelabel := hidelabel, parent := parent.map (·.uid) })
  | _, _, _ => pure (.error (S "generic_factory"))

def mapDrawn (f : Elem → Elem) : Res → Res
  | .drawn e => .drawn (f e)
  | r => r

/-- `generic_stacked_factory` (the stacking mode only affects geometry; it is read) -/
def boxStacked (s : Seb) (ctx : Ctx) : Prog Res := do
  let _ ← getA s.diag "childrenPresentation"
  let r ← boxGeneric s ctx
  pure (mapDrawn (fun e => { e with features := some [] }) r)

/-- one `ownedParameters` child of a `Service`: `(kind, text)` or `none` if it is no `Parameter` -/
def classParam (p : Nat) : Prog (Option (Str × Str)) := do
  let xt ← getA p "xsi:type"
  let nm ← getA p "name"
  let at_ ← getA p "abstractType"
  let ty ← followOpt at_
  let tyName ← (match ty with | some x => getA x "name" | none => pure none)
  let dir ← getA p "direction"
  if afterLast ':' (xt.getD []) != S "Parameter" then pure none
  else
    let n := nm.getD [] ++ (match at_ with | some _ => ':' :: tyName.getD [] | none => [])
    pure (some (dir.getD (S "IN"), n))

/-- one `ownedFeatures` child of a class: `(feature type, text)`; `none` = not listed -/
def classFeature (f : Nat) : Prog (Option (Str × Str)) := do
  let nm ← getA f "name"
  let xt ← getA f "xsi:type"
  let at_ ← getA f "abstractType"
  let ty ← followOpt at_
  let tyName ← (match ty with | some x => getA x "name" | none => pure none)
  let agg ← getA f "aggregationKind"
  let der ← getA f "isDerived"
  let ps ← kidsP f "ownedParameters"
  let params ← Prog.mapP classParam ps
  let ft := afterLast ':' (xt.getD [])
  let name := nm.getD []
  if ft == S "Property" then
    if agg.isSome then pure none
    else
      let n1 := if der.isSome then '/' :: name else name
      let n2 := match ty with | some _ => n1 ++ S " : " ++ tyName.getD [] | none => n1
      pure (some (ft, n2))
  else if ft == S "Service" then
    let ps := params.filterMap id
    let ret := (ps.filter (fun p => p.1 == S "RETURN")).map (·.2)
    let thr := (ps.filter (fun p => p.1 == S "EXCEPTION")).map (·.2)
    let ins := (ps.filter (fun p => p.1 != S "RETURN" && p.1 != S "EXCEPTION")).map (fun p => p.1 ++ S " " ++ p.2)
    let n1 := name ++ S "(" ++ joinWith (S ", ") ins ++ S ")"
    let n2 := if !ret.isEmpty || !thr.isEmpty then n1 ++ S " : " else n1
    let n3 := if !ret.isEmpty then n2 ++ S " returns " ++ joinWith (S ", ") ret else n2
    let n4 := if !thr.isEmpty then n3 ++ S " throws " ++ joinWith (S ", ") thr else n3
    pure (some (ft, n4))
  else pure (some (ft, name))

/-- `sum(features.values(), [])` of a `defaultdict` filled in document order: grouped by feature type in order of
first appearance -/
def groupByFirst : List (Str × Str) → List Str
  | l =>
    let keys := l.foldl (fun ks p => if ks.contains p.1 then ks else ks ++ [p.1]) ([] : List Str)
    keys.flatMap (fun k => (l.filter (fun p => p.1 == k)).map (·.2))

/-- `class_factory` -/
def boxClass (s : Seb) (ctx : Ctx) : Prog Res := do
  let r ← boxGeneric s ctx
  let o := s.objs.head?.getD 0
  let _ ← getA o "abstract"
  let fs ← kidsP o "ownedFeatures"
  let feats ← Prog.mapP classFeature fs
  pure (mapDrawn (fun e => { e with features := some (groupByFirst (feats.filterMap id)) }) r)

/-- `component_port_factory` -/
def boxComponentPort (s : Seb) (ctx : Ctx) : Prog Res := do
  let r ← boxGeneric s ctx
  let ori ← getA (s.objs.head?.getD 0) "orientation"
  let sc := match ori with | some o => S "CP_" ++ o | none => S "CP_UNSET"
  pure (mapDrawn (fun e => { e with styleclass := some sc }) r)

/-- `get_spec_text`, as far as the trees are concerned: the text node it hands to `unescape_linked_text` -/
def specText (o : Nat) : Prog (Option Str) := do
  let sp ← kidsP o "ownedSpecification"
  let bodies ← (match sp.head? with | some x => kidsP x "bodies" | none => pure [])
  match bodies.head? with
  | some b => textP b
  | none => pure none

/-- `_box_factories.constraint_factory`: the label is the specification text if there is one (not modelled: the
result carries the raw text), else the name -/
def boxConstraint (s : Seb) (ctx : Ctx) : Prog Res := do
  let r ← boxGeneric s ctx
  let o := s.objs.head?.getD 0
  let spec ← specText o
  let nm ← objName o
  pure (mapDrawn (fun e => { e with label := match spec with | some t => if t.isEmpty then nm else t | none => nm }) r)

/-- `control_node_factory` -/
def boxControlNode (s : Seb) (ctx : Ctx) : Prog Res := do
  let kind ← getA (s.objs.head?.getD 0) "kind"
  let sc := capitalize (kind.getD (S "OR")) ++ s.styleclass.getD []
  boxGeneric { s with styleclass := some sc } ctx

/-- `enumeration_factory` -/
def boxEnumeration (s : Seb) (ctx : Ctx) : Prog Res := do
  let r ← boxGeneric s ctx
  let lits ← kidsP (s.objs.head?.getD 0) "ownedLiterals"
  let rows ← Prog.mapP (fun l => do
    let xt ← getA l "xsi:type"
    let nm ← getA l "name"
    pure (xt, nm)) lits
  let fs := rows.filterMap (fun p => if afterLast ':' (p.1.getD []) == S "EnumerationLiteral" then some (p.2.getD []) else none)
  pure (mapDrawn (fun e => { e with features := some fs }) r)

/-- the style class `part_factory` derives from the (abstract type of the) part -/
def partClass (xt : Str) (nature human actor : Option Str) : Str :=
  let c0 := afterLast ':' xt
  let c1 := if startsWith (S "Physical") c0
    then S "Physical" ++ capitalize (nature.getD (S "Node")) ++ c0.drop 8 else c0
  if endsWith (S "Component") c1 then
    c1.take (c1.length - 9) ++ (if human == some (S "true") then S "Human" else [])
      ++ (if actor == some (S "true") then S "Actor" else S "Component")
  else c1

/-- `part_factory` -/
def boxPart (s : Seb) (ctx : Ctx) : Prog Res := do
  let dty ← getA s.diag "xmi:type"
  let o := s.objs.head?.getD 0
  let at_ ← getA o "abstractType"
  let ty ← followOpt at_
  let a := match at_ with | some _ => ty | none => some o
  let xt ← (match a with | some x => getA x "xsi:type" | none => pure none)
  let nature ← (match a with | some x => getA x "nature" | none => pure none)
  let human ← (match a with | some x => getA x "human" | none => pure none)
  let actor ← (match a with | some x => getA x "actor" | none => pure none)
  let r ← boxGeneric s ctx   -- placeholder read order; re-run below with the derived class
  if dty == some (S "diagram:DNodeContainer") || dty == some (S "diagram:DNode") then
    match a, xt with
    | some _, some x => pure (mapDrawn (fun e => { e with styleclass := some (partClass x nature human actor) }) r)
    | _, _ => pure (.error (S "part_factory"))
  else pure .skip

/-- `requirements_box_factory` (the `ReqIFText` goes through `repair_html`: carried raw) -/
def boxRequirement (s : Seb) (ctx : Ctx) : Prog Res := do
  let dtag ← tagP s.diag
  let tg ← kidsP s.diag "target"
  let href ← (match tg.head? with | some t => getA t "href" | none => pure none)
  let o ← followOpt href
  let ln ← (match o with | some x => getA x "ReqIFLongName" | none => pure none)
  let nm ← (match o with | some x => getA x "ReqIFName" | none => pure none)
  let cn ← (match o with | some x => getA x "ReqIFChapterName" | none => pure none)
  let tx ← (match o with | some x => getA x "ReqIFText" | none => pure none)
  let r ← boxGeneric { s with objs := (o.toList ++ s.objs.drop 1) } ctx
  if dtag != S "ownedDiagramElements" then pure .skip
  else match href, o with
    | none, _ => pure .skip
    | some _, none => pure (.error (S "requirements_box_factory"))
    | some _, some _ =>
      let texts := ([ln, nm, cn].filterMap id).filter (fun t => !t.isEmpty)
      let fs := (texts ++ tx.toList).map (fun t => S "- " ++ t)
      match r with
      | .drawn e =>
        if e.labels.isEmpty && fs.isEmpty then pure (.error (S "Requirements text is empty"))
        else pure (.drawn { e with features := some fs })
      | x => pure x

/-- `region_factory` -/
def boxRegion (s : Seb) (ctx : Ctx) : Prog Res := do
  let dp ← parentP s.diag
  let pu ← (match dp with | some p => getA p "uid" | none => pure none)
  let sc := match pu.bind ctx.find with
    | some p => some (p.styleclass.getD [] ++ S "Region")
    | none => s.styleclass
  let r ← boxGeneric { s with styleclass := sc } ctx
  match dp, pu with
  | some _, some _ =>
    pure (mapDrawn (fun e => { e with label := if e.label.isEmpty then [] else S "[" ++ e.label ++ S "]" }) r)
  | _, _ => pure (.error (S "region_factory"))

/-- the activity of one `ownedElements` child: `(mapping name, activity name)` -/
def activity (el : Nat) : Prog (Option (Str × Str)) := do
  let tg ← kidsP el "target"
  let href ← (match tg.head? with | some t => getA t "href" | none => pure none)
  let target ← followOpt href
  let am ← kidsP el "actualMapping"
  let mh ← (match am.head? with | some m => getA m "href" | none => pure none)
  let nm ← (match target with | some x => getA x "name" | none => pure none)
  match target, mh with
  | some _, some h => pure (some (h, nm.getD []))
  | _, _ => pure none

/-- the `n` of `@subNodeMappings[name='n']` at the end of a mapping href (the regular expression of the code) -/
def mappingName (h : Str) : Option Str :=
  let key := S "@subNodeMappings[name="
  let rec go (fuel : Nat) (s : Str) (last : Option Str) : Option Str :=
    match fuel, s with
    | 0, _ => last
    | _, [] => last
    | f + 1, c :: r => go f r (if key.isPrefixOf (c :: r) then some ((c :: r).drop key.length) else last)
  match go (h.length + 1) h none with
  | some (q :: rest) =>
    if (q == '"' || q == '\'') && endsWith [q, ']'] rest then some (rest.take (rest.length - 2)) else none
  | _ => none

/-- `statemode_activities_factory` -/
def boxStateModeActivities (s : Seb) (ctx : Ctx) : Prog Res := do
  let dp ← parentP s.diag
  let pu ← (match dp with | some p => getA p "uid" | none => pure none)
  let els ← kidsP s.diag "ownedElements"
  let acts ← Prog.mapP activity els
  match dp, pu with
  | some _, some u =>
    match ctx.find u with
    | none => pure .skip
    | some _ =>
      let named := (acts.filterMap id).filterMap (fun p => (mappingName p.1).map (fun m => (m, p.2)))
      let pick (k : String) (pre : String) := (named.filter (fun p => p.1 == S k)).map (fun p => S pre ++ p.2)
      pure (.feats u (pick "MSM_Entry" " entry / " ++ pick "MSM_DoActivity" " do / " ++ pick "MSM_Exit" " exit / "))
  | _, _ => pure (.error (S "statemode_activities_factory"))

/-- `statemode_factory` -/
def boxStateMode (s : Seb) (ctx : Ctx) : Prog Res := do
  let xmt ← getA s.diag "xmi:type"
  let a ← boxStacked s ctx
  let b ← boxStateModeActivities s ctx
  if xmt == some (S "diagram:DNodeContainer") then pure a
  else if xmt == some (S "diagram:DNodeList") then pure b
  else pure .skip

/-- `fcif_factory` -/
def boxFcif (s : Seb) (ctx : Ctx) : Prog Res := do
  let inv ← getA (s.objs.head?.getD 0) "involved"
  let o ← followOpt inv
  let xt ← (match o with | some x => getA x "xsi:type" | none => pure none)
  let sc := match xt with
    | some x => if endsWith (S "Function") x then S "Function" else afterLast ':' x
    | none => []
  let r ← boxGeneric { s with objs := o.toList ++ s.objs.drop 1, styleclass := some sc } ctx
  match inv, o, xt with
  | some _, some _, some _ => pure r
  | _, _, _ => pure (.error (S "fcif_factory"))

/-- `pseudo_symbol_factory` (as repaired: the symbol flag is passed, nothing is written) -/
def boxPseudo (s : Seb) (ctx : Ctx) : Prog Res := boxGeneric s ctx true

/-! ## edge factories -/

/-- `get_end_ports`: the two ends must have been drawn (directly by uid or through the notation node) -/
def endPort (s : Seb) (ctx : Ctx) (side : String) : Prog (Option Drawn) := do
  let p ← getA s.data side
  let el ← followOpt p
  let eu ← (match el with | some x => getA x "element" | none => pure none)
  match p with
  | none => pure none
  | some port =>
    match ctx.find port with
    | some d => pure (some d)
    | none => pure (eu.bind ctx.find)

/-- multiplicity prefix of an association end (`ownedFeatures` with exactly two children) -/
def multiplicity (o : Nat) : Prog Str := do
  let tg ← tagP o
  let ks ← allKids o
  let vals ← Prog.mapP (fun k => do
    let v ← getA k "value"
    let t ← tagP k
    pure (v, t)) ks
  match tg == S "ownedFeatures", vals with
  | true, [(v1, t1), (v2, _)] =>
    if v1.getD (S "1") != S "1" || v2.getD (S "1") != S "1" then
      let lo := if t1 != S "ownedMinCard" then v2 else v1
      let hi := if t1 != S "ownedMinCard" then v1 else v2
      pure (S "[" ++ lo.getD (S "None") ++ S ".." ++ hi.getD (S "None") ++ S "] ")
    else pure []
  | _, _ => pure []

/-- `_construct_labels`: one label per (reference point, label layout, semantic element), at most three -/
def edgeLabels (s : Seb) (label : Option Str) : Prog (List Str) := do
  let kids ← kidsP s.data "children"
  let lays ← Prog.mapP (fun k => kidsP k "layoutConstraint") kids
  let nlay := (lays.map List.length).foldl (· + ·) 0
  let objs := s.objs.take (min 3 nlay)
  let names ← Prog.mapP (fun o => do
    let n ← objName o
    let m ← multiplicity o
    pure (n, m)) objs
  pure (names.zipIdx.map (fun p =>
    let base := if p.2 == 0 then label.getD p.1.1 else p.1.1
    p.1.2 ++ base))

/-- `_edge_factories.generic_factory` -/
def edgeGeneric (s : Seb) (ctx : Ctx) (label : Option Str := none) : Prog Res := do
  let src ← endPort s ctx "source"
  let tgt ← endPort s ctx "target"
  let bp ← kidsP s.data "bendpoints"
  let sty ← kidsP s.diag "ownedStyle"
  let uid ← getA s.data "element"
  let (hidden, hidelabel) ← setfilters s
  let labels ← edgeLabels s label
  match src, tgt with
  | some _, some _ =>
    if bp.isEmpty || sty.isEmpty then pure (.error (S "edge without bendpoints or style"))
    else match uid with
      | some u => pure (.drawn {
          uid := u, isBox := false, styleclass := s.styleclass, label := [], labels := labels
          features := none, symbol := false, port := false, hidden := hidden, hidelabel := hidelabel, parent := none })
      | none => pure (.error (S "edge without element"))
  | _, _ => pure .skip

def edgeLabelless (s : Seb) (ctx : Ctx) : Prog Res := do
  let r ← edgeGeneric s ctx
  pure (mapDrawn (fun e => { e with labels := [] }) r)

def insertSorted (x : Str) : List Str → List Str
  | [] => [x]
  | y :: r => if x == y then y :: r else if x.lt y then x :: y :: r else y :: insertSorted x r
where
  Str.lt (a b : Str) : Bool := decide (a < b)

def portAllocationBlacklist : List Str := [S "CP", S "CP_IN", S "CP_OUT", S "CP_INOUT", S "CP_UNSET"]

/-- `port_allocation_factory` -/
def edgePortAllocation (s : Seb) (ctx : Ctx) : Prog Res := do
  let src ← endPort s ctx "source"
  let tgt ← endPort s ctx "target"
  let cls := ([src, tgt].filterMap id).filterMap (fun d =>
    match d.styleclass with
    | some c => if !c.isEmpty && !portAllocationBlacklist.contains c then some c else none
    | none => none)
  let sorted := cls.foldl (fun acc c => insertSorted c acc) []
  let sc := if sorted.isEmpty then s.styleclass else some (joinWith (S "_") sorted ++ S "Allocation")
  match src, tgt with
  | some _, some _ => edgeGeneric { s with styleclass := sc } ctx
  | _, _ => pure .skip

/-- ids in a whitespace separated list of links, followed (`follow_links`); `none` entries are broken links -/
def followAll (v : Option Str) : Prog (List (Option Nat)) :=
  Prog.mapP (fun l => followP l) (((v.getD []).splitOn ' ').filter (fun x => !x.isEmpty))

/-- `_guard_condition`: the raw specification text of the first linked constraint -/
def guardText (o : Nat) (attr : String) : Prog (Option Str) := do
  let g ← getA o attr
  let gs ← followAll g
  match gs.head? with
  | some (some c) => specText c
  | _ => pure none

/-- `state_transition_factory` (guard text raw) -/
def edgeStateTransition (s : Seb) (ctx : Ctx) : Prog Res := do
  let r ← edgeGeneric s ctx
  let o := s.objs.head?.getD 0
  let trg ← getA o "triggers"
  let ts ← followAll trg
  let tnames ← Prog.mapP (fun t => match t with
    | some x => do let n ← getA x "name"; pure (some (n.getD (S "(unnamed trigger)")))
    | none => pure none) ts
  let guard ← guardText o "guard"
  let eff ← getA o "effect"
  let es ← followAll eff
  let enames ← Prog.mapP (fun t => match t with
    | some x => do let n ← getA x "name"; pure (some (n.getD []))
    | none => pure none) es
  let l0 := joinWith (S ", ") (tnames.filterMap id)
  let l1 := match guard with | some g => if g.isEmpty then l0 else l0 ++ S " [" ++ g ++ S "]" | none => l0
  let l2 := if es.isEmpty then l1 else l1 ++ S " / " ++ joinWith (S ", ") (enames.filterMap id)
  pure (mapDrawn (fun e => match e.labels with
    | _ :: rest => { e with labels := l2 :: rest }
    | [] => e) r)

/-- `sequence_link_factory` (guard text raw) -/
def edgeSequenceLink (s : Seb) (ctx : Ctx) : Prog Res := do
  let r ← edgeGeneric s ctx
  let guard ← guardText (s.objs.head?.getD 0) "condition"
  pure (mapDrawn (fun e => match guard, e.labels with
    | some g, _ :: rest => if g.isEmpty then e else { e with labels := g :: rest }
    | _, _ => e) r)

/-- `fcil_factory` -/
def edgeFcil (s : Seb) (ctx : Ctx) : Prog Res := do
  let inv ← getA (s.objs.head?.getD 0) "involved"
  let o ← followOpt inv
  let xt ← (match o with | some x => getA x "xsi:type" | none => pure none)
  let tgt ← endPort s ctx "target"
  let r ← edgeGeneric { s with objs := o.toList ++ s.objs.drop 1, styleclass := xt.map (afterLast ':') } ctx
  match inv, o, xt with
  | some _, some _, some _ =>
    pure (mapDrawn (fun e => { e with
      labels := e.labels.take 1
      styleclass := if (tgt.bind (·.styleclass)) == some (S "OperationalActivity") then some (S "OperationalExchange") else e.styleclass }) r)
  | _, _, _ => pure (.error (S "fcil_factory"))

def edgeEie (s : Seb) (ctx : Ctx) : Prog Res := do
  let r ← edgeGeneric s ctx
  pure (mapDrawn (fun e => { e with labels := e.labels.take 1 }) r)

def edgeFex (s : Seb) (ctx : Ctx) : Prog Res := do
  let r ← edgeGeneric s ctx
  let tgt ← endPort s ctx "target"
  pure (mapDrawn (fun e => { e with
    styleclass := if (tgt.bind (·.styleclass)) == some (S "OperationalActivity") then some (S "OperationalExchange") else e.styleclass }) r)

/-- `req_relation_factory` (as repaired: the label is passed to the generic factory, nothing is written) -/
def edgeReqRel (s : Seb) (ctx : Ctx) : Prog Res := do
  let o := s.objs.head?.getD 0
  let nm ← objName o
  let rt ← getA o "relationType"
  let t ← followOpt rt
  let ln ← (match t with | some x => getA x "ReqIFLongName" | none => pure none)
  let label := if !nm.isEmpty then nm else ln.getD []
  edgeGeneric s ctx (some label)

/-- `include_extend_factory` (as repaired) -/
def edgeIncExt (s : Seb) (ctx : Ctx) : Prog Res := do
  let nm ← getA (s.objs.head?.getD 0) "name"
  let dn ← getA s.diag "name"
  edgeGeneric s ctx (some (match nm with | some n => n | none => dn.getD []))

/-- `association_factory`: the last member with a non-default aggregation kind decides -/
def edgeAssociation (s : Seb) (ctx : Ctx) : Prog Res := do
  let r ← edgeGeneric s ctx
  let ms ← kidsP (s.objs.head?.getD 0) "ownedMembers"
  let kinds ← Prog.mapP (fun m => do let k ← getA m "aggregationKind"; pure (capitalize (k.getD (S "ASSOCIATION")))) ms
  let sc := (kinds.filter (· != S "Association")).getLast?
  pure (mapDrawn (fun e => match sc with | some k => { e with styleclass := some k } | none => e) r)

/-! ## visual elements -/

/-- first ancestor `children` node (starting at the parent) that was drawn; `none` = no parent -/
def shapeParent (ctx : Ctx) : Nat → Nat → Prog (Option Str)
  | 0, _ => pure none
  | fuel + 1, n => do
    let p ← parentP n
    match p with
    | none => pure none
    | some q => do
      let tg ← tagP q
      let e ← getA q "element"
      let x ← getA q "xmi:id"
      let rest ← shapeParent ctx fuel q
      if tg != S "children" then pure none
      else
        let pu := match e with | some v => v | none => x.getD []
        match ctx.find pu with
        | some d => pure (some d.uid)
        | none => pure rest

/-- `_visual.shape_factory` -/
def visShape (data : Nat) (ctx : Ctx) : Prog Res := do
  let uid ← getA data "xmi:id"
  let el ← getA data "element"
  let o ← followOpt el
  let nm ← (match o with | some x => getA x "name" | none => pure none)
  let desc ← getA data "description"
  let parent ← shapeParent ctx 64 data
  let lay ← kidsP data "layoutConstraint"
  match uid with
  | none => pure (.error (S "shape without xmi:id"))
  | some u =>
    let label? : Option Str := match el with
      | some _ => (match o with | some _ => nm | none => none)
      | none => some (desc.getD [])
    match label? with
    | none => pure (.error (S "shape_factory"))
    | some label =>
      if lay.isEmpty then pure (.error (S "No layoutConstraint found"))
      else pure (.drawn {
        uid := u, isBox := true, styleclass := some (if el.isSome then S "RepresentationLink" else S "Note")
        label := label, labels := [], features := none, symbol := false, port := false
        hidden := false, hidelabel := false, parent := parent })

/-- `_visual.connector_factory` -/
def visConnector (data : Nat) (dtree : Nat) (ctx : Ctx) : Prog Res := do
  let s : Seb := { data := data, diag := data, dtree := dtree, objs := [], styleclass := none }
  let src ← endPort s ctx "source"
  let tgt ← endPort s ctx "target"
  let bp ← kidsP data "bendpoints"
  let uid ← getA data "xmi:id"
  match src, tgt with
  | some _, some _ =>
    match bp.isEmpty, uid with
    | false, some u => pure (.drawn {
        uid := u, isBox := false, styleclass := some (S "Connector"), label := [], labels := []
        features := none, symbol := false, port := false, hidden := false, hidelabel := false, parent := none })
    | _, _ => pure (.error (S "connector_factory"))
  | _, _ => pure .skip

/-! ## dispatch -/

/-- a factory the parser does not know is modelled by the worst case: it writes -/
def unknownFactory (s : Seb) : Prog Res := do
  setA s.diag "written-by-unknown-factory" []
  pure (.error (S "unknown factory"))

/-- the program behind a `Factory` of the dispatch tables (semantic and visual ones; filters see below) -/
def factoryProg (f : Factory) (s : Seb) (ctx : Ctx) : Prog Res :=
  match f with
  | .boxGeneric => boxGeneric s ctx
  | .boxStacked => boxStacked s ctx
  | .boxClass => boxClass s ctx
  | .boxComponentPort => boxComponentPort s ctx
  | .boxConstraint => boxConstraint s ctx
  | .boxControlNode => boxControlNode s ctx
  | .boxEnumeration => boxEnumeration s ctx
  | .boxPart => boxPart s ctx
  | .boxRequirement => boxRequirement s ctx
  | .boxRegion => boxRegion s ctx
  | .boxStateMode => boxStateMode s ctx
  | .boxFcif => boxFcif s ctx
  | .boxPseudo => boxPseudo s ctx
  | .edgeGeneric => edgeGeneric s ctx
  | .edgeLabelless => edgeLabelless s ctx
  | .edgePortAllocation => edgePortAllocation s ctx
  | .edgeStateTransition => edgeStateTransition s ctx
  | .edgeSequenceLink => edgeSequenceLink s ctx
  | .edgeConstraint => edgeLabelless s ctx
  | .edgeFcil => edgeFcil s ctx
  | .edgeEie => edgeEie s ctx
  | .edgeFex => edgeFex s ctx
  | .edgeReqRel => edgeReqRel s ctx
  | .edgeIncExt => edgeIncExt s ctx
  | .edgeAssociation => edgeAssociation s ctx
  | .skip => pure .skip
  | .visConnector => visConnector s.data s.dtree ctx
  | .visShape => visShape s.data ctx
  -- filters are not element factories: run as one they draw nothing
  | .fltHideEmptyPorts | .gHideAssociationLabels | .gHideRoleNames | .gShowNameAndEiFex | .gShowEiFex
  | .gShowEiCex | .gShowEiCexNoFex | .gHideAllEmptyPorts | .gHideAllocFex => pure .skip
  | .other _ => unknownFactory s

/-- the rows of a dispatch table for a key (`STYLECLASS_LOOKUP[key]`, `VISUAL_TYPES[key]`) -/
def rowsFor (tbl : List DispatchRow) (k : TableKind) (key : Str) : List DispatchRow :=
  tbl.filter (fun r => r.table == k && r.key == key)

/-- `FactorySelector.__call__` / a plain factory: pick by the tag of the data element -/
def selectRow (rows : List DispatchRow) (dataTag : Str) : Option DispatchRow :=
  match rows.find? (fun r => r.role == .any) with
  | some r => some r
  | none =>
    if dataTag == S "children" then rows.find? (fun r => r.role == .box)
    else if dataTag == S "edges" then rows.find? (fun r => r.role == .edge)
    else none

/-- `STYLECLASS_LOOKUP[styleclass]`, with the generic factories and the unchanged class for unknown keys -/
def pickRows (tbl : List DispatchRow) (sc0 : Str) : Option Str × List DispatchRow :=
  let rows := rowsFor tbl .semantic sc0
  if rows.isEmpty then (some sc0, rowsFor tbl .semantic (S "<fallback>"))
  else ((rows.head?.bind (·.styleclass)), rows)

def NO_RENDER_XMT : List Str := [S "diagram:DNodeListElement"]

/-- `melodyobjs` as `from_xml` collects them: a dangling `semanticElements` link repeats the previous object
(the variable keeps its value), and is an `UnboundLocalError` if it is the first -/
def collectObjs : List (Option Nat) → Option Nat → Option (List Nat)
  | [], _ => some []
  | some x :: r, _ => (collectObjs r (some x)).map (x :: ·)
  | none :: r, some p => (collectObjs r (some p)).map (p :: ·)
  | none :: _, none => none

/-- `_semantic.from_xml` -/
def semanticFromXml (tbl : List DispatchRow) (data dtree : Nat) (ctx : Ctx) : Prog Res := do
  let uid ← getA data "element"
  let de ← followOpt uid
  let d := de.getD 0
  let xmt ← getA d "xmi:type"
  let tg ← kidsP d "target"
  let t := tg.head?.getD 0
  let thref ← getA t "href"
  let ttype ← getA t "xmi:type"
  let sems ← kidsP d "semanticElements"
  let hrefs ← Prog.mapP (fun e => getA e "href") sems
  let semObjs ← Prog.mapP followOpt hrefs
  let tobj ← followOpt thref
  let dataTag ← tagP data
  match uid, de with
  | none, _ => pure .skip
  | some _, none => pure (.error (S "diagram element not found"))
  | some _, some _ =>
    if (match xmt with | some x => NO_RENDER_XMT.contains x | none => false) then pure .skip
    else if tg.isEmpty then pure .skip
    else match thref, ttype with
      | some _, some tt =>
        match splitSecond tt with
        | none => pure (.error (S "Invalid target type"))
        | some sc0 =>
          let sc := (pickRows tbl sc0).1
          let rows' := (pickRows tbl sc0).2
          if hrefs.any Option.isNone then pure (.error (S "semanticElements without href"))
          else
            let objs? : Option (List Nat) :=
              if sems.isEmpty then tobj.map (fun x => [x]) else collectObjs semObjs none
            match objs? with
            | none => pure (.error (S "semantic element not found"))
            | some objs =>
              match selectRow rows' dataTag with
              | none => pure (.error (S "Unknown element type"))
              | some row =>
                factoryProg (Factory.ofName row.name) { data := data, diag := d, dtree := dtree, objs := objs, styleclass := sc } ctx
      | _, _ => pure .skip

/-- `_visual.from_xml` -/
def visualFromXml (tbl : List DispatchRow) (data dtree : Nat) (ctx : Ctx) : Prog Res := do
  let ty ← getA data "xmi:type"
  match ty with
  | none => pure (.error (S "visual element without type"))
  | some t =>
    match (rowsFor tbl .visual (afterLast ':' t)).head? with
    | none => pure .skip
    | some row =>
      factoryProg (Factory.ofName row.name) { data := data, diag := data, dtree := dtree, objs := [], styleclass := none } ctx

/-- `_element_from_xml` -/
def elementFromXml (tbl : List DispatchRow) (data dtree : Nat) (ctx : Ctx) : Prog Res := do
  let el ← getA data "element"
  let o ← followOpt el
  let tg ← (match o with | some x => tagP x | none => pure [])
  let sem ← semanticFromXml tbl data dtree ctx
  let vis ← visualFromXml tbl data dtree ctx
  match el, o with
  | some _, none => pure (.error (S "element not found"))
  | some _, some _ => if tg != S "ownedRepresentationDescriptors" then pure sem else pure vis
  | none, _ => pure vis

/-- what one element contributes to the diagram under construction -/
def Ctx.add (c : Ctx) : Res → Ctx
  | .drawn e => c ++ [{ uid := e.uid, isBox := e.isBox, styleclass := e.styleclass }]
  | _ => c

/-- the element loop of `parse_diagram`: the data elements in document order, each seeing what was drawn before;
stops at the first error (the exception leaves the loop) -/
def parseElems (tbl : List DispatchRow) (dtree : Nat) : List Nat → Ctx → Prog (List Res)
  | [], _ => pure []
  | d :: r, ctx => do
    let x ← elementFromXml tbl d dtree ctx
    match x with
    | .error _ => pure [x]
    | _ => do
      let rest ← parseElems tbl dtree r (ctx.add x)
      pure (x :: rest)

/-! ## the three factories as they were coded before the repair (they write) -/

namespace Coded

/-- `req_relation_factory` with `finally: melodyobjs[0].attrib["name"] = label` -/
def edgeReqRel (s : Seb) (ctx : Ctx) : Prog Res := do
  let o := s.objs.head?.getD 0
  let nm ← objName o
  let rt ← getA o "relationType"
  let t ← followOpt rt
  let ln ← (match t with | some x => getA x "ReqIFLongName" | none => pure none)
  let label := if !nm.isEmpty then nm else ln.getD []
  if nm.isEmpty then setA o "name" label else pure ()
  edgeGeneric s ctx

/-- `include_extend_factory` writing the diagram-side name into the semantic element -/
def edgeIncExt (s : Seb) (ctx : Ctx) : Prog Res := do
  let o := s.objs.head?.getD 0
  let nm ← getA o "name"
  let dn ← getA s.diag "name"
  if nm.isNone then setA o "name" (dn.getD []) else pure ()
  edgeGeneric s ctx

/-- `pseudo_symbol_factory` writing `workspacePath=""` into the style -/
def boxPseudo (s : Seb) (ctx : Ctx) : Prog Res := do
  let sty ← kidsP s.diag "ownedStyle"
  match sty.head? with
  | some o => do
    setA o "workspacePath" []
    boxGeneric s ctx
  | none => boxGeneric s ctx

end Coded

end Capella.Factories
