/-
Model of the parts of py-capellambse's SVG generation that decide *which ids a document references
and defines, which groups it contains and what its view box is*:

* `getStyle`            — `capellambse.diagram.capstyle.get_style` (four-layer merge over `STYLES`)
* `Styling`, `styleRefs`— `capellambse.svg.style.Styling.__getattribute__/_to_css/_to_dict/_generate_id`
* `deployIds`           — `capellambse.svg.drawing.Drawing._deploy_defs` (after the repair: the marker
                          named by a style override is the one deployed; `deployIdsDefaultOnly` is the
                          composition before the repair)
* `symbolDefs`          — `Drawing._add_decofactory` + `diagram._icons.get_svg_symbol` (dependency
                          closure, `Error` fallback deployed under the requested id — after the repair;
                          `symbolDefsErrorId` is the composition before it)
* `drawObject`          — `Drawing.draw_object` + `_draw_box/_draw_edge/_draw_circle/_draw_symbol/
                          _draw_box_symbol/_add_port/_add_rect/_draw_label/_add_label_image` reduced to:
                          the one group added (id, class string), the ids referenced, the ids deployed
* `encodeDiagram`       — `DiagramJSONEncoder.__encode_diagram` (`hidden` filter, `_intround`)
* `viewBox`             — `svg.generate.DiagramMetadata` (−10/−10/+20/+20)

The live tables (`STYLES`, `marker_factories`, `_FACTORIES`, the `decorations` sets) are generated
into `Capella/Gen/Styles*.lean`. Geometry of labels (PIL font metrics) is not modelled here; text
wrapping is in `Capella/Model/Wrap.lean`. Core Lean only.
-/

namespace Capella.Svg

abbrev Str := List Char

/-- a style value as it appears in `STYLES` / in the JSON `style` dict -/
inductive Val
  | color (hex : Str)          -- `RGB` (table) resp. "#RRGGBB[AA]" (JSON); `hex` = `RGB.tohex()`
  | str (s : Str)
  | num (repr : Str)
  | none
  | grad (hexes : List Str)    -- a sequence of colours: linear gradient
  | other (repr : Str)         -- anything the translator does not know (reported, never dropped)
deriving DecidableEq, Repr

structure StyleEntry where
  dc : Str
  oc : Str
  props : List (Str × Val)
deriving Repr

structure MarkerRow where
  name : Str
  deps : List Str
  idFaithful : Bool            -- `factory(id)` returns an element whose id is `id`
  refs : List Str              -- references inside the produced element
deriving Repr

structure SymbolRow where
  name : Str                   -- key in `_FACTORIES`, e.g. `ErrorSymbol`
  producedId : Option Str      -- id of the element the factory returns
  deps : List Str              -- dependency style classes (without the `Symbol` suffix)
  ids : List Str               -- every id defined inside the produced fragment
  refs : List Str              -- every id referenced inside it
deriving Repr

structure Tables where
  styles : List StyleEntry
  markers : List MarkerRow
  symbols : List SymbolRow
  allPorts : List Str
  functionPorts : List Str
  componentPorts : List Str
  allDirectedPorts : List Str
  onlyIcons : List Str
  needsFeatureLine : List Str
  alwaysTopLabel : List Str
deriving Repr

inductive Err
  | malformedClass     -- ValueError("Malformed objectclass")
  | unknownMarker      -- KeyError in `marker_factories[marker]`
  | badColor           -- `RGB.fromcss` on None / on a string that is no colour
  | unsupported        -- outside the modelled input space (e.g. marker value that is not a string)
  | invalidType        -- ValueError("Invalid object type")
  | invalidAttribute   -- svgwrite: ValueError("Invalid attribute 'rx' for svg-element <use>")
  | diverges           -- cyclic symbol dependencies
deriving DecidableEq, Repr

instance decEqExcept {ε α : Type} [DecidableEq ε] [DecidableEq α] : DecidableEq (Except ε α) := fun a b =>
  match a, b with
  | .ok x, .ok y => if h : x = y then isTrue (by rw [h]) else isFalse (by intro h'; cases h'; exact h rfl)
  | .error x, .error y => if h : x = y then isTrue (by rw [h]) else isFalse (by intro h'; cases h'; exact h rfl)
  | .ok _, .error _ => isFalse (by intro h; cases h)
  | .error _, .ok _ => isFalse (by intro h; cases h)

/-! ### `get_style` -/

def globalName : Str := "__GLOBAL__".toList

def lookupEntry (styles : List StyleEntry) (dc oc : Str) : List (Str × Val) :=
  match styles.find? (fun e => e.dc = dc ∧ e.oc = oc) with
  | some e => e.props
  | none => []

/-- dict update `{**a, **b}`: existing keys keep their position and take the new value -/
def upsert (a : List (Str × Val)) (k : Str) (v : Val) : List (Str × Val) :=
  if a.any (fun p => p.1 = k) then a.map (fun p => if p.1 = k then (k, v) else p) else a ++ [(k, v)]

def merge (a b : List (Str × Val)) : List (Str × Val) := b.foldl (fun acc p => upsert acc p.1 p.2) a

def lowerChar (c : Char) : Char := if 'A' ≤ c ∧ c ≤ 'Z' then Char.ofNat (c.toNat + 32) else c

def isInfixOfB (p s : Str) : Bool :=
  match s with
  | [] => p.isEmpty
  | _ :: t => p.isPrefixOf s || isInfixOfB p t

def getStyle (styles : List StyleEntry) (dc : Option Str) (oc : Str) : Except Err (List (Str × Val)) :=
  if ¬ oc.contains '.' then .error .malformedClass
  else if isInfixOfB "symbol".toList (oc.map lowerChar) then .ok []
  else
    let ty := oc.takeWhile (· ≠ '.')
    let d := dc.getD []
    .ok (merge (merge (merge (lookupEntry styles globalName ty) (lookupEntry styles d ty))
      (lookupEntry styles globalName oc)) (lookupEntry styles d oc))

def lookup (a : List (Str × Val)) (k : Str) : Option Val := (a.find? (fun p => p.1 = k)).map (·.2)

/-! ### `Styling` -/

structure Styling where
  dc : Option Str
  cls : Str                 -- `Type.StyleClass`
  pfx : Str                 -- "" or "text"
  attrs : List (Str × Val)  -- instance attributes (names with `-`)
deriving Repr

def markerStart : Str := "marker-start".toList
def markerEnd : Str := "marker-end".toList
def strokeKey : Str := "stroke".toList
def fillKey : Str := "fill".toList

def Styling.styleName (s : Styling) (attr : Str) : Str :=
  if s.pfx = [] then attr else s.pfx ++ '_' :: attr

def hexDigit (c : Char) : Bool := ('0' ≤ c ∧ c ≤ '9') || ('a' ≤ c ∧ c ≤ 'f') || ('A' ≤ c ∧ c ≤ 'F')
def upperChar (c : Char) : Char := if 'a' ≤ c ∧ c ≤ 'z' then Char.ofNat (c.toNat - 32) else c

/-- `RGB.fromcss(v).tohex()` for the value forms the model supports (`#RGB`, `#RRGGBB`,
`#RRGGBBAA` with AA = FF dropped is not modelled: 8 digits are kept as they are) -/
def hexOf : Val → Except Err Str
  | .color h => .ok h
  | .str s =>
    match s with
    | '#' :: h =>
      if h.all hexDigit then
        if h.length = 6 ∨ h.length = 8 then .ok (h.map upperChar)
        else if h.length = 3 then .ok ((h.flatMap fun c => [c, c]).map upperChar)
        else .error .badColor
      else .error .badColor
    | _ => .error .unsupported
  | .none => .error .badColor
  | _ => .error .unsupported

def joinId (name : Str) (hexes : List Str) : Str := hexes.foldl (fun acc h => acc ++ '_' :: h) name

def gradName : Str := "CustomGradient".toList

/-- `Styling._generate_id("CustomGradient", value)` -/
def gradId (hexes : List Str) : Str := joinId gradName hexes

/-- the stroke the *reference* is built with: `self.stroke`, else the default, else "#000" -/
def refStroke (defaults : List (Str × Val)) (s : Styling) : Val :=
  match lookup s.attrs strokeKey with
  | some v => v
  | none =>
    match lookup defaults (s.styleName strokeKey) with
    | some .none | none => .str "#000".toList
    | some v => v

/-- the stroke `_deploy_defs` builds the marker with: `getattr(styling,"stroke",None) or default` -/
def deployStroke (defaults : List (Str × Val)) (s : Styling) : Val :=
  match lookup s.attrs strokeKey with
  | some .none | none => (lookup defaults (s.styleName strokeKey)).getD .none
  | some v => v

def isMarkerKey (k : Str) : Bool := k = markerStart || k = markerEnd

/-- gradient ids of the non-marker attributes -/
def gradRefs (attrs : List (Str × Val)) : List Str :=
  attrs.filterMap fun (k, v) =>
    if isMarkerKey k then none else match v with | .grad hs => some (gradId hs) | _ => none

/-- the reference generated for one marker attribute (`Styling.__getattribute__`) -/
def refStep (defaults : List (Str × Val)) (s : Styling) (acc : List Str) (attr : Str) : Except Err (List Str) :=
  match lookup s.attrs attr with
  | none => pure acc
  | some (.str m) => do
    let h ← hexOf (refStroke defaults s)
    pure (acc ++ [joinId m [h]])
  | some _ => .error .unsupported

/-- ids referenced by `styling._to_dict()`: gradients, and for `marker-start` / `marker-end`
`url("#{value}_{hex of the stroke}")`. (`_to_dict` is a dict keyed by attribute name: one value per
attribute, found here with `lookup`.) -/
def styleRefs (styles : List StyleEntry) (s : Styling) : Except Err (List Str) := do
  let defaults ← getStyle styles s.dc s.cls
  let acc ← refStep defaults s (gradRefs s.attrs) markerStart
  refStep defaults s acc markerEnd

def hasMarker (markers : List MarkerRow) (m : Str) : Bool := markers.any (fun r => r.name = m)

/-- the marker `_deploy_defs` deploys for `attr`. `fromOverride = true` is the repaired code (the
raw instance attribute wins over the default), `false` the code before the repair
(`getattr(super(), attr, None)` is always `None`, so only the default is seen). -/
def deployMarkerName (fromOverride : Bool) (defaults : List (Str × Val)) (s : Styling) (attr : Str) : Option Val :=
  let dflt := lookup defaults (s.styleName attr)
  if fromOverride then
    match lookup s.attrs attr with
    | some .none | none => dflt
    | some v => some v
  else dflt

/-- the `for marker in markers` body of `_deploy_defs` for one attribute -/
def deployStep (fromOverride : Bool) (defaults : List (Str × Val)) (markers : List MarkerRow) (s : Styling)
    (acc : List Str) (attr : Str) : Except Err (List Str) :=
  match deployMarkerName fromOverride defaults s attr with
  | none | some .none => pure acc
  | some (.str m) => do
    let h ← hexOf (deployStroke defaults s)
    if hasMarker markers m then pure (acc ++ [joinId m [h]]) else .error .unknownMarker
  | some _ => .error .unsupported

/-- ids `_deploy_defs(styling)` makes sure are defined -/
def deployIdsWith (fromOverride : Bool) (styles : List StyleEntry) (markers : List MarkerRow) (s : Styling) :
    Except Err (List Str) := do
  let defaults ← getStyle styles s.dc s.cls
  let acc ← deployStep fromOverride defaults markers s (gradRefs s.attrs) markerStart
  deployStep fromOverride defaults markers s acc markerEnd

def deployIds := deployIdsWith true
def deployIdsDefaultOnly := deployIdsWith false

/-- run `f` on every element, concatenating the results (first error wins) -/
def collectM {α : Type} (f : α → Except Err (List Str)) : List α → Except Err (List Str)
  | [] => .ok []
  | a :: as => do
    let x ← f a
    let xs ← collectM f as
    pure (x ++ xs)

/-! ### symbols -/

def symbolSuffix : Str := "Symbol".toList
def errorName : Str := "Error".toList
def portName : Str := "Port".toList
def componentPortName : Str := "ComponentPort".toList

def findSymbol (symbols : List SymbolRow) (cls : Str) : Option SymbolRow :=
  symbols.find? (fun r => r.name = cls ++ symbolSuffix)

/-- `diagram.has_icon` -/
def hasSymbol (symbols : List SymbolRow) (cls : Str) : Bool := (findSymbol symbols cls).isSome

/-- ids that `_add_decofactory(cls)` adds to `<defs>`: the fragment of the factory (or of the
`Error` factory) and, recursively, of its dependencies. `renameFallback = true` is the repaired
code: the fallback fragment is deployed under the requested id `{cls}Symbol`. -/
def symbolDefsWith (renameFallback : Bool) (symbols : List SymbolRow) : Nat → Str → Except Err (List Str)
  | 0, _ => .error .diverges
  | fuel + 1, cls =>
    match findSymbol symbols cls with
    | some r => do
      let deps ← collectM (symbolDefsWith renameFallback symbols fuel) r.deps
      pure (r.ids ++ deps)
    | none =>
      match findSymbol symbols errorName with
      | some e =>
        if renameFallback then
          .ok ((cls ++ symbolSuffix) :: e.ids.filter (fun i => some i ≠ e.producedId))
        else .ok e.ids
      | none => .error .unsupported

/-- ids referenced from inside the fragments `_add_decofactory(cls)` deploys -/
def symbolInnerRefs (symbols : List SymbolRow) : Nat → Str → List Str
  | 0, _ => []
  | fuel + 1, cls =>
    match findSymbol symbols cls with
    | some r => r.refs ++ r.deps.flatMap (symbolInnerRefs symbols fuel)
    | none => match findSymbol symbols errorName with
      | some e => e.refs
      | none => []

def symbolDefs (symbols : List SymbolRow) := symbolDefsWith true symbols (symbols.length + 1)
def symbolDefsErrorId (symbols : List SymbolRow) := symbolDefsWith false symbols (symbols.length + 1)

/-! ### objects and `draw_object` -/

inductive Kind | box | edge | circle | symbol | boxSymbol
deriving DecidableEq, Repr

/-- one entry of the JSON `contents` list, reduced to what decides ids, groups and references -/
structure Obj where
  kind : Kind
  id : Str
  cls : Str
  context : List Str
  hasLabel : Bool          -- `label` is a non-empty string
  nFloating : Nat          -- number of floating labels
  nEdgeLabels : Nat        -- number of (visible) edge labels
  nFeatures : Nat
  hasChildren : Bool
  hasDescription : Bool
  style : List (Str × Val) -- the `style` dict (overrides)
deriving Repr

structure Group where
  id : Str
  cls : Str               -- the `class` attribute of the `<g>`
deriving DecidableEq, Repr

/-- what drawing one object contributes -/
structure Drawn where
  group : Group
  refs : List Str         -- ids referenced from inside the group
  defs : List Str         -- ids `draw_object` makes sure are defined in `<defs>`
deriving DecidableEq, Repr

def styleType : Kind → Str
  | .box | .symbol | .boxSymbol => "Box".toList
  | .edge | .circle => "Edge".toList

def groupKind : Kind → Str
  | .box | .symbol | .boxSymbol => "Box".toList
  | .edge => "Edge".toList
  | .circle => "Circle".toList

def groupClass (k : Kind) (cls : Str) (ctx : List Str) : Str :=
  groupKind k ++ ' ' :: cls ++ ctx.flatMap (fun c => " context-".toList ++ c)

def hasUnderscore (k : Str) : Bool := k.contains '_'
def textPfx : Str := "text_".toList

/-- `Styling.__setattr__`: `_` → `-` in names not starting with `_` -/
def attrName (k : Str) : Str := if k.head? = some '_' then k else k.map (fun c => if c = '_' then '-' else c)

def featureSuffix : Str := "Feature".toList

/-- style classes whose symbol is `use`d by the label / icon / port / symbol code of one object -/
def symbolUses (T : Tables) (o : Obj) : List Str :=
  let labelsBox : Bool := o.hasLabel || o.nFloating > 0
  let boxPart (withFloating : Bool) : List Str :=
    let labels := if withFloating then labelsBox else o.hasLabel
    (if labels then (if hasSymbol T.symbols o.cls then [o.cls] else [])
     else if T.onlyIcons.contains o.cls then [o.cls] else [])
    ++ (if withFloating ∧ o.nFeatures > 0 ∧ hasSymbol T.symbols (o.cls ++ featureSuffix)
        then [o.cls ++ featureSuffix] else [])
  match o.kind with
  | .box => boxPart true
  | .boxSymbol => boxPart false
  | .edge => if o.nEdgeLabels > 0 ∧ hasSymbol T.symbols o.cls then [o.cls] else []
  | .circle => []
  | .symbol =>
    if T.allPorts.contains o.cls then
      if T.allDirectedPorts.contains o.cls then
        [if T.functionPorts.contains o.cls then portName
         else if T.componentPorts.contains o.cls then componentPortName else errorName]
      else []
    else [o.cls]

/-- whether any `<text>` element (carrying the text style) is produced -/
def drawsText (_T : Tables) (o : Obj) : Bool :=
  match o.kind with
  | .box => o.hasLabel || o.nFloating > 0 || o.nFeatures > 0
  | .boxSymbol => o.hasLabel || o.nFloating > 0
  | .edge => o.nEdgeLabels > 0
  | .circle => false
  | .symbol => o.nFloating > 0

/-- what `draw_object` prepares before drawing: the two `Styling` objects, the symbols used -/
structure Prep where
  objStyle : Styling
  textStyle : Styling
  uses : List Str
  text : Bool
deriving Repr

def prepare (T : Tables) (dc : Option Str) (o : Obj) (defaults : List (Str × Val)) : Prep :=
  let cls := styleType o.kind ++ '.' :: o.cls
  let my := merge defaults o.style
  let objAttrs0 := (my.filter fun p => !hasUnderscore p.1).map fun p => (attrName p.1, p.2)
  let textAttrs := (my.filter fun p => textPfx.isPrefixOf p.1).map fun p => (attrName (p.1.drop 5), p.2)
  -- `_draw_circle`: `obj_style.fill = obj_style.stroke or RGB(0,0,0); del obj_style.stroke`
  let objAttrs :=
    match o.kind with
    | .circle =>
      let stroke := match lookup objAttrs0 strokeKey with
        | some .none | none => Val.color "000000".toList
        | some v => v
      upsert (objAttrs0.filter fun p => p.1 ≠ strokeKey) fillKey stroke
    | _ => objAttrs0
  { objStyle := { dc := dc, cls := cls, pfx := [], attrs := objAttrs },
    textStyle := { dc := dc, cls := cls, pfx := "text".toList, attrs := textAttrs },
    uses := symbolUses T o, text := drawsText T o }

/-- references of the `<text>` elements, if any is produced -/
def textRefsOf (T : Tables) (p : Prep) : Except Err (List Str) :=
  if p.text then styleRefs T.styles p.textStyle else .ok []

/-- drawing (references) and `_deploy_defs` / `_add_decofactory` (definitions) -/
def assemble (fixed : Bool) (T : Tables) (o : Obj) (p : Prep) : Except Err Drawn := do
  let shapeRefs ← styleRefs T.styles p.objStyle
  let textRefs ← textRefsOf T p
  let symIds ← collectM ((if fixed then symbolDefs else symbolDefsErrorId) T.symbols) p.uses
  let d1 ← deployIdsWith fixed T.styles T.markers p.objStyle
  let d2 ← deployIdsWith fixed T.styles T.markers p.textStyle
  pure { group := { id := o.id, cls := groupClass o.kind o.cls o.context },
         refs := shapeRefs ++ textRefs ++ p.uses.map (· ++ symbolSuffix)
                 ++ p.uses.flatMap (symbolInnerRefs T.symbols (T.symbols.length + 1)),
         defs := symIds ++ d1 ++ d2 }

def rxKey : Str := "rx".toList
def ryKey : Str := "ry".toList

/-- `_draw_symbol` / `_add_port` hand the whole object style to a `<use>` element; svgwrite rejects
the rectangle-only attributes `rx` / `ry` there (the one piece of svgwrite's validation that the
style tables can trigger) -/
def useRejects (T : Tables) (o : Obj) (p : Prep) : Bool :=
  o.kind = .symbol && (!T.allPorts.contains o.cls || T.allDirectedPorts.contains o.cls) &&
  p.objStyle.attrs.any (fun a => a.1 = rxKey || a.1 = ryKey)

/-- a bare element of the given kind and style class (no label, no override, …) -/
def plainObj (k : Kind) (cls : Str) : Obj :=
  { kind := k, id := [], cls := cls, context := [], hasLabel := false, nFloating := 0, nEdgeLabels := 0,
    nFeatures := 0, hasChildren := false, hasDescription := false, style := [] }

/-- `Drawing.draw_object` -/
def drawObjectWith (fixed : Bool) (T : Tables) (dc : Option Str) (o : Obj) : Except Err Drawn := do
  let defaults ← getStyle T.styles dc (styleType o.kind ++ '.' :: o.cls)
  let p := prepare T dc o defaults
  if useRejects T o p then .error .invalidAttribute else assemble fixed T o p

def drawObject := drawObjectWith true

/-! ### the JSON encoder and the document -/

/-- `_intround(val) = int(val + 0.5)` (`int` truncates towards zero) -/
def intround (q : Rat) : Int :=
  let r := q + 1 / 2
  if r ≥ 0 then r.floor else r.ceil

structure Elem where
  hidden : Bool
  obj : Obj
deriving Repr

structure Viewport where
  x : Rat
  y : Rat
  w : Rat
  h : Rat

structure Diagram where
  cls : Option Str
  viewport : Option Viewport
  elems : List Elem

/-- `DiagramJSONEncoder.__encode_diagram`: x, y, width, height, contents -/
def encodeDiagram (d : Diagram) : (Int × Int × Int × Int) × List Obj :=
  ((match d.viewport with
    | some v => (intround v.x, intround v.y, intround v.w, intround v.h)
    | none => (0, 0, 0, 0)),
   (d.elems.filter (fun e => !e.hidden)).map (·.obj))

/-- `DiagramMetadata.__init__`: `pos - 10`, `size + 20` -/
def viewBox (b : Int × Int × Int × Int) : Int × Int × Int × Int :=
  (b.1 - 10, b.2.1 - 10, b.2.2.1 + 20, b.2.2.2 + 20)

structure Doc where
  viewBox : Int × Int × Int × Int
  groups : List Group
  refs : List Str
  defs : List Str
deriving Repr

/-- `for obj in objects: self.draw_object(obj)` -/
def drawAll (f : Obj → Except Err Drawn) : List Obj → Except Err (List Drawn)
  | [] => .ok []
  | o :: os => do
    let d ← f o
    let ds ← drawAll f os
    pure (d :: ds)

/-- `convert_svgdiagram` + `SVGDiagram.__init__`: encode, then draw every object in order -/
def renderWith (fixed : Bool) (T : Tables) (d : Diagram) : Except Err Doc := do
  let (box, objs) := encodeDiagram d
  let drawn ← drawAll (drawObjectWith fixed T d.cls) objs
  pure { viewBox := viewBox box,
         groups := drawn.map (·.group),
         refs := drawn.flatMap (·.refs),
         defs := drawn.flatMap (·.defs) }

def render := renderWith true

/-! ### well-formedness of the generated tables (checked by the kernel, chunk by chunk) -/

def stripTextPfx (k : Str) : Str := if textPfx.isPrefixOf k then k.drop 5 else k

def paintOK : Val → Bool
  | .color h => h.all hexDigit && (h.length = 6 || h.length = 8)
  | .none => true
  | .grad hs => hs.all fun h => h.all hexDigit && (h.length = 6 || h.length = 8)
  | .str s => s = "none".toList || s = "currentColor".toList || s = "inherit".toList
  | _ => false

/-- a `STYLES` entry: markers name existing factories, paints are values svgwrite accepts,
nothing the translator could not classify -/
def entryWF (markers : List MarkerRow) (e : StyleEntry) : Bool :=
  e.props.all fun (k, v) =>
    let b := stripTextPfx k
    (match v with | .other _ => false | _ => true) &&
    (if isMarkerKey b then (match v with | .str m => hasMarker markers m | _ => false) else true) &&
    (if b = fillKey || b = strokeKey then paintOK v else true)

def markerWF (m : MarkerRow) : Bool := m.idFaithful && m.refs.isEmpty && m.deps.isEmpty

/-- a symbol factory: produces the id it is registered under, its dependencies exist, and every
reference inside the fragment is defined by itself or by a direct dependency -/
def errorSymbolOK (symbols : List SymbolRow) : Bool :=
  match findSymbol symbols errorName with
  | some e => e.refs.isEmpty && e.deps.isEmpty
  | none => false

def symbolWF (symbols : List SymbolRow) (r : SymbolRow) : Bool :=
  r.producedId = some r.name && r.ids.contains r.name &&
  r.deps.all (fun d => hasSymbol symbols d) &&
  r.refs.all (fun x => r.ids.contains x ||
    r.deps.any fun d => match findSymbol symbols d with | some s => s.ids.contains x | none => false)

def edgeName : Str := "Edge".toList

def isColor : Val → Bool | .color _ => true | _ => false

/-- structural condition under which every `Edge.*` class resolves, in every diagram class, to a
stroke that is a colour (otherwise `_deploy_defs` raises for an edge with a marker): entries of
type `Edge` set `stroke` to a colour or not at all, markers occur on `Edge` entries only -/
def edgeStrokeOK (e : StyleEntry) : Bool :=
  let ty := e.oc.takeWhile (· ≠ '.')
  (if ty = edgeName then e.props.all (fun p => p.1 ≠ strokeKey || isColor p.2) else true) &&
  (if e.props.any (fun p => isMarkerKey (stripTextPfx p.1)) then ty = edgeName && !(e.props.any fun p => textPfx.isPrefixOf p.1 && isMarkerKey (stripTextPfx p.1)) else true)

/-- `__GLOBAL__`/`Edge` defines a stroke colour -/
def globalEdgeStroke (styles : List StyleEntry) : Bool :=
  match lookup (lookupEntry styles globalName edgeName) strokeKey with
  | some (.color _) => true
  | _ => false

/-- no symbol's dependency walk runs out of fuel (no cyclic `needs`) -/
def symbolDepsTerminate (symbols : List SymbolRow) (r : SymbolRow) : Bool :=
  match symbolDefsWith true symbols (symbols.length + 1) (r.name.take (r.name.length - symbolSuffix.length)) with
  | .ok _ => true
  | .error _ => false

end Capella.Svg
