import Capella.Model.Xml
/-
The UTF-8 boundary of the writer: `serialize(...)` ends in `"".join(...).encode(encoding)` resp.
`buffer.write(text.encode(...))`, and `_serialize_element` measures the tag with
`len(tag.encode("utf-8"))` while every other width is a `len()` of a `str` (code points).
`utf8Bytes` is CPython's UTF-8 encoder for one code point (no surrogates: lxml never holds them).
-/
namespace Capella.Xml

/-- the bytes of one code point -/
def utf8Bytes (c : Char) : List Nat :=
  let n := c.toNat
  if n < 0x80 then [n]
  else if n < 0x800 then [0xC0 + n / 64, 0x80 + n % 64]
  else if n < 0x10000 then [0xE0 + n / 4096, 0x80 + (n / 64) % 64, 0x80 + n % 64]
  else [0xF0 + n / 262144, 0x80 + (n / 4096) % 64, 0x80 + (n / 64) % 64, 0x80 + n % 64]

/-- `s.encode("utf-8")` -/
def encodeUtf8 (s : Str) : List Nat := s.flatMap utf8Bytes

def isAscii (c : Char) : Bool := c.toNat < 128

end Capella.Xml
