import Capella.Model.Reqif
/-
The element tree `export_module` serialises (C20, second layer of the exporter model).

`Capella.Reqif.doc` is the abstract document (keys of identifiers and references, values). This file
builds the XML element tree from it exactly as `exporter.py` nests its `etree.Element`/`E(...)` calls:
tags, attribute names and values (constants such as `MAX-LENGTH`, `LAST-CHANGE` on every identified
element), texts of `*-REF`/header elements, children in document order, the empty `SPEC-RELATIONS` and
`SPEC-RELATION-GROUPS`, and the header (`_build_header`).

Parameters (strings supplied from outside, not computed here): the formatted creation time, the default
comment (`repr` formatting of two names), the two tool id strings, the converted XHTML (opaque leaf
`Xml.raw`). Attribute order inside one element is insignificant in XML; the lists below are in the order
the code sets them and are compared sorted by name.

Generic scans over the tree (`Xml.idents`, `Xml.refTexts`, `Xml.all`) are what the property talks about:
"all identifiers", "every reference"; `Lemmas/ReqifXml.lean` proves that they are `Doc.defs`/`Doc.refs`
rendered.
-/
namespace Capella.Reqif

/-- an `lxml` element: tag (local name), attributes, text, children; or an opaque converted XHTML subtree -/
inductive Xml
  | el (tag : Str) (attrs : List (Str × Str)) (text : Option Str) (kids : List Xml)
  | raw (canon : Str)

/-- tag and attribute names (kept behind a definition so that they stay readable in goals) -/
def tg (s : String) : Str := s.toList

def sIDENTIFIER : Str := (tg "IDENTIFIER")
def sLASTCHANGE : Str := (tg "LAST-CHANGE")
def sLONGNAME : Str := (tg "LONG-NAME")
def sDESC : Str := (tg "DESC")
def sTHEVALUE : Str := (tg "THE-VALUE")
def sREF : Str := "-REF".toList

/-- `element.set(name, value)` only `if value` -/
def optAttr (name : Str) : Option Str → List (Str × Str)
  | some v => [(name, v)]
  | none => []

/-- an element without attributes and children that carries text (`*-REF`, header fields) -/
def textEl (tag text : Str) : Xml := .el tag [] (some text) []

/-- an element that only wraps children (`TYPE`, `DEFINITION`, `VALUES`, `OBJECT`, …) -/
def wrapEl (tag : Str) (kids : List Xml) : Xml := .el tag [] none kids

/-! ## generic scans (what "identifier" and "reference" mean on the tree) -/

def lookupAttr (k : Str) : List (Str × Str) → Option Str
  | [] => none
  | (a, v) :: l => if a = k then some v else lookupAttr k l

mutual
/-- the value of every `IDENTIFIER` attribute, in document order -/
def Xml.idents : Xml → List Str
  | .el _ attrs _ kids => (lookupAttr sIDENTIFIER attrs).toList ++ identsL kids
  | .raw _ => []
def identsL : List Xml → List Str
  | [] => []
  | x :: xs => x.idents ++ identsL xs
end

mutual
/-- the text of every element whose tag ends in `-REF`, in document order -/
def Xml.refTexts : Xml → List Str
  | .el tag _ text kids => (if endsWith tag sREF then [text.getD []] else []) ++ refTextsL kids
  | .raw _ => []
def refTextsL : List Xml → List Str
  | [] => []
  | x :: xs => x.refTexts ++ refTextsL xs
end

mutual
/-- `p tag attrs text kids` holds at every element of the tree -/
def Xml.all (p : Str → List (Str × Str) → Option Str → List Xml → Bool) : Xml → Bool
  | .el tag attrs text kids => p tag attrs text kids && allL p kids
  | .raw _ => true
def allL (p : Str → List (Str × Str) → Option Str → List Xml → Bool) : List Xml → Bool
  | [] => true
  | x :: xs => x.all p && allL p xs
end

def Xml.tag : Xml → Str
  | .el t _ _ _ => t
  | .raw _ => []

def Xml.kids : Xml → List Xml
  | .el _ _ _ k => k
  | .raw _ => []

/-! ## `_build_header` -/

/-- the `metadata` mapping: the three supported keys (`creation_time` already formatted — strftime in
UTC is a parameter) -/
structure Metadata where
  comment : Option Str
  title : Option Str
  creationTime : Option Str

/-- strings the exporter takes from its environment -/
structure Env where
  defaultComment : Str     -- f"Requirements module {module.name!r} from {module._model.name!r}"
  now : Str                -- `datetime.datetime.now()` formatted
  toolId : Str             -- f"capellambse v{capellambse.__version__}"
  sourceToolId : Str       -- f"Capella {module._model.info.capella_version}"

structure HeaderEl where
  comment : Str
  creationTime : Str
  toolId : Str
  version : Str
  sourceToolId : Str
  title : Str

/-- `metadata.get(key, default)` for the three keys; everything else is fixed -/
def header (e : Env) (md : Metadata) (m : Module) : HeaderEl :=
  { comment := md.comment.getD e.defaultComment
    creationTime := md.creationTime.getD e.now
    toolId := e.toolId
    version := "1.1".toList
    sourceToolId := e.sourceToolId
    title := md.title.getD m.longName }

/-- `THE-HEADER` / `REQ-IF-HEADER` (`IDENTIFIER = "_" + model.uuid.upper()`) with its six children in the
order of the code's tuple -/
def HeaderEl.toXml (h : HeaderEl) (modelUuid : Str) : Xml :=
  wrapEl (tg "THE-HEADER")
    [.el (tg "REQ-IF-HEADER") [(sIDENTIFIER, (Ident.obj modelUuid).render)] none
      [textEl (tg "COMMENT") h.comment,
       textEl (tg "CREATION-TIME") h.creationTime,
       textEl (tg "REQ-IF-TOOL-ID") h.toolId,
       textEl (tg "REQ-IF-VERSION") h.version,
       textEl (tg "SOURCE-TOOL-ID") h.sourceToolId,
       textEl (tg "TITLE") h.title]]

/-! ## datatypes -/

/-- the constant attributes per kind: `MAX-LENGTH` of the synthesized string datatype, `type_attrs` of
`_build_datatypes` -/
def datatypeConstants (key : DtKey) (k : Kind) : List (Str × Str) :=
  match key, k with
  | .std _, .string => [(tg "MAX-LENGTH", "32000".toList)]
  | .std _, _ => []
  | .custom _ _, .string => [(tg "MAX-LENGTH", "2147483647".toList)]
  | .custom _ _, .real => [(tg "ACCURACY", "100".toList), (tg "MAX", "Infinity".toList), (tg "MIN", "-Infinity".toList)]
  | .custom _ _, .integer => [(tg "MAX", "2147483647".toList), (tg "MIN", "-2147483648".toList)]
  | .custom _ _, _ => []

def EnumValueEl.toXml (ts : Str) (v : EnumValueEl) : Xml :=
  .el (tg "ENUM-VALUE")
    ([(sIDENTIFIER, (Ident.obj v.uuid).render), (sLASTCHANGE, ts)] ++ optAttr sLONGNAME v.longName ++ optAttr sDESC v.desc)
    none []

def DatatypeEl.toXml (ts : Str) (d : DatatypeEl) : Xml :=
  .el (tg "DATATYPE-DEFINITION-" ++ d.kind.name)
    ([(sIDENTIFIER, d.key.ident.render), (sLASTCHANGE, ts)] ++ optAttr sLONGNAME d.longName ++ datatypeConstants d.key d.kind)
    none
    (match d.values with
     | some vs => [wrapEl (tg "SPECIFIED-VALUES") (vs.map (EnumValueEl.toXml ts))]
     | none => [])

/-! ## spec types -/

/-- `TYPE` / `DATATYPE-DEFINITION-<T>-REF` -/
def typeRef (k : Kind) (ref : Ident) : Xml :=
  wrapEl (tg "TYPE") [textEl (tg "DATATYPE-DEFINITION-" ++ k.name ++ sREF) ref.render]

/-- a standard `ATTRIBUTE-DEFINITION-<T>` (of a spec object type or of the specification type) -/
def stdAttrDefXml (ts : Str) (owner : Str → Ident) (x : Str × Kind) : Xml :=
  .el (tg "ATTRIBUTE-DEFINITION-" ++ x.2.name)
    [(sIDENTIFIER, (owner x.1).render), (sLASTCHANGE, ts), (sLONGNAME, "ReqIF.".toList ++ x.1)]
    none [typeRef x.2 (.stdDatatype x.1)]

def boolText (b : Bool) : Str := if b then "true".toList else "false".toList

def AttrDefEl.toXml (ts : Str) (rt : Option Str) (a : AttrDefEl) : Xml :=
  .el (tg "ATTRIBUTE-DEFINITION-" ++ a.kind.name)
    ([(sIDENTIFIER, (a.ident rt).render), (sLASTCHANGE, ts)] ++ optAttr sLONGNAME a.longName ++ optAttr sDESC a.desc
      ++ optAttr (tg "MULTI-VALUED") (a.multiValued.map boolText))
    none [typeRef a.kind a.dtRef]

/-- `if len(attributes_wrap): elem.append(attributes_wrap)` -/
def specAttributes (kids : List Xml) : List Xml :=
  if kids = [] then [] else [wrapEl (tg "SPEC-ATTRIBUTES") kids]

def SpecTypeEl.toXml (ts : Str) (t : SpecTypeEl) : Xml :=
  .el (tg "SPEC-OBJECT-TYPE")
    ([(sIDENTIFIER, (sotIdent t.rt).render), (sLASTCHANGE, ts)] ++ optAttr sLONGNAME t.longName ++ optAttr sDESC t.desc)
    none
    (specAttributes (t.std.map (stdAttrDefXml ts (.stdAttr t.rt)) ++ t.custom.map (AttrDefEl.toXml ts t.rt)))

def SpecificationTypeEl.toXml (ts : Str) (t : SpecificationTypeEl) : Xml :=
  .el (tg "SPECIFICATION-TYPE")
    ([(sIDENTIFIER, (stIdent t.mt).render), (sLASTCHANGE, ts)] ++ optAttr sLONGNAME t.longName ++ optAttr sDESC t.desc)
    none
    [wrapEl (tg "SPEC-ATTRIBUTES") (t.std.map (stdAttrDefXml ts (.stdSpecAttr t.mt)))]

/-! ## spec objects -/

/-- `DEFINITION` / `ATTRIBUTE-DEFINITION-<T>-REF` -/
def definitionRef (k : Kind) (ref : Ident) : Xml :=
  wrapEl (tg "DEFINITION") [textEl (tg "ATTRIBUTE-DEFINITION-" ++ k.name ++ sREF) ref.render]

/-- a standard value: `THE-VALUE` attribute for `STRING`, `THE-VALUE` child with the converted tree for
`XHTML` -/
def StdValueEl.toXml (owner : Str → Ident) (v : StdValueEl) : Xml :=
  if v.kind = .xhtml then
    .el (tg "ATTRIBUTE-VALUE-" ++ v.kind.name) [] none
      [definitionRef v.kind (owner v.name), wrapEl sTHEVALUE [.raw (v.theValue.getD [])]]
  else
    .el (tg "ATTRIBUTE-VALUE-" ++ v.kind.name) [(sTHEVALUE, v.theValue.getD [])] none
      [definitionRef v.kind (owner v.name)]

/-- `_build_attribute_value_simple` / `_build_attribute_value_enum` -/
def AttrValueEl.toXml (rt : Option Str) (v : AttrValueEl) : Xml :=
  if v.kind = .enumeration then
    .el (tg "ATTRIBUTE-VALUE-" ++ v.kind.name) [] none
      [definitionRef v.kind (.attrDef rt v.ad v.kind),
       wrapEl (tg "VALUES") (v.enumRefs.map fun u => textEl (tg "ENUM-VALUE-REF") (Ident.obj u).render)]
  else
    .el (tg "ATTRIBUTE-VALUE-" ++ v.kind.name) (optAttr sTHEVALUE v.theValue) none
      [definitionRef v.kind (.attrDef rt v.ad v.kind)]

def SpecObjectEl.toXml (ts : Str) (o : SpecObjectEl) : Xml :=
  .el (tg "SPEC-OBJECT")
    ([(sIDENTIFIER, (Ident.obj o.uuid).render), (sLASTCHANGE, ts)] ++ optAttr sLONGNAME o.longName)
    none
    [wrapEl (tg "VALUES") (o.std.map (StdValueEl.toXml (.stdAttr o.rt)) ++ o.attrs.map (AttrValueEl.toXml o.rt)),
     wrapEl (tg "TYPE") [textEl (tg "SPEC-OBJECT-TYPE-REF") (sotIdent o.rt).render]]

/-! ## the specification -/

def HierEl.toXml (ts : Str) (h : HierEl) : Xml :=
  .el (tg "SPEC-HIERARCHY") [(sIDENTIFIER, (Ident.hier h.uuid).render), (sLASTCHANGE, ts)] none
    [wrapEl (tg "OBJECT") [textEl (tg "SPEC-OBJECT-REF") (Ident.obj h.uuid).render]]

def SpecificationEl.toXml (ts : Str) (s : SpecificationEl) : Xml :=
  .el (tg "SPECIFICATION")
    ([(sIDENTIFIER, (Ident.obj s.uuid).render), (sLASTCHANGE, ts)] ++ optAttr sLONGNAME s.longName ++ optAttr sDESC s.desc)
    none
    [wrapEl (tg "TYPE") [textEl (tg "SPECIFICATION-TYPE-REF") (stIdent s.mt).render],
     wrapEl (tg "VALUES") (s.values.map (StdValueEl.toXml (.stdSpecAttr s.mt))),
     wrapEl (tg "CHILDREN") (s.children.map (HierEl.toXml ts))]

/-! ## `_build_content`, `export_module` -/

def schemaLocation : Str :=
  "https://www.omg.org/spec/ReqIF/20110401/reqif.xsd http://www.omg.org/spec/ReqIF/20110401/reqif.xsd".toList

/-- `REQ-IF-CONTENT` with its six sections, in the order they are appended -/
def Doc.contentXml (ts : Str) (d : Doc) : Xml :=
  wrapEl (tg "REQ-IF-CONTENT")
    [wrapEl (tg "DATATYPES") (d.datatypes.map (DatatypeEl.toXml ts)),
     wrapEl (tg "SPEC-TYPES") (d.specTypes.map (SpecTypeEl.toXml ts) ++ [d.specificationType.toXml ts]),
     wrapEl (tg "SPEC-OBJECTS") (d.specObjects.map (SpecObjectEl.toXml ts)),
     wrapEl (tg "SPEC-RELATIONS") [],
     wrapEl (tg "SPECIFICATIONS") [d.specification.toXml ts],
     wrapEl (tg "SPEC-RELATION-GROUPS") []]

/-- the tree `etree.ElementTree(data).write(...)` serialises; `LAST-CHANGE` everywhere is the header's
creation time (`_build_header` returns it as `timestamp`) -/
def Doc.toXml (h : HeaderEl) (d : Doc) : Xml :=
  .el (tg "REQ-IF") [(tg "xsi:schemaLocation", schemaLocation)] none
    [h.toXml d.headerUuid, wrapEl (tg "CORE-CONTENT") [d.contentXml h.creationTime]]

/-! ## what "every element that must carry an identifier has one" means -/

/-- tags of the ReqIF elements that are `Identifiable` (or the header): the fixed ones, and the
`DATATYPE-DEFINITION-<T>` / `ATTRIBUTE-DEFINITION-<T>` families (not their `-REF` counterparts) -/
def needsId (tag : Str) : Bool :=
  [(tg "REQ-IF-HEADER"), (tg "ENUM-VALUE"), (tg "SPEC-OBJECT-TYPE"), (tg "SPECIFICATION-TYPE"), (tg "SPEC-OBJECT"),
   (tg "SPECIFICATION"), (tg "SPEC-HIERARCHY"), (tg "SPEC-RELATION"), (tg "RELATION-GROUP")].contains tag
  || (((tg "DATATYPE-DEFINITION-").isPrefixOf tag || (tg "ATTRIBUTE-DEFINITION-").isPrefixOf tag) && !endsWith tag sREF)

/-- the local check at one element: an identifiable element has an `IDENTIFIER`; an element with an
`IDENTIFIER` is the header or carries `LAST-CHANGE = ts`; only identifiable elements carry either -/
def identCheck (ts : Str) (tag : Str) (attrs : List (Str × Str)) (_ : Option Str) (_ : List Xml) : Bool :=
  if needsId tag then
    (lookupAttr sIDENTIFIER attrs).isSome
      && (tag == (tg "REQ-IF-HEADER") || lookupAttr sLASTCHANGE attrs == some ts)
  else
    (lookupAttr sIDENTIFIER attrs).isNone && (lookupAttr sLASTCHANGE attrs).isNone

/-- `export_module` up to serialisation: header from the metadata, content from the module -/
def exportXml (xhtml : Str → Option Str) (e : Env) (md : Metadata) (m : Module) : Except Err Xml :=
  match «export» xhtml m with
  | .error err => .error err
  | .ok d => .ok (d.toXml (header e md m))

end Capella.Reqif
