/-
Model of the geometry kernel of `capellambse.diagram` over exact rationals (`Rat`).

* `V2` and its operations — `capellambse/diagram/_vector2d.py: Vector2D`
  (`__add__`, `__sub__`, `__mul__` by a scalar, `__matmul__`, `__truediv__`, `sqlength`,
  `closestaxis`, `boxsnap`/`__dirless_boxsnap`), `line_intersect`.
* `Box` (`pos`, `size`, `port`) and `vectorSnap` — `capellambse/diagram/_diagram.py:
  Box.vector_snap` with `__vector_snap_closest`, `__vector_snap_oblique`,
  `__vector_snap_manhattan`, `__vector_snap_tree`; Python `assert`s and the `ValueError` of
  `line_intersect` are `Except Err`.
* `snapToParent` — `Box.snap_to_parent` (port: mid-box snap; child: margin clamp).
* `Rect`, `boxBounds`, `edgeBounds`, `extendViewport`, `viewport` — `Box.bounds`, `Edge.bounds`,
  `Diagram.__extend_viewport`, `Diagram.calculate_viewport`.
* `edgeSnap` — `Edge.vector_snap` (projection onto the closest segment).
* `routeOblique`, `routeManhattan`, `routeTree` — `capellambse/aird/_edge_factories.py: route_*`.

Where the model deliberately departs from the letter of the code (documented in design/C17.md):

* floats are exact rationals; `math.isclose(d, 0.0)` (relative tolerance only) is `d = 0`;
* `__vector_snap_closest` decides the side with `atan2`; the model uses the equivalent sign form
  (`u = d.x*h - d.y*w`, `v = d.x*h + d.y*w`) and declares the inputs on which a float `atan2`
  may legitimately choose a neighbouring side (`closestTie`: `u = 0 ∨ v = 0`; since /repo
  `alpha <= angle` both neighbours meet in the corner facing the source on all four diagonals); the sign form is
  only valid for a proper box, so `snapClosest` answers `Err.degenerate` unless `0 < w ∧ 0 < h`;
* `Edge.vector_snap` normalises the segment and multiplies back; the model uses the parameter
  `t = ((v - a)·(b - a)) / |b - a|²` clamped to `[0, 1]`, which is the same point without `sqrt`.

Core Lean only.
-/

namespace Capella.Geom

/-- `Vector2D` -/
structure V2 where
  x : Rat
  y : Rat
deriving DecidableEq, Repr

namespace V2
instance : Add V2 := ⟨fun a b => ⟨a.x + b.x, a.y + b.y⟩⟩
instance : Sub V2 := ⟨fun a b => ⟨a.x - b.x, a.y - b.y⟩⟩
/-- `self * k` for a number `k` -/
def smul (a : V2) (k : Rat) : V2 := ⟨a.x * k, a.y * k⟩
/-- `self / k` for a number `k` (only ever called with the literal 2) -/
def sdiv (a : V2) (k : Rat) : V2 := ⟨a.x / k, a.y / k⟩
/-- `self @ other`: component-wise product -/
def had (a b : V2) : V2 := ⟨a.x * b.x, a.y * b.y⟩
/-- `self * other` for a vector: dot product -/
def dot (a b : V2) : Rat := a.x * b.x + a.y * b.y
def sqlength (a : V2) : Rat := a.x * a.x + a.y * a.y
def zero : V2 := ⟨0, 0⟩

@[simp] theorem add_x (a b : V2) : (a + b).x = a.x + b.x := rfl
@[simp] theorem add_y (a b : V2) : (a + b).y = a.y + b.y := rfl
@[simp] theorem sub_x (a b : V2) : (a - b).x = a.x - b.x := rfl
@[simp] theorem sub_y (a b : V2) : (a - b).y = a.y - b.y := rfl
end V2

/-- Python truth value of a comparison used as a number (`size.x * (axis.x < 0)`). -/
def b2r (p : Bool) : Rat := if p then 1 else 0

/-- `(-1, 1)[i >= 0]` -/
def sgn1 (r : Rat) : Rat := if 0 ≤ r then 1 else -1

def rabs (r : Rat) : Rat := if 0 ≤ r then r else -r

/-- `Vector2D.closestaxis` -/
def closestaxis (d : V2) : V2 :=
  if rabs d.y ≤ rabs d.x then ⟨sgn1 d.x, 0⟩ else ⟨0, sgn1 d.y⟩

inductive Err where
  | parallel            -- ValueError("Lines are parallel") escaping
  | noDirection         -- assert direction.x or direction.y
  | noIntersection      -- assert len(intersections) > 0
  | multiIntersection   -- assert <the intersections coincide>
  | axisZero            -- AssertionError closestaxis returned (0,0)
  | degenerate          -- outside the modelled domain (box without positive width and height)
  | zeroSegment         -- ZeroDivisionError in Vector2D.normalized
  | emptyEdge           -- fewer than two points
deriving DecidableEq, Repr

/-- `line_intersect(line1, line2)` -/
def lineIntersect (p1 p2 p3 p4 : V2) : Except Err V2 :=
  let denum := (p1.x - p2.x) * (p3.y - p4.y) - (p3.x - p4.x) * (p1.y - p2.y)
  if denum = 0 then .error .parallel
  else
    let d1 := p1.x * p2.y - p2.x * p1.y
    let d2 := p3.x * p4.y - p4.x * p3.y
    .ok ⟨(d1 * (p3.x - p4.x) - d2 * (p1.x - p2.x)) / denum,
         (d1 * (p3.y - p4.y) - d2 * (p1.y - p2.y)) / denum⟩

/-! ### `Vector2D.boxsnap` -/

/-- `min(distances, key=sqlength)`: the first minimal element -/
def minBySq : V2 → List V2 → V2
  | best, [] => best
  | best, c :: cs => if c.sqlength < best.sqlength then minBySq c cs else minBySq best cs

/-- `__dirless_boxsnap(topleft, bottomright)` -/
def dirlessBoxsnap (self tl br : V2) : V2 :=
  let x := if self.x < tl.x then tl.x else if br.x < self.x then br.x else self.x
  let y := if self.y < tl.y then tl.y else if br.y < self.y then br.y else self.y
  if self ≠ ⟨x, y⟩ then ⟨x, y⟩
  else
    self + minBySq ⟨tl.x - self.x, 0⟩ [⟨br.x - self.x, 0⟩, ⟨0, tl.y - self.y⟩, ⟨0, br.y - self.y⟩]

/-- `Vector2D.boxsnap(corner1, corner2)` -/
def boxsnap (self c1 c2 : V2) : V2 :=
  dirlessBoxsnap self ⟨min c1.x c2.x, min c1.y c2.y⟩ ⟨max c1.x c2.x, max c1.y c2.y⟩

/-! ### `Box` -/

/-- The geometric part of `diagram.Box`: `size` is the value the `size` property returns. -/
structure Box where
  pos : V2
  size : V2
  port : Bool := false
deriving DecidableEq, Repr

namespace Box
def center (b : Box) : V2 := b.pos + b.size.sdiv 2
/-- the four corners as the code writes them -/
def tl (b : Box) : V2 := b.pos
def tr (b : Box) : V2 := b.pos + b.size.had ⟨1, 0⟩
def bl (b : Box) : V2 := b.pos + b.size.had ⟨0, 1⟩
def br (b : Box) : V2 := b.pos + b.size
def translate (b : Box) (v : V2) : Box := { b with pos := b.pos + v }
end Box

/-- `pos.x <= p.x <= pos.x + size.x and pos.y <= p.y <= pos.y + size.y` -/
def inBox (b : Box) (p : V2) : Prop :=
  b.pos.x ≤ p.x ∧ p.x ≤ b.pos.x + b.size.x ∧ b.pos.y ≤ p.y ∧ p.y ≤ b.pos.y + b.size.y

instance (b : Box) (p : V2) : Decidable (inBox b p) := by unfold inBox; infer_instance

/-- a point of the closed box that lies on one of its four side lines -/
def onOutline (b : Box) (q : V2) : Prop :=
  inBox b q ∧ (q.x = b.pos.x ∨ q.x = b.pos.x + b.size.x ∨ q.y = b.pos.y ∨ q.y = b.pos.y + b.size.y)

instance (b : Box) (q : V2) : Decidable (onOutline b q) := by unfold onOutline; infer_instance

/-- on the top or the bottom *side* (segment) of the box -/
def onTopOrBottom (b : Box) (q : V2) : Prop :=
  b.pos.x ≤ q.x ∧ q.x ≤ b.pos.x + b.size.x ∧ (q.y = b.pos.y ∨ q.y = b.pos.y + b.size.y)

instance (b : Box) (q : V2) : Decidable (onTopOrBottom b q) := by unfold onTopOrBottom; infer_instance

/-- the box spanned by two arbitrary corners -/
def rectBox (c1 c2 : V2) : Box :=
  { pos := ⟨min c1.x c2.x, min c1.y c2.y⟩, size := ⟨max c1.x c2.x - min c1.x c2.x, max c1.y c2.y - min c1.y c2.y⟩ }

inductive Style where
  | oblique | manhattan | tree
deriving DecidableEq, Repr

/-! ### `__vector_snap_closest` (sign form) -/

/-- `u`, `v` of the sign form for the direction `d = source - center` -/
def closestU (b : Box) (d : V2) : Rat := d.x * b.size.y - d.y * b.size.x
def closestV (b : Box) (d : V2) : Rat := d.x * b.size.y + d.y * b.size.x

/-- the inputs on which a floating-point `atan2` may pick a neighbouring side -/
def closestTie (b : Box) (source : V2) : Bool :=
  let d := source - b.center
  closestU b d = 0 || closestV b d = 0

inductive Side where
  | right | bottom | top | left
deriving DecidableEq, Repr

/-- which of the four guards of `__vector_snap_closest` fires (for a proper box): with `angle = θ - φ`, `θ = atan2(h, w)`,
`φ = atan2(d.y, d.x)`: `0 < angle < alpha` ⇔ `-θ < φ < θ` ⇔ `0 < u ∧ 0 < v`; `-alpha' < angle <= 0` ⇔ `θ ≤ φ < π-θ` ⇔
`u ≤ 0 ∧ 0 < v`; `alpha <= angle < pi` ⇔ `θ-π < φ ≤ -θ` ⇔ `0 < u ∧ v ≤ 0`; else left (`u ≤ 0 ∧ v ≤ 0`) -/
def closestSide (b : Box) (d : V2) : Side :=
  let u := closestU b d
  let v := closestV b d
  if 0 < u ∧ 0 < v then .right
  else if u ≤ 0 ∧ 0 < v then .bottom
  else if 0 < u ∧ v ≤ 0 then .top
  else .left

/-- the border segment of a side, end points in the order the code passes them -/
def sideLine (b : Box) : Side → V2 × V2
  | .right => (b.tr, b.br)
  | .bottom => (b.bl, b.br)
  | .top => (b.tl, b.tr)
  | .left => (b.tl, b.bl)

/-- `Box.__vector_snap_closest(source)` -/
def snapClosest (b : Box) (source : V2) : Except Err V2 :=
  if ¬ (0 < b.size.x ∧ 0 < b.size.y) then .error .degenerate
  else if source = b.center then .ok (b.pos + b.size.had ⟨0, 1/2⟩)
  else
    let l := sideLine b (closestSide b (source - b.center))
    lineIntersect b.center source l.1 l.2

/-! ### `__vector_snap_oblique`, in the form used by the proofs (equal to the literal one below:
`snapObliqueLit_eq` in `Lemmas/GeomLit.lean`) -/

/-- one `if "<side>" in edges:` block: intersect, swallow `ValueError`, keep if within the border -/
def hitH (b1 b2 s p : V2) : List V2 :=
  match lineIntersect b1 b2 s p with
  | .ok q => if b1.x ≤ q.x ∧ q.x ≤ b2.x then [q] else []
  | .error _ => []

def hitV (b1 b2 s p : V2) : List V2 :=
  match lineIntersect b1 b2 s p with
  | .ok q => if b1.y ≤ q.y ∧ q.y ≤ b2.y then [q] else []
  | .error _ => []

/-- the list `intersections`, in the order top, left, right, bottom -/
def obliqueHits (b : Box) (source p : V2) : List V2 :=
  let d := p - source
  (if 0 < d.y then hitH b.tl b.tr source p else []) ++
  (if 0 < d.x then hitV b.tl b.bl source p else []) ++
  (if d.x < 0 then hitV b.tr b.br source p else []) ++
  (if d.y < 0 then hitH b.bl b.br source p else [])

/-- the two closing assertions: at least one hit, and all hits are the same point -/
def pickHit : List V2 → Except Err V2
  | [] => .error .noIntersection
  | q :: rest => if rest.all (fun r => r = q) then .ok q else .error .multiIntersection

/-- `Box.__vector_snap_oblique(point, source)` (called with `point != source`): the first candidate border
whose intersection lies on it; all such intersections must be the same point -/
def snapOblique (b : Box) (point source : V2) : Except Err V2 :=
  let p := if inBox b point then point else b.center
  if p = source then snapClosest b point
  else pickHit (obliqueHits b source p)

/-! ### `__vector_snap_oblique`, statement by statement (this is what `vectorSnap` runs) -/

/-- `miss(low, value, high)` of the repaired `__vector_snap_oblique`: how far `value` lies outside `[low, high]` -/
def miss (lo v hi : Rat) : Rat := max (max (lo - v) (v - hi)) 0

/-- one `if "<side>" in edges:` block of the repaired code: intersect, swallow `ValueError`, record the miss -/
def candH (b1 b2 s p : V2) : List (Rat × V2) :=
  match lineIntersect b1 b2 s p with
  | .ok q => [(miss b1.x q.x b2.x, q)]
  | .error _ => []

def candV (b1 b2 s p : V2) : List (Rat × V2) :=
  match lineIntersect b1 b2 s p with
  | .ok q => [(miss b1.y q.y b2.y, q)]
  | .error _ => []

/-- the list `intersections` of `(distance, intersection)` pairs, in the order top, left, right, bottom -/
def obliqueCands (b : Box) (source p : V2) : List (Rat × V2) :=
  let d := p - source
  (if 0 < d.y then candH b.tl b.tr source p else []) ++
  (if 0 < d.x then candV b.tl b.bl source p else []) ++
  (if d.x < 0 then candV b.tr b.br source p else []) ++
  (if d.y < 0 then candH b.bl b.br source p else [])

/-- `min(intersections, key=lambda i: i[0])`: the first minimal element -/
def minByMiss : (Rat × V2) → List (Rat × V2) → (Rat × V2)
  | best, [] => best
  | best, c :: cs => if c.1 < best.1 then minByMiss c cs else minByMiss best cs

/-- the three closing assertions of the repaired code, with the float tolerance `1e-6` at `0` -/
def pickCand (l : List (Rat × V2)) : Except Err V2 :=
  match l with
  | [] => .error .noIntersection
  | c :: cs =>
    let m := minByMiss c cs
    if ¬ m.1 ≤ 0 then .error .noIntersection
    else if l.all (fun i => 0 < i.1 ∨ i.2 = m.2) then .ok m.2
    else .error .multiIntersection

/-- `Box.__vector_snap_oblique(point, source)` as coded after the two repairs, statement by statement -/
def snapObliqueLit (b : Box) (point source : V2) : Except Err V2 :=
  if point = source then .error .noDirection                   -- assert point != source
  else if ¬ inBox b point then
    if source = b.center then snapClosest b point
    else pickCand (obliqueCands b source b.center)
  else pickCand (obliqueCands b source point)

/-! ### `__vector_snap_manhattan` -/

def snapManhattan (b : Box) (point direction : V2) : Except Err V2 :=
  let axis := closestaxis direction
  if axis.x ≠ 0 then
    if point.y < b.pos.y then .ok (b.pos + b.size.had ⟨1/2, 0⟩)
    else if b.pos.y + b.size.y < point.y then .ok (b.pos + b.size.had ⟨1/2, 1⟩)
    else if b.port then .ok (b.pos + b.size.had ⟨b2r (axis.x < 0), 1/2⟩)
    else .ok ⟨b.pos.x + b.size.x * b2r (axis.x < 0), point.y⟩
  else if axis.y ≠ 0 then
    if point.x < b.pos.x then .ok (b.pos + b.size.had ⟨0, 1/2⟩)
    else if b.pos.x + b.size.x < point.x then .ok (b.pos + b.size.had ⟨1, 1/2⟩)
    else if b.port then .ok (b.pos + b.size.had ⟨1/2, b2r (axis.y < 0)⟩)
    else .ok ⟨point.x, b.pos.y + b.size.y * b2r (axis.y < 0)⟩
  else .error .axisZero

/-! ### `__vector_snap_tree` -/

/-- `direction.y < 0.0 or math.isclose(direction.y, 0.0) and point.y != self.pos.y` -/
def treeBottom (b : Box) (point direction : V2) : Prop :=
  direction.y < 0 ∨ (direction.y = 0 ∧ point.y ≠ b.pos.y)

instance (b : Box) (p d : V2) : Decidable (treeBottom b p d) := by unfold treeBottom; infer_instance

def snapTree (b : Box) (point direction : V2) : V2 :=
  if direction = ⟨0, 0⟩ then
    if b.center.x < point.x then ⟨point.x - 1, point.y⟩ else ⟨point.x + 1, point.y⟩
  else if b.port then
    if treeBottom b point direction then b.pos + b.size.had ⟨1/2, 1⟩
    else b.pos + b.size.had ⟨1/2, 0⟩
  else if treeBottom b point direction then ⟨point.x, b.pos.y + b.size.y⟩
  else ⟨point.x, b.pos.y⟩

/-- `Box.vector_snap(point, source=source, style=style)` with snapping enabled
(`source=None` is `source = point`). -/
def vectorSnap (b : Box) (point source : V2) (style : Style) : Except Err V2 :=
  match style with
  | .oblique => if point = source then snapClosest b point else snapObliqueLit b point source
  | .manhattan => snapManhattan b point (point - source)
  | .tree => .ok (snapTree b point (point - source))

/-! ### `Box.snap_to_parent` -/

/-- what the `size` property makes of a stored size without label, children and `minsize`:
a non-positive component is recomputed as `max(minsize = 0, component)` -/
def normSize (s : V2) : V2 := ⟨if s.x ≤ 0 then 0 else s.x, if s.y ≤ 0 then 0 else s.y⟩

/-- the "mid box" a port's centre is snapped onto; `overhang` is `parent.PORT_OVERHANG` -/
def midBox (parent child : Box) (overhang : Rat) : Box :=
  let tl := parent.pos + child.size.sdiv 2 - ⟨overhang, overhang⟩
  let br := parent.pos + parent.size - child.size.sdiv 2 + ⟨overhang, overhang⟩
  { pos := tl, size := normSize (br - tl), port := false }

/-- port branch of `snap_to_parent`: the new `pos` of the port -/
def snapPort (parent child : Box) (overhang : Rat) : Except Err V2 :=
  let mid := child.pos + child.size.sdiv 2
  match vectorSnap (midBox parent child overhang) mid mid .oblique with
  | .ok newmid => .ok (child.pos + (newmid - mid))
  | .error e => .error e

/-- "attached to the parent's border": the closed rectangle `(pos, size)` meets the closed parent box and is
not contained in its open interior — i.e. it contains a point of the parent's outline -/
def portAttached (parent : Box) (pos size : V2) : Prop :=
  (pos.x ≤ parent.pos.x + parent.size.x ∧ parent.pos.x ≤ pos.x + size.x ∧
   pos.y ≤ parent.pos.y + parent.size.y ∧ parent.pos.y ≤ pos.y + size.y) ∧
  (pos.x ≤ parent.pos.x ∨ parent.pos.x + parent.size.x ≤ pos.x + size.x ∨
   pos.y ≤ parent.pos.y ∨ parent.pos.y + parent.size.y ≤ pos.y + size.y)

/-- non-port branch: new `(pos, size)`; `rawSize` is the stored `_size`, `child.size` the value of
the `size` property; `margin` is `parent.CHILD_MARGIN` -/
def snapChild (parent child : Box) (rawSize : V2) (margin : Rat) : V2 × V2 :=
  let minpos := parent.pos + ⟨margin, margin⟩
  let pos : V2 := ⟨max child.pos.x minpos.x, max child.pos.y minpos.y⟩
  let maxsize := parent.pos + parent.size - pos - ⟨margin, margin⟩
  let newsize : V2 := ⟨min child.size.x maxsize.x, min child.size.y maxsize.y⟩
  -- tuple comparison `newsize <= (0, 0)` is lexicographic
  let newsize : V2 :=
    if newsize.x < 0 ∨ (newsize.x = 0 ∧ newsize.y ≤ 0) then ⟨0, 0⟩ else newsize
  (pos, ⟨if 0 < rawSize.x then newsize.x else 0, if 0 < rawSize.y then newsize.y else 0⟩)

/-! ### bounds and viewport -/

/-- an axis-parallel rectangle given by its extreme coordinates -/
structure Rect where
  minx : Rat
  miny : Rat
  maxx : Rat
  maxy : Rat
deriving DecidableEq, Repr

namespace Rect
def ofBox (b : Box) : Rect := ⟨b.pos.x, b.pos.y, b.pos.x + b.size.x, b.pos.y + b.size.y⟩
/-- `Box((minx, miny), (maxx - minx, maxy - miny))` -/
def toBox (r : Rect) : Box := { pos := ⟨r.minx, r.miny⟩, size := ⟨r.maxx - r.minx, r.maxy - r.miny⟩ }
def union (a b : Rect) : Rect := ⟨min a.minx b.minx, min a.miny b.miny, max a.maxx b.maxx, max a.maxy b.maxy⟩
def translate (r : Rect) (v : V2) : Rect := ⟨r.minx + v.x, r.miny + v.y, r.maxx + v.x, r.maxy + v.y⟩
/-- `inner` lies inside `outer` -/
def encloses (outer inner : Rect) : Prop :=
  outer.minx ≤ inner.minx ∧ outer.miny ≤ inner.miny ∧ inner.maxx ≤ outer.maxx ∧ inner.maxy ≤ outer.maxy
def ofPoint (p : V2) : Rect := ⟨p.x, p.y, p.x, p.y⟩
end Rect

/-- `Box.bounds`: the box joined with its floating labels (unless `hidelabel` or a
`text_transform` override — then `labels` is passed as `[]`) -/
def boxBounds (b : Box) (labels : List Box) : Rect :=
  labels.foldl (fun acc l => acc.union (Rect.ofBox l)) (Rect.ofBox b)

/-- `Edge.bounds` for an edge with at least one point: visible labels, then all points.
(`min(inf, x) = x`, so starting from the first item is the code's fold.) -/
def edgeBounds (labels : List Box) (p0 : V2) (points : List V2) : Rect :=
  let start : Rect := match labels with
    | [] => Rect.ofPoint p0
    | l :: ls => (ls.foldl (fun acc l => acc.union (Rect.ofBox l)) (Rect.ofBox l)).union (Rect.ofPoint p0)
  points.foldl (fun acc p => acc.union (Rect.ofPoint p)) start

/-- `Circle.bounds` -/
def circleBounds (c : V2) (r : Rat) : Rect := ⟨c.x - r, c.y - r, c.x - r + r * 2, c.y - r + r * 2⟩

/-- `Diagram.__extend_viewport` -/
def extendViewport (vp : Option Rect) (bounds : Rect) : Rect :=
  match vp with
  | none => bounds
  | some v => v.union bounds

/-- `Diagram.calculate_viewport` over the bounds of the non-hidden elements, in order;
`none` is the `(inf, inf, -inf, -inf)` the code starts from. -/
def viewport (bounds : List Rect) : Option Rect :=
  bounds.foldl (fun acc r => some (extendViewport acc r)) none

/-! ### `Edge.vector_snap` -/

/-- `q` lies on the segment from `a` to `b` -/
def onSegment (a b q : V2) : Prop := ∃ t : Rat, 0 ≤ t ∧ t ≤ 1 ∧ q = a + (b - a).smul t

/-- `q` lies on one of the segments of the polyline -/
def onPolyline : List V2 → V2 → Prop
  | a :: b :: rest, q => onSegment a b q ∨ onPolyline (b :: rest) q
  | _, _ => False

/-- closest point of the segment `a b` to `v` (`a ≠ b`) -/
def segProject (a b v : V2) : V2 :=
  let seg := b - a
  let t := (v - a).dot seg / seg.sqlength
  let t := if 1 < t then 1 else if t < 0 then 0 else t
  a + seg.smul t

/-- the loop of `Edge.vector_snap`: keep the strictly closer candidate -/
def edgeSnapLoop (v : V2) : Option (V2 × Rat) → List V2 → Except Err (Option (V2 × Rat))
  | best, a :: b :: rest =>
    if a = b then .error .zeroSegment
    else
      let q := segProject a b v
      let dist := (q - v).sqlength
      let best' := match best with
        | none => some (q, dist)
        | some (bq, bd) => if dist < bd then some (q, dist) else some (bq, bd)
      edgeSnapLoop v best' (b :: rest)
  | best, _ => .ok best

/-- `Edge.vector_snap(vector, …)` -/
def edgeSnap (points : List V2) (v : V2) : Except Err V2 :=
  match edgeSnapLoop v none points with
  | .ok (some (q, _)) => .ok q
  | .ok none => .error .emptyEdge
  | .error e => .error e

/-! ### default routes (`aird/_edge_factories.py`) -/

/-- `route_oblique` -/
def routeOblique (source target : Box) : List V2 := [source.center, target.center]

/-- `route_manhattan` for two boxes -/
def routeManhattan (source target : Box) : Except Err (List V2) :=
  match vectorSnap source source.center target.center .manhattan,
        vectorSnap target target.center source.center .manhattan with
  | .ok sp, .ok tp =>
    if rabs (sp.y - tp.y) < rabs (sp.x - tp.x) then
      let p1 : V2 := ⟨(sp.x + tp.x) / 2, sp.y⟩
      .ok [sp, p1, ⟨p1.x, tp.y⟩, tp]
    else
      let p1 : V2 := ⟨sp.x, (sp.y + tp.y) / 2⟩
      .ok [sp, p1, ⟨tp.x, p1.y⟩, tp]
  | .error e, _ => .error e
  | _, .error e => .error e

/-- `route_tree` on the *bounds* of source and target -/
def routeTree (sb tb : Rect) : List V2 :=
  let s := sb.toBox
  let t := tb.toBox
  let sy := s.pos.y + s.size.y * b2r (t.center.y < s.center.y)
  let ty := t.pos.y + t.size.y * b2r (s.center.y < t.center.y)
  let cy := (sy + ty) / 2
  [⟨s.center.x, sy⟩, ⟨s.center.x, cy⟩, ⟨t.center.x, cy⟩, ⟨t.center.x, ty⟩]

end Capella.Geom
