/-
The YAML layer of `capellambse.decl`: the four marker types ↔ YAML tags (`YDMDumper` / `YDMLoader`),
the two-document metadata layout (`dump`, `load_with_metadata`) and the metadata matcher
(`_verify_metadata`, `_is_pep440`).

PyYAML is a parameter: a document is modelled at the level of PyYAML's *representation graph*
(`ScalarNode` / `MappingNode` / `SequenceNode` with their tags); emitting that graph as text and parsing it
back, implicit typing of plain scalars and the sorting of mapping keys by `yaml.dump` are PyYAML's and are
only sampled by the harness (dict equality in Python ignores key order; here mappings are ordered lists
and `represent` keeps the order).
-/
namespace Capella.DeclYaml

abbrev Str := List Char

/-- values occurring in instruction streams and metadata blocks -/
inductive DVal
  | str (s : Str)                               -- a Python `str`
  | plain (tag : Str) (s : Str)                 -- int / float / bool / None: opaque, PyYAML's business
  | promise (id : Str)                          -- `decl.Promise(id)`
  | uuid (u : Str)                              -- `decl.UUIDReference(u)`
  | find (attrs : List (Str × DVal))            -- `decl.FindBy(attrs)`
  | newobj (ty : DVal) (kw : List (Str × DVal)) -- `NewObject(ty, **kw)` (the hint is a `str`, but nothing checks it)
  | map (kvs : List (Str × DVal))               -- `dict` with `str` keys
  | list (l : List DVal)
  deriving Inhabited

inductive Node
  | scalar (tag : Str) (v : Str)
  | mapping (tag : Str) (kvs : List (Node × Node))
  | seq (tag : Str) (l : List Node)
  deriving Inhabited

def tStr : Str := "str".toList
def tMap : Str := "map".toList
def tSeq : Str := "seq".toList
def tPromise : Str := "!promise".toList
def tUuid : Str := "!uuid".toList
def tFind : Str := "!find".toList
def tNew : Str := "!new_object".toList
def kType : Str := "_type".toList

/-- `attrs["_type"] = type_hint` on a dict: overwrite in place or append -/
def dictSet (k : Str) (v : DVal) : List (Str × DVal) → List (Str × DVal)
  | [] => [(k, v)]
  | (k', v') :: t => if k' = k then (k, v) :: t else (k', v') :: dictSet k v t

/-- `bool(type_hint)` as far as the model can tell: empty strings and containers and `None` are falsy;
other plain scalars (numbers, booleans) are treated as truthy — type hints are strings in practice -/
def truthy : DVal → Bool
  | .str s => !s.isEmpty
  | .plain tag _ => tag != "null".toList
  | .list l => !l.isEmpty
  | .map kvs => !kvs.isEmpty
  | _ => true

mutual
/-- `YDMDumper.represent_data` -/
def represent : DVal → Node
  | .str s => .scalar tStr s
  | .plain tag s => .scalar tag s
  | .promise id => .scalar tPromise id                 -- represent_promise
  | .uuid u => .scalar tUuid u                         -- represent_uuidref
  | .find attrs => .mapping tFind (representKvs attrs) -- represent_findby
  | .newobj ty kw =>                                   -- represent_newobj
    .mapping tNew (if truthy ty then representKvsType (represent ty) kw else representKvs kw)
  | .map kvs => .mapping tMap (representKvs kvs)
  | .list l => .seq tSeq (representList l)
def representKvs : List (Str × DVal) → List (Node × Node)
  | [] => []
  | (k, v) :: t => (.scalar tStr k, represent v) :: representKvs t
/-- the pairs of `kw` with `_type` overwritten in place, or appended at the end -/
def representKvsType (ty : Node) : List (Str × DVal) → List (Node × Node)
  | [] => [(.scalar tStr kType, ty)]
  | (k, v) :: t =>
    if k = kType then (.scalar tStr kType, ty) :: representKvs t
    else (.scalar tStr k, represent v) :: representKvsType ty t
def representList : List DVal → List Node
  | [] => []
  | v :: t => represent v :: representList t
end

inductive YErr
  | typeError     -- "!promise only accepts scalar nodes", non-string keys for `**kw`, …
  | valueError    -- "Malformed UUID", "!new_object requires a _type key"
  | unhashable    -- a mapping key that is not a scalar
  deriving DecidableEq, Repr, Inhabited

/-- `helpers.is_uuid_string`: `[A-Za-z0-9_-]+` -/
def isUuidChar (c : Char) : Bool :=
  ('A' ≤ c && c ≤ 'Z') || ('a' ≤ c && c ≤ 'z') || ('0' ≤ c && c ≤ '9') || c = '_' || c = '-'
def isUuid (s : Str) : Bool := !s.isEmpty && s.all isUuidChar

/-- `data.pop("_type")` on the constructed mapping: the value and the remaining pairs -/
def popType : List (Str × DVal) → Option (DVal × List (Str × DVal))
  | [] => none
  | (k, v) :: t =>
    if k = kType then some (v, t)
    else match popType t with
      | none => none
      | some (ty, rest) => some (ty, (k, v) :: rest)

mutual
/-- `YDMLoader.construct_object` -/
def construct : Node → Except YErr DVal
  | .scalar tag v =>
    if tag = tPromise then .ok (.promise v)                       -- construct_promise
    else if tag = tUuid then                                      -- construct_uuidref
      if isUuid v then .ok (.uuid v) else .error .valueError
    else if tag = tFind || tag = tNew then .error .typeError      -- "only accepts mapping nodes"
    else if tag = tStr then .ok (.str v)
    else .ok (.plain tag v)
  | .mapping tag kvs =>
    if tag = tPromise || tag = tUuid then .error .typeError       -- "only accepts scalar nodes"
    else match constructKvs kvs with
      | .error e => .error e
      | .ok d =>
        if tag = tFind then .ok (.find d)                         -- construct_findby
        else if tag = tNew then                                   -- construct_newobj
          match popType d with
          | none => .error .valueError
          | some (ty, rest) => .ok (.newobj ty rest)
        else .ok (.map d)
  | .seq tag l =>
    if tag = tPromise || tag = tUuid || tag = tFind || tag = tNew then .error .typeError
    else match constructList l with
      | .error e => .error e
      | .ok l' => .ok (.list l')
def constructKvs : List (Node × Node) → Except YErr (List (Str × DVal))
  | [] => .ok []
  | (k, v) :: t =>
    match k with
    | .scalar tag ks =>
      if tag = tStr then
        match construct v with
        | .error e => .error e
        | .ok v' =>
          match constructKvs t with
          | .error e => .error e
          | .ok t' => .ok ((ks, v') :: t')
      else .error .typeError
    | _ => .error .unhashable
def constructList : List Node → Except YErr (List DVal)
  | [] => .ok []
  | v :: t =>
    match construct v with
    | .error e => .error e
    | .ok v' =>
      match constructList t with
      | .error e => .error e
      | .ok t' => .ok (v' :: t')
end

/-! ## `dump` / `load_with_metadata`: one or two documents -/

/-- `dump(instructions, metadata=…)`: `[instructions]` or `[metadata, instructions]` -/
def dumpDocs (instrs : List DVal) (md : List (Str × DVal)) : List Node :=
  if md.isEmpty then [represent (.list instrs)]
  else [represent (.map md), represent (.list instrs)]

/-- Python truthiness of a loaded document, as far as `x or default` needs it -/
def metaOf : DVal → Option (List (Str × DVal))
  | .map kvs => some kvs
  | .plain _ _ => some []        -- `None or {}`
  | _ => none
def instrsOf : DVal → Option (List DVal)
  | .list l => some l
  | .plain _ _ => some []        -- `None or []`
  | _ => none

inductive LoadErr
  | yaml (e : YErr)
  | count            -- "Expected a YAML file with 1 or 2 documents"
  | shape            -- a document of an unexpected kind (not produced by `dump`)
  deriving DecidableEq, Repr, Inhabited

def constructAll : List Node → Except YErr (List DVal)
  | [] => .ok []
  | n :: t =>
    match construct n with
    | .error e => .error e
    | .ok v => match constructAll t with
      | .error e => .error e
      | .ok t' => .ok (v :: t')

/-- `load_with_metadata` on the node graphs of the documents of a stream -/
def loadWithMetadata (docs : List Node) : Except LoadErr (List (Str × DVal) × List DVal) :=
  match constructAll docs with
  | .error e => .error (.yaml e)
  | .ok [m, i] =>
    match metaOf m, instrsOf i with
    | some m', some i' => .ok (m', i')
    | _, _ => .error .shape
  | .ok [i] =>
    match instrsOf i with
    | some i' => .ok ([], i')
    | none => .error .shape
  | .ok [] => .ok ([], [])
  | .ok _ => .error .count

/-! ## `_is_pep440` and `_verify_metadata` -/

def isDigit (c : Char) : Bool := '0' ≤ c && c ≤ '9'
def isNz (c : Char) : Bool := '1' ≤ c && c ≤ '9'

/-- `(0|[1-9][0-9]*)` at the head of `s`: the rest, if it matches -/
def num : Str → Option Str
  | [] => none
  | c :: t => if c = '0' then some t else if isNz c then some (t.dropWhile isDigit) else none

/-- `(\.(0|[1-9][0-9]*))*`, greedy (a `.` not followed by a number ends the repetition) -/
def dotNums : Nat → Str → Str
  | 0, s => s
  | fuel + 1, s =>
    match s with
    | '.' :: t => match num t with
      | some r => dotNums fuel r
      | none => s
    | _ => s

/-- an optional `prefix (0|[1-9][0-9]*)` group -/
def optGroup (pre : Str) (s : Str) : Str :=
  if pre.isPrefixOf s then
    match num (s.drop pre.length) with
    | some r => r
    | none => s
  else s

/-- `([1-9][0-9]*!)?` -/
def optEpoch (s : Str) : Str :=
  match s with
  | c :: t =>
    if isNz c then
      match t.dropWhile isDigit with
      | '!' :: r => r
      | _ => s
    else s
  | [] => s

/-- `((a|b|rc)(0|[1-9][0-9]*))?` -/
def preStage (r : Str) : Str :=
  match r with
  | 'a' :: _ => optGroup "a".toList r
  | 'b' :: _ => optGroup "b".toList r
  | 'r' :: _ => optGroup "rc".toList r
  | _ => r

/-- `pep440_ptrn.fullmatch(version) is not None` -/
def isPep440 (s : Str) : Bool :=
  match num (optEpoch s) with
  | none => false
  | some r => (optGroup ".dev".toList (optGroup ".post".toList (preStage (dotNums r.length r)))).isEmpty

/-- the metadata block as `_verify_metadata` reads it (`.get(…, default)`) -/
structure Meta where
  present : Bool                 -- `bool(metadata)`
  writtenBy : Str                -- metadata.get("written_by", {}).get("capellambse", "")
  url : Option Str               -- model.url
  revision : Option Str
  entrypoint : Str               -- str(PurePosixPath(model.get("entrypoint", "")))

/-- what the model under modification reports (`model.info`) -/
structure Info where
  url : Option Str
  revHash : Option Str
  entrypoint : Str

inductive VErr
  | noMetadata | noWriter | malformedVersion | tooOld | url | revision | entrypoint
  deriving DecidableEq, Repr, Inhabited

/-- `_verify_metadata`; `newEnough` is AwesomeVersion's `current >= written_by` (a parameter) -/
def verifyMetadata (newEnough : Bool) (info : Info) (m : Meta) : Except VErr Unit :=
  if !m.present then .error .noMetadata
  else if m.writtenBy.isEmpty then .error .noWriter
  else if !isPep440 m.writtenBy then .error .malformedVersion
  else if !newEnough then .error .tooOld
  else if m.url != info.url then .error .url
  else if m.revision != info.revHash then .error .revision
  else if m.entrypoint != info.entrypoint then .error .entrypoint
  else .ok ()

end Capella.DeclYaml
