/-!
Model of model fragmentation and of the loader's navigation across fragment boundaries (property C06).

A monolithic model is a `Tree`. On disk a fragmented model is a `Store`: a main file and fragment files,
each an `FNode` tree in which a cut subtree is replaced by a placeholder `href` (containment tag,
`xsi:type`, target id) while the subtree itself is the root of another file, its tag replaced by the
class name (`rootTag`).  `split cut t` is Capella's fragmentation for an arbitrary set `cut` of keys
(nested cuts allowed; the root of the model cannot be cut).  `mono t = split (fun _ => false) t`.

Navigation mirrors `capellambse.loader.core.MelodyLoader` (after the `fix:` commits e9d8944, 9d2e865):

* `findT`, `resolve`      — `ModelFile.__getitem__` / `MelodyLoader.__getitem__` → `follow_link`: the id is looked
                            up in every file; none or more than one match is an error (`none`)
* `followHref`            — `_follow_href`
* `childrenXt`            — `iterchildren_xt` (placeholders followed, then filtered by `xtype_of`)
* `descN`/`descL`, `descendants`, `descendantsXt` — `iterdescendants` (an iterator stack; a placeholder is
                            replaced by its target, the tag filter uses the *placeholder's* tag), `iterdescendants_xt`
* `parentT`, `fparent`    — `element.getparent()`, and for a file root `_unfollow_href(id).getparent()`
                            (`ModelFile.unfollow_href` via the per-file `href` index; all files here are semantic)
* `ancestors`             — `iterancestors` (unfiltered) ; `ancestorsTagged` — with a tag set
* `searchBelow`           — `MelodyModel.search(*xtypes, below=b)`: all indexed non-placeholder elements
                            whose ancestors contain `b`
* `fileOf`                — `find_fragment`: the file whose root is the root of the element's tree
* `rawChildren`           — `element.iterchildren(tag)` without following placeholders, as
                            `LinkAccessor.__find_refs` and `SpecificationAccessor.__get__` do

Recursion through `resolve` is not structural, hence the `fuel` arguments; the theorems hold for every
fuel above an explicit bound (`fuelT`).  Elements are identified by `key` (document position in the
monolithic tree; elements without an XML id have keys too — the harness assigns them).  Core Lean only.
-/
namespace Capella.Frag

abbrev Str := List Char
abbrev Key := Nat

inductive Tree where
  | node (key : Key) (tag : Str) (xt : Option Str) (kids : List Tree)
deriving Repr

namespace Tree
def key : Tree → Key | .node k _ _ _ => k
def tag : Tree → Str | .node _ t _ _ => t
def xt : Tree → Option Str | .node _ _ x _ => x
def kids : Tree → List Tree | .node _ _ _ ks => ks
end Tree

inductive FNode where
  | elem (key : Key) (tag : Str) (xt : Option Str) (kids : List FNode)
  | href (tag : Str) (xt : Option Str) (target : Key)
deriving Repr

namespace FNode
def kids : FNode → List FNode
  | .elem _ _ _ ks => ks
  | .href .. => []
def isHref : FNode → Bool
  | .href .. => true
  | .elem .. => false
end FNode

/-- what can be observed of an element: (tag used by tag filters, key, `xtype_of`) -/
abbrev Obs := Str × Key × Option Str

/-- the tag of a fragment root: the namespace-qualified class name, i.e. the text of its former `xsi:type` -/
def rootTag (xt : Option Str) : Str := xt.getD []

structure Store where
  main : FNode
  frags : List FNode
deriving Repr

def Store.files (st : Store) : List FNode := st.main :: st.frags

/-! ### fragmentation -/

mutual
/-- returns the node that stays in the current file and the fragment files created below it -/
def splitT (cut : Key → Bool) : Tree → FNode × List FNode
  | .node k tag xt kids =>
    let r := splitL cut kids
    if cut k then (.href tag xt k, .elem k (rootTag xt) xt r.1 :: r.2)
    else (.elem k tag xt r.1, r.2)
def splitL (cut : Key → Bool) : List Tree → List FNode × List FNode
  | [] => ([], [])
  | t :: ts =>
    let a := splitT cut t
    let b := splitL cut ts
    (a.1 :: b.1, a.2 ++ b.2)
end

/-- Capella's fragmentation of `t` at the elements whose key satisfies `cut` (the root stays) -/
def split (cut : Key → Bool) : Tree → Store
  | .node k tag xt kids =>
    let r := splitL cut kids
    ⟨.elem k tag xt r.1, r.2⟩

/-- the single-file layout -/
def mono (t : Tree) : Store := split (fun _ => false) t

/-! ### the monolithic tree: specification-side functions -/

mutual
def keysT : Tree → List Key
  | .node k _ _ kids => k :: keysL kids
def keysL : List Tree → List Key
  | [] => []
  | t :: ts => keysT t ++ keysL ts
end

mutual
/-- all subtrees, the tree itself first (document order) -/
def subT : Tree → List Tree
  | .node k tag xt kids => .node k tag xt kids :: subL kids
def subL : List Tree → List Tree
  | [] => []
  | t :: ts => subT t ++ subL ts
end

def obsT (t : Tree) : Obs := (t.tag, t.key, t.xt)

mutual
/-- proper descendants in document order -/
def mdescT : Tree → List Obs
  | .node _ _ _ kids => mdescL kids
def mdescL : List Tree → List Obs
  | [] => []
  | t :: ts => (obsT t :: mdescT t) ++ mdescL ts
end

mutual
/-- (parent key, child key) for every containment edge -/
def edgesT : Tree → List (Key × Key)
  | .node k _ _ kids => kids.map (fun c => (k, c.key)) ++ edgesL kids
def edgesL : List Tree → List (Key × Key)
  | [] => []
  | t :: ts => edgesT t ++ edgesL ts
end

mutual
/-- fuel that suffices to walk the tree -/
def fuelT : Tree → Nat
  | .node _ _ _ kids => fuelL kids + 1
def fuelL : List Tree → Nat
  | [] => 1
  | t :: ts => fuelT t + fuelL ts + 1
end

/-! ### lookup by id -/

mutual
/-- the element with key `k` in one file (placeholders carry no id and are not entered) -/
def findT (k : Key) : FNode → Option FNode
  | .elem k' tag xt kids => if k' = k then some (.elem k' tag xt kids) else findL k kids
  | .href .. => none
def findL (k : Key) : List FNode → Option FNode
  | [] => none
  | n :: ns =>
    match findT k n with
    | some r => some r
    | none => findL k ns
end

/-- `loader[id]`: exactly one match over all files, else an error -/
def resolve (st : Store) (k : Key) : Option FNode :=
  match st.files.filterMap (findT k) with
  | [m] => some m
  | _ => none

def followHref (st : Store) : FNode → Option FNode
  | .href _ _ k => resolve st k
  | e => some e

/-- membership in the `xtypes`/`tags` argument; an empty argument list means "everything" -/
def inSet {α : Type} [BEq α] (s : List α) (x : α) : Bool := s.isEmpty || s.contains x

def obsF : FNode → Obs
  | .elem k tag xt _ => (tag, k, xt)
  | .href tag xt k => (tag, k, xt)

/-- `iterchildren_xt(element, *xtypes)` -/
def childrenXtL (st : Store) (xts : List (Option Str)) : List FNode → Option (List FNode)
  | [] => some []
  | c :: cs =>
    match followHref st c with
    | none => none
    | some real =>
      match childrenXtL st xts cs with
      | none => none
      | some rest => some (if inSet xts (obsF real).2.2 then real :: rest else rest)

def childrenXt (st : Store) (xts : List (Option Str)) (k : Key) : Option (List (Key × Option Str)) :=
  match resolve st k with
  | none => none
  | some n => (childrenXtL st xts n.kids).map (·.map (fun c => ((obsF c).2.1, (obsF c).2.2)))

mutual
/-- `iterdescendants`: the node (a placeholder replaced by its target, observed under the placeholder's
tag) followed by its descendants -/
def descN (st : Store) : Nat → FNode → Option (List Obs)
  | 0, _ => none
  | f + 1, .elem k tag xt kids => (descL st f kids).map (fun r => (tag, k, xt) :: r)
  | f + 1, .href tag _ k =>
    match resolve st k with
    | none => none
    | some real => (descL st f real.kids).map (fun r => (tag, (obsF real).2.1, (obsF real).2.2) :: r)
def descL (st : Store) : Nat → List FNode → Option (List Obs)
  | 0, _ => none
  | _ + 1, [] => some []
  | f + 1, n :: ns =>
    match descN st f n with
    | none => none
    | some a =>
      match descL st f ns with
      | none => none
      | some b => some (a ++ b)
end

/-- `iterdescendants(loader[k], *tags)` as (tag, key, xtype) triples -/
def descendants (st : Store) (fuel : Nat) (tags : List Str) (k : Key) : Option (List Obs) :=
  match resolve st k with
  | none => none
  | some n => (descL st fuel n.kids).map (·.filter (fun o => inSet tags o.1))

/-- `iterdescendants_xt(loader[k], *xtypes)` -/
def descendantsXt (st : Store) (fuel : Nat) (xts : List (Option Str)) (k : Key) : Option (List Obs) :=
  (descendants st fuel [] k).map (·.filter (fun o => inSet xts o.2.2))

/-! ### upward navigation -/

def isChild (viaHref : Bool) (k : Key) : FNode → Bool
  | .elem k' _ _ _ => !viaHref && k' == k
  | .href _ _ k' => viaHref && k' == k

mutual
/-- key of the element that has element `k` (`viaHref = false`) resp. a placeholder for `k`
(`viaHref = true`) among its children -/
def parentT (viaHref : Bool) (k : Key) : FNode → Option Key
  | .elem p _ _ kids => if kids.any (isChild viaHref k) then some p else parentL viaHref k kids
  | .href .. => none
def parentL (viaHref : Bool) (k : Key) : List FNode → Option Key
  | [] => none
  | n :: ns =>
    match parentT viaHref k n with
    | some r => some r
    | none => parentL viaHref k ns
end

/-- one step of `iterancestors`: `getparent()`, or for a file root the parent of the placeholder that
links to it -/
def fparent (st : Store) (k : Key) : Option Key :=
  match st.files.findSome? (parentT false k) with
  | some p => some p
  | none => st.files.findSome? (parentT true k)

/-- `iterancestors(loader[k])`, nearest first -/
def ancestors (st : Store) : Nat → Key → List Key
  | 0, _ => []
  | f + 1, k =>
    match fparent st k with
    | none => []
    | some p => p :: ancestors st f p

/-- the element's own tag as `iterancestors(..., *tags)` sees it -/
def ownTag (st : Store) (k : Key) : Str :=
  match resolve st k with
  | some n => (obsF n).1
  | none => []

def ancestorsTagged (st : Store) (fuel : Nat) (tags : List Str) (k : Key) : List Key :=
  (ancestors st fuel k).filter (fun a => inSet tags (ownTag st a))

mutual
/-- the elements of one file (placeholders are not elements) -/
def elemsT : FNode → List FNode
  | .elem k tag xt kids => .elem k tag xt kids :: elemsL kids
  | .href .. => []
def elemsL : List FNode → List FNode
  | [] => []
  | n :: ns => elemsT n ++ elemsL ns
end

def fkey : FNode → Key
  | .elem k _ _ _ => k
  | .href _ _ k => k

def Store.elems (st : Store) : List FNode := st.files.flatMap elemsT

/-- `model.search(*xtypes, below=b)` as a list of keys (order: file by file) -/
def searchBelow (st : Store) (fuel : Nat) (xts : List (Option Str)) (b : Key) : List Key :=
  (st.elems.filter (fun e => inSet xts (obsF e).2.2 && (ancestors st fuel (fkey e)).contains b)).map fkey

/-- `find_fragment(loader[k])`: the key of the root of the file that contains element `k` -/
def fileOf (st : Store) (k : Key) : Option Key :=
  (st.files.find? (fun f => (findT k f).isSome)).map fkey

/-- `element.iterchildren()` without following placeholders (what `LinkAccessor.__find_refs` and
`SpecificationAccessor` read): keys of the children that are real elements of the same file -/
def rawChildren (st : Store) (k : Key) : Option (List Key) :=
  (resolve st k).map (fun n => (n.kids.filter (fun c => !c.isHref)).map fkey)

mutual
/-- (key, key of the root of the file that owns it): the owner of an element is its nearest cut
ancestor-or-self, and the root of the model if there is none. `cur` is the owner inherited from above. -/
def ownT (cut : Key → Bool) (cur : Key) : Tree → List (Key × Key)
  | .node k _ _ kids => (k, if cut k then k else cur) :: ownL cut (if cut k then k else cur) kids
def ownL (cut : Key → Bool) (cur : Key) : List Tree → List (Key × Key)
  | [] => []
  | t :: ts => ownT cut cur t ++ ownL cut cur ts
end

def owners (cut : Key → Bool) (t : Tree) : List (Key × Key) := (t.key, t.key) :: ownL cut t.key t.kids

end Capella.Frag
