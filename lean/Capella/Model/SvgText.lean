/-!
The text path of the SVG output: how a label line / an attribute value is written by `svgwrite`
(`xml.etree.ElementTree.tostring` → `_escape_cdata` / `_escape_attrib`) and what an XML parser reads back.
svgwrite itself stays a parameter; this is the escaping it is *assumed* to apply (compared with the real
`TSpan(...).tostring()` / `Group(...).tostring()` on every run). Core Lean only.
-/
namespace Capella.SvgText

abbrev Str := List Char

/-- `xml.etree.ElementTree._escape_cdata`: `&`, `<`, `>` -/
def escText : Str → Str
  | [] => []
  | c :: t =>
    (if c = '&' then "&amp;".toList else if c = '<' then "&lt;".toList else if c = '>' then "&gt;".toList else [c])
      ++ escText t

/-- `xml.etree.ElementTree._escape_attrib`: `&`, `<`, `>`, `"`, CR, LF, TAB -/
def escAttr : Str → Str
  | [] => []
  | c :: t =>
    (if c = '&' then "&amp;".toList else if c = '<' then "&lt;".toList else if c = '>' then "&gt;".toList
     else if c = '"' then "&quot;".toList else if c = '\r' then "&#13;".toList else if c = '\n' then "&#10;".toList
     else if c = '\t' then "&#09;".toList else [c]) ++ escAttr t

/-- the references the two escapers produce -/
def refs : List (Str × Char) :=
  [("amp;".toList, '&'), ("lt;".toList, '<'), ("gt;".toList, '>'), ("quot;".toList, '"'),
   ("#13;".toList, '\r'), ("#10;".toList, '\n'), ("#09;".toList, '\t')]

def matchRef (s : Str) : List (Str × Char) → Option (Char × Str)
  | [] => none
  | (name, c) :: rs => if name.isPrefixOf s then some (c, s.drop name.length) else matchRef s rs

/-- character data / an attribute value as an XML parser reads it: references replaced; `none` for what is not
well-formed (a bare `<`, a `&` that starts no known reference) and for a raw CR (a parser would normalise it to LF:
outside this model — label lines come from `str.splitlines()` and contain none). `fuel` = length of the input. -/
def unescGo : Nat → Str → Option Str
  | _, [] => some []
  | 0, _ :: _ => none
  | fuel + 1, c :: t =>
    if c = '<' ∨ c = '\r' then none
    else if c = '&' then
      match matchRef t refs with
      | some (x, rest) => (unescGo fuel rest).map (x :: ·)
      | none => none
    else (unescGo fuel t).map (c :: ·)

def unesc (s : Str) : Option Str := unescGo s.length s

/-- XML 1.0 `Char` -/
def xmlLegal (c : Char) : Bool :=
  let n := c.toNat
  n = 9 || n = 10 || n = 13 || (32 ≤ n && n ≤ 0xD7FF) || (0xE000 ≤ n && n ≤ 0xFFFD) || (0x10000 ≤ n && n ≤ 0x10FFFF)

end Capella.SvgText
