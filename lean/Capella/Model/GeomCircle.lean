/-
`diagram.Circle.vector_snap` as a relation over exact rationals.

The code returns `center + direction.normalized * radius`, which needs a square root; the model states what that
point satisfies instead, with squared lengths and cross/dot products only:

  the result `r` lies on the circle (`|r - c|² = radius²`) and `r - c` is a non-negative multiple of the direction
  (`cross (r - c) d = 0 ∧ 0 ≤ (r - c)·d`),

where the direction `d` is `vector - center`, or `source - vector` when `vector` is the centre itself (as repaired;
`circleDirOld` is the direction the code used before: the *absolute* `vector`).  `assert vector != (0, 0)` is `d ≠ 0`.

Core Lean only.
-/
import Capella.Model.Geom

namespace Capella.Geom

def cross (a b : V2) : Rat := a.x * b.y - a.y * b.x

/-- the direction in which the point is pushed onto the circle -/
def circleDir (c vector source : V2) : V2 := if vector = c then source - vector else vector - c

/-- the direction the code used before the repair: the position vector of `vector` itself -/
def circleDirOld (c vector source : V2) : V2 := if vector = c then source - vector else vector

/-- "`r` is the point of the circle around `c` in direction `d`" -/
def onCircleInDir (c : V2) (radius : Rat) (d r : V2) : Prop :=
  d ≠ ⟨0, 0⟩ ∧ (r - c).sqlength = radius * radius ∧ cross (r - c) d = 0 ∧ 0 ≤ (r - c).dot d

instance (c : V2) (radius : Rat) (d r : V2) : Decidable (onCircleInDir c radius d r) := by
  unfold onCircleInDir; infer_instance

/-- `Circle(c, radius).vector_snap(vector, source=source)` may return `r` -/
def circleSnapRel (c : V2) (radius : Rat) (vector source r : V2) : Prop :=
  onCircleInDir c radius (circleDir c vector source) r

/-- … before the repair -/
def circleSnapRelOld (c : V2) (radius : Rat) (vector source r : V2) : Prop :=
  onCircleInDir c radius (circleDirOld c vector source) r

instance (c : V2) (radius : Rat) (v s r : V2) : Decidable (circleSnapRel c radius v s r) := by
  unfold circleSnapRel; infer_instance
instance (c : V2) (radius : Rat) (v s r : V2) : Decidable (circleSnapRelOld c radius v s r) := by
  unfold circleSnapRelOld; infer_instance

end Capella.Geom
