/-
Typed find keys of `decl`'s sync operator: does the second run find what the first one created?

`decl._operate_sync` creates a missing object from `find | set | extend` (every key is assigned with
`setattr`, i.e. through the attribute's POD descriptor) and looks for it on the next run with
`_resolve_findby.do_filter`: `operator.attrgetter(key)(obj) == expected` — the *read-back* value of the
descriptor against the *YAML* value. Whether that holds depends on the descriptor class
(`StringPOD`, `HTMLStringPOD`, `BoolPOD`, `IntPOD`, `FloatPOD`, `DatetimePOD`, `EnumPOD` of
`/repo/capellambse/model/_pods.py`). The descriptors themselves are the C07 model
(`Capella.Pods.set` / `get` / `toXml` / `fromXml`, imported, not copied); this file adds

* `pyEq`       — Python's `==` between a value a descriptor returns and a YAML value
                 (`True == 1`, `1 == 1.0`, `0.0 == -0.0`, `nan != nan`, `_StringyEnumMixin.__eq__`:
                 an enum member equals its *name*, aware `datetime` == aware `datetime` iff same instant,
                 aware != naive, `"" != None`);
* `roundTrip`  — `setattr(obj, attr, v)` followed by `getattr(obj, attr)`;
* `findsOwn`   — `do_filter` on the object created from `v`: "the second run finds it";
* `syncTwice`  — what two runs of `find: {attr: v}` do: found / creates again / first run raises;
* `keyOk`      — the values for which the theorems (`Lemmas/DeclTyped.lean`) prove `findsOwn`.

What CPython does on floats and datetimes beyond C07's `Params` is the parameter `Cmp`
(`x == y`, `x == i` for a float and an int — exact in CPython —, `==` of datetimes); `dtCmp` is the
concrete instance for C07's concrete datetime codec. Core Lean only.
-/
import Capella.Model.PodsDt

namespace Capella.DeclTyped
open Capella.Pods

/-- Python's `==` where C07's `Params` is silent -/
structure Cmp (P : Params) where
  /-- `x == y` for two finite floats -/
  fEq : P.F → P.F → Bool
  /-- `x == i` for a finite float and an int (CPython compares exactly, no rounding of `i`) -/
  fEqInt : P.F → Int → Bool
  /-- naive `datetime` == naive `datetime` -/
  nEq : P.N → P.N → Bool
  /-- aware `datetime` == aware `datetime`: the same instant -/
  tEq : P.T → P.T → Bool

/-- the laws assumed about `Cmp` (sampled on the implementation by harness/props/c13.py) -/
structure Cmp.Lawful {P : Params} (C : Cmp P) : Prop where
  fEq_refl : ∀ x, C.fEq x x = true
  /-- `0.0 == -0.0` -/
  fEq_zero : ∀ x y, P.fIsZero x = true → P.fIsZero y = true → C.fEq x y = true
  /-- `0.0 == 0`, `-0.0 == 0` -/
  fEqInt_zero : ∀ x, P.fIsZero x = true → C.fEqInt x 0 = true
  tEq_refl : ∀ t, C.tEq t t = true

/-- the numeric tower: `bool` is an `int`; `int` and `float` compare by value -/
def numOf {P : Params} : PyVal P → Option (Int ⊕ FloatV P.F)
  | .bool b => some (.inl (if b then 1 else 0))
  | .int i => some (.inl i)
  | .float f => some (.inr f)
  | _ => none

/-- `a == b` on numbers: `nan` equals nothing, `inf` only `inf` -/
def numEq {P : Params} (C : Cmp P) : Int ⊕ FloatV P.F → Int ⊕ FloatV P.F → Bool
  | .inl i, .inl j => decide (i = j)
  | .inl i, .inr (.fin x) => C.fEqInt x i
  | .inr (.fin x), .inl i => C.fEqInt x i
  | .inr (.fin x), .inr (.fin y) => C.fEq x y
  | .inr .inf, .inr .inf => true
  | .inr .ninf, .inr .ninf => true
  | _, _ => false

/-- `_StringyEnumMixin.__eq__(member, str)`: `member.name == other` — only for the mixin's classes;
a plain `enum.Enum` member never equals a string -/
def memberEqStr (d : Desc) (cls name s : Str) : Bool :=
  match d.kind with
  | .enum e _ => e.stringy && decide (cls = e.name) && decide (name = s)
  | _ => false

/-- `real_values == expected_values` of `_resolve_findby.do_filter` for one key: `w` is what the
descriptor `d` returned, `v` the YAML value -/
def pyEq (P : Params) (C : Cmp P) (d : Desc) (w v : PyVal P) : Bool :=
  match numOf w, numOf v with
  | some a, some b => numEq C a b
  | some _, none => false
  | none, some _ => false
  | none, none =>
    match w, v with
    | .none, .none => true
    | .str a, .str b => decide (a = b)
    | .member c n _, .str s => memberEqStr d c n s
    | .str s, .member c n _ => memberEqStr d c n s
    | .member c n _, .member c' n' _ => decide (c = c') && decide (n = n')   -- `self is other`
    | .naive a, .naive b => C.nEq a b
    | .aware a, .aware b => C.tEq a b                                        -- aware vs naive: False
    | .selector a, .selector b => decide (a = b)
    | _, _ => false

/-- `setattr(obj, attr, v); getattr(obj, attr)` on an element with attributes `a`
(`BasePOD.__set__` then `BasePOD.__get__`) -/
def roundTrip (P : Params) (d : Desc) (a : Attrs) (v : PyVal P) : Except Err (PyVal P) :=
  match Pods.set P d a v with
  | .error e => .error e
  | .ok a' => Pods.get P d a'

/-- the kind's normalisation: what the attribute holds after `v` was assigned (`v` itself when the
assignment is refused) -/
def norm (P : Params) (d : Desc) (a : Attrs) (v : PyVal P) : PyVal P :=
  match roundTrip P d a v with
  | .ok w => w
  | .error _ => v

/-- `do_filter(created)` for the find key `attr: v`: the object created by the first run (its
attribute assigned from `v`) is found by the second -/
def findsOwn (P : Params) (C : Cmp P) (d : Desc) (a : Attrs) (v : PyVal P) : Bool :=
  match roundTrip P d a v with
  | .ok w => pyEq P C d w v
  | .error _ => false

inductive Twice
  /-- first run creates, second run finds -/
  | found
  /-- first run creates, second run creates another object -/
  | createsAgain
  /-- the first run raises while creating (the value is not accepted by the descriptor) -/
  | rejected (e : Err)
deriving DecidableEq, Repr

/-- two runs of `sync: {list: [{find: {attr: v}}]}` below a parent that has no such object yet -/
def syncTwice (P : Params) (C : Cmp P) (d : Desc) (a : Attrs) (v : PyVal P) : Twice :=
  match roundTrip P d a v with
  | .error e => .rejected e
  | .ok w => if pyEq P C d w v then .found else .createsAgain

/-- `float(i) == i`: the int is exactly representable -/
def exactInt (P : Params) (C : Cmp P) (i : Int) : Bool :=
  match P.fOfInt i with
  | some x => C.fEqInt x i
  | none => false

/-- The find-key values proved to be found again: values of the attribute's own type (C07's `valid`)
that are fixed points of assignment followed by reading —
every XML-legal string; an HTML string that `repair_html` leaves unchanged; `True`/`False`; any int
(and bool) for an int attribute; every float but `nan`/`-inf`, and the ints a float holds exactly, for a
float attribute; YAML null or an aware timestamp with whole milliseconds for a timestamp attribute; the
name of any member (the default member included) for an enum attribute.
Not in it: YAML null for any other kind (`"" != None`), naive timestamps, sub-millisecond timestamps,
ints beyond float precision, HTML that is re-escaped. -/
def keyOk (P : Params) (C : Cmp P) (d : Desc) (v : PyVal P) : Bool :=
  valid P d v &&
  match d.kind, v with
  | .string, .str _ => true
  | .html, .str s => decide (P.repair s = some s)
  | .bool, .bool _ => true
  | .int, .int _ => true
  | .int, .bool _ => true
  | .float, .float _ => true
  | .float, .int i => exactInt P C i
  | .float, .bool b => exactInt P C (if b then 1 else 0)
  | .datetime, .none => true
  | .datetime, .aware t => C.tEq (P.truncMs t) t
  | .enum _ _, .str _ => true
  | _, _ => false

/-! ## the concrete datetime comparison (for `withDT`) -/

/-- days since 0000-03-01 of the proleptic Gregorian calendar (`date.toordinal` up to a constant) -/
def daysFromCivil (y mo d : Nat) : Int :=
  let y' : Int := if mo ≤ 2 then (y : Int) - 1 else y
  let m' : Int := if mo ≤ 2 then (mo : Int) + 9 else (mo : Int) - 3
  365 * y' + y' / 4 - y' / 100 + y' / 400 + (153 * m' + 2) / 5 + (d : Int)

/-- the instant of an aware datetime in microseconds: local fields minus `utcoffset` -/
def DT.instant (t : DT) : Int :=
  ((((daysFromCivil t.y t.mo t.d * 24 + t.h) * 60 + t.mi) * 60 + t.s) * 1000000 + t.us) - t.off

/-- `Cmp` for a parameter instance whose aware datetimes are `DT` -/
def dtCmp (P : Params) (localize : P.N → Option DT) (foreign : Str → Option (P.N ⊕ DT))
    (fEq : P.F → P.F → Bool) (fEqInt : P.F → Int → Bool) (nEq : P.N → P.N → Bool) :
    Cmp (withDT P localize foreign) :=
  { fEq := fEq, fEqInt := fEqInt, nEq := nEq, tEq := fun a b => decide (DT.instant a = DT.instant b) }

end Capella.DeclTyped
