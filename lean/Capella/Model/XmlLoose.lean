import Capella.Model.XmlEdit
/-
The empty string as element text.  The object layer really does this (`bodies.text = ""` when a
specification body is set to `""`); lxml then reports `""`, the writer emits `<bodies></bodies>` and the
reader reports "no text".  `""` and "no text" are the same XML information, so the theorems about
`save()` + reload are stated up to `dropDoc` (every `""` text replaced by "no text").

`fillDoc` (every `""` replaced by a one-letter text) is a device: a document is Capella-shaped up to
empty texts (`wfDocE`) iff its filled version is Capella-shaped, and an edit is acceptable up to empty
texts (`Edit.okE`) iff the filled edit is acceptable on the filled document.
-/
namespace Capella.Xml

/-- `""` → no text -/
def dropT : Option Str → Option Str
  | some [] => none
  | o => o

/-- `""` → some text (proof device) -/
def fillT : Option Str → Option Str
  | some [] => some ['x']
  | o => o

mutual
def dropE : Elem → Elem
  | .mk t n a x tl ks => .mk t n a (dropT x) tl (dropL ks)
def dropL : List Elem → List Elem
  | [] => []
  | k :: ks => dropE k :: dropL ks
end

mutual
def fillE : Elem → Elem
  | .mk t n a x tl ks => .mk t n a (fillT x) tl (fillL ks)
def fillL : List Elem → List Elem
  | [] => []
  | k :: ks => fillE k :: fillL ks
end

def dropDoc (d : Doc) : Doc := ⟨d.pre, dropE d.root, d.post⟩
def fillDoc (d : Doc) : Doc := ⟨d.pre, fillE d.root, d.post⟩

/-- Capella-shaped up to empty-string texts: as `wfDoc`, but the text of a childless element may be `""` -/
def wfDocE (d : Doc) : Bool := wfDoc (fillDoc d)

def fillEdit : Edit → Edit
  | .setText p t => .setText p (fillT t)
  | .insertKid p i kid => .insertKid p i (fillE kid)
  | e => e

/-- the contract of the object layer up to empty texts: as `Edit.ok`, but `element.text = ""` on a
childless element is accepted, and inserted subtrees may contain such texts -/
def Edit.okE (ed : Edit) (d : Doc) : Bool := (fillEdit ed).ok (fillDoc d)

def okAllE : List Edit → Doc → Bool
  | [], _ => true
  | e :: es, d => e.okE d && okAllE es (e.apply d)

/-- index of the first edit of a script that is not accepted in the document it meets -/
def firstBadE : List Edit → Doc → Nat → Option Nat
  | [], _, _ => none
  | e :: es, d, i => if e.okE d then firstBadE es (e.apply d) (i + 1) else some i

/-- what the harness checks of an API history: every observed step `esᵢ` is accepted (up to empty texts)
in the document the previous steps led to -/
def okSteps : List (List Edit) → Doc → Bool
  | [], _ => true
  | s :: rest, d => okAllE s d && okSteps rest (applyAll s d)

end Capella.Xml
