/-
Model of the linked-text codec of py-capellambse (`/repo/capellambse/helpers.py`):

* `htmlEscape`                 — `html.escape(s)` (quote=True);
* `Node`, `Frags`              — what `lxml.html.fragments_fromstring` returns, as far as the two walks
                                 look at it (tag, `href`, text, children, tail; optional leading string);
* `escNode` / `escapeFrags`    — `escape_linked_text.flatten_element` and the join (ValueError for
                                 nesting and for tags other than `a`);
* `unescNode` / `unescapeFrags`— `unescape_linked_text.flatten_element` (broken link, deleted element,
                                 unnamed element, live link with the target's current name, recursion
                                 through other elements) and the join;
* `parseSub`                   — libxml2's HTML parser + `fragments_fromstring` on the sub-language the two
                                 functions themselves produce and Capella writes: text runs (any XML-legal
                                 character except CR, `<`, `&`; the five references `html.escape` emits),
                                 `<a href="…"/>` and `<a href="…">text</a>`. Anything else is *foreign*
                                 (`none`): there libxml2 stays a parameter (oracle), tied at `Frags` level.
* `escapeLinked` / `unescapeLinked` — the two functions on strings of the sub-language.

`look` stands for `loader[href]` + `target.get("name")`.
Text is `List Char`. Core Lean only.
-/
import Capella.Model.Pods

namespace Capella.Pods

/-! ## `html.escape` -/

def sAmp : Str := ['&', 'a', 'm', 'p', ';']
def sLt : Str := ['&', 'l', 't', ';']
def sGt : Str := ['&', 'g', 't', ';']
def sQuot : Str := ['&', 'q', 'u', 'o', 't', ';']
def sApos : Str := ['&', '#', 'x', '2', '7', ';']

/-- one character of `html.escape(s, quote=True)` -/
def escChar (c : Char) : Str :=
  if c = '&' then sAmp else if c = '<' then sLt else if c = '>' then sGt
  else if c = '"' then sQuot else if c = '\'' then sApos else [c]

def htmlEscape : Str → Str
  | [] => []
  | c :: r => escChar c ++ htmlEscape r

/-! ## Parsed fragments -/

/-- an element as the walks see it: `elm.tag`, `elm.get("href")`, `elm.text or ""`, children,
`elm.tail or ""` (comments / processing instructions have a non-string tag: any tag ≠ `a`) -/
inductive Node
  | mk (tag : Str) (href : Option Str) (text : Str) (kids : List Node) (tail : Str)
deriving Repr

/-- result of `lxml.html.fragments_fromstring`: an optional leading string, then elements -/
structure Frags where
  lead : Option Str
  nodes : List Node
deriving Repr

def tagA : Str := ['a']
def hlink : Str := ['h', 'l', 'i', 'n', 'k', ':', '/', '/']

def aOpen : Str := ['<', 'a', ' ', 'h', 'r', 'e', 'f', '=', '"']
def aEmptyClose : Str := ['"', '/', '>']
def aOpenHlink : Str := aOpen ++ hlink
def aMid : Str := ['"', '>']
def aClose : Str := ['<', '/', 'a', '>']

/-! ## `escape_linked_text` -/

/-- `flatten_element` of `escape_linked_text` for an element -/
def escNode : Node → Except Err Str
  | .mk tag href text kids tail =>
    if tag = tagA then
      let link : Str :=
        match href with
        | none => htmlEscape text
        | some h =>
          if hlink.isPrefixOf h then aOpen ++ htmlEscape (h.drop hlink.length) ++ aEmptyClose
          else htmlEscape text
      if kids.length > 0 then .error .valueError      -- "Nesting is not allowed in LinkedText"
      else .ok (link ++ htmlEscape tail)
    else .error .valueError                            -- "Only 'a' tags are allowed in LinkedText"

def escNodes : List Node → Except Err Str
  | [] => .ok []
  | n :: r =>
    match escNode n with
    | .error e => .error e
    | .ok a => match escNodes r with
      | .error e => .error e
      | .ok b => .ok (a ++ b)

/-- `"".join(chain.from_iterable(flatten_element(i) for i in elements))` -/
def escapeFrags (f : Frags) : Except Err Str :=
  match escNodes f.nodes with
  | .error e => .error e
  | .ok b => .ok (htmlEscape (f.lead.getD []) ++ b)

/-! ## `unescape_linked_text` -/

/-- `loader[href]` and `target.get("name")` -/
inductive Target
  | named (n : Str)       -- found, non-empty `name`
  | unnamed               -- found, no (or empty) `name`
  | missing               -- KeyError: no such element, or ambiguous
  | malformed             -- `follow_link` raises ValueError ("Malformed link") / TypeError (xtype
                          -- mismatch); since the repair treated like `missing`
deriving DecidableEq, Repr

def sBroken : Str := "&lt;broken link&gt;".toList
def sDeletedL : Str := "&lt;deleted element ".toList
def sUnnamedL : Str := "&lt;unnamed element ".toList
def sEntGt : Str := sGt

mutual
/-- `flatten_element` of `unescape_linked_text` for an element (`except (KeyError, ValueError, TypeError)`:
a link id that `follow_link` rejects is a deleted element; before the repair its ValueError escaped, see
`unescLinkOld`). -/
def unescNode (look : Str → Target) : Node → Except Err Str
  | .mk tag href text kids tail =>
    if tag = tagA then
      match href with
      | none => .ok (sBroken ++ htmlEscape tail)
      | some h =>
        let eh := htmlEscape h
        match look h with
        | .malformed => .ok (sDeletedL ++ eh ++ sEntGt ++ htmlEscape tail)
        | .missing => .ok (sDeletedL ++ eh ++ sEntGt ++ htmlEscape tail)
        | .unnamed =>
          .ok (aOpenHlink ++ eh ++ aMid ++ (sUnnamedL ++ eh ++ sEntGt) ++ aClose ++ htmlEscape tail)
        | .named n => .ok (aOpenHlink ++ eh ++ aMid ++ htmlEscape n ++ aClose ++ htmlEscape tail)
    else
      match unescNodes look kids with
      | .error e => .error e
      | .ok k => .ok (htmlEscape text ++ k ++ htmlEscape tail)
def unescNodes (look : Str → Target) : List Node → Except Err Str
  | [] => .ok []
  | n :: r =>
    match unescNode look n with
    | .error e => .error e
    | .ok a => match unescNodes look r with
      | .error e => .error e
      | .ok b => .ok (a ++ b)
end

/-- the `a` branch as it was before the repair (`except KeyError` only): kept so that a reverted repair is
recognisable by name (`Props.C07.malformed_link_unreadable_before_fix`) -/
def unescLinkOld (look : Str → Target) (h tail : Str) : Except Err Str :=
  match look h with
  | .malformed => .error .valueError
  | .missing => .ok (sDeletedL ++ htmlEscape h ++ sEntGt ++ htmlEscape tail)
  | .unnamed =>
    .ok (aOpenHlink ++ htmlEscape h ++ aMid ++ (sUnnamedL ++ htmlEscape h ++ sEntGt) ++ aClose ++ htmlEscape tail)
  | .named n => .ok (aOpenHlink ++ htmlEscape h ++ aMid ++ htmlEscape n ++ aClose ++ htmlEscape tail)

def unescapeFrags (look : Str → Target) (f : Frags) : Except Err Str :=
  match unescNodes look f.nodes with
  | .error e => .error e
  | .ok b => .ok (htmlEscape (f.lead.getD []) ++ b)

/-! ## libxml2's HTML parser on the sub-language -/

/-- a character that stands for itself in HTML text: XML-legal, not CR (normalised to LF by the
parser), not the start of markup or of a reference -/
def plainChar (c : Char) : Bool := xmlChar c && c != '\r' && c != '<' && c != '&'

def pushC (c : Char) : Option (Str × Str) → Option (Str × Str)
  | some (t, r) => some (c :: t, r)
  | none => none

/-- a text run: decoded text up to the next `<` (or the end), and the rest -/
def textRun : Str → Option (Str × Str)
  | [] => some ([], [])
  | c :: r =>
    if c = '<' then some ([], c :: r)
    else if c = '&' then
      match r with
      | 'a' :: 'm' :: 'p' :: ';' :: r' => pushC '&' (textRun r')
      | 'l' :: 't' :: ';' :: r' => pushC '<' (textRun r')
      | 'g' :: 't' :: ';' :: r' => pushC '>' (textRun r')
      | 'q' :: 'u' :: 'o' :: 't' :: ';' :: r' => pushC '"' (textRun r')
      | '#' :: 'x' :: '2' :: '7' :: ';' :: r' => pushC '\'' (textRun r')
      | _ => none
    else if plainChar c then pushC c (textRun r)
    else none

/-- a double-quoted attribute value: decoded value up to the closing `"`, and the rest after it -/
def attrRun : Str → Option (Str × Str)
  | [] => none
  | c :: r =>
    if c = '"' then some ([], r)
    else if c = '<' then none
    else if c = '&' then
      match r with
      | 'a' :: 'm' :: 'p' :: ';' :: r' => pushC '&' (attrRun r')
      | 'l' :: 't' :: ';' :: r' => pushC '<' (attrRun r')
      | 'g' :: 't' :: ';' :: r' => pushC '>' (attrRun r')
      | 'q' :: 'u' :: 'o' :: 't' :: ';' :: r' => pushC '"' (attrRun r')
      | '#' :: 'x' :: '2' :: '7' :: ';' :: r' => pushC '\'' (attrRun r')
      | _ => none
    else if plainChar c then pushC c (attrRun r)
    else none

def consN (n : Node) : Option (List Node) → Option (List Node)
  | some l => some (n :: l)
  | none => none

/-- a sequence of `a` elements, each followed by its tail text; `fuel` ≥ length of the input -/
def parseLinks : Nat → Str → Option (List Node)
  | _, [] => some []
  | 0, _ :: _ => none
  | fuel + 1, '<' :: 'a' :: ' ' :: 'h' :: 'r' :: 'e' :: 'f' :: '=' :: '"' :: r =>
    match attrRun r with
    | some (h, '/' :: '>' :: r1) =>
      match textRun r1 with
      | some (tail, r2) => consN (.mk tagA (some h) [] [] tail) (parseLinks fuel r2)
      | none => none
    | some (h, '>' :: r1) =>
      match textRun r1 with
      | some (txt, '<' :: '/' :: 'a' :: '>' :: r2) =>
        match textRun r2 with
        | some (tail, r3) => consN (.mk tagA (some h) txt [] tail) (parseLinks fuel r3)
        | none => none
      | _ => none
    | _ => none
  | _ + 1, _ :: _ => none

/-- `fragments_fromstring` drops a leading string that `str.strip()` empties -/
def leadOf (t : Str) : Option Str := if t.all isPySpace then none else some t

/-- `lxml.html.fragments_fromstring(s)` on the sub-language; `none` = foreign -/
def parseSub (s : Str) : Option Frags :=
  match textRun s with
  | none => none
  | some (t, r) =>
    match parseLinks r.length r with
    | none => none
    | some ns => some ⟨leadOf t, ns⟩

def exceptToOption {α : Type} : Except Err α → Option α
  | .ok a => some a
  | .error _ => none

/-- `escape_linked_text` on a string of the sub-language (`none` = foreign) -/
def escapeLinked (s : Str) : Option (Except Err Str) := (parseSub s).map escapeFrags

/-- `unescape_linked_text` on a string of the sub-language (`none` = foreign) -/
def unescapeLinked (look : Str → Target) (s : Str) : Option (Except Err Str) :=
  (parseSub s).map (unescapeFrags look)

/-! ## Canonical linked-text values (what the getter returns, what the setter stores) -/

/-- one link with the text that follows it -/
structure Link where
  id : Str
  name : Str
  tail : Str
deriving DecidableEq, Repr

/-- leading text, then links each followed by its tail text -/
structure LT where
  lead : Str
  links : List Link
deriving DecidableEq, Repr

def renderLinkV (l : Link) : Str :=
  aOpenHlink ++ htmlEscape l.id ++ aMid ++ htmlEscape l.name ++ aClose ++ htmlEscape l.tail

def renderLinksV : List Link → Str
  | [] => []
  | l :: r => renderLinkV l ++ renderLinksV r

/-- the HTML form (value side): `text<a href="hlink://id">name</a>text…` -/
def renderValue (v : LT) : Str := htmlEscape v.lead ++ renderLinksV v.links

def renderLinkR (l : Link) : Str := aOpen ++ htmlEscape l.id ++ aEmptyClose ++ htmlEscape l.tail

def renderLinksR : List Link → Str
  | [] => []
  | l :: r => renderLinkR l ++ renderLinksR r

/-- the stored form (XML body): `text<a href="id"/>text…` -/
def renderRaw (v : LT) : Str := htmlEscape v.lead ++ renderLinksR v.links

/-- text the codec keeps character by character -/
def okText (s : Str) : Bool := s.all (fun c => xmlChar c && c != '\r')

def LT.ok (v : LT) : Bool :=
  okText v.lead && v.links.all (fun l => okText l.id && okText l.name && okText l.tail)

/-- what `fragments_fromstring` does to the leading text -/
def LT.dropLead (v : LT) : LT := if v.lead.all isPySpace then { v with lead := [] } else v

def sDeletedT : Str := "<deleted element ".toList
def sUnnamedT : Str := "<unnamed element ".toList

/-- what reading shows for stored links: (text that joins the preceding text, remaining links) -/
def viewLinks (look : Str → Target) : List Link → Str × List Link
  | [] => ([], [])
  | l :: r =>
    let (t, r') := viewLinks look r
    match look l.id with
    | .named n => ([], ⟨l.id, n, l.tail ++ t⟩ :: r')
    | .unnamed => ([], ⟨l.id, sUnnamedT ++ l.id ++ ['>'], l.tail ++ t⟩ :: r')
    | _ => (sDeletedT ++ l.id ++ ['>'] ++ l.tail ++ t, r')

/-- the value read back for a stored value: live links get the target's current name, links to
unnamed targets a placeholder name, dead links become literal text joined to their neighbours -/
def view (look : Str → Target) (v : LT) : LT :=
  let (t, r) := viewLinks look v.links
  ⟨v.lead ++ t, r⟩

/-- every link is live and carries its target's current name -/
def allLive (look : Str → Target) (v : LT) : Bool :=
  v.links.all (fun l => look l.id == .named l.name)

/-- no link id is one `follow_link` chokes on -/
def noMalformed (look : Str → Target) (v : LT) : Bool :=
  v.links.all (fun l => look l.id != .malformed)

/-- `spec["LinkedText"] = s` followed by `spec["LinkedText"]`, on the sub-language: escape, store, unescape
(`none` = foreign) -/
def readBack (look : Str → Target) (s : Str) : Option (Except Err Str) :=
  match escapeLinked s with
  | some (.ok raw) => unescapeLinked look raw
  | some (.error e) => some (.error e)
  | none => none

/-- a value without the display names of its links (which `escape` does not store) -/
def LT.skeleton (v : LT) : Str × List (Str × Str) := (v.lead, v.links.map (fun l => (l.id, l.tail)))

/-- the leading text is empty or survives `str.strip()` -/
def LT.leadKept (v : LT) : Bool := v.lead.isEmpty || !v.lead.all isPySpace

end Capella.Pods
