import Capella.Model.XmlLoose
/-
What the writer *reads* of a tree (round 5, C01 "Not covered" → covered).

`_serialize_element` / `serialize` / `_serialize_comment` look at a tail only through
`(x.tail or "").strip()`, at the text of an element **with children** only through
`element.text and element.text.strip()`, and never at the tail of a childless element that is not the
element handed to `serialize` (the child loop tests the *parent's* tail).  `viewDoc` erases exactly
what is not read:

* `viewDoc false` — the white-space-only part: blank / `""` tails (elements and sibling comments) and
  blank / `""` text in front of children become "absent".  With `remove_blank_text=True` the reader never
  produces these, so nothing the file can carry is lost.
* `viewDoc true` — in addition the tail of every childless element below the root, blank or not.  A
  non-blank one is **content that the writer silently drops**.

`Lemmas/XmlWide.lean` proves `serialize (viewDoc l d) = serialize d` for every tree, without hypothesis;
the round-trip theorems therefore extend from `wfDoc` to `wfDocW d := wfDocE (viewDoc false d)` (and, as
an exact description of the loss, to `wfDocV d := wfDocE (viewDoc true d)`).
-/
namespace Capella.Xml

/-- a tail as the writer reads it: `(tail or "").strip()` false → nothing is written -/
def viewTail (t : Option Str) : Option Str := if pyNonBlank t then t else none

/-- the text of an element as `_serialize_element` reads it: everything on a childless element
(`None`, `""` and `" "` are three different outputs there), only `.strip()` in front of children -/
def viewText (noKids : Bool) (t : Option Str) : Option Str :=
  if noKids then t else if pyNonBlank t then t else none

mutual
/-- `lossy`: also erase the never-read tail of a childless element; `top`: the element is the one
handed to `serialize` (its tail *is* read, by `serialize` itself) -/
def viewE (lossy top : Bool) : Elem → Elem
  | .mk tag nsd attrs text tail kids =>
    .mk tag nsd attrs (viewText kids.isEmpty text)
      (if lossy && kids.isEmpty && !top then none else viewTail tail)
      (viewL lossy kids)
def viewL (lossy : Bool) : List Elem → List Elem
  | [] => []
  | k :: ks => viewE lossy false k :: viewL lossy ks
end

def viewC (c : Comment) : Comment := ⟨c.text, viewTail c.tail⟩

def viewDoc (lossy : Bool) (d : Doc) : Doc :=
  ⟨d.pre.map viewC, viewE lossy true d.root, d.post.map viewC⟩

/-- **the round-trip domain**: Capella-shaped once the white space the writer does not read is taken
away (and up to `""` texts, which read back as "no text") -/
def wfDocW (d : Doc) : Bool := wfDocE (viewDoc false d)

/-- the same, but tails of childless elements are allowed (and lost) -/
def wfDocV (d : Doc) : Bool := wfDocE (viewDoc true d)

/-- what a document of `wfDocW` / `wfDocV` reads back as -/
def readBack (lossy : Bool) (d : Doc) : Doc := canonDoc (dropDoc (viewDoc lossy d))

mutual
/-- is there a childless element that is written as `<t></t>` only because its text is `""`?
(reads back as "no text", is then written as `<t/>`: the one place where write–parse–write moves) -/
def collapsesE : Elem → Bool
  | .mk tag _ _ text _ kids =>
    (kids.isEmpty && text == some [] && !alwaysExpanded tag) || collapsesL kids
def collapsesL : List Elem → Bool
  | [] => false
  | k :: ks => collapsesE k || collapsesL ks
end

mutual
/-- does any childless element below the top carry a non-blank tail (content the writer drops)? -/
def losesTailE (top : Bool) : Elem → Bool
  | .mk _ _ _ _ tail kids => (kids.isEmpty && !top && pyNonBlank tail) || losesTailL kids
def losesTailL : List Elem → Bool
  | [] => false
  | k :: ks => losesTailE false k || losesTailL ks
end

/-! ## Non-element children: comments and processing instructions inside elements

`for child in element` also yields `_Comment` / `_ProcessingInstruction` / `_Entity` nodes;
`_serialize_element(child)` passes the `isinstance(..., _Element)` assertion (they are subclasses), writes
`<` and calls `_unmap_namespace(nsmap, child.tag)` with a *function* as tag: `P_NAME.search` raises
`TypeError`.  Nothing is returned by `serialize`.  Errors surface in document order, so a namespace
error of an element that comes earlier wins. -/

inductive WErr where
  | writer (e : Err)   -- what `elemErr` reports for element-only trees
  | typeError          -- a comment / PI child was reached
  deriving DecidableEq, Repr

/-- an lxml node below an element: an element (children are nodes again) or a content-only node -/
inductive Node where
  | el (tag : Str) (nsd attrs : List (Str × Str)) (text tail : Option Str) (kids : List Node)
  | com (text : Str) (tail : Option Str)
  deriving Repr

mutual
/-- first exception of `_serialize_element` in document order (`elemErr` with the extra case) -/
def Node.err (pns : List (Str × Str)) : Node → Option WErr
  | .com _ _ => some .typeError
  | .el tag nsd attrs _ _ kids =>
    let nsmap := scope pns nsd
    if nsmap.any (fun p => p.1 == []) then some (.writer .assertion)
    else match nameErr nsmap tag with
      | some e => some (.writer e)
      | none =>
        match firstSome (fun a => (lookupAttr a attrs).bind fun _ => nameErr nsmap a) specialAttrs with
        | some e => some (.writer e)
        | none =>
          match firstSome (fun kv : Str × Str => nameErr nsmap kv.1)
              (attrs.filter fun kv => !specialAttrs.contains kv.1) with
          | some e => some (.writer e)
          | none => Node.errL nsmap kids
def Node.errL (nsmap : List (Str × Str)) : List Node → Option WErr
  | [] => none
  | k :: ks => match Node.err nsmap k with | some e => some e | none => Node.errL nsmap ks
end

mutual
def Node.ofElem : Elem → Node
  | .mk tag nsd attrs text tail kids => .el tag nsd attrs text tail (Node.ofElems kids)
def Node.ofElems : List Elem → List Node
  | [] => []
  | k :: ks => Node.ofElem k :: Node.ofElems ks
end

mutual
/-- the element-only tree, if there is no content-only node inside -/
def Node.toElem : Node → Option Elem
  | .com _ _ => none
  | .el tag nsd attrs text tail kids =>
    match Node.toElems kids with
    | some ks => some (.mk tag nsd attrs text tail ks)
    | none => none
def Node.toElems : List Node → Option (List Elem)
  | [] => some []
  | k :: ks =>
    match Node.toElem k, Node.toElems ks with
    | some e, some es => some (e :: es)
    | _, _ => none
end

mutual
def Node.hasCom : Node → Bool
  | .com _ _ => true
  | .el _ _ _ _ _ kids => Node.hasComL kids
def Node.hasComL : List Node → Bool
  | [] => false
  | k :: ks => Node.hasCom k || Node.hasComL ks
end

/-- `serialize(root, line_length=ll, siblings=…)` on a tree that may hold comments / PIs inside:
the bytes, or the exception -/
def serializeN (ll : Nat) (siblings : Bool) (pns : List (Str × Str)) (isRoot : Bool)
    (pre : List Comment) (root : Node) (post : List Comment) : Except WErr Str :=
  match Node.err pns root with
  | some e => .error e
  | none =>
    match Node.toElem root with
    | some r => .ok (serialize ll siblings pns isRoot ⟨pre, r, post⟩)
    | none => .error .typeError

/-- the exception, if any -/
def errOf : Except WErr Str → Option WErr
  | .error e => some e
  | .ok _ => none

end Capella.Xml
