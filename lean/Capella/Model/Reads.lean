/-!
# C11 — the read surface and diagram rendering as functions of the model state

Core Lean only.  Mirrors, as coded,

* `lxml` attribute access (`elem.get(k)`, `elem.attrib[k] = v`),
* `MelodyLoader.__getitem__` / `follow_link` restricted to what the diagram factories use
  (look an element up by the id behind the last `#`),
* `aird/_edge_factories.py`: `generic_factory` (label = `name` of the first semantic element),
  `req_relation_factory`, `include_extend_factory`,
* `aird/_box_factories.py`: `generic_factory` (symbol iff the style has a `workspacePath`),
  `pseudo_symbol_factory`,
* `aird.parse_diagram` as a left fold of the element factories over the diagram's elements,
* `extensions/pvmt/_config.py: ManagedGroup.apply` (the documented exception to read purity).

Every factory exists in two variants: `.coded` (the pinned tree: the three special factories write
into the XML they read) and `.repaired` (after the `fix:` commits: the label / symbol flag is passed
to the generic factory, the XML is left alone).
-/
namespace Capella.Reads

abbrev Str := List Char
abbrev Attrs := List (Str × Str)

/-- `elem.get(k)` -/
def aget (a : Attrs) (k : Str) : Option Str := a.lookup k

/-- `elem.attrib[k] = v`: replace in place, else append -/
def aset : Attrs → Str → Str → Attrs
  | [], k, v => [(k, v)]
  | (k', v') :: r, k, v => if k' = k then (k, v) :: r else (k', v') :: aset r k v

/-- a semantic element: id, `xsi:type`, attributes in document order -/
structure Elem where
  uid : Str
  xtype : Str
  attrs : Attrs
deriving DecidableEq, Repr

/-- first element carrying the id (`loader[uuid]`; `none` = `KeyError`) -/
def lookup : List Elem → Str → Option Elem
  | [], _ => none
  | e :: r, u => if e.uid = u then some e else lookup r u

/-- write an attribute on the element `lookup` returns -/
def setAttr : List Elem → Str → Str → Str → List Elem
  | [], _, _, _ => []
  | e :: r, u, k, v =>
    if e.uid = u then { e with attrs := aset e.attrs k v } :: r else e :: setAttr r u k v

/-- `loader[u].get(k)` -/
def view (es : List Elem) (u k : Str) : Option Str := (lookup es u).bind (fun e => aget e.attrs k)

/-- the id a link points to: what follows the last `#` (the whole string if there is none) -/
def linkId (l : Str) : Str :=
  l.foldl (fun acc c => if c = '#' then [] else acc ++ [c]) []

def kName : Str := ['n','a','m','e']
def kRelType : Str := ['r','e','l','a','t','i','o','n','T','y','p','e']
def kLongName : Str := ['R','e','q','I','F','L','o','n','g','N','a','m','e']
def kWp : Str := ['w','o','r','k','s','p','a','c','e','P','a','t','h']

/-- one `ownedDiagramElements` entry of a diagram, as far as the factories read it -/
structure DElem where
  uid : Str
  ttype : Str            -- short `xsi:type` of `<target>`; selects the factory (`STYLECLASS_LOOKUP`)
  sem : Str              -- id of `melodyobjs[0]`
  dname : Option Str     -- `name` attribute of the diagram element
  style : Attrs          -- attributes of its `ownedStyle`
deriving DecidableEq, Repr

structure Diagram where
  uid : Str
  elems : List DElem
deriving DecidableEq, Repr

/-- the model state: what `save()` serialises -/
structure State where
  sem : List Elem
  dgs : List Diagram
deriving DecidableEq, Repr

inductive Kind | generic | reqrel | incext | pseudo
deriving DecidableEq, Repr

/-- `STYLECLASS_LOOKUP`, restricted to the three special factories -/
def kindOf (t : Str) : Kind :=
  if t = "CapellaIncomingRelation".toList ∨ t = "CapellaOutgoingRelation".toList then .reqrel
  else if t = "AbstractCapabilityInclude".toList ∨ t = "AbstractCapabilityExtend".toList then .incext
  else if t = "ChoicePseudoState".toList ∨ t = "ForkPseudoState".toList then .pseudo
  else .generic

/-- what ends up in the `diagram.Diagram` for one element -/
structure PElem where
  uid : Str
  label : Str
  symbol : Bool
deriving DecidableEq, Repr

inductive Variant | coded | repaired
deriving DecidableEq, Repr

/-- `generic_factory`: label from the `name` of the semantic element (or the label handed in by a
repaired special factory), symbol iff `workspacePath` is set (or the flag handed in). `none` =
the element is skipped because its semantic element does not exist. -/
def generic (s : State) (e : DElem) (label : Option Str := none) (symbol : Bool := false) :
    Option PElem :=
  match lookup s.sem e.sem with
  | none => none
  | some x =>
    let text : Str := match label with
      | some l => l
      | none => (aget x.attrs kName).getD []
    some ⟨e.uid, text, symbol || (aget e.style kWp).isSome⟩

/-- the text `req_relation_factory` computes: the name if non-empty, else the `ReqIFLongName` of
the relation type, else `""` (every `KeyError` is swallowed) -/
def reqrelLabel (s : State) (x : Elem) : Str :=
  let l := (aget x.attrs kName).getD []
  if l ≠ [] then l
  else ((aget x.attrs kRelType).bind (fun rt => view s.sem (linkId rt) kLongName)).getD []

/-- the text `include_extend_factory` computes -/
def incextLabel (x : Elem) (e : DElem) : Str :=
  match aget x.attrs kName with
  | some n => n
  | none => e.dname.getD []

/-- write the style attribute of the diagram element `uid` (all diagrams; uids are unique) -/
def setStyle (dgs : List Diagram) (uid k v : Str) : List Diagram :=
  dgs.map (fun d => { d with elems := (d.elems.map
    (fun e => if e.uid = uid then { e with style := aset e.style k v } else e)) })

/-- one element factory: new state and the drawn element -/
def elemStep (v : Variant) (s : State) (e : DElem) : State × Option PElem :=
  match kindOf e.ttype with
  | .generic => (s, generic s e)
  | .reqrel =>
    match lookup s.sem e.sem with
    | none => (s, none)
    | some x =>
      match v with
      | .repaired => (s, generic s e (some (reqrelLabel s x)))
      | .coded =>
        if (aget x.attrs kName).getD [] ≠ [] then (s, generic s e)
        else
          -- `finally: melodyobjs[0].attrib["name"] = label`, then the generic factory reads it back
          let s' := { s with sem := setAttr s.sem e.sem kName (reqrelLabel s x) }
          (s', generic s' e)
  | .incext =>
    match lookup s.sem e.sem with
    | none => (s, none)
    | some x =>
      match v with
      | .repaired => (s, generic s e (some (incextLabel x e)))
      | .coded =>
        match aget x.attrs kName with
        | some _ => (s, generic s e)
        | none =>
          let s' := { s with sem := setAttr s.sem e.sem kName (e.dname.getD []) }
          (s', generic s' e)
  | .pseudo =>
    match v with
    | .repaired => (s, generic s e none true)
    | .coded =>
      -- `style.attrib["workspacePath"] = ""`, then the generic factory finds it
      let s' := { s with dgs := setStyle s.dgs e.uid kWp [] }
      (s', generic s' { e with style := aset e.style kWp [] })

/-- `parse_diagram`: the factories are folded over the elements, threading the state -/
def renderElems (v : Variant) : State → List DElem → State × List PElem
  | s, [] => (s, [])
  | s, e :: r =>
    let a := elemStep v s e
    let b := renderElems v a.1 r
    (b.1, a.2.toList ++ b.2)

def findDiagram : List Diagram → Str → Option Diagram
  | [], _ => none
  | d :: r, u => if d.uid = u then some d else findDiagram r u

def render (v : Variant) (s : State) (d : Str) : State × List PElem :=
  match findDiagram s.dgs d with
  | none => (s, [])
  | some dg => renderElems v s dg.elems

/-! ## the read surface -/

inductive ReadOp
  | attr (u k : Str)              -- any attribute read boils down to reads of XML attributes
  | has (u : Str)                 -- `by_uuid` succeeds?
  | dump (u : Str)                -- dir()/repr()/html: all attributes of an element
  | search (xts : List Str)       -- ids of the elements with one of the types (all if none given)
  | refsTo (u : Str)              -- ids of elements with an attribute value containing `#u`
  | render (d : Str)
deriving DecidableEq, Repr

inductive Out
  | str (o : Option Str)
  | bool (b : Bool)
  | attrs (a : Option Attrs)
  | ids (l : List Str)
  | pic (p : List PElem)
deriving DecidableEq, Repr

/-- does `hay` contain `needle` as a contiguous substring -/
def isInfix (needle : Str) : Str → Bool
  | [] => needle.isEmpty
  | c :: r => needle.isPrefixOf (c :: r) || isInfix needle r

def step (v : Variant) (s : State) : ReadOp → State × Out
  | .attr u k => (s, .str (view s.sem u k))
  | .has u => (s, .bool (lookup s.sem u).isSome)
  | .dump u => (s, .attrs ((lookup s.sem u).map (·.attrs)))
  | .search xts =>
    (s, .ids ((s.sem.filter (fun e => xts.isEmpty || xts.contains e.xtype)).map (·.uid)))
  | .refsTo u =>
    (s, .ids ((s.sem.filter (fun e => e.attrs.any (fun kv => isInfix ('#' :: u) kv.2))).map (·.uid)))
  | .render d => ((render v s d).1, .pic (render v s d).2)

/-- a read history -/
def run (v : Variant) : State → List ReadOp → State × List Out
  | s, [] => (s, [])
  | s, op :: r =>
    let a := step v s op
    let b := run v a.1 r
    (b.1, a.2 :: b.2)

/-! ## PVMT: `ManagedGroup.apply` -/

structure PVGroup where
  name : Str
  props : List (Str × Str)
deriving DecidableEq, Repr

/-- `groups.by_name(n, single=True)`: `KeyError` (`none`) on zero *and* on several matches -/
def single (gs : List PVGroup) (n : Str) : Option PVGroup :=
  match gs.filter (fun g => g.name = n) with
  | [g] => some g
  | _ => none

/-- `ManagedGroup.apply(obj)` on the object's `property_value_groups`: the existing applied group,
or a new one appended at the end -/
def pvmtApply (gs : List PVGroup) (d : PVGroup) : List PVGroup × PVGroup :=
  match single gs d.name with
  | some g => (gs, g)
  | none => (gs ++ [d], d)

end Capella.Reads
