/-
Model of `capellambse/loader/exs.py` (the Eclipse-style XML writer) and of the parts of
`capellambse/loader/core.py` that drive it (`ModelFile.write_xml`, `_round_version`).

Text is `List Char` (one `Char` = one Python code point; lxml never holds surrogates).  The model
produces the *characters* of the output; the UTF-8 encoding itself is done by the driver
(`String.toUTF8`) resp. CPython (`str.encode`) and is trusted.  `os.linesep` is `"\n"` (POSIX).

Every definition names the Python function it mirrors.  The code is mirrored **as coded**,
including the slips that only show on mixed content (see `serText`, `serKids`).
-/
namespace Capella.Xml

abbrev Str := List Char

/-! ## Characters, escaping (`_escape`, `_escape_char`, `P_ESCAPE_TEXT`, `P_ESCAPE_COMMENTS`) -/

/-! The character classes are stated on code points (`Nat`) so that the generated tables
(`Capella/Gen/Exs.lean`) can be compared with them cheaply by the kernel. -/

/-- `ESCAPE_CHARS` without the extra characters: `[\x00-\x1F\x7F]` -/
def isCtlN (n : Nat) : Bool := n ≤ 0x1F || n == 0x7F
/-- `P_ESCAPE_TEXT = [\x00-\x1F\x7F"&<]` -/
def isEscTextN (n : Nat) : Bool := isCtlN n || n == 34 || n == 38 || n == 60
/-- `P_ESCAPE_COMMENTS = [\x00-\x1F\x7F>]` -/
def isEscCommentsN (n : Nat) : Bool := isCtlN n || n == 62

def isCtl (c : Char) : Bool := isCtlN c.toNat

/-- `P_ESCAPE_TEXT = [\x00-\x1F\x7F"&<]` — used for attribute values, element text and tails -/
def isEscText (c : Char) : Bool := isEscTextN c.toNat

/-- `P_ESCAPE_COMMENTS = [\x00-\x1F\x7F>]` — defined in `exs.py` but **not used** by it -/
def isEscComments (c : Char) : Bool := isEscCommentsN c.toNat

/-- `re.compile(r">")` — the pattern `_serialize_comment` really passes -/
def isEscGt (c : Char) : Bool := c == '>'

/-- single characters selected by the default pattern of `_serialize_text` (element text, tails) -/
def contentClsN (n : Nat) : Bool := isEscTextN n
def contentCls (c : Char) : Bool := contentClsN c.toNat

/-- does that default pattern also select the `>` of `]]>`?  (`P_ESCAPE_CONTENT` ends in
`|(?<=\]\])>`; before the repair the default was `P_ESCAPE_TEXT` and `]]>` was written raw, which
no XML parser accepts in character data.) -/
def contentEscapesCdataEnd : Bool := true

/-- `html.entities.codepoint2name` restricted to the printable ASCII range `" "`‥`"~"`
(the only range `_escape_char` consults it for); `none` = `KeyError`. -/
def entityNameN (n : Nat) : Option Str :=
  if n = 34 then some "quot".toList
  else if n = 38 then some "amp".toList
  else if n = 60 then some "lt".toList
  else if n = 62 then some "gt".toList
  else none
def entityName (c : Char) : Option Str := entityNameN c.toNat

def hexDigitU (n : Nat) : Char :=
  if n < 10 then Char.ofNat (48 + n) else Char.ofNat (55 + n)

/-- digits of `n` in base 16, upper case, most significant first; `fuel` bounds the length -/
def hexUpperAux : Nat → Nat → Str → Str
  | 0, _, acc => acc
  | fuel + 1, n, acc =>
    if n < 16 then hexDigitU n :: acc else hexUpperAux fuel (n / 16) (hexDigitU (n % 16) :: acc)

/-- `f"{n:X}"` (a code point has at most 6 hex digits) -/
def hexUpper (n : Nat) : Str := hexUpperAux 8 n []

/-- `_escape_char`: named entity inside `" "`‥`"~"`, `&#xH;` outside.
A printable character without a name is a `KeyError` in Python; the patterns in use never
select one, the model writes `&?;` there and `escapeRaises` reports it. -/
def escapeChar (c : Char) : Str :=
  if 32 ≤ c.toNat ∧ c.toNat ≤ 126 then
    '&' :: ((entityName c).getD ['?'] ++ [';'])
  else
    '&' :: '#' :: 'x' :: (hexUpper c.toNat ++ [';'])

/-- `_escape(string, pattern=…)`: `pattern.sub(_escape_char, string)` for a one-character class -/
def escape (cls : Char → Bool) : Str → Str
  | [] => []
  | c :: rest => if cls c then escapeChar c ++ escape cls rest else c :: escape cls rest

/-- `P_ESCAPE_CONTENT.sub(_escape_char, s)` with `P_ESCAPE_CONTENT = [class]|(?<=\]\])>`:
besides the class, a `>` directly after `]]` is replaced.  `nb` = number of `]` directly before
the current position (2 stands for "two or more"); the look-behind reads the *input*. -/
def escapeC (cls : Char → Bool) : Nat → Str → Str
  | _, [] => []
  | nb, c :: rest =>
    let nb' := if c = ']' then (if nb = 0 then 1 else 2) else 0
    if cls c || (c == '>' && nb == 2) then escapeChar c ++ escapeC cls nb' rest
    else c :: escapeC cls nb' rest

/-- `_escape(s, pattern=P_ESCAPE_CONTENT)`: how element text, tails and comment tails are written -/
def escapeContent (s : Str) : Str := escapeC contentCls 0 s

/-- does `_escape` raise (`KeyError` from `codepoint2name`)? -/
def escapeRaises (cls : Char → Bool) (s : Str) : Bool :=
  s.any fun c => cls c && (32 ≤ c.toNat && c.toNat ≤ 126) && (entityName c).isNone

/-! ## Python string helpers -/

/-- `str.isspace()` for one code point (CPython 3.12 / Unicode 15: `Zs`, `Zl`, `Zp` and the
bidirectional classes `WS`, `B`, `S`); the table is re-read from the interpreter on every run
(`Capella/Gen/Exs.lean`). -/
def pySpaceCps : List Nat :=
  [9, 10, 11, 12, 13, 28, 29, 30, 31, 32, 133, 160, 5760, 8192, 8193, 8194, 8195, 8196, 8197, 8198,
   8199, 8200, 8201, 8202, 8232, 8233, 8239, 8287, 12288]
def isPySpaceN (n : Nat) : Bool := pySpaceCps.contains n
def isPySpace (c : Char) : Bool := isPySpaceN c.toNat

/-- `bool((text or "").strip())` -/
def pyNonBlank : Option Str → Bool
  | none => false
  | some s => s.any fun c => !isPySpace c

/-- the test `_serialize_element` applies before writing `element.text`:
`element.text and (len(element) == 0 or element.text.strip())` — the text of a childless element is
content and is written whatever it consists of; between children only non-blank text is.
(Before the repair the test was `(element.text or "").strip()`, which dropped a body of `" "`.) -/
def textWritten (text : Option Str) (noKids : Bool) : Bool :=
  match text with
  | none => false
  | some [] => false
  | some _ => noKids || pyNonBlank text

/-- `text.split("\n")` (never empty) -/
def splitNl : Str → List Str
  | [] => [[]]
  | c :: rest =>
    if c = '\n' then [] :: splitNl rest
    else match splitNl rest with
      | l :: ls => (c :: l) :: ls
      | [] => [[c]]

def joinSep (sep : Str) : List Str → Str
  | [] => []
  | [l] => l
  | l :: ls => l ++ sep ++ joinSep sep ls

/-- number of bytes of the UTF-8 encoding (`len(tag.encode("utf-8"))`) -/
def utf8Len (s : Str) : Nat := (s.map Char.utf8Size).sum

/-- `INDENT * n` -/
def ind (n : Nat) : Str := List.replicate (2 * n) ' '

/-! ## Trees -/

/-- An lxml element as the writer sees it.  `tag` and attribute names are in Clark notation
(`{uri}local`), `nsdecls` are the namespace declarations sitting on this very element
(prefix, uri; the default namespace has prefix `""`), `text`/`tail` are lxml's. -/
inductive Elem where
  | mk (tag : Str) (nsdecls : List (Str × Str)) (attrs : List (Str × Str))
       (text : Option Str) (tail : Option Str) (kids : List Elem)
  deriving Repr

namespace Elem
def tag : Elem → Str | mk t _ _ _ _ _ => t
def nsdecls : Elem → List (Str × Str) | mk _ n _ _ _ _ => n
def attrs : Elem → List (Str × Str) | mk _ _ a _ _ _ => a
def text : Elem → Option Str | mk _ _ _ t _ _ => t
def tail : Elem → Option Str | mk _ _ _ _ t _ => t
def kids : Elem → List Elem | mk _ _ _ _ _ k => k
end Elem

/-- a comment next to the root element (`lxml.etree._Comment`): text and tail -/
structure Comment where
  text : Str
  tail : Option Str
  deriving Repr, DecidableEq

/-- a document: the root element with its preceding and following sibling comments -/
structure Doc where
  pre : List Comment
  root : Elem
  post : List Comment
  deriving Repr

/-! ## Names and namespaces (`_unmap_namespace`, `_ns_sortkey`, `element.nsmap`) -/

/-- first `}` splits the list: (before, after) -/
def splitBrace : Str → Option (Str × Str)
  | [] => none
  | c :: rest =>
    if c = '}' then some ([], rest)
    else match splitBrace rest with
      | some (a, b) => some (c :: a, b)
      | none => none

/-- `P_NAME = ^(?:\{([^}]*)\})?(.+)$` on a newline-free name: (group 1 or "", group 2).
If the `{…}` part is absent or nothing follows it, the whole string is group 2. -/
def splitName (s : Str) : Str × Str :=
  match s with
  | '{' :: rest =>
    match splitBrace rest with
    | some (ns, loc) => if loc = [] then ([], s) else (ns, loc)
    | none => ([], s)
  | _ => ([], s)

/-- lxml's `element.nsmap`: the element's own declarations first, then whatever the ancestors
declare and the element does not redeclare (`_build_nsmap` walks the parent chain). -/
def scope (parent : List (Str × Str)) (own : List (Str × Str)) : List (Str × Str) :=
  own ++ parent.filter fun p => !(own.any fun o => o.1 == p.1)

/-- `{v: k for k, v in element.nsmap.items() if k}[uri]`: the *last* non-empty prefix bound to
`uri` wins, as in the dict comprehension. -/
def revLookup (nsmap : List (Str × Str)) (uri : Str) : Option Str :=
  nsmap.foldl (fun acc p => if p.2 == uri && p.1 != [] then some p.1 else acc) none

/-- `_unmap_namespace(nsmap, name)`; an undeclared namespace (`ValueError`) is written as
prefix `?` and reported by `firstErr`. -/
def unmap (nsmap : List (Str × Str)) (name : Str) : Str :=
  let (ns, loc) := splitName name
  if ns = [] then loc
  else (revLookup nsmap ns).getD ['?'] ++ ':' :: loc

/-- Python `<` on `str` (code point order) -/
def strLt : Str → Str → Bool
  | [], [] => false
  | [], _ :: _ => true
  | _ :: _, [] => false
  | a :: as, b :: bs => a.toNat < b.toNat || (a == b && strLt as bs)

def nsRank (p : Str) : Nat :=
  if p = "xmi".toList then 0 else if p = "xsi".toList then 1 else 2

/-- `_ns_sortkey(a) <= _ns_sortkey(b)` -/
def nsLe (a b : Str × Str) : Bool :=
  nsRank a.1 < nsRank b.1 || (nsRank a.1 == nsRank b.1 && !strLt b.1 a.1)

def insertNs (x : Str × Str) : List (Str × Str) → List (Str × Str)
  | [] => [x]
  | y :: ys => if nsLe x y then x :: y :: ys else y :: insertNs x ys

/-- `sorted(element.nsmap.items(), key=_ns_sortkey)` (stable insertion sort) -/
def sortNs : List (Str × Str) → List (Str × Str)
  | [] => []
  | x :: xs => insertNs x (sortNs xs)

def XMI : Str := "http://www.omg.org/XMI".toList
def XSI : Str := "http://www.w3.org/2001/XMLSchema-instance".toList
def clark (uri loc : Str) : Str := '{' :: uri ++ '}' :: loc

/-- the four attributes `_unmapped_attrs` moves to the front, in this order -/
def specialAttrs : List Str :=
  [clark XMI "version".toList, clark XMI "type".toList, clark XMI "id".toList,
   clark XSI "type".toList]

def lookupAttr (k : Str) : List (Str × Str) → Option Str
  | [] => none
  | (a, v) :: rest => if a = k then some v else lookupAttr k rest

/-- `_unmapped_attrs(nsmap, element)`: the attribute list the writer emits (names unmapped,
values escaped; `xmlns:*` values are written as they are).  `parentKeys` = `set(parent.nsmap)`
(empty for a parentless element). -/
def unmappedAttrs (parentKeys : List Str) (nsmap : List (Str × Str))
    (attrs : List (Str × Str)) : List (Str × Str) :=
  (specialAttrs.filterMap fun a =>
      (lookupAttr a attrs).map fun v => (unmap nsmap a, escape isEscText v))
  ++ ((sortNs nsmap).filter fun p => !parentKeys.contains p.1).map
      (fun p => ("xmlns:".toList ++ p.1, p.2))
  ++ ((attrs.filter fun kv => !specialAttrs.contains kv.1).map fun kv =>
      (unmap nsmap kv.1, escape isEscText kv.2))

/-! ## The writer -/

/-- `_serialize_text`: the written characters and the returned column.  As coded the return
value is `len(last line) + (pos if there was more than one line else 0)`. -/
def serText (esc : Str → Str) (multiline : Bool) (text : Option Str) (pos : Nat) : Str × Nat :=
  match text with
  | none => ([], pos)
  | some [] => ([], pos)
  | some s =>
    let lines := splitNl s
    (joinSep (if multiline then ['\n'] else []) (lines.map esc),
     (lines.getLast?.getD []).length + (if lines.length > 1 then pos else 0))

/-- `_serialize_comment` (the incoming `pos` is ignored by the code) -/
def serComment (indent : Nat) (c : Comment) : Str × Nat :=
  let t := serText (escape isEscGt) false (some c.text) (2 * indent)
  let head := '\n' :: (ind indent ++ "<!--".toList ++ t.1 ++ "-->".toList)
  if pyNonBlank c.tail then
    let tl := serText escapeContent false c.tail t.2
    (head ++ tl.1, tl.2)
  else
    (head ++ '\n' :: ind indent, 2 * indent)

/-- the attribute loop of `_serialize_element`: `(written, pos)`; `force` = `force_break` -/
def serAttrs (ll attrIndent : Nat) (isRoot : Bool) :
    List (Str × Str) → Nat → Bool → Str × Nat
  | [], pos, _ => ([], pos)
  | (a, v) :: rest, pos, force =>
    let brk := decide (pos > ll) || force
    let sep := if brk then '\n' :: List.replicate attrIndent ' ' else [' ']
    let pos1 := (if brk then attrIndent else pos + 1) + a.length + v.length + 3
    let r := serAttrs ll attrIndent isRoot rest pos1 (isRoot && a == "id".toList)
    (sep ++ a ++ '=' :: '"' :: v ++ '"' :: r.1, r.2)

/-- `ALWAYS_EXPANDED_TAGS` (compared with the Clark-notation tag) -/
def alwaysExpandedList : List Str := ["bodies".toList]
def alwaysExpanded (tag : Str) : Bool := alwaysExpandedList.contains tag

mutual
/-- `_serialize_element(buffer, element, indent, pos=…, line_length=ll)`.
`pns` is the parent's `nsmap` (`[]` and `isRoot = true` for a parentless element). -/
def serElem (ll : Nat) (pns : List (Str × Str)) (isRoot : Bool) (indent pos : Nat) :
    Elem → Str × Nat
  | .mk tag nsd attrs text tail kids =>
    let nsmap := scope pns nsd
    let tagS := unmap nsmap tag
    let a := serAttrs ll (2 * (indent + 2)) isRoot
      (unmappedAttrs (if isRoot then [] else pns.map (·.1)) nsmap attrs)
      (pos + 1 + utf8Len tagS) false
    if text.isNone && kids.isEmpty && !alwaysExpanded tag then
      ('<' :: tagS ++ a.1 ++ "/>".toList, a.2 + 2)
    else
      let t := if textWritten text kids.isEmpty then serText escapeContent true text a.2 else ([], a.2)
      let k := serKids ll nsmap (indent + 1) tail t.2 (textWritten text kids.isEmpty) kids
      let c : Str × Nat :=
        if !kids.isEmpty && !k.2.2 then ('\n' :: ind indent, 2 * indent) else ([], k.2.1)
      ('<' :: tagS ++ a.1 ++ '>' :: t.1 ++ k.1 ++ c.1 ++ '<' :: '/' :: tagS ++ ['>'],
       c.2 + utf8Len tagS + 3)
/-- the `for child in element` loop; `ptail` is the **parent's** tail — the code tests and writes
`element.tail`, not `child.tail`.  Returns `(written, pos, text_content)`. -/
def serKids (ll : Nat) (nsmap : List (Str × Str)) (indent : Nat) (ptail : Option Str)
    (pos : Nat) (tc : Bool) : List Elem → Str × Nat × Bool
  | [] => ([], pos, tc)
  | kid :: rest =>
    let pre : Str × Nat := if tc then ([], pos) else ('\n' :: ind indent, 2 * indent)
    let e := serElem ll nsmap false indent pre.2 kid
    let t : Str × Nat × Bool :=
      if pyNonBlank ptail then
        let x := serText escapeContent false ptail e.2
        (x.1, x.2, true)
      else ([], e.2, false)
    let r := serKids ll nsmap indent ptail t.2.1 t.2.2 rest
    (pre.1 ++ e.1 ++ t.1 ++ r.1, r.2)
end

def serComments : List Comment → Nat → Str × Nat
  | [], pos => ([], pos)
  | c :: rest, _ =>
    let x := serComment 0 c
    let r := serComments rest x.2
    (x.1 ++ r.1, r.2)

/-- `serialize(tree, line_length=ll, siblings=…)` for the element `d.root`; `pns`/`isRoot`
describe its parent (`[]`, `true` when `d.root` is the root of its tree). -/
def serialize (ll : Nat) (siblings : Bool) (pns : List (Str × Str)) (isRoot : Bool)
    (d : Doc) : Str :=
  let p := serComments (if siblings then d.pre else []) 0
  let e := serElem ll pns isRoot 0 p.2 d.root
  -- the value returned by `_serialize_element` is dropped: `pos` is still `p.2`
  let t := if pyNonBlank d.root.tail then serText escapeContent true d.root.tail p.2 else ([], p.2)
  let q := serComments (if siblings then d.post else []) t.2
  p.1 ++ e.1 ++ t.1 ++ q.1 ++ ['\n']

def asciiUpper (c : Char) : Char :=
  if 97 ≤ c.toNat ∧ c.toNat ≤ 122 then Char.ofNat (c.toNat - 32) else c

/-- `_declare(encoding)` for an ASCII encoding name -/
def declare (encoding : Str) : Str :=
  "<?xml version=\"1.0\" encoding=\"".toList ++ encoding.map asciiUpper ++ "\"?>\n".toList

/-- `exs.LINE_LENGTH` -/
def LINE_LENGTH : Nat := 80
/-- `sys.maxsize` on a 64-bit CPython -/
def MAXSIZE : Nat := 9223372036854775807

inductive FragKind where | semantic | visual | other
  deriving DecidableEq, Repr

/-- `loader.core.SEMANTIC_EXTS` / `VISUAL_EXTS` (sorted); re-read from the module on every run -/
def semanticExtsList : List Str :=
  [".capella".toList, ".capellafragment".toList, ".melodyfragment".toList, ".melodymodeller".toList]
def visualExtsList : List Str := [".aird".toList, ".airdfragment".toList]

/-- `ModelFile.fragment_type` from the file name's suffix -/
def fragKindOfSuffix (suffix : Str) : FragKind :=
  if semanticExtsList.contains suffix then .semantic
  else if visualExtsList.contains suffix then .visual
  else .other

/-- `ModelFile.write_xml`: 80 columns for semantic fragments, `sys.maxsize` otherwise;
siblings on; the XML declaration in front. -/
def writeXml (k : FragKind) (d : Doc) : Str :=
  declare "utf-8".toList ++
    serialize (if k = .semantic then LINE_LENGTH else MAXSIZE) true [] true d

/-! ## Errors the writer raises instead of writing -/

inductive Err where
  | assertion   -- default namespace in `nsmap`
  | value       -- `Namespace not found`
  | key         -- `codepoint2name` has no entry
  deriving DecidableEq, Repr

def nameErr (nsmap : List (Str × Str)) (name : Str) : Option Err :=
  let (ns, _) := splitName name
  if ns = [] then none else if (revLookup nsmap ns).isNone then some .value else none

def firstSome {α β} (f : α → Option β) : List α → Option β
  | [] => none
  | x :: xs => match f x with | some e => some e | none => firstSome f xs

mutual
def elemErr (pns : List (Str × Str)) : Elem → Option Err
  | .mk tag nsd attrs _ _ kids =>
    let nsmap := scope pns nsd
    if nsmap.any (fun p => p.1 == []) then some .assertion
    else match nameErr nsmap tag with
      | some e => some e
      | none =>
        match firstSome (fun a => (lookupAttr a attrs).bind fun _ => nameErr nsmap a) specialAttrs with
        | some e => some e
        | none =>
          match firstSome (fun kv : Str × Str => nameErr nsmap kv.1)
              (attrs.filter fun kv => !specialAttrs.contains kv.1) with
          | some e => some e
          | none => kidsErr nsmap kids
def kidsErr (nsmap : List (Str × Str)) : List Elem → Option Err
  | [] => none
  | k :: ks => match elemErr nsmap k with | some e => some e | none => kidsErr nsmap ks
end

/-! ## `_round_version` (namespace versions written by `update_namespaces`) -/

/-- `re.sub(r"[^.]+", "0", s)`; `inRun` = the previous character belonged to a replaced run -/
def zeroRuns : Bool → Str → Str
  | _, [] => []
  | inRun, c :: rest =>
    if c = '.' then '.' :: zeroRuns false rest
    else if inRun then zeroRuns true rest else '0' :: zeroRuns true rest

/-- first `.` splits: (before, after) -/
def splitDot : Str → Option (Str × Str)
  | [] => none
  | c :: rest =>
    if c = '.' then some ([], rest)
    else match splitDot rest with
      | some (a, b) => some (c :: a, b)
      | none => none

/-- the `while` loop: `none` = the early `return v` -/
def roundGo : Nat → Str → Option Str
  | 0, rest => some (zeroRuns false rest)
  | _ + 1, [] => some []
  | k + 1, rest =>
    match splitDot rest with
    | none => none
    | some (a, b) => (roundGo k b).map fun r => a ++ '.' :: r

/-- `_round_version(v, prec)` (`prec > 0` is asserted by the code) -/
def roundVersion (v : Str) (prec : Nat) : Str := (roundGo prec v).getD v

end Capella.Xml
