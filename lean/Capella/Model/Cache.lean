import Capella.Model.Path
/-
Model of the diagram-cache lookup of py-capellambse (`capellambse/model/diagram.py`,
`capellambse/model/_model.py`).

* `Conv`, `Table`      — the converter objects reachable from the `capellambse.diagram.formats`
                          entry points and what the code asks of them (`filename_extension`,
                          `from_cache`, `convert`, `convert_pretty`, `depends`); the live table is
                          generated into `Capella/Gen/Formats.lean`.
* `walk`               — `_walk_converters` (fuel = number of converter objects; a cyclic
                          `depends` chain makes the Python loop forever, the model answers `none`).
* `probe`, `loadCache` — `AbstractDiagram.__load_cache`, as coded: enumerate the chain, skip
                          converters without extension / `from_cache` and names `uuid + ext` that are
                          not plain file names (`plainName`, added by `fix: only look up plain file
                          names in the diagram cache`), open `uuid + ext`, truncate
                          the chain at the first hit, convert forward with `hasattr(cv,"convert")`.
* `runChain`           — `_run_converter_chain` (pretty printing, `isinstance` dispatch).
* `render`             — `AbstractDiagram.render` with `Diagram._allow_render`.
* `asFmt`              — `AbstractDiagram.__getattr__("as_<fmt>")` (error-image path).
* `convertFormat`      — `convert_format`.
* `cacheOf`            — the `diagram_cache` dispatch of `MelodyModel.__init__`.

The data flowing through converters is abstract (`Ops B D`: `B` = bytes read from the cache
handler, `D` = anything a converter produces); every function also returns the trace of
observable events in order. Core Lean only.
-/

namespace Capella.Cache

abbrev Str := List Char

/-- one converter object (a format class or a plain callable such as `convert_svgdiagram`) -/
structure Conv where
  id        : Str          -- `module:qualname` of the Python object (object identity)
  ext       : Option Str   -- `getattr(cv, "filename_extension", None)`
  fromCache : Bool         -- `hasattr(cv, "from_cache")`
  hasConvert: Bool         -- `hasattr(cv, "convert")`            (dispatch in `__load_cache`)
  isFormat  : Bool         -- `isinstance(cv, DiagramFormat)`      (dispatch in `_run_converter_chain`)
  isPretty  : Bool         -- `isinstance(cv, PrettyDiagramFormat)`
  depends   : Option Str   -- id of `getattr(cv, "depends", None)`
deriving DecidableEq, Repr

structure Table where
  convs   : List Conv
  entries : List (Str × Str)   -- entry-point name → converter id, in `entry_points()` order
deriving Repr

def Table.find (T : Table) (i : Str) : Option Conv := T.convs.find? (fun c => c.id = i)

/-- `_find_format_converter`: `next(iter(eps))` = the first entry point of that name. -/
def Table.entry (T : Table) (fmt : Str) : Option Str :=
  (T.entries.find? (fun e => e.1 = fmt)).map (·.2)

/-- `_walk_converters(first)`; `none` = fuel exhausted (cycle) or dangling id. -/
def walk (T : Table) : Nat → Str → Option (List Conv)
  | 0, _ => none
  | n + 1, i =>
    match T.find i with
    | none => none
    | some c =>
      match c.depends with
      | none => some [c]
      | some d => (walk T n d).map (c :: ·)

def Table.fuel (T : Table) : Nat := T.convs.length

/-- the chain `list(_walk_converters(_find_format_converter(fmt)))` -/
def Table.chain (T : Table) (i : Str) : Option (List Conv) := walk T T.fuel i

inductive Err
  | unknownFormat      -- UnknownOutputFormat
  | keyError           -- KeyError(uuid) of `__load_cache`
  | notInCache         -- RuntimeError("Diagram not in cache: …")
  | renderError        -- whatever `_create_diagram` raised (re-raised by `__render_fresh`)
  | valueError         -- `convert_format`: "Cannot convert from … to …"
  | diverges           -- cyclic `depends` chain: the Python loops forever
deriving DecidableEq, Repr

inductive Stage | parse | render
deriving DecidableEq, Repr

/-- observable events, in order -/
inductive Ev
  | opened (name : Str)       -- `cache_handler.open(name)` was called
  | fromCache (id : Str)      -- `cv.from_cache(bytes)`
  | convert (id : Str)        -- `cv.convert(data)`
  | pretty (id : Str)         -- `cv.convert_pretty(data)`
  | call (id : Str)           -- `cv(data)`
  | fresh                     -- `__render_fresh` (internal rendering engine)
  | errImage (s : Stage)      -- `__create_error_image(stage, err)`
deriving DecidableEq, Repr

/-- what the converters compute: parameters of the model -/
structure Ops (B D : Type) where
  fromCache : Str → B → D
  convert   : Str → D → D
  pretty    : Str → D → D
  call      : Str → D → D
  errImage  : Stage → Err → D

section
variable {B D : Type}

/-- `not ext or not hasattr(cv, "from_cache")` → `continue` -/
def usableExt (c : Conv) : Option Str :=
  match c.ext with
  | none => none
  | some e => if e ≠ [] ∧ c.fromCache = true then some e else none

/-- `helpers.normalize_pure_path(filename).parts == (filename,)`: the name is one clean path component,
i.e. every file handler resolves it to exactly that name below its root (C14 path model) -/
def plainName (n : Str) : Bool := Capella.Path.normalize [] [n] == [n]

/-- the converters `__load_cache` probes for diagram `u`: cache-loadable, and `u ++ ext` is a plain name -/
def usableFor (u : Str) (c : Conv) : Option Str :=
  match usableExt c with
  | none => none
  | some e => if plainName (u ++ e) then some e else none

/-- the `for i, cv in enumerate(chain)` loop of `__load_cache`: names opened in order, and the
first hit (index, converter, bytes) if any. `open n = none` is `FileNotFoundError`. -/
def probe (openf : Str → Option B) (u : Str) : List Conv → Nat → List Str × Option (Nat × Conv × B)
  | [], _ => ([], none)
  | c :: rest, i =>
    match usableFor u c with
    | none => probe openf u rest (i + 1)
    | some e =>
      match openf (u ++ e) with
      | some b => ([u ++ e], some (i, c, b))
      | none =>
        let r := probe openf u rest (i + 1)
        ((u ++ e) :: r.1, r.2)

/-- the loop before the repair: every `uuid + ext` was handed to the file handler as it is -/
def probeOld (openf : Str → Option B) (u : Str) : List Conv → Nat → List Str × Option (Nat × Conv × B)
  | [], _ => ([], none)
  | c :: rest, i =>
    match usableExt c with
    | none => probeOld openf u rest (i + 1)
    | some e =>
      match openf (u ++ e) with
      | some b => ([u ++ e], some (i, c, b))
      | none =>
        let r := probeOld openf u rest (i + 1)
        ((u ++ e) :: r.1, r.2)

/-- one step of the `for cv in reversed(chain)` loop in `__load_cache` -/
def stepLoad (ops : Ops B D) (c : Conv) (d : D) : D :=
  if c.hasConvert then ops.convert c.id d else ops.call c.id d

def evLoad (c : Conv) : Ev := if c.hasConvert then .convert c.id else .call c.id

/-- one step of `_run_converter_chain` -/
def stepRun (ops : Ops B D) (pretty : Bool) (c : Conv) (d : D) : D :=
  if pretty && c.isPretty then ops.pretty c.id d
  else if c.isFormat then ops.convert c.id d
  else ops.call c.id d

def evRun (pretty : Bool) (c : Conv) : Ev :=
  if pretty && c.isPretty then .pretty c.id
  else if c.isFormat then .convert c.id
  else .call c.id

/-- `for conv in reversed(chain): data = …` — the last element of the chain runs first -/
def runLoad (ops : Ops B D) (chain : List Conv) (d : D) : D := chain.foldr (stepLoad ops) d
def runChain (ops : Ops B D) (pretty : Bool) (chain : List Conv) (d : D) : D :=
  chain.foldr (stepRun ops pretty) d

def evsLoad (chain : List Conv) : List Ev := chain.reverse.map evLoad
def evsRun (pretty : Bool) (chain : List Conv) : List Ev := chain.reverse.map (evRun pretty)

/-- `AbstractDiagram.__load_cache(chain)` with a cache handler present -/
def loadCache (ops : Ops B D) (openf : Str → Option B) (u : Str) (chain : List Conv) :
    List Ev × Except Err D :=
  match probe openf u chain 0 with
  | (names, none) => (names.map .opened, .error .keyError)
  | (names, some (i, c, b)) =>
    let pre := chain.take i          -- `chain = chain[:i]`
    (names.map .opened ++ [.fromCache c.id] ++ evsLoad pre,
     .ok (runLoad ops pre (ops.fromCache c.id b)))

/-- the model-level switches `render` looks at -/
structure Cfg where
  cache       : Bool   -- `self._model.diagram_cache is not None`
  allowRender : Bool   -- `self._allow_render` (= `model._fallback_render_aird` for `Diagram`)
deriving DecidableEq, Repr

/-- `__render_fresh` followed by `_run_converter_chain` -/
def renderFresh (ops : Ops B D) (fresh : Except Err D) (pretty : Bool) (chain : List Conv) :
    List Ev × Except Err D :=
  match fresh with
  | .error e => ([.fresh], .error e)
  | .ok d => (.fresh :: evsRun pretty chain, .ok (runChain ops pretty chain d))

/-- `AbstractDiagram.render(fmt, pretty_print=pretty)`.
`fresh` is what `__render_fresh` yields (the parsed diagram or the stored error). -/
def render (T : Table) (ops : Ops B D) (openf : Str → Option B) (fresh : Except Err D)
    (cfg : Cfg) (u : Str) (fmt : Option Str) (pretty : Bool) : List Ev × Except Err D :=
  match fmt with
  | none => renderFresh ops fresh pretty []          -- chain = [identity]; the cache is not consulted
  | some f =>
    match T.entry f with
    | none => ([], .error .unknownFormat)
    | some i =>
      match T.chain i with
      | none => ([], .error .diverges)
      | some chain =>
        if cfg.cache then
          match loadCache ops openf u chain with
          | (tr, .ok d) => (tr, .ok d)
          | (tr, .error .keyError) =>
            if cfg.allowRender then
              let r := renderFresh ops fresh pretty chain
              (tr ++ r.1, r.2)
            else (tr, .error .notInCache)
          | (tr, .error e) => (tr, .error e)
        else renderFresh ops fresh pretty chain

/-- `diagram.as_<fmt>` (`AbstractDiagram.__getattr__`) -/
def asFmt (T : Table) (ops : Ops B D) (openf : Str → Option B) (fresh : Except Err D)
    (cfg : Cfg) (u : Str) (f : Str) : List Ev × Except Err D :=
  match render T ops openf fresh cfg u (some f) false with
  | (tr, .ok d) => (tr, .ok d)
  | (tr, .error .unknownFormat) => (tr, .error .unknownFormat)
  | (tr, .error .diverges) => (tr, .error .diverges)
  | (tr, .error e) =>
    -- `err is self._error` → the stored "parse" error image, else a new "render" error image
    let (evs, img) : List Ev × D :=
      if e = .renderError then ([], ops.errImage .parse e) else ([.errImage .render], ops.errImage .render e)
    match (T.entry f).bind T.chain with
    | none => (tr, .error .unknownFormat)
    | some chain => (tr ++ evs ++ evsRun false chain, .ok (runChain ops false chain img))

/-- `convert_format(sourcefmt, targetfmt, data, pretty_print=pretty)` -/
def convertFormat (T : Table) (ops : Ops B D) (src : Option Str) (tgt : Str) (pretty : Bool)
    (data : D) : Except Err D :=
  let source : Except Err (Option Str) :=
    match src with
    | none => .ok none
    | some s => match T.entry s with
      | none => .error .unknownFormat
      | some i => .ok (some i)
  match source with
  | .error e => .error e
  | .ok source =>
    match T.entry tgt with
    | none => .error .unknownFormat
    | some ti =>
      match T.chain ti with
      | none => .error .diverges
      | some chain =>
        match source with
        | none => .error .valueError        -- `i is None` never holds: the `else` of the `for`
        | some sid =>
          if chain.any (fun c => c.id == sid) then
            .ok (runChain ops pretty (chain.takeWhile (fun c => c.id != sid)) data)
          else .error .valueError

end

/-- how `diagram_cache=` was given to `MelodyModel(path, diagram_cache=…)` -/
inductive Spec
  | falsy        -- None, "", {} …
  | samePath     -- `diagram_cache == path`
  | handler      -- a FileHandler instance
  | mapping      -- a Mapping: `get_filehandler(**diagram_cache)`
  | pathOrUrl    -- anything else: `get_filehandler(diagram_cache)`
deriving DecidableEq, Repr

inductive Handler
  | loaders      -- `self._loader.filehandler`
  | given        -- the object that was passed
  | fromKwargs   -- `get_filehandler(**spec)`
  | fromPath     -- `get_filehandler(spec)`
deriving DecidableEq, Repr

/-- the `if diagram_cache:` cascade of `MelodyModel.__init__` -/
def cacheOf : Spec → Option Handler
  | .falsy => none
  | .samePath => some .loaders
  | .handler => some .given
  | .mapping => some .fromKwargs
  | .pathOrUrl => some .fromPath

/-! ### well-formedness of a converter table (checked on the generated table by the kernel) -/

def isSuffixOfB (a b : Str) : Bool := a.isSuffixOf b

/-- no cache extension is a proper suffix of another one -/
def suffixFreeB (exts : List Str) : Bool :=
  exts.all fun e => exts.all fun e' => !(e.isSuffixOf e') || e == e'

def Table.exts (T : Table) : List Str := T.convs.filterMap usableExt

/-- every entry point's `depends` chain ends (within `convs.length` steps) -/
def Table.acyclicB (T : Table) : Bool :=
  T.entries.all fun e => (T.chain e.2).isSome

/-- `hasattr(cv,"convert")` and `isinstance(cv, DiagramFormat)` select the same converters -/
def Table.dispatchAgreeB (T : Table) : Bool := T.convs.all fun c => c.hasConvert == c.isFormat

/-- every converter that can be loaded from the cache is itself a registered format -/
def Table.usableRegisteredB (T : Table) : Bool :=
  T.convs.all fun c => (usableExt c).isNone || T.entries.any fun e => e.2 = c.id

def Table.idsNodupB (T : Table) : Bool :=
  decide (T.convs.map (·.id)).Nodup && decide (T.entries.map (·.1)).Nodup

/-- names the trace says were opened on the cache handler, in order -/
def openedNames (tr : List Ev) : List Str :=
  tr.filterMap fun | .opened n => some n | _ => none

/-! ### the free interpretation of the converters (used by the driver and the examples):
every converter application is recorded as a term, the bytes of a cache file are represented by
the file's name. Any other interpretation factors through this one. -/

inductive Term
  | file (name : Str)
  | fromCache (id : Str) (t : Term)
  | convert (id : Str) (t : Term)
  | pretty (id : Str) (t : Term)
  | call (id : Str) (t : Term)
  | fresh
  | errImage (s : Stage) (e : Err)
  | errImageX (s : Stage) (what : Str)   -- error image of an injected fault (second layer, `CacheSM`)
deriving DecidableEq, Repr

def termOps : Ops Str Term where
  fromCache i b := .fromCache i (.file b)
  convert := .convert
  pretty := .pretty
  call := .call
  errImage := .errImage

instance {ε α : Type} [DecidableEq ε] [DecidableEq α] : DecidableEq (Except ε α) := fun a b =>
  match a, b with
  | .ok x, .ok y => if h : x = y then isTrue (by rw [h]) else isFalse (by intro h'; cases h'; exact h rfl)
  | .error x, .error y => if h : x = y then isTrue (by rw [h]) else isFalse (by intro h'; cases h'; exact h rfl)
  | .ok _, .error _ => isFalse (by intro h; cases h)
  | .error _, .ok _ => isFalse (by intro h; cases h)

/-- a cache handler holding exactly the files `present` -/
def openOf (present : List Str) (name : Str) : Option Str :=
  if present.contains name then some name else none

end Capella.Cache
