import Capella.Model.Index
import Capella.Model.AccTable
import Capella.Model.Pods
/-
Executable model of the MUTATION methods of the object layer (`capellambse/model/_descriptors.py`,
`capellambse/model/_obj.py`) over a real tree state.

State.  Every fragment is its XML tree as the list of its elements in document order, each element with
its Python identity (`nid`), the identity of its parent, tag and attributes (`Row`); next to the trees
lives the index model of `Capella.Index` (`ix`: the three dictionaries of every `ModelFile` plus the
scan the index protocol works on).  Elements that were removed from a tree stay alive as Python objects:
`limbo`.  A mutation method is a program in the monad `M` (state + exception; the state survives an
exception, exactly as Python objects survive a `raise`), parameterised by a row of the GENERATED
descriptor table (`Capella/Gen/AccRows*.lean`).

Index instructions.  The tree is edited by the lxml calls of the Python code; the dictionaries are only
ever changed by *emitting an instruction of the index protocol* (`emit`), which is executed by
`Capella.Index.step` on `ix` and appended to `log` – the predicted instruction list of the API call.
The adjacent pairs of the Python code map to one instruction each:
  `loader.idcache_remove(e); parent.remove(e)`      ↦ `detach`
  `parent.insert(i, e); loader.idcache_index(e)`    ↦ `attach`       (also `append`/`addprevious`)
  `generate_uuid` → `idcache_reserve`               ↦ `reserve`
  `cleanup_after_failure` → `idcache_remove(str)`   ↦ `unreserve`
An element that `ModelElement.__init__` has appended but not yet indexed is *pending*: it is in the tree,
not in `ix`; everything built below it is attached with it by ONE `attach` when `__init__` reaches
`idcache_index(self._element)`; ids indexed below a pending element are remembered in `pendingIds` so that
`generate_uuid` sees them as used, as the real dictionaries would.
`emit` refuses an instruction whose precondition (`Lemmas/Index.lean: WFOp`, `WFOpU`) does not hold in
the state it is issued in (error `protocol`); `Lemmas/Accessor*.lean` prove that this never happens for
the modelled methods in states satisfying the invariant, and the correspondence run would show a
`protocol` error as an error-class disagreement (the Python code has no such guard).
-/
namespace Capella.Accessor
open Capella.Index Capella.AccTable Capella.DescrTable

/-! ### attribute dictionaries (`lxml` attrib: insertion ordered, unique keys) -/

def aget : List (String × String) → String → Option String
  | [], _ => none
  | (k, v) :: r, q => if k = q then some v else aget r q

def aset : List (String × String) → String → String → List (String × String)
  | [], q, v => [(q, v)]
  | (k, w) :: r, q, v => if k = q then (k, v) :: r else (k, w) :: aset r q v

def adel (a : List (String × String)) (q : String) : List (String × String) := a.filter (·.1 ≠ q)

def ATT_XT : String := "{http://www.w3.org/2001/XMLSchema-instance}type"

structure Row where
  nid : Nat
  parent : Option Nat
  tag : String
  attrs : List (String × String)
  xt : Option String            -- helpers.xtype_of(elem)
deriving DecidableEq, Repr

structure AFrag where
  name : String                 -- key in `loader.trees`
  semantic : Bool               -- fragment_type is SEMANTIC
  idtypes : List String         -- IDTYPES_PER_FILETYPE[suffix]
  rows : List Row
deriving Repr

/-- `href.split("#")[-1]` -/
def lastHash (s : String) : String := (s.splitOn "#").getLast?.getD s

/-- what the index code reads off an element -/
def entryOf (idtypes : List String) (r : Row) : Entry :=
  { nid := r.nid, ids := idtypes.filterMap (aget r.attrs), xt := r.xt,
    href := (aget r.attrs "href").map lastHash }

inductive Err
  | typeError | valueError | nonUnique | keyError | notImplemented | attributeError | runtimeError
  | corrupt | indexError | assertion
  | protocol (why : String)        -- the model was about to issue an ill-formed index instruction
  | unmodelled (why : String)      -- outside the modelled domain: the harness re-synchronises
deriving DecidableEq, Repr

structure State where
  frags : List AFrag
  ix : Loader
  limbo : List Row := []
  pending : List Nat := []       -- elements appended by `__init__` and not yet indexed
  pendingIds : List String := [] -- ids indexed below a pending element
  draws : List String := []      -- the uuid4 values the implementation drew, in order
  fresh : List Nat := []         -- identities of the element objects the implementation created, in order
  log : List Op := []
  touched : List Nat := []       -- elements whose place, parent or attributes this API call changed (and their parents)
  hits : List String := []
deriving Repr

structure Res (α : Type) where
  val : Except Err α
  st : State

def M (α : Type) := State → Res α

instance : Monad M where
  pure a := fun s => ⟨.ok a, s⟩
  bind m f := fun s => match m s with
    | ⟨.ok a, s'⟩ => f a s'
    | ⟨.error e, s'⟩ => ⟨.error e, s'⟩

def raise {α} (e : Err) : M α := fun s => ⟨.error e, s⟩
def getS : M State := fun s => ⟨.ok s, s⟩
def modS (f : State → State) : M Unit := fun s => ⟨.ok (), f s⟩
def hit (b : String) : M Unit := modS fun s => { s with hits := b :: s.hits }
def touch (ns : List Nat) : M Unit := modS fun s => { s with touched := ns ++ s.touched }

/-- `try: m  except BaseException: h; raise` -/
def tryExcept {α} (m : M α) (h : M Unit) : M α := fun s =>
  match m s with
  | ⟨.ok a, s'⟩ => ⟨.ok a, s'⟩
  | ⟨.error e, s'⟩ => match h s' with
    | ⟨.ok _, s''⟩ => ⟨.error e, s''⟩
    | ⟨.error e', s''⟩ => ⟨.error e', s''⟩

/-- `with contextlib.suppress(<errors p>): m` -/
def suppress (p : Err → Bool) (m : M Unit) : M Unit := fun s =>
  match m s with
  | ⟨.ok a, s'⟩ => ⟨.ok a, s'⟩
  | ⟨.error e, s'⟩ => if p e then ⟨.ok (), s'⟩ else ⟨.error e, s'⟩

/-- `try: m  except <errors p>: h` (the exception is swallowed) -/
def tryCatch {α} (m : M α) (p : Err → Bool) (h : M α) : M α := fun s =>
  match m s with
  | ⟨.ok a, s'⟩ => ⟨.ok a, s'⟩
  | ⟨.error e, s'⟩ => if p e then h s' else ⟨.error e, s'⟩

/-- run `m` and hand its outcome to the caller (`try: … except BaseException as e:` with the handler
written by the caller) -/
def attempt {α} (m : M α) : M (Except Err α) := fun s =>
  match m s with
  | ⟨.ok a, s'⟩ => ⟨.ok (.ok a), s'⟩
  | ⟨.error e, s'⟩ => ⟨.ok (.error e), s'⟩

def forM_ {α} : List α → (α → M Unit) → M Unit
  | [], _ => pure ()
  | a :: as, f => do f a; forM_ as f

/-! ### the tree (pure) -/

def posOf (rows : List Row) (n : Nat) : Option Nat := rows.findIdx? (·.nid == n)

/-- number of rows after a subtree root that belong to the subtree: document order + parent pointers -/
def grow (acc : List Nat) : List Row → Nat
  | [] => 0
  | r :: rs => match r.parent with
    | some p => if acc.contains p then 1 + grow (r.nid :: acc) rs else 0
    | none => 0

/-- length of the subtree (`elem.iter()`) that starts at position `pos` -/
def subLen (rows : List Row) (pos : Nat) : Nat :=
  match rows.drop pos with
  | [] => 0
  | r :: rs => 1 + grow [r.nid] rs

/-- `list(parent)` -/
def kids (rows : List Row) (p : Nat) : List Row := rows.filter (·.parent == some p)

def removeAt (rows : List Row) (pos len : Nat) : List Row := rows.take pos ++ rows.drop (pos + len)
def insertAt (rows : List Row) (pos : Nat) (seg : List Row) : List Row := rows.take pos ++ seg ++ rows.drop pos

def reparent (seg : List Row) (p : Option Nat) : List Row :=
  match seg with
  | [] => []
  | r :: rs => { r with parent := p } :: rs

/-- scan position at which lxml links a node that is inserted as child number `idx` of `p`
(before the child currently at `idx`, or after the last descendant of `p`) -/
def childPos (rows : List Row) (p idx : Nat) : Option Nat :=
  match (kids rows p)[idx]? with
  | some c => posOf rows c.nid
  | none => (posOf rows p).map (fun pp => pp + subLen rows pp)

def locate (frags : List AFrag) (n : Nat) : Option (Nat × Nat) :=
  let rec go (i : Nat) : List AFrag → Option (Nat × Nat)
    | [] => none
    | f :: fs => match posOf f.rows n with
      | some p => some (i, p)
      | none => go (i + 1) fs
  go 0 frags

def findRow (s : State) (n : Nat) : Option Row :=
  match locate s.frags n with
  | some (fi, pos) => (s.frags[fi]?).bind (fun f => f.rows[pos]?)
  | none => s.limbo.find? (·.nid == n)

/-- the rows among which `n` lives: its fragment's, or limbo -/
def rowsOf (s : State) (n : Nat) : List Row :=
  match locate s.frags n with
  | some (fi, _) => ((s.frags[fi]?).map (·.rows)).getD []
  | none => s.limbo

/-- `n` and its ancestors (`iterancestors`, not crossing fragment boundaries) -/
def ancestorsOrSelf (rows : List Row) (n : Nat) : Nat → List Nat
  | 0 => [n]
  | fuel + 1 =>
    match (rows.find? (·.nid == n)).bind (·.parent) with
    | some p => n :: ancestorsOrSelf rows p fuel
    | none => [n]

def isPending (s : State) (n : Nat) : Bool :=
  !s.pending.isEmpty && (ancestorsOrSelf (rowsOf s n) n (rowsOf s n).length).any (s.pending.contains ·)

/-! ### reads -/

def getRow (n : Nat) : M Row := do
  match findRow (← getS) n with
  | some r => pure r
  | none => raise (.unmodelled "element unknown to the model (detached before the state was loaded)")

/-- the harness can only transfer elements that hang in a fragment -/
def ensureKnown (ns : List Nat) : M Unit :=
  forM_ ns (fun n => do let _ ← getRow n)

def attrOf (n : Nat) (k : String) : M (Option String) := do pure (aget (← getRow n).attrs k)

/-- `MelodyLoader._find_fragment(elem)`: ValueError for an element that hangs in no fragment -/
def findFragment (n : Nat) : M Nat := do
  match locate (← getS).frags n with
  | some (fi, _) => pure fi
  | none => raise .valueError

def kidsOf (n : Nat) : M (List Row) := do
  let s ← getS
  pure (kids (rowsOf s n) n)

def parentOf (n : Nat) : M (Option Nat) := do pure (← getRow n).parent

def subtreeRows (s : State) (n : Nat) : List Row :=
  let rows := rowsOf s n
  match posOf rows n with
  | some pos => (rows.drop pos).take (subLen rows pos)
  | none => []

/-! ### the index protocol guard -/

/-- decidable form of `WFOp ∧ WFOpU` (Lemmas/Index.lean, Lemmas/IndexUnique.lean) for the instructions
the object layer issues -/
def opOk (l : Loader) : Op → Bool
  | .attach fi _ seg =>
    (match l[fi]? with
     | some f => (seg.map (·.nid)).Nodup && seg.all (fun e => !(f.tree.map (·.nid)).contains e.nid)
     | none => false) &&
    (scanIds seg).Nodup && (scanIds seg).all (fun k => !(allIdsB l).contains k)
  | .detach fi seg =>
    match l[fi]? with
    | some f => seg.all (f.tree.contains ·)
    | none => false
  | .reserve fi k => (l[fi]?).isSome && !(allIdsB l).contains k
  | .unreserve fi k => (l[fi]?).isSome && !(allIdsB l).contains k
  | _ => false
where allIdsB (l : Loader) : List String := l.flatMap (fun f => scanIds f.tree)

def emit (op : Op) : M Unit := fun s =>
  if opOk s.ix op then
    match step s.ix op with
    | .ok ix' => ⟨.ok (), { s with ix := ix', log := s.log ++ [op] }⟩
    | .error .corrupt => ⟨.error .corrupt, s⟩
    | .error _ => ⟨.error (.protocol "index step failed"), s⟩
  else ⟨.error (.protocol "ill-formed index instruction"), s⟩

/-! ### tree edits (state) -/

def setRows (fi : Nat) (rows : List Row) : M Unit :=
  modS fun s => { s with frags := s.frags.modify fi (fun f => { f with rows := rows }) }

def fragOf (fi : Nat) : M AFrag := do
  match (← getS).frags[fi]? with
  | some f => pure f
  | none => raise (.protocol "no such fragment")

/-- is the attribute one the index reads (an id type of the fragment, `href`, the type)? -/
def indexRelevant (f : AFrag) (k : String) : Bool := f.idtypes.contains k || k == "href" || k == ATT_XT

def updRow (n : Nat) (g : Row → Row) : M Unit := do
  touch [n]
  let s ← getS
  match locate s.frags n with
  | some (fi, _) => setRows fi ((← fragOf fi).rows.map (fun r => if r.nid == n then g r else r))
  | none => modS fun s => { s with limbo := s.limbo.map (fun r => if r.nid == n then g r else r) }

/-- `elem.set(k, v)` / `elem.attrib[k] = v` -/
def setAttr (n : Nat) (k v : String) : M Unit := do
  let s ← getS
  match locate s.frags n with
  | some (fi, _) =>
    let f ← fragOf fi
    if indexRelevant f k && !isPending s n then raise (.unmodelled "index-relevant attribute of an indexed element")
  | none => pure ()
  updRow n (fun r => { r with attrs := aset r.attrs k v, xt := if k == ATT_XT then some v else r.xt })

/-- `elem.attrib.pop(k, None)` -/
def popAttr (n : Nat) (k : String) : M Unit := do
  let s ← getS
  match locate s.frags n with
  | some (fi, _) =>
    let f ← fragOf fi
    if indexRelevant f k && !isPending s n then raise (.unmodelled "index-relevant attribute of an indexed element")
  | none => pure ()
  updRow n (fun r => { r with attrs := adel r.attrs k })

/-- `loader.idcache_remove(elem); parent.remove(elem)`: the element and everything below it leaves the
tree (and stays alive in limbo).  Below a pending element nothing is attached in `ix`: the ids that were
indexed there are popped one by one (`idcache_remove` pops every id of the subtree). -/
def removeElem (n : Nat) : M Unit := do
  let s ← getS
  match locate s.frags n with
  | none => raise .valueError           -- "Call idcache_remove() before removing the subtree"
  | some (fi, pos) =>
    let f ← fragOf fi
    let len := subLen f.rows pos
    let seg := (f.rows.drop pos).take len
    touch (n :: ((f.rows[pos]?).bind (·.parent)).toList)
    if isPending s n then
      hit "remove.pending"
      forM_ (scanIds (seg.map (entryOf f.idtypes))) (fun k => emit (.unreserve fi k))
      modS fun s => { s with pending := s.pending.filter (· != n),
                             pendingIds := s.pendingIds.filter (fun k => !(scanIds (seg.map (entryOf f.idtypes))).contains k) }
    else
      hit "remove.attached"
      emit (.detach fi (seg.map (entryOf f.idtypes)))
    setRows fi (removeAt f.rows pos len)
    modS fun s => { s with limbo := s.limbo ++ reparent seg none }

/-- `parent.remove(elem)` alone (no index call): only legal for an element that is not in `ix` -/
def removeElemNoIndex (n : Nat) : M Unit := do
  let s ← getS
  match locate s.frags n with
  | none => raise .valueError
  | some (fi, pos) =>
    let f ← fragOf fi
    if !isPending s n then raise (.unmodelled "remove without idcache_remove of an indexed element")
    touch (n :: ((f.rows[pos]?).bind (·.parent)).toList)
    let len := subLen f.rows pos
    let seg := (f.rows.drop pos).take len
    setRows fi (removeAt f.rows pos len)
    modS fun s => { s with limbo := s.limbo ++ reparent seg none, pending := s.pending.filter (· != n) }

/-- take a detached subtree out of limbo -/
def takeLimbo (n : Nat) : M (List Row) := do
  let s ← getS
  match posOf s.limbo n with
  | none => raise (.protocol s!"element {n} is neither attached nor detached")
  | some pos =>
    let len := subLen s.limbo pos
    let seg := (s.limbo.drop pos).take len
    modS fun s => { s with limbo := removeAt s.limbo pos len }
    pure seg

/-- `etree.Element(tag); parent.append(elem)` – tree only; the element is pending -/
def newElement (parent : Nat) (tag : String) (nid : Nat) (attrs : List (String × String) := []) : M Unit := do
  touch [nid, parent]
  let s ← getS
  let row : Row := { nid := nid, parent := some parent, tag := tag, attrs := attrs, xt := aget attrs ATT_XT }
  match locate s.frags parent with
  | some (fi, pp) =>
    let f ← fragOf fi
    setRows fi (insertAt f.rows (pp + subLen f.rows pp) [row])
    modS fun s => { s with pending := nid :: s.pending }
  | none =>
    match posOf s.limbo parent with
    | some pp => modS fun s => { s with limbo := insertAt s.limbo (pp + subLen s.limbo pp) [row] }
    | none => raise (.protocol "parent element unknown")

/-- `loader.idcache_index(elem)` for an element that is in the tree: the pending root is attached with
everything below it; below another pending element the call only marks the ids as used -/
def indexElem (n : Nat) : M Unit := do
  let s ← getS
  match locate s.frags n with
  | none => raise .valueError           -- "Call idcache_index() after adding the subtree"
  | some (fi, pos) =>
    let f ← fragOf fi
    let seg := (f.rows.drop pos).take (subLen f.rows pos)
    let ents := seg.map (entryOf f.idtypes)
    if s.pending.contains n && (s.pending.filter (· != n)).isEmpty then
      hit "index.pending-root"
      modS fun s => { s with pending := [], pendingIds := [] }
      emit (.attach fi pos ents)
    else if isPending s n then
      hit "index.below-pending"
      modS fun s => { s with pending := s.pending.filter (· != n), pendingIds := s.pendingIds ++ scanIds ents }
    else raise (.unmodelled "idcache_index of an element that is already attached")

/-- `parent.insert(idx, elem); loader.idcache_index(elem)` for an element that is not in `ix`
(detached, or just un-indexed by the caller): lxml links it before the child currently at `idx`. -/
def linkAt (parent idx : Nat) (seg : List Row) : M Unit := do
  touch (parent :: (seg.head?.map (·.nid)).toList)
  let s ← getS
  match locate s.frags parent with
  | some (fi, _) =>
    let f ← fragOf fi
    match childPos f.rows parent idx with
    | some pos =>
      let seg' := reparent seg (some parent)
      setRows fi (insertAt f.rows pos seg')
      emit (.attach fi pos (seg'.map (entryOf f.idtypes)))
    | none => raise (.protocol "childPos")
  | none =>
    -- the new parent is itself detached: the element ends up below it, `idcache_index` raises ValueError
    match childPos s.limbo parent idx with
    | some pos =>
      modS fun s => { s with limbo := insertAt s.limbo pos (reparent seg (some parent)) }
      raise .valueError
    | none => raise (.protocol "childPos(limbo)")

/-- `with suppress(ValueError): loader.idcache_remove(v)`; `parent.insert(idx, v)`; `loader.idcache_index(v)`
(`DirectProxyAccessor.insert`, `RoleTagAccessor.insert`): lxml MOVES `v`; the reference child is the one
at `idx` before the move. -/
def moveElem (parent idx v : Nat) : M Unit := do
  let s ← getS
  let anchor := ((kids (rowsOf s parent) parent)[idx]?).map (·.nid)
  -- `_check_movable(value._element, parent)` (fix 0f18930): the new parent is the element itself or lies below it (in the
  -- same tree: lxml's `iterancestors` stops at the root of a fragment file) - refused before anything is un-indexed
  if (subtreeRows s v).any (·.nid == parent) then hit "move.below-itself-refused"; raise .valueError
  if (locate s.frags v).isSome && ((findRow s v).bind (·.parent)).isNone then
    raise (.unmodelled "moving the root of a fragment file")
  if anchor == some v then
    -- moved before itself: the tree stays; the index entries are removed and added again
    hit "move.noop"
    match locate s.frags v with
    | some (fi, pos) =>
      let f ← fragOf fi
      let ents := ((f.rows.drop pos).take (subLen f.rows pos)).map (entryOf f.idtypes)
      emit (.detach fi ents); emit (.attach fi pos ents)
    | none => raise .valueError
  else
    let seg ← (match locate s.frags v with
      | some _ => do hit "move.attached"; removeElem v; takeLimbo v
      | none => do hit "move.detached"; takeLimbo v)
    -- position of the reference child after the unlink
    let s' ← getS
    let idx' := match anchor with
      | some a => ((kids (rowsOf s' parent) parent).findIdx? (·.nid == a)).getD (kids (rowsOf s' parent) parent).length
      | none => (kids (rowsOf s' parent) parent).length
    linkAt parent idx' seg

/-! ### links -/

def isIdChar (c : Char) : Bool := c.isAlphanum || c == '_' || c == '-'

/-- `helpers.CROSS_FRAGMENT_LINK.fullmatch`: `[[xtype ]fragment]#uuid` or a bare uuid → (xtype, uuid) -/
def parseLink (link : String) : Option (Option String × String) :=
  let ok (r : String) : Bool := !r.isEmpty && r.all isIdChar
  match link.splitOn "#" with
  | [r] => if ok r && !(link.contains ' ') then some (none, r) else none
  | [pre, r] =>
    if !ok r then none else
    match pre.splitOn " " with
    | [""] => some (none, r)
    | [frag] => if frag.isEmpty then none else some (none, r)
    | [xt, frag] => if xt.isEmpty || frag.isEmpty then none else some (some xt, r)
    | _ => none
  | _ => none

/-- ids that `loader[k]` finds: the dictionaries, plus ids indexed below a pending element -/
def lookupM (k : String) : M Nat := do
  let s ← getS
  match lookup s.ix k with
  | .ok n => pure n
  | .error _ => raise .keyError

/-- `MelodyLoader.follow_link` -/
def followLink (link : String) : M Nat := do
  match parseLink link with
  | none => raise .valueError
  | some (xt, ref) =>
    let n ← lookupM ref
    match xt with
    | none => pure n
    | some x =>
      let r ← getRow n
      if r.xt == some x then pure n else raise .typeError

/-- `str.split()`: maximal runs of non-whitespace characters -/
def splitWs (s : String) : List String :=
  let rec go (cur : List Char) (acc : List String) : List Char → List String
    | [] => (if cur.isEmpty then acc else String.ofList cur.reverse :: acc).reverse
    | c :: cs =>
      if c.isWhitespace then go [] (if cur.isEmpty then acc else String.ofList cur.reverse :: acc) cs
      else go (c :: cur) acc cs
  go [] [] s.toList

/-- `helpers.split_links` -/
def splitLinks (links : String) : Except Err (List String) :=
  let rec go (next : String) (acc : List String) : List String → Except Err (List String)
    | [] => if next.isEmpty then .ok acc.reverse else .error .valueError
    | p :: ps =>
      if p.contains '#' then
        let part := if next.isEmpty then p else next ++ " " ++ p
        if (parseLink part).isSome then go "" (part :: acc) ps else .error .valueError
      else if next.isEmpty then go p acc ps else .error .valueError
  go "" [] (splitWs links)

/-- `MelodyLoader.follow_links(…, ignore_broken)` -/
def followLinks (links : String) (ignoreBroken : Bool) : M (List Nat) := do
  match splitLinks links with
  | .error e => raise e
  | .ok parts =>
    let rec go : List String → M (List Nat)
      | [] => pure []
      | p :: ps => do
        let r ← tryCatch (do let n ← followLink p; pure (some n))
                  (fun e => ignoreBroken && (e == .keyError || e == .valueError)) (pure none)
        let rest ← go ps
        pure (match r with | some n => n :: rest | none => rest)
    go parts

def hexDigit (n : Nat) : Char := "0123456789ABCDEF".toList.getD n '0'

/-- `urllib.parse.quote(s)` (safe = "/") -/
def urlQuote (s : String) : String :=
  String.ofList (s.toUTF8.toList.flatMap fun b =>
    let c := Char.ofNat b.toNat
    if b.toNat < 128 && (c.isAlphanum || c == '_' || c == '.' || c == '-' || c == '~' || c == '/') then [c]
    else ['%', hexDigit (b.toNat / 16), hexDigit (b.toNat % 16)])

/-- `helpers.relpath_pure(path, start)` on path components -/
def relpath (path start : List String) : List String :=
  let rec go (parts : List String) (pre : Bool) : List String → List String
    | [] => parts
    | p :: ps =>
      if pre then
        match parts with
        | q :: qs => if q = p then go qs true ps else go parts false ps
        | [] => go parts false ps
      else go (".." :: parts) false ps
  -- `parts` is kept front-to-back; the Python code pops matching leading components and then PREPENDS ".."
  go path true start

/-- `MelodyLoader.create_link(from, to)` -/
def createLink (frm to : Nat) : M String := do
  let ff ← findFragment frm
  let tf ← findFragment to
  let fromF ← fragOf ff
  let toF ← fragOf tf
  let tr ← getRow to
  let sorted := toF.idtypes.toArray.qsort (· < ·) |>.toList
  match sorted.findSome? (aget tr.attrs) with
  | none => raise .valueError
  | some uuid =>
    if ff == tf then pure s!"#{uuid}" else
    let rel := "/".intercalate (relpath (toF.name.splitOn "/") (fromF.name.splitOn "/"))
    let link := urlQuote rel
    -- include_target_type: unless the source is a visual fragment (those are not part of this state)
    match tr.xt with
    | some t => if t.isEmpty then pure s!"{link}#{uuid}" else pure s!"{t} {link}#{uuid}"
    | none => pure s!"{link}#{uuid}"

/-! ### `generate_uuid` / `new_uuid` -/

def isUsed (s : State) (k : String) : Bool :=
  (match lookup s.ix k with | .ok _ => true | .error _ => false) || s.pendingIds.contains k

/-- `MelodyLoader.generate_uuid(parent, want=…)`: a wanted id that is in use is refused; random draws are
repeated until one is free; the id is reserved in the parent's fragment -/
def generateUuidM (parent : Nat) (want : Option String) : M (Nat × String) := do
  let fi ← findFragment parent
  let s ← getS
  match want with
  | some w =>
    if isUsed s w then hit "uuid.want-used"; raise .valueError
    else
      hit "uuid.want-free"
      emit (.reserve fi w); pure (fi, w)
  | none =>
    let rest := s.draws.dropWhile (isUsed s)
    match rest with
    | [] => raise (.protocol "uuid draws exhausted")
    | k :: more =>
      if rest.length < s.draws.length then hit "uuid.redraw"
      modS fun s => { s with draws := more }
      emit (.reserve fi k); pure (fi, k)

/-- `cleanup_after_failure` of `new_uuid` -/
def cleanupAfterFailure (fi parent : Nat) (k : String) : M Unit := do
  emit (.unreserve fi k)                     -- tree.idcache_remove(new_uuid)
  let ks ← kidsOf parent
  let f ← fragOf fi
  forM_ (ks.filter (fun c => (entryOf ["id", "uid", "{http://www.omg.org/XMI}id"] c).ids.contains k))
    (fun c => do hit "uuid.cleanup-removes-child"; let _ := f; removeElemNoIndex c.nid)

/-- `with loader.new_uuid(parent, want=…) as k: body k` -/
def withNewUuid {α} (parent : Nat) (want : Option String) (body : String → M α) : M α := do
  let (fi, k) ← generateUuidM parent want
  let a ← tryExcept (body k) (cleanupAfterFailure fi parent k)
  -- `if tree.idcache_is_reserved(new_uuid)`: the id was never used
  let s ← getS
  match (if s.pendingIds.contains k then none else (s.ix[fi]?).bind (fun f => dget f.idc k)) with
  | some none =>
    hit "uuid.never-used"
    cleanupAfterFailure fi parent k
    raise .runtimeError
  | _ => pure a

/-! ### API values -/

/-- a value handed to a mutation method -/
inductive Val
  | elem (nid : Nat)             -- an object of this model
  | foreign                      -- an object of another model
  | newObject (hint : String)    -- `NewObject(hint, …)` where the method does not accept one
  | str (s : String)
deriving Repr

/-- how `getattr(type(self), key)` classifies a keyword of `ModelElement.__init__` (reflection on the
class, sent by the harness with the request: the POD tables belong to C12) -/
inductive Slot
  | missing                                  -- no such attribute: AttributeError
  | notDescriptor                            -- neither Accessor nor POD: TypeError
  | stringPod (attr : String) (writable : Bool)
  | role (row : ARow)                        -- single-valued RoleTagAccessor, value is a NewObject
  | pod (d : Capella.Pods.Desc) (repair : List (List Char × Option (List Char)))   -- any POD kind of `Capella.Pods`; see `podParams`
  | other (why : String)
deriving Repr

/-- a value assigned to a POD attribute, as far as the object layer's histories assign them -/
inductive PodLit
  | none | bool (b : Bool) | int (i : Int) | str (s : String)
  | member (cls name value : String)       -- a member of an `enum.Enum` class
  | other                                  -- any other object
deriving Repr

mutual
  inductive KwVal
    | str (s : String)
    | newObj (spec : NewSpec)
    | lit (v : PodLit)
  deriving Repr
  inductive NewSpec
    | mk (hint : String) (kw : List (String × Slot × KwVal))
  deriving Repr
end

def NewSpec.hint : NewSpec → String | .mk h _ => h
def NewSpec.kw : NewSpec → List (String × Slot × KwVal) | .mk _ k => k

/-! ### class table -/

structure Tables where
  rows : List ARow
  classes : List CRow

def Tables.cls (t : Tables) (name : String) : Option CRow := t.classes.find? (·.name == name)

/-- the descriptor `getattr(cls, attr)` resolves to: first hit along the MRO -/
def Tables.descriptor (t : Tables) (cls : CRow) (attr : String) : Option ARow :=
  cls.mro.findSome? (fun c => t.rows.find? (fun r => r.cls == c && r.attr == attr))

/-- `WritableAccessor._match_xtype(hint)` over `XTYPE_HANDLERS[None]` -/
def matchXtypeGeneric (t : Tables) (hint : String) : M (CRow × String) := do
  let ms := t.classes.filterMap (fun c => match c.xtype with
    | some x => if hint == x || hint == (x.splitOn ":").getLast?.getD x || hint == c.short then some (c, x) else none
    | none => none)
  match ms with
  | [] => hit "xtype.unknown"; raise .valueError
  | [m] => pure m
  | _ => hit "xtype.ambiguous"; raise .valueError

/-- `return cls, _xtype.build_xtype(cls)`: the type string is computed from the class's module and name (generated column
`CRow.built`), whether or not the class is registered; a module below no xtype anchor raises TypeError -/
def buildXtype (c : CRow) : M (CRow × String) :=
  match c.built with
  | some x => do (if c.xtype != some x then hit "xtype.built-differs-from-registered" else pure ()); pure (c, x)
  | none => do hit "xtype.no-anchor"; raise .typeError

def matchXtype (t : Tables) (row : ARow) (hint : String) : M (CRow × String) := do
  if row.kind == .roleTagAccessor && !row.classes.isEmpty then
    match (row.classes.filterMap t.cls).find? (·.short == hint) with
    | some c => buildXtype c
    | none => hit "xtype.role-invalid"; raise .valueError
  else matchXtypeGeneric t hint

def guessXtype (t : Tables) (row : ARow) : M (CRow × String) := do
  if row.kind == .roleTagAccessor then
    match row.classes with
    | [c] => match t.cls c with
      | some cr => buildXtype cr
      | none => raise (.unmodelled "class not in table")
    | _ => hit "xtype.role-needs-hint"; raise .valueError
  else
    match row.elemClass with
    | none => hit "xtype.generic-class"; raise .valueError
    | some c =>
      match row.xtypes with
      | [] => hit "xtype.none"; raise .valueError
      | [x] => match t.cls c with
        | some cr => pure (cr, x)
        | none => raise (.unmodelled "class not in table")
      | _ => hit "xtype.multiple"; raise .valueError

/-- `if typehint: self._match_xtype(typehint) else: self._guess_xtype()` – the first thing `_create` does -/
def resolveXtype (t : Tables) (row : ARow) (hint : Option String) : M (CRow × String) :=
  match hint with
  | some h => if h.isEmpty then guessXtype t row else matchXtype t row h
  | none => guessXtype t row

/-! ### `ModelElement.__init__`, `WritableAccessor._create`, `RoleTagAccessor.__set__` -/

def nextFresh : M Nat := do
  let s ← getS
  match s.fresh with
  | n :: rest => modS (fun s => { s with fresh := rest }); pure n
  | [] =>
    -- an element that does not survive the call: any identity that is not in use will do
    let used := (s.frags.flatMap (·.rows.map (·.nid))) ++ s.limbo.map (·.nid)
    pure (used.foldl max 0 + 1)

/-- `BasePOD.__set__` for a `StringPOD` -/
def setStringPod (n : Nat) (attr : String) (writable : Bool) (v : String) : M Unit := do
  if !writable && (← attrOf n attr).isSome then raise .typeError
  if v != "" then setAttr n attr v else popAttr n attr

/-- the runtime parameters of `Capella.Pods` as far as the object layer needs them: `helpers.repair_html` (libxml2) is an
INPUT of the call – the harness runs the repair on the assigned value and sends (value, result | raised); floats and
datetimes are not assigned through this model (`setPod` declines those kinds) -/
def podParams (repair : List (List Char × Option (List Char))) : Capella.Pods.Params :=
  { F := Unit, fZero := (), fRepr := fun _ => [], fParse := fun _ => none, fOfInt := fun _ => none, fIsZero := fun _ => true,
    N := Unit, T := Unit, localize := fun _ => none, iso := fun _ => [], fromIso := fun _ => none, truncMs := id,
    isoOk := fun _ => true, repair := fun s => (repair.find? (fun p => p.1 == s)).bind (·.2), xhtml := false,
    escLinked := some, unescLinked := id }

def PodLit.toPy (P : Capella.Pods.Params) : PodLit → Capella.Pods.PyVal P
  | .none => .none | .bool b => .bool b | .int i => .int i | .str s => .str s.toList
  | .member c n v => .member c.toList n.toList v.toList | .other => .other

def podErr : Capella.Pods.Err → Err
  | .typeError => .typeError | .valueError => .valueError | .keyError => .keyError | .assertionError => .assertion
  | .attributeError => .attributeError | .overflowError => .unmodelled "OverflowError of a POD"
  | .unsupported => .unmodelled "POD kind"

/-- `BasePOD.__set__(obj, value)` for the POD kinds String, HTMLString, Bool, Int, Enum – the decisions (`value != default`,
`_to_xml`, lxml's refusal of XML-illegal text) are those of `Capella.Pods` (the model of C07); the write goes through
`setAttr` / `popAttr` so that the element is recorded as touched and an index-relevant attribute is not changed silently -/
def setPod (P : Capella.Pods.Params) (n : Nat) (d : Capella.Pods.Desc) (v : Capella.Pods.PyVal P) : M Unit := do
  match d.kind with
  | .float | .datetime | .selector | .other _ => raise (.unmodelled "POD kind")
  | _ => pure ()
  let attr := String.ofList d.attr
  if !d.writable && (← attrOf n attr).isSome then hit "pod.not-writable"; raise .typeError
  if !Capella.Pods.isNone v && Capella.Pods.neDefault P d v then
    match Capella.Pods.toXml P d v with
    | .error e => hit "pod.to-xml-raises"; raise (podErr e)
    | .ok data =>
      if Capella.Pods.xmlOk data then do hit "pod.store"; setAttr n attr (String.ofList data)
      else do hit "pod.xml-illegal"; raise .valueError
  else do hit "pod.elide"; popAttr n attr

mutual
  /-- `ModelElement.__init__(model, parent, xmltag, uuid=…, **kw)`; returns the identity of the element -/
  def modelElementInit (fuel : Nat) (t : Tables) (cls : CRow) (parent : Nat) (xmltag : Option String) (uuid : String)
      (kw : List (String × Slot × KwVal)) : M Nat := do
    let missing := cls.required.filter (fun a => a != "uuid" && !(kw.any (·.1 == a)))
    if !missing.isEmpty then hit "init.missing-required"; raise .typeError
    let tag ← match (xmltag <|> cls.xmltag) with
      | some x => pure x
      | none => do hit "init.no-xmltag"; raise .typeError
    let nid ← nextFresh
    newElement parent tag nid                       -- etree.Element(xmltag); parent.append(self._element)
    tryExcept (do
        setStringPod nid "id" false uuid            -- self.uuid = uuid
        forM_ kw (fun (key, slot, val) => do
          if key == "xtype" then
            match val with
            | .str x => setAttr nid ATT_XT x
            | _ => raise (.unmodelled "xtype value")
          else match slot, val with
            | .missing, _ => hit "init.no-such-attribute"; raise .attributeError
            | .notDescriptor, _ => hit "init.not-a-descriptor"; raise .typeError
            | .stringPod a w, .str v => hit "init.pod"; setStringPod nid a w v
            | .pod d rp, .lit v => hit "init.pod-kind"; setPod (podParams rp) nid d (v.toPy _)
            | .role row, .newObj spec => hit "init.nested"; roleTagSet fuel t row nid spec
            | _, _ => raise (.unmodelled "keyword of __init__"))
        indexElem nid)                              -- loader.idcache_index(self._element)
      (do hit "init.rollback"; removeElem nid)      -- idcache_remove(self._element); parent.remove(self._element)
    pure nid

  /-- `WritableAccessor._create(parent, xmltag, typehint, **kw)` -/
  def accCreate (fuel : Nat) (t : Tables) (row : ARow) (parent : Nat) (xmltag : Option String) (hint : Option String)
      (kw : List (String × Slot × KwVal)) : M Nat := do
    let (cls, xt) ← resolveXtype t row hint
    let want := kw.findSome? (fun (k, _, v) => if k == "uuid" then (match v with | .str s => some s | _ => none) else none)
    let want := want.bind (fun w => if w.isEmpty then none else some w)
    let kw' := (kw.filter (·.1 != "uuid")).filter (·.1 != "xtype") ++ [("xtype", Slot.other "xtype", KwVal.str xt)]
    withNewUuid parent want (fun k => modelElementInit fuel t cls parent xmltag k kw')

  /-- `RoleTagAccessor.__set__(obj, NewObject(…))` for a single-valued role -/
  def roleTagSet (fuel : Nat) (t : Tables) (row : ARow) (obj : Nat) (spec : NewSpec) : M Unit := do
    if row.aslist then raise .notImplemented
    let tag ← match row.tag with | some x => pure x | none => raise (.protocol "role tag")
    let cur := ((← kidsOf obj).filter (·.tag == tag))
    match cur with
    | [] => hit "role.empty"
    | [e] =>
      let (valueclass, _) ← matchXtype t row spec.hint
      -- elem.__class__: the class registered for the element's xsi:type
      let elemclass := t.classes.find? (fun c => c.xtype.isSome && c.xtype == e.xt)
      if elemclass.map (·.name) != some valueclass.name then
        hit "role.replace"
        removeElem e.nid                            -- idcache_remove(elem._element); obj._element.remove(elem._element)
      else
        hit "role.same-class"
        forM_ spec.kw (fun (_, slot, val) => match slot, val with
          | .stringPod a w, .str v => setStringPod e.nid a w v
          | .pod d rp, .lit v => setPod (podParams rp) e.nid d (v.toPy _)
          | .missing, _ => raise .attributeError
          | _, _ => raise (.unmodelled "setattr on an existing role element"))
        return
    | _ => raise .runtimeError                      -- no_list: "Expected 1 object"
    match fuel with
    | 0 => raise (.unmodelled "NewObject nesting deeper than the fuel")
    | fuel' + 1 => let _ ← accCreate fuel' t row obj (some tag) (some spec.hint) spec.kw
end

/-! ### `__get__`: the freshly fetched view -/

/-- `loader._follow_href(child)` -/
def followHref (r : Row) : M Nat := do
  match aget r.attrs "href" with
  | none => pure r.nid
  | some h => followLink h

/-- `loader.iterchildren_xt(elem, *xtypes)` -/
def iterchildrenXt (n : Nat) (xts : List String) : M (List Nat) := do
  let ks ← kidsOf n
  let rec go : List Row → M (List Nat)
    | [] => pure []
    | c :: cs => do
      let real ← followHref c
      let rr ← getRow real
      let rest ← go cs
      if xts.isEmpty || (match rr.xt with | some x => xts.contains x | none => false) then pure (real :: rest) else pure rest
  go ks

def findRoots (row : ARow) (obj : Nat) : M (List Nat) := do
  let rec go (roots : List Nat) : List String → M (List Nat)
    | [] => pure roots
    | x :: xs => do
      let mut next := []
      for r in roots do
        next := next ++ (← iterchildrenXt r [x])
      go next xs
  go [obj] row.rootelem

/-- `DirectProxyAccessor.__get__` (elements; `follow_abstract` resolves each member) -/
def directGet (row : ARow) (obj : Nat) : M (List Nat) := do
  let roots ← findRoots row obj
  let mut out := []
  for r in roots do
    for e in (← iterchildrenXt r row.xtypes) do
      if (← attrOf e "id").isSome then
        if row.followAbstract then
          match (← attrOf e "abstractType") with
          | some a => if a.isEmpty then raise .runtimeError else out := out ++ [← lookupM' a]
          | none => raise .runtimeError
        else out := out ++ [e]
  pure out
where lookupM' (a : String) : M Nat := followLink a

/-- `LinkAccessor.__find_refs` -/
def findRefs (row : ARow) (obj : Nat) : M (List Row) := do
  pure ((← kidsOf obj).filter (fun c => (match row.tag with | some x => c.tag == x | none => true) &&
    (match c.xt with | some x => row.xtypes.contains x | none => false)))

/-- `LinkAccessor.__follow_ref` -/
def followRef (row : ARow) (ref : Row) : M (Option Nat) := do
  match row.follow.bind (aget ref.attrs) with
  | none => pure none
  | some link => if link.isEmpty then pure none else do pure (some (← followLink link))

/-- `LinkAccessor.__get__` -/
def linkGet (row : ARow) (obj : Nat) : M (List Nat) := do
  let mut out := []
  for r in (← findRefs row obj) do
    match (← followRef row r) with
    | some e => if !out.contains e then out := out ++ [e]
    | none => pure ()
  pure out

/-- `AttrProxyAccessor.__get__` -/
def attrGet (row : ARow) (obj : Nat) : M (List Nat) := do
  match row.follow with
  | none => raise (.protocol "attr")
  | some a => followLinks ((← attrOf obj a).getD "") false

/-- `RoleTagAccessor.__get__` (elements) -/
def roleGet (row : ARow) (obj : Nat) : M (List Nat) := do
  let ks := (← kidsOf obj).filter (fun c => some c.tag == row.tag)
  let mut out := []
  for c in ks do out := out ++ [← followHref c]
  pure out

def accGetBase (row : ARow) (obj : Nat) : M (List Nat) :=
  match row.kind with
  | .directProxyAccessor => directGet row obj
  | .linkAccessor => linkGet row obj
  | .attrProxyAccessor | .physicalLinkEndsAccessor => attrGet row obj
  | .roleTagAccessor => roleGet row obj
  | _ => raise (.unmodelled "__get__ of this accessor kind")

/-- `type(obj)` for `ModelElement.from_model(model, elem)`: the class registered for the element's
`xsi:type`, else `ModelElement` -/
def classOf (t : Tables) (r : Row) : Option CRow :=
  match r.xt.bind (fun x => t.classes.find? (fun c => c.xtype == some x)) with
  | some c => some c
  | none => t.cls "capellambse.model._obj.ModelElement"

/-- `acc.__get__(obj)`; `TypecastAccessor.__get__` is `getattr(obj, self.attr)` -/
def accGet (t : Tables) (row : ARow) (obj : Nat) : M (List Nat) := do
  match row.kind with
  | .typecastAccessor =>
    let r ← getRow obj
    match classOf t r, row.follow with
    | some c, some a =>
      match t.descriptor c a with
      | some inner => accGetBase inner obj
      | none => raise .attributeError
    | _, _ => raise (.protocol "typecast")
  | _ => accGetBase row obj

/-- the relation descriptors `getattr(type(obj), name)` yields, one per attribute name, in `dir()` order -/
def Tables.descriptorsOf (t : Tables) (c : CRow) : List ARow :=
  let all := c.mro.flatMap (fun k => t.rows.filter (·.cls == k))
  let firsts := all.foldl (fun acc r => if acc.any (·.attr == r.attr) then acc else acc ++ [r]) []
  (firsts.toArray.qsort (fun a b => a.attr < b.attr)).toList

/-! ### deletion with the purge `ExitStack` -/

/-- what a purge context does when the stack unwinds without an exception -/
inductive PurgeExit
  | linkElems (refs : List Nat)                       -- LinkAccessor: remove the collected link elements
  | attrList (row : ARow) (obj target : Nat)          -- AttrProxyAccessor(aslist): rewrite the attribute
  | attrSingle (attr : String) (obj : Nat)            -- AttrProxyAccessor: delete the attribute
  | nothing
deriving Repr

/-- `acc.purge_references(ref, target).__enter__()` for the kinds that do not delegate -/
def purgeEnterBase (row : ARow) (obj target : Nat) : M PurgeExit := do
  match row.kind with
  | .directProxyAccessor | .attributeMatcherAccessor | .roleTagAccessor => pure .nothing
  -- the ReqIF relations are virtual (`purge_references` is `yield`); `AttributeAccessor` is a DirectProxyAccessor
  | .elementRelationAccessor | .requirementsRelationAccessor | .attributeAccessor => pure .nothing
  | .physicalLinkEndsAccessor => hit "purge.refuse"; raise .notImplemented
  | .attrProxyAccessor =>
    match row.follow with
    | some a => if row.aslist then pure (.attrList row obj target) else pure (.attrSingle a obj)
    | none => raise (.protocol "attr")
  | .linkAccessor =>
    let mut purge := []
    for r in (← findRefs row obj) do
      if (← followRef row r) == some target then purge := purge ++ [r.nid]
    pure (.linkElems purge)
  | _ => raise (.unmodelled "purge_references of this accessor kind")

/-- `acc.purge_references(ref, target).__enter__()`; `TypecastAccessor` enters the context of
`getattr(self.class_, self.attr)` -/
def purgeEnter (t : Tables) (row : ARow) (obj target : Nat) : M PurgeExit := do
  match row.kind with
  | .typecastAccessor =>
    match row.elemClass.bind t.cls, row.follow with
    | some c, some a =>
      match t.descriptor c a with
      | some inner => hit "purge.typecast"; purgeEnterBase inner obj target
      | none => hit "purge.typecast-attribute-error"; raise .attributeError
    | _, _ => raise (.protocol "typecast")
  | _ => purgeEnterBase row obj target

/-- the part of a purge context after `yield` (exceptions are logged, never raised) -/
def purgeExit (x : PurgeExit) : M Unit :=
  match x with
  | .nothing => pure ()
  | .linkElems refs =>
    forM_ refs (fun r => do
      -- `parent = ref.getparent(); if parent is None: continue`
      let s ← getS
      match locate s.frags r with
      | some _ => (match (findRow s r).bind (·.parent) with
        | some _ => do hit "purge.link-removed"; removeElem r
        | none => pure ())
      | none => hit "purge.link-already-gone")
  | .attrList row obj target =>
    tryCatch (do
        let a ← match row.follow with | some a => pure a | none => raise (.protocol "attr")
        let links ← followLinks ((← attrOf obj a).getD "") true
        let remaining := links.filter (· != target)
        let mut parts := []
        for v in remaining do parts := parts ++ [← tryCatchLink obj v]
        hit "purge.attr-list"
        setAttr obj a (" ".intercalate parts))
      (fun _ => true) (hit "purge.attr-list-failed")
  | .attrSingle a obj => do hit "purge.attr-single"; popAttr obj a
where tryCatchLink (obj v : Nat) : M String := createLink obj v

structure RefHit where
  referrer : Nat
  row : ARow
deriving Repr

/-- ids that the links in an attribute value refer to (every `…#id` token) -/
def refIds (v : String) : List String :=
  (splitWs v).filterMap (fun tok => match tok.splitOn "#" with
    | [_, r] => if r.isEmpty then none else some r
    | _ => none)

/-- kinds whose purge context does nothing on enter and on exit: whether they expose the target is irrelevant -/
def purgeIsNoop : Kind → Bool
  | .directProxyAccessor | .attributeMatcherAccessor | .roleTagAccessor
  | .elementRelationAccessor | .requirementsRelationAccessor | .attributeAccessor => true
  | _ => false

/-- `MelodyModel.find_references(target)` restricted to what `_delete` uses of it: the (referrer, writable
accessor) pairs whose value contains the target.  The XPath pre-filter selects every element that has – or
whose child has – an attribute other than `href` mentioning `#<uuid>`; each is wrapped and every relation
of its class is read; a read that raises is skipped. Only writable accessors reach a purge context. -/
def refIndex (s : State) : List (Row × List String) :=
  s.frags.flatMap (fun f => f.rows.filterMap (fun r =>
    let ids := r.attrs.flatMap (fun (k, v) => if k != "href" && v.contains '#' then refIds v else [])
    if ids.isEmpty then none else some (r, ids)))

def findReferences (t : Tables) (idx : List (Row × List String)) (target : Nat) : M (List RefHit) := do
  let uuid ← match (← attrOf target "id") with | some u => pure u | none => raise .valueError
  let mut elems : List Nat := []
  for (r, ids) in idx do
    if ids.contains uuid then
      -- document order: a parent comes before its child
      for o in (r.parent.toList ++ [r.nid]) do
        if !elems.contains o then elems := elems ++ [o]
  let mut out : List RefHit := []
  for o in elems do
    let r ← getRow o
    match classOf t r with
    | none => raise (.unmodelled "class table has no ModelElement")
    | some c =>
      for d in t.descriptorsOf c do
        if d.writable && !purgeIsNoop d.kind then
          match (← attempt (accGet t d o)) with
          | .ok vs => if vs.contains target then out := out ++ [{ referrer := o, row := d }]
          | .error (.unmodelled w) => raise (.unmodelled w)
          | .error _ => pure ()
  pure out

/-- `MelodyLoader.iterdescendants(root)`: document order; a fragment placeholder (an element with `href`) is
replaced by the root of the fragment it points to, whose descendants follow immediately -/
def iterDescendants : Nat → Nat → M (List Nat)
  | 0, _ => raise (.unmodelled "fragment nesting deeper than the fuel")
  | fuel + 1, n => do
    let s ← getS
    let mut out : List Nat := []
    for r in (subtreeRows s n).drop 1 do
      match aget r.attrs "href" with
      | some h =>
        let real ← followLink ((splitWs h).getLast?.getD h)      -- self[href.split()[-1]]
        hit "delete.follows-placeholder"
        out := out ++ [real] ++ (← iterDescendants fuel real)
      | none => out := out ++ [r.nid]
    pure out

/-- the enter phase of `_delete`: every purge context of every element of the subtrees is entered; nothing is
written; an exception unwinds the stack with the exception passed to the generators, none of which catches it.
Returns the exits, newest first (the order `ExitStack` runs them). -/
def deleteEnter (t : Tables) (self : ARow) (elements : List Nat) : M (List PurgeExit) := do
  -- `_check_deletable(elements)` (first statement of `_delete`): a member that is the root of its own fragment file
  -- (`getparent()` is None) is refused with NotImplementedError before anything is purged or removed
  for e in elements do
    if (← parentOf e).isNone then hit "delete.fragment-root-refused"; raise .notImplemented
  -- all_elements = descendants (following fragment placeholders) + elements
  let mut descendants : List Nat := []
  for e in elements do descendants := descendants ++ (← iterDescendants 16 e)
  let all := descendants ++ elements
  let idx := refIndex (← getS)       -- the enter phase writes nothing: one scan serves every target
  let mut exits : List PurgeExit := []
  for e in all do
    if (← attrOf e "id").isSome then
      for h in (← findReferences t idx e) do
        if h.row.cls == self.cls && h.row.attr == self.attr then pure ()        -- `acc is self`
        else if !h.row.writable then pure ()
        else
          let x ← purgeEnter t h.row h.referrer e
          exits := x :: exits
  pure exits

/-- `DirectProxyAccessor._delete(model, elements)`: enter all, remove, exit all -/
def deleteElems (t : Tables) (self : ARow) (elements : List Nat) : M Unit := do
  let exits ← deleteEnter t self elements
  for e in elements do
    match (← parentOf e) with
    | some _ => removeElem e                      -- idcache_remove(elm); parent.remove(elm)
    | none => hit "delete.no-parent"; raise .assertion
  -- exit phase, LIFO (`exits` is already newest first)
  forM_ exits purgeExit

/-! ### the mutation methods of the accessors -/

/-- Python's `list[i]` -/
def pyIndex {α} (l : List α) (i : Int) : Option α :=
  let n : Int := l.length
  if 0 ≤ i ∧ i < n then l[i.toNat]? else if -n ≤ i ∧ i < 0 then l[(i + n).toNat]? else none

/-- Python's `list[i:j]` bounds for `slice(i, j)` with step 1 -/
def pySliceBound (n : Nat) (i : Int) : Nat :=
  if i < 0 then (i + n).toNat else min i.toNat n

/-- `DirectProxyAccessor.insert` / `RoleTagAccessor.insert` -/
def containInsert (owner : Nat) (elems : List Nat) (index : Int) (value : Val) : M Unit := do
  match value with
  | .newObject _ => hit "insert.newobject"; raise .notImplemented
  | .foreign => hit "insert.foreign"; raise .valueError
  | .str _ => raise .attributeError              -- `value._model` on a str
  | .elem v =>
    let n : Int := elems.length
    let index := if index < 0 then max (index + n) 0 else index
    let index := min index n
    -- try: … except (KeyError, ValueError): parent_index = len(parent)
    let parentIndex ← tryCatch (do
        if index > 0 then
          let anchor ← match elems[(index - 1).toNat]? with
            | some a => pure a
            | none => raise (.protocol "anchor")
          let anchor ← (do
            match (← parentOf anchor) with
            | some _ => pure anchor
            | none =>
              -- a member stored in its own fragment file: its placeholder among the children
              hit "insert.anchor-is-fragment-root"
              let id := (← attrOf anchor "id").getD ""
              let s ← getS
              match (s.frags.zip s.ix).findSome? (fun (af, f) => if af.semantic then dget f.hrefs id else none) with
              | some ph => pure ph
              | none => raise .keyError)
          match (← kidsOf owner).findIdx? (·.nid == anchor) with
          | some p => hit "insert.after-anchor"; pure (p + 1)
          | none => raise .valueError
        else do hit "insert.at-front"; pure 0)
      (fun e => e == .keyError || e == .valueError)
      (do hit "insert.anchor-lost"; pure (← kidsOf owner).length)
    moveElem owner parentIndex v

/-- `LinkAccessor.__create_link(parent, target, before=…)`; returns the link element -/
def createLinkElem (row : ARow) (parent target : Nat) (before : Option Nat) : M Nat := do
  let tag ← match row.tag with | some x => pure x | none => raise .assertion
  if row.unique then
    for r in (← findRefs row parent) do
      if (← followRef row r) == some target then hit "link.non-unique"; raise .nonUnique
  withNewUuid parent none (fun k => do
    let xt ← match row.xtypes with | [x] => pure x | _ => raise .valueError
    let link ← createLink parent target
    let follow ← match row.follow with | some a => pure a | none => raise (.protocol "follow")
    let attrs := [(ATT_XT, xt), ("id", k), (follow, link)]
    let attrs ← (match row.backattr, (← attrOf parent "id") with
      | some b, some pid => if pid.isEmpty then pure attrs else pure (aset attrs b s!"#{pid}")
      | _, _ => pure attrs)
    let nid ← nextFresh
    let seg : List Row := [{ nid := nid, parent := none, tag := tag, attrs := attrs, xt := some xt }]
    let nkids := (← kidsOf parent).length
    match before with
    | none => hit "link.append"; linkAt parent nkids seg
    | some b =>
      -- before_elm = self.__backref(parent, before); assert before_elm is not None
      let mut beforeElm : Option Nat := none
      for r in (← findRefs row parent) do
        if beforeElm.isNone && (← followRef row r) == some b then beforeElm := some r.nid
      match beforeElm with
      | none => hit "link.before-lost"; raise .assertion
      | some be =>
        match (← kidsOf parent).findIdx? (·.nid == be) with
        | some i => hit "link.before"; linkAt parent i seg    -- before_elm.addprevious(refobj); idcache_index(refobj)
        | none => raise .assertion
    pure nid)

/-- `LinkAccessor.insert` -/
def linkInsertM (row : ARow) (owner : Nat) (elems : List Nat) (index : Int) (value : Val) : M Unit := do
  if !row.aslist then raise .typeError
  if row.tag.isNone then hit "link.no-tag"; raise .notImplemented
  match value with
  | .newObject _ => raise .notImplemented
  | .foreign => raise (.unmodelled "link to an object of another model")
  | .str _ => raise .attributeError
  | .elem v =>
    let n : Int := elems.length
    let index := if index < 0 then max (index + n) 0 else index
    let before := if index < n then elems[index.toNat]? else none
    let _ ← createLinkElem row owner v before

/-- `LinkAccessor.delete` -/
def linkDelete (row : ARow) (owner : Nat) (obj : Nat) : M Unit := do
  if !row.aslist then raise .typeError
  for r in (← findRefs row owner) do
    if (← followRef row r) == some obj then
      hit "link.delete"
      removeElem r.nid
      return
  hit "link.delete-not-found"
  raise .valueError

/-- `LinkAccessor.__delete__` -/
def linkClearM (row : ARow) (owner : Nat) : M Unit := do
  forM_ (← findRefs row owner) (fun r => removeElem r.nid)

/-- `LinkAccessor.__set__` -/
def linkSet (row : ARow) (owner : Nat) (values : List Val) (iterable : Bool) : M Unit := do
  if !row.aslist then
    if iterable then raise .typeError
  else if !iterable then raise .typeError
  if row.tag.isNone then raise .notImplemented
  let ks ← kidsOf owner
  let old := (← findRefs row owner).filterMap (fun r => (ks.findIdx? (·.nid == r.nid)).map (fun i => (i, r.nid)))
  linkClearM row owner
  let rec go (created : List Nat) : List Val → M Unit
    | [] => pure ()
    | v :: vs => do
      let r ← attempt (match v with
          | .elem t => createLinkElem row owner t none
          | _ => raise .attributeError)
      match r with
      | .ok n => go (created ++ [n]) vs
      | .error e =>
        -- except BaseException: remove what was created, put the old link elements back
        hit "link.set-rollback"
        forM_ created removeElem
        forM_ old (fun (i, r) => do let seg ← takeLimbo r; linkAt owner i seg)
        raise e
  go [] values

/-- `AttrProxyAccessor.__set_links` -/
def setLinks (row : ARow) (obj : Nat) (values : List Val) : M Unit := do
  let a ← match row.follow with | some a => pure a | none => raise (.protocol "attr")
  let mut parts := []
  for v in values do
    match v with
    | .elem t => parts := parts ++ [← createLink obj t]
    | .foreign => hit "attr.foreign"; raise .valueError
    | _ => raise .attributeError
  setAttr obj a (" ".intercalate parts)

/-- `AttrProxyAccessor.insert` -/
def attrInsertM (row : ARow) (owner : Nat) (elems : List Nat) (index : Int) (value : Val) : M Unit := do
  match value with
  | .newObject _ => raise .notImplemented
  | .foreign => hit "attr.foreign"; raise .valueError
  | .str _ => raise .attributeError
  | .elem v =>
    let k := pySliceBound elems.length index
    hit "attr.insert"
    setLinks row owner (((elems.take k).map Val.elem) ++ [Val.elem v] ++ ((elems.drop k).map Val.elem))

/-- `AttrProxyAccessor.delete` -/
def attrDelete (row : ARow) (owner : Nat) (elems : List Nat) (obj : Nat) : M Unit := do
  hit "attr.delete"
  setLinks row owner ((elems.filter (· != obj)).map Val.elem)

/-- `isinstance(value, cls)` for an element of this model: the class registered for its `xsi:type` (else `ModelElement`)
has `cls` in its MRO -/
def isInstanceOf (t : Tables) (n : Nat) (cls : String) : M Bool := do
  let r ← getRow n
  match classOf t r with
  | some c => pure (c.mro.contains cls)
  | none => raise (.unmodelled "class table has no ModelElement")

/-- `acc = getattr(self.class_, self.attr)` of a `TypecastAccessor` (the relation it delegates to, resolved on the class it
casts to) -/
def typecastTarget (t : Tables) (row : ARow) : M ARow := do
  match row.elemClass.bind t.cls, row.follow with
  | some c, some a =>
    match t.descriptor c a with
    | some inner => pure inner
    | none => hit "typecast.attribute-error"; raise .attributeError
  | _, _ => raise (.protocol "typecast")

/-- the relation `getattr(obj, self.attr)` / `setattr(obj, self.attr, …)` / `delattr(obj, self.attr)` of a
`TypecastAccessor` reaches: the descriptor of that name on `type(obj)` -/
def typecastOnOwner (t : Tables) (row : ARow) (owner : Nat) : M ARow := do
  let r ← getRow owner
  match classOf t r, row.follow with
  | some c, some a =>
    match t.descriptor c a with
    | some inner => pure inner
    | none => hit "typecast.owner-attribute-error"; raise .attributeError
  | _, _ => raise (.protocol "typecast")

/-- `type(lst)._accessor` of the list `acc.__get__(obj)` hands out.  `TypecastAccessor.__get__` is `getattr(obj, self.attr)`:
the list in the caller's hand is the one the OTHER relation built, coupled to that relation – every method of the list
(`insert`, `__delitem__`, `__setitem__`, `create`) goes to it, with its `fixed_length`; no class is checked. -/
def coupledRow (t : Tables) (row : ARow) (owner : Nat) : M ARow := do
  match row.kind with
  | .typecastAccessor =>
    let inner ← typecastOnOwner t row owner
    if inner.kind == .typecastAccessor then raise (.unmodelled "TypecastAccessor over a TypecastAccessor")
    hit "typecast.coupled-list"
    pure inner
  | _ => pure row

/-- `RequirementsRelationAccessor._find_relations(obj)` as far as the mutation methods use it (as a SET: they remove every
member, or look one up by identity): the relation elements of the three relation types, anywhere in the model, whose
`source` or `target` attribute resolves to `obj`.  `model.search` reads the type index; a broken link in any relation
element makes the attribute read – and with it the whole method – raise. -/
def REL_INCOMING : String := "CapellaRequirements:CapellaIncomingRelation"
def REL_INTERNAL : String := "Requirements:InternalRelation"
def REL_OUTGOING : String := "CapellaRequirements:CapellaOutgoingRelation"

def findRelations (obj : Nat) : M (List Nat) := do
  let s ← getS
  let mut out : List Nat := []
  for f in s.frags do
    for r in f.rows do
      if r.xt == some REL_INCOMING || r.xt == some REL_INTERNAL || r.xt == some REL_OUTGOING then
        -- `i.source`, `i.target`: `AttrProxyAccessor.__get__` of the attributes `source` / `target` (swapped for the outgoing
        -- relation, which does not matter for `obj in (i.source, i.target)`)
        let a ← followLinks ((aget r.attrs "source").getD "") false
        let b ← followLinks ((aget r.attrs "target").getD "") false
        if a.length > 1 || b.length > 1 then raise .runtimeError      -- no_list: "Expected 1 object"
        if a.contains obj || b.contains obj then out := out ++ [r.nid]
  pure out

/-- `acc.delete(elmlist, obj)` for the kinds that do not delegate -/
def accDeleteBase (t : Tables) (row : ARow) (owner : Nat) (elems : List Nat) (obj : Nat) : M Unit := do
  match row.kind with
  | .directProxyAccessor | .attributeMatcherAccessor | .roleTagAccessor | .attributeAccessor => deleteElems t row [obj]
  | .linkAccessor => linkDelete row owner obj
  | .attrProxyAccessor | .physicalLinkEndsAccessor => attrDelete row owner elems obj
  | .elementRelationAccessor => hit "delete.not-deletable"; raise .notImplemented     -- `WritableAccessor.delete`
  | .requirementsRelationAccessor =>
    -- for relation in self._find_relations(elmlist._parent): if relation == obj._element: idcache_remove; remove; break
    if (← findRelations owner).contains obj then
      match (← parentOf obj) with
      | some _ => hit "reqrel.delete"; removeElem obj
      | none => raise .attributeError                 -- `obj.parent` is None
    else do hit "reqrel.delete-not-found"; raise .valueError
  | _ => raise (.unmodelled "delete of this accessor kind")

/-- `acc.delete(elmlist, obj)`; `TypecastAccessor.delete` forwards to `getattr(self.class_, self.attr)` -/
def accDelete (t : Tables) (row : ARow) (owner : Nat) (elems : List Nat) (obj : Nat) : M Unit := do
  match row.kind with
  | .typecastAccessor =>
    let inner ← typecastTarget t row
    hit "typecast.delete"
    accDeleteBase t inner owner elems obj
  | _ => accDeleteBase t row owner elems obj

/-- `RequirementsRelationAccessor.insert` -/
def reqRelInsert (t : Tables) (owner : Nat) (index : Int) (value : Val) : M Unit := do
  match value with
  | .newObject _ => raise .notImplemented
  | .foreign => raise (.unmodelled "relation object of another model")
  | .str _ => raise .assertion
  | .elem v =>
    let r ← getRow v
    let parent ← (do
      if (← isInstanceOf t v "capellambse.extensions.reqif._capellareq.CapellaOutgoingRelation") then
        -- parent = value.target._element   (`target` of an outgoing relation is stored in the attribute `source`)
        match (← followLinks ((aget r.attrs "source").getD "") false) with
        | [p] => pure p
        | [] => raise .attributeError
        | _ => raise .runtimeError
      else
        if !((← isInstanceOf t v "capellambse.extensions.reqif._capellareq.CapellaIncomingRelation") ||
             (← isInstanceOf t v "capellambse.extensions.reqif._requirements.InternalRelation")) then
          hit "reqrel.insert-not-a-relation"; raise .assertion
        -- assert elmlist._parent == value.source
        match (← followLinks ((aget r.attrs "source").getD "") false) with
        | [] => raise .assertion
        | [p] => if p == owner then pure owner else do hit "reqrel.insert-other-source"; raise .assertion
        | _ => raise .runtimeError)
    -- with suppress(ValueError): idcache_remove(value); parent.insert(index, value._element); idcache_index(value)
    -- (no `_check_movable` here: a relation moved below itself is left to lxml after the un-indexing - not predicted)
    if (subtreeRows (← getS) v).any (·.nid == parent) then raise (.unmodelled "relation moved below itself")
    let n : Int := (← kidsOf parent).length
    let idx := if index < 0 then max (index + n) 0 else min index n
    hit "reqrel.insert"
    moveElem parent idx.toNat v

/-- `acc.insert(elmlist, index, value)` for the kinds that do not delegate -/
def accInsertBase (t : Tables) (row : ARow) (owner : Nat) (elems : List Nat) (index : Int) (value : Val) : M Unit :=
  match row.kind with
  | .directProxyAccessor | .attributeMatcherAccessor | .roleTagAccessor | .attributeAccessor => containInsert owner elems index value
  | .linkAccessor => linkInsertM row owner elems index value
  | .attrProxyAccessor | .physicalLinkEndsAccessor => attrInsertM row owner elems index value
  | .elementRelationAccessor => do hit "insert.not-insertable"; raise .notImplemented    -- `WritableAccessor.insert`
  | .requirementsRelationAccessor => reqRelInsert t owner index value
  | _ => raise (.unmodelled "insert of this accessor kind")

/-- `acc.insert(elmlist, index, value)`; `TypecastAccessor.insert` checks the class and forwards to
`getattr(self.class_, self.attr)` -/
def accInsert (t : Tables) (row : ARow) (owner : Nat) (elems : List Nat) (index : Int) (value : Val) : M Unit := do
  match row.kind with
  | .typecastAccessor =>
    match value with
    | .newObject _ => hit "typecast.insert-newobject"; raise .notImplemented
    | .foreign => raise (.unmodelled "TypecastAccessor.insert of an object of another model")
    | .str _ => raise .typeError
    | .elem v =>
      let cls ← match row.elemClass with | some c => pure c | none => raise (.protocol "typecast")
      if !(← isInstanceOf t v cls) then hit "typecast.insert-wrong-class"; raise .typeError
      let inner ← typecastTarget t row
      hit "typecast.insert"
      accInsertBase t inner owner elems index value
  | _ => accInsertBase t row owner elems index value

/-- `keep = {id(v._element) for v in new_values if not isinstance(v, str | NewObject)}`: the ELEMENTS among the assigned
values (element identity – never the objects' own `==`, which some classes override to compare a name) -/
def setKeep (values : List Val) : List Nat :=
  values.filterMap (fun v => match v with | .elem n => some n | _ => none)

/-- `dropped = [v for v in list if id(v._element) not in keep]` -/
def setDropped (lst : List Nat) (values : List Val) : List Nat :=
  lst.filter (fun v => !(setKeep values).contains v)

/-- `DirectProxyAccessor.__set__` for a list relation -/
def directSet (t : Tables) (row : ARow) (owner : Nat) (values : List Val) : M Unit := do
  let lst ← directGet row owner
  -- dropped = [v for v in list if id(v._element) not in keep]; self._check_deletable(dropped): refused up front
  let dropped := setDropped lst values
  for v in dropped do
    if (← parentOf v).isNone then hit "set.fragment-root-refused"; raise .notImplemented
  for v in dropped do
    hit "set.delete-dropped"; deleteElems t row [v]
  let rec go (i : Nat) : List Val → M Unit
    | [] => pure ()
    | v :: vs => do
      let lst ← directGet row owner
      match v with
      | .str _ =>
        -- v = self.create_singleattr(list, v): without `single_attr` a TypeError – after the dropped members are gone
        match row.singleAttr with
        | none => hit "set.singleattr-none"; raise .typeError
        | some _ => raise (.unmodelled "create_singleattr")
      | .elem n =>
        if lst[i]? == some n then hit "set.in-place"
        else do hit "set.insert"; containInsert owner lst (i : Int) v
      | _ => containInsert owner lst (i : Int) v
      go (i + 1) vs
  go 0 values

/-- `acc.__set__(obj, value)` with a list value, for the kinds that do not delegate -/
def accSetBase (t : Tables) (row : ARow) (owner : Nat) (values : List Val) : M Unit :=
  match row.kind with
  | .directProxyAccessor | .attributeMatcherAccessor | .attributeAccessor =>
    if row.aslist then directSet t row owner values else raise .typeError
  | .roleTagAccessor => if row.aslist then raise .notImplemented else raise .typeError
  | .linkAccessor => linkSet row owner values true
  | .attrProxyAccessor | .physicalLinkEndsAccessor =>
    if !row.aslist then raise .typeError
    else if values.any (fun v => match v with | .newObject _ => true | _ => false) then raise .notImplemented
    else setLinks row owner values
  | .elementRelationAccessor => do hit "set.not-settable"; raise .typeError           -- `WritableAccessor.__set__`
  | .requirementsRelationAccessor => do
    -- CapellaOutgoingRelation in [type(i) for i in value] → NotImplementedError; every relation of the object is un-indexed
    -- and removed; `obj._element.extend(value)` – lxml accepts elements only, model objects make it raise TypeError
    for v in values do
      match v with
      | .elem n =>
        if (← getRow n).xt == some REL_OUTGOING then hit "reqrel.set-outgoing"; raise .notImplemented
      | _ => pure ()
    for r in (← findRelations owner) do
      match (← parentOf r) with
      | some _ => hit "reqrel.set-removes"; removeElem r
      | none => raise .assertion
    if !values.isEmpty then hit "reqrel.set-extend-raises"; raise .typeError
  | _ => raise (.unmodelled "__set__ of this accessor kind")

/-- `acc.__set__(obj, value)` with a list value; `TypecastAccessor.__set__` checks the values and does
`setattr(obj, self.attr, value)` -/
def accSet (t : Tables) (row : ARow) (owner : Nat) (values : List Val) : M Unit := do
  match row.kind with
  | .typecastAccessor =>
    if values.any (fun v => match v with | .newObject _ => true | _ => false) then hit "typecast.set-newobject"; raise .notImplemented
    let cls ← match row.elemClass with | some c => pure c | none => raise (.protocol "typecast")
    for v in values do
      match v with
      | .elem n => if !(← isInstanceOf t n cls) then hit "typecast.set-wrong-class"; raise .typeError
      | .str _ => raise .typeError
      | .foreign => raise (.unmodelled "TypecastAccessor.__set__ with an object of another model")
      | .newObject _ => pure ()
    let inner ← typecastOnOwner t row owner
    hit "typecast.set"
    accSetBase t inner owner values
  | _ => accSetBase t row owner values

/-- `acc.__delete__(obj)` for the kinds that do not delegate -/
def accDelBase (t : Tables) (row : ARow) (owner : Nat) : M Unit := do
  match row.kind with
  | .directProxyAccessor | .attributeMatcherAccessor | .attributeAccessor =>
    if !row.rootelem.isEmpty then raise .typeError
    if row.followAbstract then raise .typeError
    if row.aslist then
      let roots ← findRoots row owner
      let mut es := []
      for r in roots do es := es ++ (← iterchildrenXt r row.xtypes)
      deleteElems t row es
    else raise .typeError
  | .linkAccessor => linkClearM row owner
  | .attrProxyAccessor | .physicalLinkEndsAccessor =>
    match row.follow with
    | some a => if (← attrOf owner a).isSome then popAttr owner a else raise .keyError
    | none => raise (.protocol "attr")
  | .roleTagAccessor | .elementRelationAccessor => hit "del.not-deletable"; raise .typeError    -- `Accessor.__delete__`
  | .requirementsRelationAccessor =>
    for r in (← findRelations owner) do
      match (← parentOf r) with
      | some _ => hit "reqrel.del-removes"; removeElem r
      | none => raise .assertion
  | _ => raise (.unmodelled "__delete__ of this accessor kind")

/-- `acc.__delete__(obj)`; `TypecastAccessor.__delete__` is `delattr(obj, self.attr)` -/
def accDel (t : Tables) (row : ARow) (owner : Nat) : M Unit := do
  match row.kind with
  | .typecastAccessor =>
    let inner ← typecastOnOwner t row owner
    hit "typecast.del"
    accDelBase t inner owner
  | _ => accDelBase t row owner

/-! ### `ElementListCouplingMixin` -/

/-- `ElementListCouplingMixin.insert(index, value)` (the accessor part; the list object mirrors it) -/
def listInsert (t : Tables) (row : ARow) (owner : Nat) (elems : List Nat) (index : Int) (value : Val) : M Unit := do
  if row.fixed != 0 && elems.length ≥ row.fixed then hit "list.fixed-insert"; raise .typeError
  accInsert t row owner elems index value

/-- `ElementListCouplingMixin.__delitem__(index)` -/
def listDelItem (t : Tables) (row : ARow) (owner : Nat) (elems : List Nat) (index : Int) : M Unit := do
  if row.fixed != 0 && elems.length ≤ row.fixed then hit "list.fixed-delete"; raise .typeError
  -- for obj in self[index : index + 1 or None]
  let lo := pySliceBound elems.length index
  let hi := if index + 1 == 0 then elems.length else pySliceBound elems.length (index + 1)
  forM_ ((elems.take hi).drop lo) (fun o => accDelete t row owner elems o)

/-- `ElementListCouplingMixin.__setitem__(index, value)` -/
def listSetItem (t : Tables) (row : ARow) (owner : Nat) (elems : List Nat) (index : Int) (value : Val) : M Unit := do
  let n : Int := elems.length
  if !(-n ≤ index ∧ index < n) then hit "list.setitem-index"; raise .indexError
  let k := if index < 0 then (index + n).toNat else index.toNat
  let newObjs := (elems.take k).map Val.elem ++ [value] ++ (elems.drop (k + 1)).map Val.elem
  if row.fixed != 0 && newObjs.length != row.fixed then raise .typeError
  accSet t row owner newObjs

/-- Python's `l[lo:hi] = vs` (step 1) on a plain list: both bounds clamped like slice bounds, an upper bound below the
lower one counts as the lower one (nothing is replaced, `vs` is inserted at `lo`). -/
def pySetSlice {α : Type} (l : List α) (lo hi : Int) (vs : List α) : List α :=
  let a := pySliceBound l.length lo
  let b := max a (pySliceBound l.length hi)
  l.take a ++ vs ++ l.drop b

/-- `ElementListCouplingMixin.__setitem__(slice(lo, hi), values)`: `new_objs = list(self); new_objs[lo:hi] = values`,
the fixed-length check, then the whole sequence goes to the accessor's `__set__` -/
def listSetSlice (t : Tables) (row : ARow) (owner : Nat) (elems : List Nat) (lo hi : Int) (values : List Val) : M Unit := do
  let newObjs := pySetSlice (elems.map Val.elem) lo hi values
  if row.fixed != 0 && newObjs.length != row.fixed then raise .typeError
  accSet t row owner newObjs

/-- `acc.create(elmlist, typehint, **kw)` for the kinds that do not delegate -/
def accCreateObjBase (t : Tables) (row : ARow) (owner : Nat) (hint : Option String)
    (kw : List (String × Slot × KwVal)) : M Nat :=
  match row.kind with
  | .directProxyAccessor | .attributeMatcherAccessor =>
    if !row.rootelem.isEmpty then raise .typeError else accCreate 8 t row owner none hint kw
  | .roleTagAccessor => accCreate 8 t row owner row.tag hint kw
  | .attributeAccessor => raise (.unmodelled "AttributeAccessor.create (own _match_xtype)")
  | .requirementsRelationAccessor => raise (.unmodelled "RequirementsRelationAccessor.create")
  | _ => do hit "create.not-creatable"; raise .typeError   -- WritableAccessor.create: "Cannot create objects"

/-- `acc.create(elmlist, typehint, **kw)`; `TypecastAccessor.create` refuses a type hint and asks
`getattr(self.class_, self.attr)` for an object of exactly the class it casts to -/
def accCreateObj (t : Tables) (row : ARow) (owner : Nat) (hint : Option String)
    (kw : List (String × Slot × KwVal)) : M Nat := do
  match row.kind with
  | .typecastAccessor =>
    if (hint.getD "") != "" then hit "typecast.create-hint"; raise .typeError
    let inner ← typecastTarget t row
    let cls ← match row.elemClass.bind t.cls with | some c => pure c | none => raise (.protocol "typecast")
    let (_, xt) ← buildXtype cls
    hit "typecast.create"
    let n ← accCreateObjBase t inner owner (some xt) kw
    if !(← isInstanceOf t n cls.name) then raise .assertion
    pure n
  | _ => accCreateObjBase t row owner hint kw

/-- `ElementListCouplingMixin.create(typehint, **kw)` -/
def listCreate (t : Tables) (row : ARow) (owner : Nat) (elems : List Nat) (hint : Option String)
    (kw : List (String × Slot × KwVal)) : M Nat := do
  if row.fixed != 0 && elems.length ≥ row.fixed then hit "list.fixed-create"; raise .typeError
  -- newobj = acc.create(self, typehint, **kw)
  let newobj ← accCreateObj t row owner hint kw
  -- try: acc.insert(self, len(self), newobj)
  -- except: loader.idcache_remove(newobj._element); parent._element.remove(newobj._element); raise   (fix 501db10:
  -- the clean-up un-indexes what it detaches; before, an element that was still indexed stayed in the indexes)
  tryExcept (accInsert t row owner elems (elems.length : Int) (.elem newobj))
    (do hit "create.insert-failed"; removeElem newobj)
  pure newobj

/-! ### the API surface -/

/-- one call a user makes on a model object or on a model-coupled list -/
inductive Call
  | create (row : ARow) (owner : Nat) (elems : Option (List Nat)) (hint : Option String) (kw : List (String × Slot × KwVal))
  | insert (row : ARow) (owner : Nat) (elems : Option (List Nat)) (i : Int) (v : Val)
  | delItem (row : ARow) (owner : Nat) (elems : Option (List Nat)) (i : Int)
  | setItem (row : ARow) (owner : Nat) (elems : Option (List Nat)) (i : Int) (v : Val)
  | setSlice (row : ARow) (owner : Nat) (elems : Option (List Nat)) (lo hi : Int) (vs : List Val)   -- `lst[lo:hi] = [...]`
  | set (row : ARow) (owner : Nat) (vs : List Val)          -- `owner.attr = [...]`
  | del (row : ARow) (owner : Nat)                          -- `del owner.attr`
  | roleSet (row : ARow) (owner : Nat) (spec : NewSpec)     -- `owner.attr = NewObject(...)`
  | podSet (owner : Nat) (attr : String) (writable : Bool) (v : String)
  /-- `owner.<pod attribute> = v` for any POD kind; `repair` = what `helpers.repair_html` made of the value (HTML only) -/
  | podSetK (owner : Nat) (d : Capella.Pods.Desc) (repair : List (List Char × Option (List Char))) (v : PodLit)

def valKnown (v : Val) : M Unit := match v with | .elem n => ensureKnown [n] | _ => pure ()

/-- the list object in hand: the one the caller passes, or a freshly fetched one -/
def withElems {α} (t : Tables) (row : ARow) (owner : Nat) (elems : Option (List Nat)) (k : List Nat → M α) : M α := do
  ensureKnown [owner]
  match elems with
  | some e => do ensureKnown e; k e
  | none => do let e ← accGet t row owner; k e

def apiStep (t : Tables) : Call → M (Option Nat)
  | .create row owner elems hint kw => withElems t row owner elems fun e => do
      let row ← coupledRow t row owner
      let n ← listCreate t row owner e hint kw; pure (some n)
  | .insert row owner elems i v => withElems t row owner elems fun e => do
      valKnown v; let row ← coupledRow t row owner; listInsert t row owner e i v; pure none
  | .delItem row owner elems i => withElems t row owner elems fun e => do
      let row ← coupledRow t row owner; listDelItem t row owner e i; pure none
  | .setItem row owner elems i v => withElems t row owner elems fun e => do
      valKnown v; let row ← coupledRow t row owner; listSetItem t row owner e i v; pure none
  | .setSlice row owner elems lo hi vs => withElems t row owner elems fun e => do
      forM_ vs valKnown; let row ← coupledRow t row owner; listSetSlice t row owner e lo hi vs; pure none
  | .set row owner vs => do ensureKnown [owner]; forM_ vs valKnown; accSet t row owner vs; pure none
  | .del row owner => do ensureKnown [owner]; accDel t row owner; pure none
  | .roleSet row owner spec => do
      ensureKnown [owner]
      if row.kind == .roleTagAccessor then roleTagSet 8 t row owner spec
      else raise (.unmodelled "single-valued assignment on this accessor kind")
      pure none
  | .podSet owner attr w v => do ensureKnown [owner]; setStringPod owner attr w v; pure none
  | .podSetK owner d rp v => do ensureKnown [owner]; setPod (podParams rp) owner d (v.toPy _); pure none

/-- what the caller's session looks like before a call: the per-call inputs (uuid draws, identities of the objects
the implementation is going to create) are set, the per-call outputs are empty -/
def beginCall (s : State) (draws : List String) (fresh : List Nat) : State :=
  { s with draws := draws, fresh := fresh, log := [], touched := [], hits := [], pending := [], pendingIds := [] }

/-- a session: calls one after the other; an exception ends the call, not the session -/
def apiRun (t : Tables) : List (Call × List String × List Nat) → State → State
  | [], s => s
  | (c, draws, fresh) :: cs, s => apiRun t cs (apiStep t c (beginCall s draws fresh)).st

end Capella.Accessor
