/-
Model of the hand-maintained per-fragment indexes of `capellambse.loader.core.ModelFile`
(`__idcache`, `__xtypecache`, `__hrefsources`) and of the `MelodyLoader` entry points built on them
(`follow_link`/`__getitem__`, `generate_uuid`, `new_uuid`, `check_duplicate_uuids`, `idcache_*`).

A fragment's XML tree is represented by its **pre-order scan** (`subtree.iter()` order): a subtree is
a contiguous segment of that list. This is exactly the view the index code has of the tree — every
index routine is a loop over `subtree.iter()` — and it keeps the invariant first-order.
`nid` stands for Python object identity (`is`, `id(elm)`).
-/
namespace Capella.Index

structure Entry where
  nid  : Nat                 -- id(elm)
  ids  : List String         -- values of the fragment's id-type attributes on this element
  xt   : Option String       -- helpers.xtype_of(elm)
  href : Option String       -- elm.get("href").split("#")[-1]
deriving DecidableEq, Repr

/-! ### dict as association list (unique keys, insertion ordered) -/

def dget {β} (l : List (String × β)) (k : String) : Option β :=
  match l with
  | [] => none
  | (k', v) :: rest => if k' = k then some v else dget rest k

def dset {β} (l : List (String × β)) (k : String) (v : β) : List (String × β) :=
  match l with
  | [] => [(k, v)]
  | (k', v') :: rest => if k' = k then (k, v) :: rest else (k', v') :: dset rest k v

def ddel {β} (l : List (String × β)) (k : String) : List (String × β) :=
  l.filter (fun p => p.1 ≠ k)

structure Frag where
  name     : String
  semantic : Bool                         -- fragment_type is SEMANTIC
  ignDups  : Bool                         -- ignore_uuid_dups or VISUAL
  tree     : List Entry                   -- pre-order scan of `root`
  idc      : List (String × Option Nat)   -- __idcache   (None = reserved)
  xtc      : List (String × Nat)          -- __xtypecache as a set of (xtype, id(elm))
  hrefs    : List (String × Nat)          -- __hrefsources
deriving Repr

inductive Err
  | corrupt        -- CorruptModelError
  | keyError       -- KeyError (incl. "Ambiguous reference")
  | valueError     -- ValueError
  | typeError      -- TypeError (xtype mismatch in follow_link)
  | runtime        -- RuntimeError
  | other (s : String)
deriving DecidableEq, Repr

/-! ### ModelFile.idcache_index / idcache_remove / idcache_rebuild / idcache_reserve -/

/-- the `for idtype in idtypes` part for one element -/
def indexIds (ign : Bool) (nid : Nat) : List String → List (String × Option Nat) →
    Except Err (List (String × Option Nat))
  | [], idc => .ok idc
  | k :: ks, idc =>
    match dget idc k with
    | some (some n) =>
      if n ≠ nid ∧ !ign then .error .corrupt else indexIds ign nid ks (dset idc k (some nid))
    | _ => indexIds ign nid ks (dset idc k (some nid))

def xtcAdd (xtc : List (String × Nat)) (x : String) (n : Nat) : List (String × Nat) :=
  if (x, n) ∈ xtc then xtc else xtc ++ [(x, n)]

/-- one loop iteration of `idcache_index` -/
def indexEntry (f : Frag) (e : Entry) : Except Err Frag := do
  let xtc := match e.xt with | some x => xtcAdd f.xtc x e.nid | none => f.xtc
  let idc ← indexIds f.ignDups e.nid e.ids f.idc
  let hrefs := match e.href with | some h => dset f.hrefs h e.nid | none => f.hrefs
  pure { f with idc := idc, xtc := xtc, hrefs := hrefs }

/-- `ModelFile.idcache_index(subtree)`; on `CorruptModelError` the partially updated caches stay,
as in the code (the exception leaves the loop). We return the error only. -/
def idcacheIndex (f : Frag) : List Entry → Except Err Frag
  | [] => .ok f
  | e :: es => do let f' ← indexEntry f e; idcacheIndex f' es

/-- `ModelFile.idcache_remove(str)` -/
def idcacheRemoveKey (f : Frag) (k : String) : Frag := { f with idc := ddel f.idc k }

/-- `ModelFile.idcache_remove(element)`, one loop iteration: entries that are not indexed are skipped
(`dict.pop(key, None)`, `suppress(KeyError)`) -/
def removeEntry (f : Frag) (e : Entry) : Except Err Frag :=
  .ok { f with
    idc := e.ids.foldl ddel f.idc
    xtc := match e.xt with | some x => f.xtc.filter (· ≠ (x, e.nid)) | none => f.xtc
    hrefs := match e.href with | some h => ddel f.hrefs h | none => f.hrefs }

def idcacheRemove (f : Frag) : List Entry → Except Err Frag
  | [] => .ok f
  | e :: es => do let f' ← removeEntry f e; idcacheRemove f' es

def idcacheRebuild (f : Frag) : Except Err Frag :=
  idcacheIndex { f with idc := [], xtc := [], hrefs := [] } f.tree

def idcacheReserve (f : Frag) (k : String) : Frag := { f with idc := dset f.idc k none }

/-- `ModelFile.__getitem__` -/
def fragGet (f : Frag) (k : String) : Option Nat := (dget f.idc k).join

/-! ### the loader -/

abbrev Loader := List Frag

/-- `follow_link` on a bare id / `#id` (xtype check done by the caller): scan all fragments -/
def lookup (l : Loader) (k : String) : Except Err Nat :=
  match l.filterMap (fun f => fragGet f k) with
  | [] => .error .keyError
  | [n] => .ok n
  | _ => .error .keyError     -- "Ambiguous reference"

/-- `check_duplicate_uuids` as repaired (seen_ids is accumulated) -/
def checkDupsFrom (seen : List String) : Loader → Bool
  | [] => false
  | f :: fs =>
    let keys := f.idc.map (·.1)
    (keys.any (· ∈ seen)) || checkDupsFrom (seen ++ keys) fs

def hasCrossDups (l : Loader) : Bool := checkDupsFrom [] l

/-- `check_duplicate_uuids` as it was before the repair: `seen_ids` never grows -/
def hasCrossDupsOld (l : Loader) : Bool := l.any (fun f => (f.idc.map (·.1)).any (· ∈ ([] : List String)))

/-- `generate_uuid(parent, want=…)` for the fragment index `fi`; `cands` is the stream of random
uuid4 values the implementation draws (an input to the model). -/
def generateUuid (l : Loader) (fi : Nat) (want : Option String) (cands : List String) :
    Except Err (Loader × String) :=
  let reserve (k : String) : Loader := l.modify fi (fun f => idcacheReserve f k)
  match want with
  | some w =>
    match lookup l w with
    | .error _ => .ok (reserve w, w)
    | .ok _ => .error .valueError
  | none =>
    match cands.find? (fun c => match lookup l c with | .error _ => true | .ok _ => false) with
    | some c => .ok (reserve c, c)
    | none => .error (.other "candidates exhausted")

/-! ### tree edits on the scan -/

def insertSeg (f : Frag) (pos : Nat) (seg : List Entry) : Frag :=
  { f with tree := f.tree.take pos ++ seg ++ f.tree.drop pos }

def removeSeg (f : Frag) (seg : List Entry) : Frag :=
  { f with tree := f.tree.filter (fun e => !(seg.any (·.nid == e.nid))) }

/-- attach a subtree and index it: `parent.insert(i, elem); loader.idcache_index(elem)` -/
def attach (f : Frag) (pos : Nat) (seg : List Entry) : Except Err Frag :=
  idcacheIndex (insertSeg f pos seg) seg

/-- un-index a subtree and detach it: `loader.idcache_remove(elem); parent.remove(elem)` -/
def detach (f : Frag) (seg : List Entry) : Except Err Frag := do
  let f' ← idcacheRemove f seg
  pure (removeSeg f' seg)

/-- detach WITHOUT touching the index (what `LinkAccessor.purge_references` did before the repair) -/
def detachNoIndex (f : Frag) (seg : List Entry) : Frag := removeSeg f seg

/-! ### scans (the specification side) -/

def scanIds (t : List Entry) : List String := t.flatMap (·.ids)

/-- last entry carrying id `k` (dict-overwrite order of `idcache_rebuild`) -/
def scanLookup (t : List Entry) (k : String) : Option Nat :=
  match t with
  | [] => none
  | e :: es => match scanLookup es k with
    | some n => some n
    | none => if k ∈ e.ids then some e.nid else none


/-! ### API-level index protocol: what every mutation site does, as a small instruction set -/

inductive Op
  | attach (fi pos : Nat) (seg : List Entry)   -- parent.insert/append(elem); idcache_index(elem)
  | detach (fi : Nat) (seg : List Entry)       -- idcache_remove(elem); parent.remove(elem)
  | reserve (fi : Nat) (k : String)            -- generate_uuid → idcache_reserve
  | unreserve (fi : Nat) (k : String)          -- new_uuid.cleanup_after_failure → idcache_remove(str)
  | rebuild (fi : Nat)                         -- idcache_rebuild (load, root replacement on save)
  | reorder (fi : Nat) (tree : List Entry)     -- same elements in another document order (index untouched)
  | swapRoot (fi : Nat) (nid : Nat)            -- update_namespaces: new root element object, then rebuild
deriving Repr

def getFrag (l : Loader) (fi : Nat) : Except Err Frag :=
  match l[fi]? with
  | some f => .ok f
  | none => .error (.other "no such fragment")

def swapRootTree (t : List Entry) (nid : Nat) : List Entry :=
  match t with
  | [] => []
  | e :: es => { e with nid := nid } :: es

def step (l : Loader) : Op → Except Err Loader
  | .attach fi pos seg => do
    let f ← getFrag l fi
    let f' ← attach f pos seg
    pure (l.set fi f')
  | .detach fi seg => do
    let f ← getFrag l fi
    let f' ← detach f seg
    pure (l.set fi f')
  | .reserve fi k => do
    let f ← getFrag l fi
    pure (l.set fi (idcacheReserve f k))
  | .unreserve fi k => do
    let f ← getFrag l fi
    pure (l.set fi (idcacheRemoveKey f k))
  | .rebuild fi => do
    let f ← getFrag l fi
    let f' ← idcacheRebuild f
    pure (l.set fi f')
  | .reorder fi tree => do
    let f ← getFrag l fi
    pure (l.set fi { f with tree := tree })
  | .swapRoot fi nid => do
    let f ← getFrag l fi
    let f' ← idcacheRebuild { f with tree := swapRootTree f.tree nid }
    pure (l.set fi f')

def run (l : Loader) : List Op → Except Err Loader
  | [] => .ok l
  | op :: ops => do let l' ← step l op; run l' ops

end Capella.Index

namespace Capella.Index

/-- `ModelElement.__init__` inside `new_uuid`, failing after `nested` sub-objects were already built
(each nested `__init__` appended and indexed its own element): the repaired roll-back un-indexes the
partially built subtree, removes it, and `cleanup_after_failure` drops the reserved id.
`nested` is arbitrary, so the failure point ranges over every prefix of the nested creations. -/
def createFailing (f : Frag) (pos : Nat) (uuid : String) (outer : Entry) (nested : List Entry) :
    Except Err Frag := do
  let f1 := idcacheReserve f uuid                     -- generate_uuid
  let f2 := insertSeg f1 pos (outer :: nested)        -- parent.append(elem); nested elements appended below it
  let f3 ← idcacheIndex f2 nested                     -- each nested __init__ called idcache_index on itself
  let f4 ← idcacheRemove f3 (outer :: nested)         -- except BaseException: idcache_remove(self._element)
  let f5 := removeSeg f4 (outer :: nested)            --                       parent.remove(self._element)
  pure (idcacheRemoveKey f5 uuid)                     -- new_uuid: cleanup_after_failure

/-- the same roll-back as it was before the repair: nothing is un-indexed -/
def createFailingOld (f : Frag) (pos : Nat) (uuid : String) (outer : Entry) (nested : List Entry) :
    Except Err Frag := do
  let f1 := idcacheReserve f uuid
  let f2 := insertSeg f1 pos (outer :: nested)
  let f3 ← idcacheIndex f2 nested
  let f5 := removeSeg f3 (outer :: nested)
  pure (idcacheRemoveKey f5 uuid)

def keysOf (f : Frag) : List String := f.idc.map (·.1)

end Capella.Index

namespace Capella.Index

/-- `WritableAccessor._create` / `LinkAccessor.__create_link` (success path): `new_uuid` draws and
reserves an id in the parent's fragment, the new element carrying that id is attached at `pos` and
indexed. `mk` builds the element from the id (tag, type and attributes are irrelevant to the index). -/
def apiCreate (l : Loader) (fi pos : Nat) (want : Option String) (cands : List String)
    (mk : String → Entry) : Except Err (Loader × String) := do
  let (l1, k) ← generateUuid l fi want cands
  let l2 ← step l1 (.attach fi pos [mk k])
  pure (l2, k)

/-- `DirectProxyAccessor._delete` / `LinkAccessor.delete` at the index level: every removed subtree
(the target and the purged link elements), each in its fragment, is un-indexed and detached. -/
def apiDelete (l : Loader) (segs : List (Nat × List Entry)) : Except Err Loader :=
  run l (segs.map (fun (fi, seg) => Op.detach fi seg))

end Capella.Index

namespace Capella.Index

/-- the post-`yield` part of `MelodyLoader.new_uuid` as repaired: if the id is still only reserved,
either the caller never used it (file types that index ids: roll back and raise), or the file type
does not index ids at all (`.afm`: just drop the reservation). `indexesIds` = the suffix has id types. -/
def newUuidExit (f : Frag) (indexesIds : Bool) (k : String) : Except Err Frag :=
  match dget f.idc k with
  | some none => if indexesIds then .error .runtime else .ok (idcacheRemoveKey f k)
  | _ => .ok f

/-- the exit check as it was: `self[new_uuid] is None` — `__getitem__` raises KeyError for a
reserved id, so the check never sees `None`; nothing is cleaned up -/
def newUuidExitOld (f : Frag) (k : String) : Except Err Frag :=
  match fragGet f k with
  | some _ => .ok f
  | none => .error .keyError

end Capella.Index
