import Capella.Model.Query

/-! Helper lemmas for C10 (type search, reference search, list filters). -/
namespace Capella.Query

/-! ### type search -/

theorem mem_search (nodes : List Node) (idx : Index) (xts : List Str) (below : Option Nat) (i : Nat) :
    i ∈ search nodes idx xts below ↔
      (∃ p ∈ idx, typeOk xts p.1 = true ∧ i ∈ p.2) ∧ isPlaceholder nodes i = false ∧
        belowOk nodes below i = true := by
  unfold search
  simp only [List.mem_filter, List.mem_flatMap, Bool.not_eq_true']
  constructor
  · rintro ⟨⟨⟨p, ⟨hp, ht⟩, hi⟩, hph⟩, hb⟩
    exact ⟨⟨p, hp, ht, hi⟩, hph, hb⟩
  · rintro ⟨⟨p, hp, ht, hi⟩, hph, hb⟩
    exact ⟨⟨⟨p, ⟨hp, ht⟩, hi⟩, hph⟩, hb⟩

theorem mem_scan (nodes : List Node) (xts : List Str) (below : Option Nat) (i : Nat) :
    i ∈ scan nodes xts below ↔
      ∃ n, nodes[i]? = some n ∧ n.sem = true ∧ n.xtype ≠ [] ∧ n.placeholder = false ∧
        typeOk xts n.xtype = true ∧ belowOk nodes below i = true := by
  unfold scan
  simp only [List.mem_filter, List.mem_range]
  constructor
  · rintro ⟨hlt, h⟩
    cases hn : nodes[i]? with
    | none => rw [hn] at h; simp at h
    | some n =>
      rw [hn] at h
      simp only [Bool.and_eq_true, Bool.not_eq_true', List.isEmpty_eq_false_iff] at h
      exact ⟨n, rfl, h.1.1.1.1, h.1.1.1.2, h.1.1.2, h.1.2, h.2⟩
  · rintro ⟨n, hn, hs, hx, hph, ht, hb⟩
    refine ⟨?_, ?_⟩
    · cases Nat.lt_or_ge i nodes.length with
      | inl h => exact h
      | inr hge =>
        have : nodes[i]? = none := List.getElem?_eq_none hge
        rw [this] at hn; cases hn
    · rw [hn]
      simp only [Bool.and_eq_true, Bool.not_eq_true', List.isEmpty_eq_false_iff]
      exact ⟨⟨⟨⟨hs, hx⟩, hph⟩, ht⟩, hb⟩

theorem search_iff_scan (nodes : List Node) (idx : Index) (h : IndexConsistent nodes idx)
    (xts : List Str) (below : Option Nat) (i : Nat) :
    i ∈ search nodes idx xts below ↔ i ∈ scan nodes xts below := by
  rw [mem_search, mem_scan]
  constructor
  · rintro ⟨⟨p, hp, ht, hi⟩, hph, hb⟩
    obtain ⟨n, hn, hs, hx, hne⟩ := (h.mem_iff p.1 i).mp ⟨p, hp, rfl, hi⟩
    refine ⟨n, hn, hs, by rw [hx]; exact hne, ?_, by rw [hx]; exact ht, hb⟩
    unfold isPlaceholder at hph
    rw [hn] at hph
    exact hph
  · rintro ⟨n, hn, hs, hx, hph, ht, hb⟩
    obtain ⟨p, hp, hpx, hi⟩ := (h.mem_iff n.xtype i).mpr ⟨n, hn, hs, rfl, hx⟩
    refine ⟨⟨p, hp, by rw [hpx]; exact ht, hi⟩, ?_, hb⟩
    unfold isPlaceholder
    rw [hn]
    exact hph

theorem nodup_flatMap_filter {α β : Type} (l : List α) (f : α → List β) (p : α → Bool)
    (h : (l.flatMap f).Nodup) : ((l.filter p).flatMap f).Nodup := by
  induction l with
  | nil => simp
  | cons a r ih =>
    simp only [List.flatMap_cons, List.nodup_append] at h
    by_cases hp : p a = true
    · simp only [List.filter_cons_of_pos hp, List.flatMap_cons, List.nodup_append]
      refine ⟨h.1, ih h.2.1, ?_⟩
      intro x hx y hy
      apply h.2.2 x hx y
      simp only [List.mem_flatMap] at hy ⊢
      obtain ⟨b, hb, hyb⟩ := hy
      exact ⟨b, (List.mem_filter.mp hb).1, hyb⟩
    · simp only [Bool.not_eq_true] at hp
      rw [List.filter_cons_of_neg (by simp [hp])]
      exact ih h.2.1

theorem search_nodup (nodes : List Node) (idx : Index) (h : IndexConsistent nodes idx)
    (xts : List Str) (below : Option Nat) : (search nodes idx xts below).Nodup := by
  unfold search
  exact ((nodup_flatMap_filter idx (·.2) _ h.nodup).sublist List.filter_sublist).sublist List.filter_sublist

/-! ### strings: words, infixes, links -/

theorem isInfix_iff (needle hay : Str) : isInfix needle hay = true ↔ needle <:+: hay := by
  induction hay with
  | nil =>
    simp only [isInfix, List.isEmpty_iff, List.infix_nil]
  | cons c r ih =>
    simp only [isInfix, Bool.or_eq_true, ih, List.isPrefixOf_iff_prefix, List.infix_cons_iff]

theorem wordsAux_infix (rest : Str) : ∀ (cur t : Str), t ∈ wordsAux cur rest → t <:+: cur ++ rest := by
  induction rest with
  | nil =>
    intro cur t ht
    unfold wordsAux at ht
    split at ht
    · simp at ht
    · simp only [List.mem_singleton] at ht
      subst ht; simp
  | cons c cs ih =>
    intro cur t ht
    unfold wordsAux at ht
    by_cases hw : isWs c = true
    · simp only [hw, if_true] at ht
      by_cases hc : cur = []
      · simp only [hc, if_true] at ht
        have := ih [] t ht
        subst hc
        simp only [List.nil_append] at this ⊢
        exact List.infix_cons this
      · simp only [hc, if_false, List.mem_cons] at ht
        cases ht with
        | inl h => subst h; exact (List.prefix_append _ _).isInfix
        | inr h =>
          have := ih [] t h
          simp only [List.nil_append] at this
          exact this.trans ((List.suffix_cons c cs).isInfix.trans (List.suffix_append cur _).isInfix)
    · simp only [hw] at ht
      have := ih (cur ++ [c]) t ht
      simpa using this

theorem words_infix (s t : Str) (h : t ∈ words s) : t <:+: s := by
  have := wordsAux_infix s [] t h
  simpa using this

theorem afterLast_suffix (c : Char) : ∀ (s r : Str), afterLast c s = some r → (c :: r) <:+ s := by
  intro s
  induction s with
  | nil => intro r h; simp [afterLast] at h
  | cons x xs ih =>
    intro r h
    unfold afterLast at h
    cases hx : afterLast c xs with
    | some r' =>
      rw [hx] at h
      simp only [Option.some.injEq] at h
      subst h
      exact (ih r' hx).trans (List.suffix_cons x xs)
    | none =>
      rw [hx] at h
      simp only at h
      split at h
      · next hc =>
        simp only [Option.some.injEq] at h
        subst h; subst hc
        exact List.suffix_refl _
      · cases h

theorem afterLast_isSome (c : Char) : ∀ s : Str, c ∈ s → (afterLast c s).isSome = true := by
  intro s
  induction s with
  | nil => intro h; simp at h
  | cons x xs ih =>
    intro h
    unfold afterLast
    cases hx : afterLast c xs with
    | some r => rfl
    | none =>
      simp only
      cases List.mem_cons.mp h with
      | inl h1 => simp [h1]
      | inr h1 => have := ih h1; rw [hx] at this; simp at this

theorem lookupId_uid (nodes : List Node) (ref : Str) (y : Nat) (h : lookupId nodes ref = some y) :
    uidAt nodes y = ref := by
  unfold lookupId at h
  cases hf : nodes.zipIdx.find? (fun p => p.1.uid == ref) with
  | none => rw [hf] at h; simp at h
  | some p =>
    rw [hf] at h
    simp only [Option.map_some, Option.some.injEq] at h
    have hp := List.find?_some hf
    have hm := List.mem_zipIdx_iff_getElem?.mp (List.mem_of_find?_eq_some hf)
    unfold uidAt
    rw [← h, hm]
    simpa using hp

theorem mem_mapM_option {α β : Type} (f : α → Option β) :
    ∀ (l : List α) (r : List β), l.mapM f = some r → ∀ y ∈ r, ∃ x ∈ l, f x = some y := by
  intro l
  induction l with
  | nil => intro r h y hy; simp at h; subst h; simp at hy
  | cons a t ih =>
    intro r h y hy
    simp only [List.mapM_cons] at h
    cases ha : f a with
    | none => rw [ha] at h; simp at h
    | some b =>
      rw [ha] at h
      cases ht : t.mapM f with
      | none => rw [ht] at h; simp at h
      | some r' =>
        rw [ht] at h
        simp at h
        subst h
        cases List.mem_cons.mp hy with
        | inl h1 => exact ⟨a, List.mem_cons_self .., by rw [ha, h1]⟩
        | inr h1 =>
          obtain ⟨x, hx, hfx⟩ := ih r' ht y h1
          exact ⟨x, List.mem_cons_of_mem _ hx, hfx⟩

theorem mem_dedup (l : List Nat) (y : Nat) : y ∈ dedup l → y ∈ l := by
  induction l with
  | nil => simp [dedup]
  | cons x r ih =>
    intro h
    simp only [dedup, List.mem_cons, List.mem_filter] at h
    cases h with
    | inl h => simp [h]
    | inr h => exact List.mem_cons_of_mem _ (ih h.1)

theorem hasRef_of_attr (a : Attrs) (k v u : Str) (hk : aget a k = some v) (hne : k ≠ hrefName)
    (hinf : ('#' :: u) <:+: v) : hasRef a u = true := by
  unfold hasRef
  simp only [List.any_eq_true]
  unfold aget at hk
  have hm : (k, v) ∈ a := by
    induction a with
    | nil => simp at hk
    | cons p r ih =>
      obtain ⟨k0, v0⟩ := p
      simp only [List.lookup] at hk
      cases hkk : (k == k0) with
      | true =>
        rw [hkk] at hk
        simp only [Option.some.injEq] at hk
        have : k = k0 := by simpa using hkk
        subst this; subst hk
        exact List.mem_cons_self ..
      | false =>
        rw [hkk] at hk
        exact List.mem_cons_of_mem _ (ih hk)
  exact ⟨(k, v), hm, by simp [hne, (isInfix_iff _ _).mpr hinf]⟩

theorem mem_childrenOf (nodes : List Node) (i j : Nat) (h : j ∈ childrenOf nodes i) :
    ∃ n, nodes[j]? = some n ∧ n.parent = some i := by
  unfold childrenOf at h
  simp only [List.mem_map, List.mem_filter] at h
  obtain ⟨p, ⟨hp, hpar⟩, hj⟩ := h
  have hm := List.mem_zipIdx_iff_getElem?.mp hp
  subst hj
  exact ⟨p.1, hm, by simpa using hpar⟩

/-- the heart of `find_references`' completeness: a relation of `i` that holds `y` spells `#id(y)`
in an attribute of `i` or of one of its children -/
theorem target_spelled (nodes : List Node) (rels : Nat → List Rel) (hshape : LinkShape nodes rels)
    (i y : Nat) (r : Rel) (hr : r ∈ rels i) (ts : List Nat)
    (hts : relTargets nodes i r = some ts) (hy : y ∈ ts) :
    hasRef (attrsAt nodes i) (uidAt nodes y) = true ∨
      (childrenOf nodes i).any (fun j => hasRef (attrsAt nodes j) (uidAt nodes y)) = true := by
  unfold relTargets at hts
  cases hk : r.kind with
  | attr a =>
    rw [hk] at hts
    simp only at hts
    left
    obtain ⟨ref, href, hlk⟩ := mem_mapM_option (lookupId nodes) _ ts hts y hy
    unfold attrLinks at href
    simp only [List.mem_filterMap] at href
    obtain ⟨w, hw, hwr⟩ := href
    have huid := lookupId_uid nodes ref y hlk
    cases hv : aget (attrsAt nodes i) a with
    | none =>
      rw [hv] at hw
      simp [words, wordsAux] at hw
    | some v =>
      rw [hv] at hw
      simp only [Option.getD_some] at hw
      have h1 : ('#' :: ref) <:+: w := (afterLast_suffix '#' w ref hwr).isInfix
      have h2 : w <:+: v := words_infix v w hw
      rw [huid]
      exact hasRef_of_attr _ a v ref hv ((hshape.nohref i r hr).1 a hk) (h1.trans h2)
  | child tag xt follow =>
    rw [hk] at hts
    simp only at hts
    right
    cases hm : (childLinks nodes i tag xt follow).mapM (lookupId nodes) with
    | none => rw [hm] at hts; simp at hts
    | some ts0 =>
      rw [hm] at hts
      simp only [Option.map_some, Option.some.injEq] at hts
      subst hts
      have hy0 : y ∈ ts0 := mem_dedup ts0 y hy
      obtain ⟨ref, href, hlk⟩ := mem_mapM_option (lookupId nodes) _ ts0 hm y hy0
      unfold childLinks at href
      simp only [List.mem_filterMap, List.mem_filter] at href
      obtain ⟨j, ⟨hj, _⟩, hjr⟩ := href
      have huid := lookupId_uid nodes ref y hlk
      unfold childLink at hjr
      cases hl : aget (attrsAt nodes j) follow with
      | none => rw [hl] at hjr; simp at hjr
      | some l =>
        rw [hl] at hjr
        simp only at hjr
        by_cases he : l.isEmpty = true
        · simp [he] at hjr
        · simp only [he] at hjr
          simp only [Bool.false_eq_true, if_false, Option.some.injEq] at hjr
          have hne : l ≠ [] := by
            intro h0; apply he; simp [h0]
          have hhash : '#' ∈ l := hshape.hash i r tag xt follow hr hk j hj l hl hne
          have hsome := afterLast_isSome '#' l hhash
          cases hal : afterLast '#' l with
          | none => rw [hal] at hsome; simp at hsome
          | some r0 =>
            unfold linkTarget at hjr
            rw [hal] at hjr
            simp only [Option.getD_some] at hjr
            subst hjr
            have h1 : ('#' :: r0) <:+: l := (afterLast_suffix '#' l r0 hal).isInfix
            simp only [List.any_eq_true]
            refine ⟨j, hj, ?_⟩
            rw [huid]
            exact hasRef_of_attr _ follow l r0 hl ((hshape.nohref i r hr).2 tag xt follow hk) h1

theorem idxOf?_isSome (l : List Nat) (y k : Nat) (h : idxOf? l y = some k) : y ∈ l := by
  unfold idxOf? at h
  split at h
  · next hc => simpa using hc
  · cases h

theorem idxOf?_get (l : List Nat) (y k : Nat) (h : idxOf? l y = some k) : l[k]? = some y := by
  unfold idxOf? at h
  split at h
  · next hc =>
    simp only [Option.some.injEq] at h
    subst h
    have hm : y ∈ l := by simpa using hc
    rw [List.getElem?_eq_getElem (List.idxOf_lt_length_of_mem hm)]
    simp
  · cases h

theorem mem_hits (nodes : List Node) (u : Str) (j : Nat) (n : Node) (hn : nodes[j]? = some n)
    (h : hasRef n.attrs u = true) : j ∈ hits nodes u := by
  unfold hits
  simp only [List.mem_map, List.mem_filter]
  exact ⟨(n, j), ⟨List.mem_zipIdx_iff_getElem?.mpr hn, h⟩, rfl⟩

/-- an element that spells `#u` itself or in one of its children passes the XPath -/
theorem mem_prefilter_of_spelled (nodes : List Node) (u : Str) (i : Nat) (hi : i < nodes.length)
    (hnv : nonVisual nodes i = true)
    (h : hasRef (attrsAt nodes i) u = true ∨
      (childrenOf nodes i).any (fun j => hasRef (attrsAt nodes j) u) = true) :
    i ∈ prefilter nodes u := by
  unfold prefilter
  simp only [List.mem_filter, List.mem_range, Bool.and_eq_true, Bool.or_eq_true,
    List.contains_iff_mem]
  refine ⟨hi, hnv, ?_⟩
  cases h with
  | inl h =>
    left
    have hn : nodes[i]? = some nodes[i] := List.getElem?_eq_getElem hi
    apply mem_hits nodes u i nodes[i] hn
    unfold attrsAt at h
    rw [hn] at h
    simpa using h
  | inr h =>
    right
    simp only [List.any_eq_true] at h
    obtain ⟨j, hj, hr⟩ := h
    obtain ⟨n, hn, hp⟩ := mem_childrenOf nodes i j hj
    simp only [List.mem_filterMap]
    refine ⟨j, ?_, ?_⟩
    · apply mem_hits nodes u j n hn
      unfold attrsAt at hr
      rw [hn] at hr
      simpa using hr
    · unfold parentAt
      rw [hn]
      simpa using hp

/-- an element outside the pre-filter contributes nothing -/
theorem refsAt_nil_of_not_prefiltered (nodes : List Node) (rels : Nat → List Rel)
    (hshape : LinkShape nodes rels) (y i : Nat) (hi : i < nodes.length) (hnv : nonVisual nodes i = true)
    (hnot : i ∉ prefilter nodes (uidAt nodes y)) : refsAt nodes rels y i = [] := by
  unfold refsAt refsAtV
  rw [List.filterMap_eq_nil_iff]
  intro r hr
  cases hts : relTargets nodes i r with
  | none => rfl
  | some ts =>
    simp only
    cases hidx : idxOf? ts y with
    | none => rfl
    | some k =>
      exfalso
      apply hnot
      have hy := idxOf?_isSome ts y k hidx
      exact mem_prefilter_of_spelled nodes _ i hi hnv (target_spelled nodes rels hshape i y r hr ts hts hy)

theorem prefilter_nonVisual (nodes : List Node) (u : Str) (i : Nat) (h : i ∈ prefilter nodes u) :
    i < nodes.length ∧ nonVisual nodes i = true := by
  unfold prefilter at h
  simp only [List.mem_filter, List.mem_range, Bool.and_eq_true] at h
  exact ⟨h.1, h.2.1⟩

theorem flatMap_filter_of_nil {α β : Type} (f : α → List β) (p q : α → Bool) :
    ∀ (l : List α), (∀ x ∈ l, q x = true → p x = false → f x = []) → (∀ x ∈ l, p x = true → q x = true) →
      (l.filter p).flatMap f = (l.filter q).flatMap f := by
  intro l
  induction l with
  | nil => intros; rfl
  | cons a r ih =>
    intro h1 h2
    have ih' := ih (fun x hx => h1 x (List.mem_cons_of_mem _ hx)) (fun x hx => h2 x (List.mem_cons_of_mem _ hx))
    by_cases hp : p a = true
    · have hq := h2 a (List.mem_cons_self ..) hp
      rw [List.filter_cons_of_pos hp, List.filter_cons_of_pos hq]
      simp only [List.flatMap_cons, ih']
    · simp only [Bool.not_eq_true] at hp
      rw [List.filter_cons_of_neg (by simp [hp])]
      by_cases hq : q a = true
      · rw [List.filter_cons_of_pos hq]
        simp only [List.flatMap_cons, h1 a (List.mem_cons_self ..) hq hp, List.nil_append, ih']
      · simp only [Bool.not_eq_true] at hq
        rw [List.filter_cons_of_neg (by simp [hq])]
        exact ih'

theorem flatMap_eq_of_sublist_nil {α β : Type} (f : α → List β) :
    ∀ (l₁ l₂ : List α), l₁.Sublist l₂ → (∀ x ∈ l₂, x ∉ l₁ → f x = []) → l₂.Nodup →
      l₁.flatMap f = l₂.flatMap f := by
  intro l₁ l₂ hs
  induction hs with
  | slnil => intros; rfl
  | @cons l₁ l₂ a hs ih =>
    intro h hnd
    simp only [List.nodup_cons] at hnd
    have ha : a ∉ l₁ := fun hm => hnd.1 (hs.subset hm)
    simp only [List.flatMap_cons, h a (List.mem_cons_self ..) ha, List.nil_append]
    exact ih (fun x hx hn => h x (List.mem_cons_of_mem _ hx) hn) hnd.2
  | @cons_cons l₁ l₂ a hs ih =>
    intro h hnd
    simp only [List.nodup_cons] at hnd
    simp only [List.flatMap_cons]
    rw [ih (fun x hx hn => h x (List.mem_cons_of_mem _ hx) (by
      intro hm
      cases List.mem_cons.mp hm with
      | inl h1 => exact hnd.1 (h1 ▸ hx)
      | inr h1 => exact hn h1)) hnd.2]

theorem prefilter_sublist (nodes : List Node) (u : Str) :
    (prefilter nodes u).Sublist ((List.range nodes.length).filter (nonVisual nodes)) := by
  unfold prefilter
  simp only
  rw [← List.filter_filter]
  exact List.Sublist.filter _ List.filter_sublist

theorem findRefs_eq_bruteRefs (nodes : List Node) (rels : Nat → List Rel)
    (hshape : LinkShape nodes rels) (y : Nat) : findRefs nodes rels y = bruteRefs nodes rels y := by
  unfold findRefs findRefsV bruteRefs bruteRefsV
  apply flatMap_eq_of_sublist_nil _ _ _ (prefilter_sublist nodes _)
  · intro i hi hnot
    have h := List.mem_filter.mp hi
    exact refsAt_nil_of_not_prefiltered nodes rels hshape y i (List.mem_range.mp h.1) h.2 hnot
  · exact List.Nodup.sublist List.filter_sublist List.nodup_range

theorem mem_refsAt (nodes : List Node) (rels : Nat → List Rel) (y i : Nat) (x : Nat × Str × Nat)
    (h : x ∈ refsAt nodes rels y i) :
    x.1 = i ∧ ∃ r ∈ rels i, r.name = x.2.1 ∧ ∃ ts, relTargets nodes i r = some ts ∧ ts[x.2.2]? = some y := by
  unfold refsAt refsAtV at h
  simp only [List.mem_filterMap] at h
  obtain ⟨r, hr, hx⟩ := h
  cases hts : relTargets nodes i r with
  | none => rw [hts] at hx; simp at hx
  | some ts =>
    rw [hts] at hx
    simp only at hx
    cases hidx : idxOf? ts y with
    | none => rw [hidx] at hx; simp at hx
    | some k =>
      rw [hidx] at hx
      simp only [Option.map_some, Option.some.injEq] at hx
      subst hx
      exact ⟨rfl, r, hr, rfl, ts, hts, idxOf?_get ts y k hidx⟩

/-! ### list filters -/

theorem ismatch_complement_repaired (k : Key) (vals : List Atom) :
    ismatch true false k vals = !ismatch true true k vals := by
  cases k with
  | none => rfl
  | some v =>
    cases v with
    | atom a => simp only [ismatch]; cases vals.contains a <;> rfl
    | many l => simp only [ismatch]; cases vals.any (fun v => l.contains v) <;> rfl

theorem ismatch_complement_coded (k : Key) (vals : List Atom) (h : k ≠ none) :
    ismatch false false k vals = !ismatch false true k vals := by
  cases k with
  | none => exact absurd rfl h
  | some v =>
    cases v with
    | atom a => simp only [ismatch]; cases vals.contains a <;> rfl
    | many l => simp only [ismatch]; cases vals.any (fun v => l.contains v) <;> rfl

theorem merge_filter {α : Type} (p : α → Bool) (l : List α) :
    merge (l.map p) (l.filter p) (l.filter (fun x => !p x)) = l := by
  induction l with
  | nil => rfl
  | cons a r ih =>
    cases hp : p a with
    | true =>
      simp only [List.map_cons, hp, List.filter_cons_of_pos hp]
      rw [List.filter_cons_of_neg (by simp [hp])]
      simp only [merge, ih]
    | false =>
      simp only [List.map_cons, hp]
      rw [List.filter_cons_of_neg (by simp [hp]), List.filter_cons_of_pos (by simp [hp])]
      cases hf : r.filter p with
      | nil => rw [hf] at ih; simp only [merge, ih]
      | cons b bs => rw [hf] at ih; simp only [merge, ih]

theorem filter_congr_mem {α : Type} (p q : α → Bool) (l : List α) (h : ∀ x ∈ l, p x = q x) :
    l.filter p = l.filter q := List.filter_congr h

theorem single_ok_iff {α : Type} (ms : List α) (x : α) : single ms = .ok x ↔ ms = [x] := by
  cases ms with
  | nil => simp [single]
  | cons a r =>
    cases r with
    | nil => simp [single]
    | cons b t => simp [single]

theorem dedupBy_keys_nodup {β : Type} (key : β → Str) :
    ∀ (l : List β) (seen : List Str),
      ((dedupBy key l seen).map key).Nodup ∧ ∀ x ∈ dedupBy key l seen, key x ∉ seen := by
  intro l
  induction l with
  | nil => intro seen; simp [dedupBy]
  | cons a r ih =>
    intro seen
    unfold dedupBy
    by_cases hs : seen.contains (key a) = true
    · simp only [hs, if_true]
      exact ih seen
    · simp only [hs]
      simp only [Bool.false_eq_true, if_false]
      obtain ⟨hnd, hns⟩ := ih (key a :: seen)
      refine ⟨?_, ?_⟩
      · simp only [List.map_cons, List.nodup_cons]
        refine ⟨?_, hnd⟩
        intro hm
        simp only [List.mem_map] at hm
        obtain ⟨x, hx, hk⟩ := hm
        exact hns x hx (by rw [hk]; exact List.mem_cons_self ..)
      · intro x hx
        cases List.mem_cons.mp hx with
        | inl h => subst h; simpa using hs
        | inr h => exact fun hm => hns x h (List.mem_cons_of_mem _ hm)

theorem mem_dedupBy {β : Type} (key : β → Str) :
    ∀ (l : List β) (seen : List Str) (x : β), x ∈ dedupBy key l seen → x ∈ l := by
  intro l
  induction l with
  | nil => intro seen x h; simp [dedupBy] at h
  | cons a r ih =>
    intro seen x h
    unfold dedupBy at h
    split at h
    · exact List.mem_cons_of_mem _ (ih seen x h)
    · cases List.mem_cons.mp h with
      | inl h1 => simp [h1]
      | inr h1 => exact List.mem_cons_of_mem _ (ih _ x h1)

theorem key_mem_dedupBy {β : Type} (key : β → Str) :
    ∀ (l : List β) (seen : List Str) (x : β), x ∈ l → key x ∉ seen →
      ∃ x' ∈ dedupBy key l seen, key x' = key x := by
  intro l
  induction l with
  | nil => intro seen x h; simp at h
  | cons a r ih =>
    intro seen x hx hk
    unfold dedupBy
    by_cases hs : seen.contains (key a) = true
    · simp only [hs, if_true]
      cases List.mem_cons.mp hx with
      | inl h => subst h; exact absurd (by simpa using hs) hk
      | inr h => exact ih seen x h hk
    · simp only [hs]
      simp only [Bool.false_eq_true, if_false]
      cases List.mem_cons.mp hx with
      | inl h => subst h; exact ⟨x, List.mem_cons_self .., rfl⟩
      | inr h =>
        by_cases he : key x = key a
        · exact ⟨a, List.mem_cons_self .., he.symm⟩
        · obtain ⟨x', hx', hk'⟩ := ih (key a :: seen) x h (by
            intro hm
            cases List.mem_cons.mp hm with
            | inl h1 => exact he h1
            | inr h1 => exact hk h1)
          exact ⟨x', List.mem_cons_of_mem _ hx', hk'⟩

end Capella.Query
