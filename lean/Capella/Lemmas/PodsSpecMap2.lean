import Capella.Lemmas.PodsSpecMap
import Capella.Lemmas.PodsToy
/-!
Consequences of the refinement of `_Specification` by a dict (`Capella/Lemmas/PodsSpecMap.lean`):
the laws of the reference dict, what a successful `del` / `set` does to the key list, and computed
histories on a concrete element whose `bodies`/`languages` children are interleaved with others.
-/
namespace Capella.Pods
variable {P : Params}

/-! ## laws of the reference dict -/

theorem dictGet_none_iff {m : Dict} {K : Str} : dictGet m K = none ↔ K ∉ dictKeys m := by
  induction m with
  | nil => simp [dictGet, dictKeys]
  | cons p r ih =>
    obtain ⟨k', v⟩ := p
    unfold dictGet
    by_cases hk : k' = K
    · simp [hk, dictKeys]
    · simp only [hk, if_false, ih]
      simp [dictKeys, Ne.symm hk]

theorem dictGet_dictSet_same (m : Dict) (K v : Str) : dictGet (dictSet m K v) K = some v := by
  induction m with
  | nil => simp [dictSet, dictGet]
  | cons p r ih =>
    obtain ⟨k', v'⟩ := p
    unfold dictSet
    by_cases hk : k' = K
    · simp [hk, dictGet]
    · simp [hk, dictGet, ih]

theorem dictGet_dictSet_other (m : Dict) (K K' v : Str) (h : K' ≠ K) :
    dictGet (dictSet m K v) K' = dictGet m K' := by
  induction m with
  | nil => simp [dictSet, dictGet, Ne.symm h]
  | cons p r ih =>
    obtain ⟨k', v'⟩ := p
    unfold dictSet
    by_cases hk : k' = K
    · have : ¬ k' = K' := by rw [hk]; exact Ne.symm h
      simp [hk, dictGet, Ne.symm h]
    · by_cases hk' : k' = K'
      · subst hk'
        simp [h, dictGet]
      · simp [hk, hk', dictGet, ih]

theorem dictGet_append_new_same (m : Dict) (K v : Str) (hn : dictGet m K = none) :
    dictGet (m ++ [(K, v)]) K = some v := by
  induction m with
  | nil => simp [dictGet]
  | cons p r ih =>
    obtain ⟨k', v'⟩ := p
    unfold dictGet at hn
    by_cases hk : k' = K
    · simp [hk] at hn
    · simp only [hk, if_false] at hn
      simp [dictGet, hk, ih hn]

theorem dictKeys_dictSet_mem (m : Dict) (K v : Str) (h : K ∈ dictKeys m) :
    dictKeys (dictSet m K v) = dictKeys m := by
  induction m with
  | nil => simp [dictKeys] at h
  | cons p r ih =>
    obtain ⟨k', v'⟩ := p
    unfold dictSet
    by_cases hk : k' = K
    · simp [hk, dictKeys]
    · have : K ∈ dictKeys r := by
        simp only [dictKeys, List.map_cons, List.mem_cons] at h
        rcases h with h | h
        · exact absurd h.symm hk
        · exact h
      have := ih this
      simp only [dictKeys] at this
      simp [hk, dictKeys, this]

theorem dictKeys_dictDel (m : Dict) (K : Str) : dictKeys (dictDel m K) = (dictKeys m).erase K := by
  induction m with
  | nil => simp [dictDel, dictKeys]
  | cons p r ih =>
    obtain ⟨k', v⟩ := p
    unfold dictDel
    by_cases hk : k' = K
    · simp [hk, dictKeys]
    · simp only [dictKeys] at ih
      simp [hk, dictKeys, ih]

theorem dictGet_dictDel_other (m : Dict) (K K' : Str) (h : K' ≠ K) :
    dictGet (dictDel m K) K' = dictGet m K' := by
  induction m with
  | nil => simp [dictDel, dictGet]
  | cons p r ih =>
    obtain ⟨k', v⟩ := p
    unfold dictDel
    by_cases hk : k' = K
    · have : ¬ k' = K' := by rw [hk]; exact Ne.symm h
      simp [hk, dictGet, Ne.symm h]
    · by_cases hk' : k' = K'
      · subst hk'
        simp [h, dictGet]
      · simp [hk, hk', dictGet, ih]

/-- with unique keys, a deleted key is gone -/
theorem dictGet_dictDel_same (m : Dict) (K : Str) (hnd : (dictKeys m).Nodup) :
    dictGet (dictDel m K) K = none := by
  rw [dictGet_none_iff, dictKeys_dictDel]
  exact fun h => (List.Nodup.mem_erase_iff hnd).mp h |>.1 rfl

/-- the dict invariant (no key twice) is kept by every call -/
theorem dictKeys_nodup (P : Params) (m : Dict) (op : SpecOp) (hnd : (dictKeys m).Nodup) :
    (dictKeys (dictStep P m op).1).Nodup := by
  cases op with
  | get k =>
    unfold dictStep
    simp only
    cases dictGet m (specAlias k) <;> exact hnd
  | set k v =>
    unfold dictStep
    simp only
    cases (if specAlias k = kLinked then P.escLinked v else some v) with
    | none => exact hnd
    | some v' =>
      cases hg : dictGet m (specAlias k) with
      | none =>
        cases hx : (xmlOk v' && xmlOk (specAlias k)) <;> simp only [hx, Bool.false_eq_true, reduceIte]
        · exact hnd
        · have hn := dictGet_none_iff.mp hg
          simp only [dictKeys, List.map_append, List.map_cons, List.map_nil]
          rw [List.nodup_append]
          refine ⟨hnd, by simp, ?_⟩
          intro a ha b hb
          simp at hb
          rintro rfl
          exact hn (hb ▸ ha)
      | some _ =>
        have hm : specAlias k ∈ dictKeys m := by
          apply Classical.byContradiction
          intro h
          rw [dictGet_none_iff.mpr h] at hg
          cases hg
        cases hx : xmlOk v' <;> simp only [hx, Bool.false_eq_true, reduceIte]
        · exact hnd
        · rw [dictKeys_dictSet_mem m _ v' hm]; exact hnd
  | del k =>
    unfold dictStep
    simp only
    cases dictGet m (specAlias k) with
    | none => exact hnd
    | some _ =>
      simp only
      rw [dictKeys_dictDel]
      exact hnd.erase _
  | keys => exact hnd
  | len => exact hnd

theorem dictRun_keys_nodup (P : Params) (ops : List SpecOp) : ∀ (m : Dict), (dictKeys m).Nodup →
    (dictKeys (dictRun P m ops).1).Nodup := by
  induction ops with
  | nil => intro m h; exact h
  | cons op ops ih => intro m h; exact ih _ (dictKeys_nodup P m op h)

/-- the abstraction of a well-paired element is a dict (no key twice) -/
theorem WellPaired.absDict_nodup {s : Spec} (hw : WellPaired s) : (dictKeys (absDict s)).Nodup := by
  rw [hw.keys_eq]; exact hw.2.2

/-! ## what the calls do to a well-paired element -/

/-- `spec[k]` raises `KeyError` exactly for the keys `__iter__` does not list -/
theorem specGet_keyError_iff {s : Spec} (hw : WellPaired s) (k : Str) :
    specGet P s k = .error .keyError ↔ specAlias k ∉ specKeys s := by
  rw [hw.specGet_eq, ← hw.keys_eq, ← dictGet_none_iff]
  cases dictGet (absDict s) (specAlias k) <;> simp

/-- **`del spec[k]`.** On a well-paired element a successful delete keeps the invariant, makes the
key unreadable, removes exactly that key from `list(spec)` (the others keep their order), leaves
every other key reading what it read before, makes `len(spec)` one smaller and does not touch the
other children. -/
theorem specDel_removes (P : Params) (s s' : Spec) (k : Str) (hw : WellPaired s)
    (h : specDel s k = .ok s') :
    WellPaired s' ∧
    specGet P s' k = .error .keyError ∧
    specKeys s' = (specKeys s).erase (specAlias k) ∧
    (∀ k', specAlias k' ≠ specAlias k → specGet P s' k' = specGet P s k') ∧
    specLen s' + 1 = specLen s ∧
    others s' = others s := by
  rw [hw.specDel_eq] at h
  cases hi : keyIdx (specKeys s) (specAlias k) with
  | none => rw [hi] at h; cases h
  | some i =>
    rw [hi] at h
    injection h with h
    subst h
    have hw' := hw.del i
    have habs := absDict_del hw hi
    have hkeys : specKeys (delNth tBodies (delNth tLanguages s i) i) = (specKeys s).erase (specAlias k) := by
      rw [← hw'.keys_eq, habs, dictKeys_dictDel, hw.keys_eq]
    refine ⟨hw', ?_, hkeys, ?_, ?_, others_del s i⟩
    · rw [hw'.specGet_eq, habs, dictGet_dictDel_same _ _ hw.absDict_nodup]
    · intro k' hk
      rw [hw'.specGet_eq, habs, dictGet_dictDel_other _ _ _ hk, ← hw.specGet_eq]
    · have hlt := keyIdx_lt hi
      unfold specLen
      rw [specKeys_del, List.length_eraseIdx]
      simp only [hlt, if_true]
      omega

/-- a delete fails exactly on the keys that are not listed, with `KeyError` -/
theorem specDel_error_iff {s : Spec} (hw : WellPaired s) (k : Str) :
    specDel s k = .error .keyError ↔ specAlias k ∉ specKeys s := by
  rw [hw.specDel_eq]
  cases hi : keyIdx (specKeys s) (specAlias k) with
  | none => simpa using keyIdx_none.mp hi
  | some i => simpa using List.mem_of_getElem? (keyIdx_get hi)

/-- **`spec[k] = v`, new key.** A successful assignment to a key that is not listed appends it to
`list(spec)`. -/
theorem specSet_new_appends (P : Params) (s s' : Spec) (k v : Str) (hw : WellPaired s)
    (h : specSet P s k v = .ok s') (hn : specAlias k ∉ specKeys s) :
    specKeys s' = specKeys s ++ [specAlias k] ∧ specLen s' = specLen s + 1 := by
  rw [hw.specSet_eq] at h
  rw [keyIdx_none.mpr hn] at h
  cases hv : (if specAlias k = kLinked then P.escLinked v else some v) with
  | none => rw [hv] at h; cases h
  | some v' =>
    rw [hv] at h
    simp only at h
    cases hx : (xmlOk v' && xmlOk (specAlias k)) with
    | false => simp [hx] at h
    | true =>
      simp only [hx, if_true] at h
      injection h with h
      subst h
      simp [specLen, specKeys_append_new]

/-- **`spec[k] = v`, existing key.** A successful assignment to a listed key leaves `list(spec)` as
it was: same keys, same order. -/
theorem specSet_existing_keeps_keys (P : Params) (s s' : Spec) (k v : Str) (hw : WellPaired s)
    (h : specSet P s k v = .ok s') (hm : specAlias k ∈ specKeys s) :
    specKeys s' = specKeys s ∧ specLen s' = specLen s := by
  rw [hw.specSet_eq] at h
  cases hi : keyIdx (specKeys s) (specAlias k) with
  | none => exact absurd hm (keyIdx_none.mp hi)
  | some i =>
    rw [hi] at h
    cases hv : (if specAlias k = kLinked then P.escLinked v else some v) with
    | none => rw [hv] at h; cases h
    | some v' =>
      rw [hv] at h
      simp only at h
      cases hx : xmlOk v' with
      | false => simp [hx] at h
      | true =>
        simp only [hx, if_true] at h
        injection h with h
        subst h
        simp [specLen, specKeys_setNth]

/-- what the caller observes depends only on the dict the element stands for: foreign children and
the way the pairs are interleaved with them have no influence, for any history -/
theorem specRun_observations (P : Params) (ops : List SpecOp) (s₁ s₂ : Spec)
    (h₁ : WellPaired s₁) (h₂ : WellPaired s₂) (h : absDict s₁ = absDict s₂) :
    (specRun P s₁ ops).2 = (specRun P s₂ ops).2 ∧
    absDict (specRun P s₁ ops).1 = absDict (specRun P s₂ ops).1 := by
  have e₁ := (specRun_refines P ops s₁ h₁).2.1
  have e₂ := (specRun_refines P ops s₂ h₂).2.1
  rw [h, e₂] at e₁
  injection e₁ with ha hr
  exact ⟨hr.symm, ha.symm⟩

/-! ## computed histories -/

namespace SpecMapExamples

/-- a `bodies`/`languages` pair between two foreign children -/
def s0 : Spec :=
  [⟨['x'], none⟩, ⟨tBodies, some ['b', '0']⟩, ⟨['y'], none⟩, ⟨tLanguages, some "python".toList⟩]

def py : Str := "python".toList

example : WellPaired s0 := by decide

example : absDict s0 = [(py, ['b', '0'])] := by decide

example : others s0 = [⟨['x'], none⟩, ⟨['y'], none⟩] := by decide

/-- read, add through the alias, list, overwrite in place, read through the canonical name -/
example :
    specRun Toy.params s0
      [.len, .get py, .set kAlias ['h', 'i'], .keys, .set py ['b', '1'], .get kLinked, .get py] =
    ([⟨['x'], none⟩, ⟨tBodies, some ['b', '1']⟩, ⟨['y'], none⟩, ⟨tLanguages, some py⟩,
      ⟨tBodies, some ['h', 'i']⟩, ⟨tLanguages, some kLinked⟩],
     [.len 1, .val ['b', '0'], .unit, .keys [py, kLinked], .unit, .val ['h', 'i'], .val ['b', '1']]) := by
  decide

/-- delete the first pair: the foreign children and the second pair stay, a second delete and a
read raise `KeyError`, an XML-illegal value raises `ValueError` and changes nothing -/
example :
    specRun Toy.params s0
      [.set kAlias ['h', 'i'], .del py, .keys, .len, .get py, .del py, .set ['k'] ['\x01'], .keys] =
    ([⟨['x'], none⟩, ⟨['y'], none⟩, ⟨tBodies, some ['h', 'i']⟩, ⟨tLanguages, some kLinked⟩],
     [.unit, .unit, .keys [kLinked], .len 1, .err .keyError, .err .keyError, .err .valueError,
      .keys [kLinked]]) := by
  decide

/-- the same history on the reference dict -/
example :
    dictRun Toy.params (absDict s0)
      [.set kAlias ['h', 'i'], .del py, .keys, .len, .get py, .del py, .set ['k'] ['\x01'], .keys] =
    ([(kLinked, ['h', 'i'])],
     [.unit, .unit, .keys [kLinked], .len 1, .err .keyError, .err .keyError, .err .valueError,
      .keys [kLinked]]) := by
  decide

/-- emptying the mapping leaves exactly the foreign children -/
example : specRun Toy.params s0 [.del py, .len, .keys] =
    ([⟨['x'], none⟩, ⟨['y'], none⟩], [.unit, .len 0, .keys []]) := by
  decide

/-- the invariant is needed: with a text-less `<languages/>` the key `""` is listed but not found -/
example : specRun Toy.params [⟨tBodies, some ['b']⟩, ⟨tLanguages, none⟩] [.keys, .get []] =
    ([⟨tBodies, some ['b']⟩, ⟨tLanguages, none⟩], [.keys [[]], .err .keyError]) := by
  decide

example : ¬ WellPaired [⟨tBodies, some ['b']⟩, ⟨tLanguages, none⟩] := by decide

end SpecMapExamples

end Capella.Pods
