import Capella.Lemmas.PodsG
set_option linter.unusedSimpArgs false
namespace Capella.Pods
variable {P : Params}

theorem Row.desc_wf (r : Row) (h : r.wf = true) : r.desc.wf = true := by
  obtain ⟨cls, py, owner, ⟨kind, a, w⟩, dflt⟩ := r
  simp only [Row.wf, Bool.and_eq_true] at h
  obtain ⟨_, h⟩ := h
  cases kind <;> cases dflt <;> simp_all [Desc.wf]
  all_goals (obtain ⟨⟨rfl, _⟩, h2⟩ := h; exact h2)

/-- the default value itself (and, for the enums of the table, its name) is "not different from
the default" -/
theorem neDefault_default (hP : P.Lawful) (d : Desc) (hk : d.kind ≠ .datetime) (ho : ∀ n, d.kind ≠ .other n) :
    neDefault P d (defaultVal P d) = false := by
  obtain ⟨kind, a, w⟩ := d
  cases kind <;> simp_all [neDefault, defaultVal, neZero, hP.zero_isZero]

theorem neDefault_default_name (a : Str) (w : Bool) (e : EnumCls) (n : Str) (he : e.stringy = true) :
    neDefault P ⟨.enum e n, a, w⟩ (.str n) = false := by
  simp [neDefault, he]

theorem set_elides (d : Desc) (a : Attrs) (v : PyVal P)
    (hw : d.writable = true ∨ a.has d.attr = false)
    (h : isNone v = true ∨ neDefault P d v = false) :
    set P d a v = .ok (a.pop d.attr) := by
  have hguard : (!d.writable && a.has d.attr) = false := by
    rcases hw with h | h <;> simp [h]
  rcases h with h | h <;> simp [set, hguard, h]

theorem set_readonly (d : Desc) (a : Attrs) (v : PyVal P)
    (hw : d.writable = false) (hp : a.has d.attr = true) : set P d a v = .error .typeError := by
  simp [set, hw, hp]

/-- a successful `__set__` touches only the descriptor's own XML attribute: all other attributes
keep value and relative order -/
theorem set_frame (d : Desc) (a a' : Attrs) (v : PyVal P) (h : set P d a v = .ok a') :
    a'.pop d.attr = a.pop d.attr := by
  unfold set at h
  split at h
  · simp at h
  · split at h
    · split at h
      · simp at h
      · split at h
        · simp at h; subst h; exact Attrs.pop_set _ _ _
        · simp at h
    · simp at h; subst h; exact Attrs.pop_pop _ _

theorem set_frame_get (d : Desc) (a a' : Attrs) (v : PyVal P) (h : set P d a v = .ok a')
    (k : Str) (hk : k ≠ d.attr) : a'.get k = a.get k := by
  have := set_frame d a a' v h
  rw [← Attrs.get_pop_other a' d.attr k hk, this, Attrs.get_pop_other a d.attr k hk]

/-- reading back is a fixpoint: the value read back is again valid and denotes itself -/
theorem valid_denote (hP : P.Lawful) (d : Desc) (hd : d.wf = true) (v : PyVal P) (hv : valid P d v = true)
    (hst : stableAt P d v = true) :
    valid P d (denote P d v) = true ∧ denote P d (denote P d v) = denote P d v := by
  obtain ⟨kind, a, w⟩ := d
  cases v with
  | none =>
    cases kind <;> simp_all [valid, denote, defaultVal, Desc.wf, htmlValid, htmlStable, hP.repair_nil, xmlOk]
    rename_i e n
    cases hx : e.byName n <;> simp_all
  | bool b =>
    cases kind
    case float => cases hx : P.fOfInt (if b = true then 1 else 0) <;> simp_all [valid, denote]
    all_goals simp_all [valid, denote]
  | int i =>
    cases kind
    case float => cases hx : P.fOfInt i <;> simp_all [valid, denote]
    all_goals simp_all [valid, denote]
  | float f => cases kind <;> simp_all [valid, denote]
  | str s =>
    cases kind <;> simp_all [valid, denote]
    · cases hr : P.repair s with
      | none => simp_all [htmlValid]
      | some r => simp_all [htmlValid, htmlStable, stableAt]
    · rename_i e n
      cases hx : e.byName s <;> simp_all
  | member c m x => cases kind <;> simp_all [valid, denote]
  | naive n =>
    cases kind <;> simp_all [valid, denote]
    cases ht : P.localize n <;> simp_all [valid, denote, hP.trunc_idem, hP.trunc_ok]
  | aware t => cases kind <;> simp_all [valid, denote, hP.trunc_idem, hP.trunc_ok]
  | selector r => cases kind <;> simp_all [valid, denote]
  | other => cases kind <;> simp_all [valid]

end Capella.Pods
