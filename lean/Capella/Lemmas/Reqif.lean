import Capella.Model.Reqif
import Std.Data.String.ToInt
namespace Capella.Reqif
open List

/-! ### `dedupBy` -/

theorem dedupBy_sublist {α β : Type} [DecidableEq β] (key : α → β) :
    ∀ l : List α, dedupBy key l <+ l
  | [] => Sublist.slnil
  | a :: l => by
    simp only [dedupBy]
    exact Sublist.cons_cons a ((filter_sublist).trans (dedupBy_sublist key l))

theorem mem_of_mem_dedupBy {α β : Type} [DecidableEq β] {key : α → β} {l : List α} {a : α}
    (h : a ∈ dedupBy key l) : a ∈ l := (dedupBy_sublist key l).subset h

/-- every key of the input survives -/
theorem exists_mem_dedupBy {α β : Type} [DecidableEq β] (key : α → β) :
    ∀ (l : List α) (a : α), a ∈ l → ∃ b ∈ dedupBy key l, key b = key a
  | [], a, h => by cases h
  | c :: l, a, h => by
    simp only [dedupBy]
    rcases List.mem_cons.mp h with rfl | h
    · exact ⟨a, List.mem_cons_self, rfl⟩
    · obtain ⟨b, hb, hk⟩ := exists_mem_dedupBy key l a h
      by_cases hc : key b = key c
      · exact ⟨c, List.mem_cons_self, by rw [← hc, hk]⟩
      · exact ⟨b, List.mem_cons_of_mem _ (List.mem_filter.mpr ⟨hb, by simpa using hc⟩), hk⟩

theorem dedupBy_keys_nodup {α β : Type} [DecidableEq β] (key : α → β) :
    ∀ l : List α, ((dedupBy key l).map key).Nodup
  | [] => by simp [dedupBy]
  | a :: l => by
    simp only [dedupBy, List.map_cons, List.nodup_cons]
    refine ⟨?_, ?_⟩
    · simp only [List.mem_map, List.mem_filter]
      rintro ⟨b, ⟨_, hb⟩, hk⟩
      simp at hb
      exact hb hk
    · exact ((dedupBy_keys_nodup key l).sublist ((filter_sublist).map key))

theorem dedupBy_eq_self {α β : Type} [DecidableEq β] (key : α → β) :
    ∀ l : List α, (l.map key).Nodup → dedupBy key l = l
  | [], _ => rfl
  | a :: l, h => by
    simp only [List.map_cons, List.nodup_cons] at h
    simp only [dedupBy, dedupBy_eq_self key l h.2, List.cons.injEq, true_and]
    apply List.filter_eq_self.mpr
    intro b hb
    have : key b ≠ key a := fun e => h.1 (e ▸ List.mem_map_of_mem (f := key) hb)
    simpa using this

theorem nodup_dedupBy {α β : Type} [DecidableEq β] (key : α → β) (l : List α) : (dedupBy key l).Nodup := by
  have := dedupBy_keys_nodup key l
  exact (List.pairwise_map.mp this).imp (fun {a b} (h : key a ≠ key b) (e : a = b) => h (congrArg key e))

theorem mem_dedup {α : Type} [DecidableEq α] {l : List α} {a : α} : a ∈ dedup l ↔ a ∈ l := by
  constructor
  · exact mem_of_mem_dedupBy
  · intro h
    obtain ⟨b, hb, hk⟩ := exists_mem_dedupBy id l a h
    simp only [id] at hk
    exact hk ▸ hb

theorem nodup_dedup {α : Type} [DecidableEq α] (l : List α) : (dedup l).Nodup := nodup_dedupBy id l

/-! ### `sortBy` only reorders -/

theorem mem_sortBy {α : Type} {le : α → α → Bool} {l : List α} {a : α} : a ∈ sortBy le l ↔ a ∈ l :=
  (sortBy_perm le l).mem_iff

/-! ### the three traversals of the exporter are the module's depth-first order -/

mutual
theorem Folder.collect_eq_dfs : ∀ f : Folder, f.collect = f.dfs
  | .mk reqs fs => by simp [Folder.collect, Folder.dfs, collectL_eq_dfsL fs]
theorem collectL_eq_dfsL : ∀ fs : List Folder, collectL fs = dfsL fs
  | [] => by simp [collectL, dfsL]
  | f :: fs => by simp [collectL, dfsL, Folder.collect_eq_dfs f, collectL_eq_dfsL fs]
end

mutual
theorem Folder.specObjects_eq (x : Str → Option Str) : ∀ f : Folder, f.specObjects x = f.dfs.map (specObject x)
  | .mk reqs fs => by simp [Folder.specObjects, Folder.dfs, specObjectsL_eq x fs]
theorem specObjectsL_eq (x : Str → Option Str) : ∀ fs : List Folder, specObjectsL x fs = (dfsL fs).map (specObject x)
  | [] => by simp [specObjectsL, dfsL]
  | f :: fs => by simp [specObjectsL, dfsL, Folder.specObjects_eq x f, specObjectsL_eq x fs]
end

mutual
theorem Folder.hierarchy_eq : ∀ f : Folder, f.hierarchy = f.dfs.map hierEl
  | .mk reqs fs => by simp [Folder.hierarchy, Folder.dfs, hierarchyL_eq fs]
theorem hierarchyL_eq : ∀ fs : List Folder, hierarchyL fs = (dfsL fs).map hierEl
  | [] => by simp [hierarchyL, dfsL]
  | f :: fs => by simp [hierarchyL, dfsL, Folder.hierarchy_eq f, hierarchyL_eq fs]
end

theorem doc_specObjects (x : Str → Option Str) (m : Module) :
    (doc x m).specObjects = m.dfs.map (specObject x) := by
  simp [doc, Module.dfs, specObjectsL_eq]

theorem doc_children (x : Str → Option Str) (m : Module) :
    (doc x m).specification.children = m.dfs.map hierEl := by
  simp [doc, specification, Module.dfs, hierarchyL_eq]

theorem collected_eq_dfs (m : Module) (h : (m.dfs.map (·.uuid)).Nodup) : collected m = m.dfs := by
  unfold collected
  rw [collectL_eq_dfsL]
  exact dedupBy_eq_self _ _ h

/-! ### where identifiers are defined -/

theorem mem_datatypes {m : Module} {d : DatatypeEl} :
    d ∈ datatypes m ↔ d ∈ stdDatatypes ∨ d ∈ customDatatypes m := by
  simp [datatypes, mem_sortBy]

theorem mem_specTypes {m : Module} {t : SpecTypeEl} :
    t ∈ specTypes m ↔ ∃ rt ∈ reqTypes m, t = specObjectType m rt := by
  simp [specTypes, mem_sortBy, eq_comm]

theorem stdDatatype_mem_defs (x : Str → Option Str) (m : Module) (n : Str)
    (h : ∃ d ∈ stdDatatypes, d.key = .std n) : Ident.stdDatatype n ∈ (doc x m).defs := by
  obtain ⟨d, hd, hk⟩ := h
  simp only [Doc.defs, doc, List.mem_cons, List.mem_append, List.mem_flatMap]
  refine Or.inr (Or.inl (Or.inl (Or.inl (Or.inl ⟨d, mem_datatypes.mpr (Or.inl hd), ?_⟩))))
  simp [DatatypeEl.ids, hk, DtKey.ident]

theorem std_names_have_datatypes :
    (∀ x ∈ stdSpecObjectAttrs, ∃ d ∈ stdDatatypes, d.key = .std x.1) ∧
    (∀ x ∈ stdSpecificationAttrs, ∃ d ∈ stdDatatypes, d.key = .std x.1) := by
  decide


theorem datatype_mem_defs (x : Str → Option Str) (m : Module) (k : ADKey) (h : k ∈ allAdefs m) :
    Ident.datatype (dtUuid k.1) k.2 ∈ (doc x m).defs := by
  obtain ⟨e, he, hk⟩ := exists_mem_dedupBy (·.key) ((allAdefs m).map datatypeEl) (datatypeEl k)
    (List.mem_map_of_mem h)
  simp only [Doc.defs, doc, List.mem_cons, List.mem_append, List.mem_flatMap]
  refine Or.inr (Or.inl (Or.inl (Or.inl (Or.inl ⟨e, mem_datatypes.mpr (Or.inr he), ?_⟩))))
  simp only [DatatypeEl.ids, List.mem_cons]
  left
  rw [hk]; rfl

theorem specType_ids_mem_defs (x : Str → Option Str) (m : Module) (t : Option ReqType) (ht : t ∈ reqTypes m)
    (i : Ident) (hi : i ∈ (specObjectType m t).ids) : i ∈ (doc x m).defs := by
  simp only [Doc.defs, doc, List.mem_cons, List.mem_append, List.mem_flatMap]
  exact Or.inr (Or.inl (Or.inl (Or.inl (Or.inr ⟨_, mem_specTypes.mpr ⟨t, ht, rfl⟩, hi⟩))))

theorem specificationType_ids_mem_defs (x : Str → Option Str) (m : Module)
    (i : Ident) (hi : i ∈ (specificationType m).ids) : i ∈ (doc x m).defs := by
  simp only [Doc.defs, doc, List.mem_cons, List.mem_append, List.mem_flatMap]
  exact Or.inr (Or.inl (Or.inl (Or.inr hi)))

theorem req_mem_defs (x : Str → Option Str) (m : Module) (r : Req) (hr : r ∈ m.dfs) :
    Ident.obj (up r.uuid) ∈ (doc x m).defs := by
  have := doc_specObjects x m
  simp only [Doc.defs, List.mem_cons, List.mem_append, this, List.mem_map]
  exact Or.inr (Or.inl (Or.inr ⟨specObject x r, ⟨r, hr, rfl⟩, rfl⟩))

theorem enumValue_mem_defs (x : Str → Option Str) (m : Module) (e : DatatypeEl) (he : e ∈ customDatatypes m)
    (v : EnumValueEl) (hv : v ∈ e.values.getD []) : Ident.obj v.uuid ∈ (doc x m).defs := by
  simp only [Doc.defs, doc, List.mem_cons, List.mem_append, List.mem_flatMap]
  refine Or.inr (Or.inl (Or.inl (Or.inl (Or.inl ⟨e, mem_datatypes.mpr (Or.inr he), ?_⟩))))
  simp only [DatatypeEl.ids, List.mem_cons, List.mem_map]
  exact Or.inr ⟨v, hv, rfl⟩

/-! ### what `_collect_objects` has seen -/

theorem rtOf_eq_of_key {t t' : Option ReqType} (h : t.map (·.uuid) = t'.map (·.uuid)) : rtOf t = rtOf t' := by
  cases t <;> cases t' <;> simp_all [rtOf]

/-- the type of every collected requirement is a key of `req_types` -/
theorem exists_reqType {m : Module} {r : Req} (hr : r ∈ collected m) :
    ∃ t ∈ reqTypes m, t.map (·.uuid) = typeKey r :=
  exists_mem_dedupBy _ _ r.type (List.mem_map_of_mem hr)

theorem adKey_mem_adefsOf {m : Module} {r : Req} (hr : r ∈ collected m) {a : Attr} (ha : a ∈ r.attrs) :
    adKey a ∈ adefsOf m (typeKey r) := by
  unfold adefsOf
  rw [(m.setOrder_perm _ _).mem_iff]
  unfold adefsSeen
  rw [mem_dedup]
  simp only [List.mem_flatMap, List.mem_filter, List.mem_map]
  exact ⟨r, ⟨hr, by simp⟩, a, ha, rfl⟩

theorem adKey_mem_allAdefs {m : Module} {r : Req} (hr : r ∈ collected m) {a : Attr} (ha : a ∈ r.attrs) :
    adKey a ∈ allAdefs m := by
  obtain ⟨t, ht, hk⟩ := exists_reqType hr
  simp only [allAdefs, List.mem_flatMap]
  exact ⟨t, ht, hk ▸ adKey_mem_adefsOf hr ha⟩

/-- conversely, every collected key comes from an attribute of a requirement of the module -/
theorem exists_attr_of_mem_adefsOf {m : Module} {k : Option Str} {x : ADKey} (hx : x ∈ adefsOf m k) :
    ∃ r ∈ m.dfs, typeKey r = k ∧ ∃ a ∈ r.attrs, adKey a = x := by
  unfold adefsOf at hx
  rw [(m.setOrder_perm _ _).mem_iff] at hx
  unfold adefsSeen at hx
  rw [mem_dedup] at hx
  simp only [List.mem_flatMap, List.mem_filter, List.mem_map] at hx
  obtain ⟨r, ⟨hr, hk⟩, a, ha, rfl⟩ := hx
  have hr' : r ∈ m.dfs := by
    have := mem_of_mem_dedupBy hr
    rwa [collectL_eq_dfsL] at this
  exact ⟨r, hr', by simpa using hk, a, ha, rfl⟩

theorem exists_attr_of_mem_allAdefs {m : Module} {x : ADKey} (hx : x ∈ allAdefs m) :
    ∃ r ∈ m.dfs, ∃ a ∈ r.attrs, adKey a = x := by
  simp only [allAdefs, List.mem_flatMap] at hx
  obtain ⟨t, _, hx⟩ := hx
  obtain ⟨r, hr, _, a, ha, h⟩ := exists_attr_of_mem_adefsOf hx
  exact ⟨r, hr, a, ha, h⟩


/-! ### every reference is defined -/

theorem kind_enum_iff {v : Value} : v.kind = .enumeration ↔ ∃ vs, v = .enum vs := by
  cases v <;> simp [Value.kind]

/-- the enumeration values an attribute refers to are emitted with the data type of its definition -/
theorem enumRef_emitted (m : Module) (hT : Typed m)
    (hD : ∀ t₁ ∈ allDataTypes m, ∀ t₂ ∈ allDataTypes m, up t₁.uuid = up t₂.uuid → t₁ = t₂)
    (hE : hasEnumWithoutDef m = false)
    {r : Req} (hr : r ∈ m.dfs) (hc : r ∈ collected m) {a : Attr} (ha : a ∈ r.attrs)
    {u : Str} (hu : u ∈ a.value.enumRefs) : u ∈ emittedEnumValues m := by
  -- the attribute is an enumeration attribute with a definition
  obtain ⟨vs, hv⟩ : ∃ vs, a.value = .enum vs := by
    cases h : a.value <;> simp [h, Value.enumRefs] at hu ⊢
  rw [hv] at hu
  simp only [Value.enumRefs, List.mem_map] at hu
  obtain ⟨v, hvs, rfl⟩ := hu
  have hk := adKey_mem_allAdefs hc ha
  obtain ⟨d, hd⟩ : ∃ d, a.defn = some d := by
    cases h : a.defn with
    | some d => exact ⟨d, rfl⟩
    | none =>
      exfalso
      have : hasEnumWithoutDef m = true := by
        simp only [hasEnumWithoutDef, List.any_eq_true]
        exact ⟨adKey a, hk, by simp [adKey, h, hv, Value.kind]⟩
      rw [hE] at this; cases this
  obtain ⟨hdE, hvals⟩ := hT r hr a ha vs d hv hd
  obtain ⟨dt, hdt, hvdt⟩ := hvals v hvs
  -- the datatype element emitted for this identifier
  obtain ⟨e, he, hke⟩ := exists_mem_dedupBy (·.key) ((allAdefs m).map datatypeEl) (datatypeEl (adKey a))
    (List.mem_map_of_mem hk)
  have he' := mem_of_mem_dedupBy he
  simp only [List.mem_map] at he'
  obtain ⟨k', hk', rfl⟩ := he'
  obtain ⟨r', hr', a', ha', rfl⟩ := exists_attr_of_mem_allAdefs hk'
  -- its key says: enumeration kind, same data type uuid
  simp only [datatypeEl, adKey, hd, hv, Value.kind, dtUuid, dtOf, Option.bind_some, hdt, Option.map_some,
    DtKey.custom.injEq] at hke
  obtain ⟨hu', hk2⟩ := hke
  obtain ⟨vs', hv'⟩ := kind_enum_iff.mp hk2
  cases hd' : a'.defn with
  | none => simp [hd'] at hu'
  | some d' =>
    obtain ⟨hdE', _⟩ := hT r' hr' a' ha' vs' d' hv' hd'
    cases hdt' : d'.dataType with
    | none => simp [hd', hdt'] at hu'
    | some dt' =>
      simp only [hd', Option.bind_some, hdt', Option.map_some, Option.some.injEq] at hu'
      have hmem : ∀ {r : Req} {a : Attr} {d : AttrDef} {t : DataType}, r ∈ m.dfs → a ∈ r.attrs →
          a.defn = some d → d.dataType = some t → t ∈ allDataTypes m := by
        intro r a d t hr ha hd ht
        simp only [allDataTypes, allDefs, List.mem_filterMap, List.mem_flatMap]
        exact ⟨d, ⟨r, hr, a, ha, hd⟩, ht⟩
      have : dt' = dt := hD dt' (hmem hr' ha' hd' hdt') dt (hmem hr ha hd hdt) hu'
      subst this
      simp only [List.mem_map] at hvdt
      obtain ⟨v0, hv0, rfl⟩ := hvdt
      simp only [emittedEnumValues, List.mem_flatMap, List.mem_map]
      refine ⟨_, he, enumValueEl v0, ?_, rfl⟩
      simp [datatypeEl, adKey, hd', hdE', dtOf, hdt', hv', Value.kind]
      exact ⟨v0, hv0, rfl⟩

/-- the metamodel's typing implies that every enumeration choice is covered by an emitted data type -/
theorem typed_covered (m : Module) (hn : (m.dfs.map (·.uuid)).Nodup) (hT : Typed m)
    (hD : ∀ t₁ ∈ allDataTypes m, ∀ t₂ ∈ allDataTypes m, up t₁.uuid = up t₂.uuid → t₁ = t₂)
    (hE : hasEnumWithoutDef m = false) : EnumRefsCovered m := by
  intro r hr a ha u hu
  exact enumRef_emitted m hT hD hE hr (collected_eq_dfs m hn ▸ hr) ha hu

theorem covered_mem_defs (x : Str → Option Str) (m : Module) {u : Str} (hu : u ∈ emittedEnumValues m) :
    Ident.obj u ∈ (doc x m).defs := by
  simp only [emittedEnumValues, List.mem_flatMap, List.mem_map] at hu
  obtain ⟨e, he, v, hv, rfl⟩ := hu
  exact enumValue_mem_defs x m e he v hv



theorem refs_closed_cov (x : Str → Option Str) (m : Module) (hn : (m.dfs.map (·.uuid)).Nodup)
    (hCov : EnumRefsCovered m) :
    ∀ i ∈ (doc x m).refs, i ∈ (doc x m).defs := by
  intro i hi
  have hcoll := collected_eq_dfs m hn
  simp only [Doc.refs, List.mem_append, List.mem_cons, List.mem_flatMap, List.mem_map] at hi
  rcases hi with ((⟨t, ht, hi⟩ | hi) | ⟨o, ho, hi⟩) | rfl | ⟨v, hv, rfl⟩ | ⟨h, hh, rfl⟩
  · -- TYPE refs of the spec object types
    obtain ⟨rt, hrt, rfl⟩ := mem_specTypes.mp ht
    simp only [SpecTypeEl.refs, specObjectType, List.mem_append, List.mem_map] at hi
    rcases hi with ⟨n, ⟨s, hs, rfl⟩, rfl⟩ | ⟨_, ⟨k, hk, rfl⟩, rfl⟩
    · exact stdDatatype_mem_defs x m _ (std_names_have_datatypes.1 s hs)
    · refine datatype_mem_defs x m k ?_
      simp only [allAdefs, List.mem_flatMap]
      exact ⟨rt, hrt, hk⟩
  · -- TYPE refs of the specification type
    simp only [SpecificationTypeEl.refs, doc, specificationType, List.mem_map] at hi
    obtain ⟨s, hs, rfl⟩ := hi
    exact stdDatatype_mem_defs x m _ (std_names_have_datatypes.2 s hs)
  · -- spec objects
    rw [doc_specObjects] at ho
    simp only [List.mem_map] at ho
    obtain ⟨r, hr, rfl⟩ := ho
    have hc : r ∈ collected m := hcoll ▸ hr
    obtain ⟨t, ht, hkey⟩ := exists_reqType hc
    have hrt : rtOf t = rtOf r.type := rtOf_eq_of_key hkey
    simp only [SpecObjectEl.refs, specObject, List.mem_append, List.mem_map, List.mem_flatMap,
      List.mem_singleton] at hi
    rcases hi with (⟨v, hv, rfl⟩ | ⟨_, ⟨a, ha, rfl⟩, hi⟩) | rfl
    · refine specType_ids_mem_defs x m t ht _ ?_
      simp only [stdValues, List.mem_map] at hv
      obtain ⟨s, hs, rfl⟩ := hv
      simp only [SpecTypeEl.ids, specObjectType, List.mem_cons, List.mem_append, List.mem_map]
      exact Or.inr (Or.inl ⟨(s.1, s.2.1), ⟨s, hs, rfl⟩, by rw [hrt]⟩)
    · simp only [AttrValueEl.refs, attrValue, List.mem_cons, List.mem_map] at hi
      rcases hi with rfl | ⟨u, hu, rfl⟩
      · refine specType_ids_mem_defs x m t ht _ ?_
        simp only [SpecTypeEl.ids, specObjectType, List.mem_cons, List.mem_append, List.mem_map]
        refine Or.inr (Or.inr ⟨attrDefEl (adKey a), ⟨adKey a, ?_, rfl⟩, ?_⟩)
        · rw [hkey]; exact adKey_mem_adefsOf hc ha
        · simp [AttrDefEl.ident, attrDefEl, adKey, hrt]
      · exact covered_mem_defs x m (hCov r hr a ha u hu)
    · refine specType_ids_mem_defs x m t ht _ ?_
      simp [SpecTypeEl.ids, specObjectType, hrt]
  · exact specificationType_ids_mem_defs x m _ (by simp [SpecificationTypeEl.ids, doc, specification, specificationType])
  · refine specificationType_ids_mem_defs x m _ ?_
    simp only [doc, specification, List.mem_map] at hv
    obtain ⟨s, hs, rfl⟩ := hv
    simp only [SpecificationTypeEl.ids, specificationType, doc, specification, List.mem_cons, List.mem_map]
    exact Or.inr ⟨s, hs, rfl⟩
  · rw [doc_children] at hh
    simp only [List.mem_map] at hh
    obtain ⟨r, hr, rfl⟩ := hh
    exact req_mem_defs x m r hr


theorem refs_closed' (x : Str → Option Str) (m : Module) (hn : (m.dfs.map (·.uuid)).Nodup) (hT : Typed m)
    (hD : ∀ t₁ ∈ allDataTypes m, ∀ t₂ ∈ allDataTypes m, up t₁.uuid = up t₂.uuid → t₁ = t₂)
    (hE : hasEnumWithoutDef m = false) :
    ∀ i ∈ (doc x m).refs, i ∈ (doc x m).defs :=
  refs_closed_cov x m hn (typed_covered m hn hT hD hE)

/-! ### all identifiers are distinct -/

def Ident.isObj : Ident → Bool
  | .obj _ => true
  | _ => false

@[simp] theorem Ident.isObj_obj (u : Str) : (Ident.obj u).isObj = true := rfl
@[simp] theorem Ident.isObj_hier (u : Str) : (Ident.hier u).isObj = false := rfl
@[simp] theorem Ident.isObj_datatype (d : Option Str) (k : Kind) : (Ident.datatype d k).isObj = false := rfl
@[simp] theorem Ident.isObj_attrDef (r a : Option Str) (k : Kind) : (Ident.attrDef r a k).isObj = false := rfl
@[simp] theorem Ident.isObj_stdDatatype (n : Str) : (Ident.stdDatatype n).isObj = false := rfl
@[simp] theorem Ident.isObj_stdAttr (r : Option Str) (n : Str) : (Ident.stdAttr r n).isObj = false := rfl
@[simp] theorem Ident.isObj_stdSpecAttr (r : Option Str) (n : Str) : (Ident.stdSpecAttr r n).isObj = false := rfl
@[simp] theorem Ident.isObj_nullSOT : Ident.nullSpecObjectType.isObj = false := rfl
@[simp] theorem Ident.isObj_nullST : Ident.nullSpecificationType.isObj = false := rfl

theorem nodup_of_filter {α : Type} (p : α → Bool) (l : List α)
    (h₁ : (l.filter p).Nodup) (h₂ : (l.filter (fun a => !p a)).Nodup) : l.Nodup := by
  refine (filter_append_perm p l).nodup_iff.mp ?_
  rw [List.nodup_append]
  refine ⟨h₁, h₂, ?_⟩
  intro a ha b hb e
  subst e
  simp only [List.mem_filter] at ha hb
  simp [ha.2] at hb

theorem filter_isObj_map_obj (l : List Str) : (l.map Ident.obj).filter Ident.isObj = l.map Ident.obj := by
  simp [List.filter_eq_self]

theorem filter_isObj_map_of_not {α : Type} (f : α → Ident) (hf : ∀ a, (f a).isObj = false) (l : List α) :
    (l.map f).filter Ident.isObj = [] := by
  simp [hf]

theorem filter_notObj_map_obj (l : List Str) : (l.map Ident.obj).filter (fun a => !a.isObj) = [] := by
  simp

theorem filter_notObj_map_of_not {α : Type} (f : α → Ident) (hf : ∀ a, (f a).isObj = false) (l : List α) :
    (l.map f).filter (fun a => !a.isObj) = l.map f := by
  simp [List.filter_eq_self, hf]

theorem flatMap_toList_map {α β γ : Type} (f : α → Option β) (g : β → γ) (l : List α) :
    l.flatMap (fun t => (f t).toList.map g) = (l.filterMap f).map g := by
  induction l with
  | nil => rfl
  | cons a l ih =>
    simp only [List.flatMap_cons, ih, List.filterMap_cons]
    cases f a <;> simp

/-- the identifiers of the document before `sorted(…)` is applied to data types and spec types -/
def defsU (m : Module) : List Ident :=
  .obj (up m.modelUuid) ::
    ((stdDatatypes ++ customDatatypes m).flatMap (·.ids)
      ++ ((reqTypes m).map (specObjectType m)).flatMap (·.ids)
      ++ (specificationType m).ids
      ++ m.dfs.map (fun r => .obj (up r.uuid))
      ++ .obj (up m.uuid) :: m.dfs.map (fun r => .hier (up r.uuid)))

theorem defs_perm (x : Str → Option Str) (m : Module) : (doc x m).defs ~ defsU m := by
  unfold Doc.defs defsU
  rw [doc_specObjects, doc_children]
  simp only [doc, specification, List.map_map]
  refine Perm.cons _ (Perm.append (Perm.append (Perm.append (Perm.append ?_ ?_) (Perm.refl _)) ?_) ?_)
  · exact Perm.flatMap_right _ (sortBy_perm _ _)
  · exact Perm.flatMap_right _ (sortBy_perm _ _)
  · exact Perm.of_eq (by simp [specObject, Function.comp_def])
  · exact Perm.of_eq (by simp [hierEl, Function.comp_def])


@[simp] theorem DtKey.ident_isObj (k : DtKey) : k.ident.isObj = false := by cases k <;> rfl

theorem DatatypeEl.ids_filter_obj (d : DatatypeEl) :
    d.ids.filter Ident.isObj = (d.values.getD []).map (fun v => Ident.obj v.uuid) := by
  simp [DatatypeEl.ids, List.filter_cons, List.filter_eq_self]

theorem DatatypeEl.ids_filter_notObj (d : DatatypeEl) :
    d.ids.filter (fun a => !a.isObj) = [d.key.ident] := by
  simp [DatatypeEl.ids, List.filter_cons]

theorem SpecTypeEl.ids_filter_obj (t : SpecTypeEl) :
    t.ids.filter Ident.isObj = t.rt.toList.map Ident.obj := by
  cases h : t.rt <;>
    simp [SpecTypeEl.ids, h, sotIdent, List.filter_cons, AttrDefEl.ident] <;>
    (intro a x k _ e; subst e; rfl)

theorem SpecificationTypeEl.ids_filter_obj (t : SpecificationTypeEl) :
    t.ids.filter Ident.isObj = t.mt.toList.map Ident.obj := by
  cases h : t.mt <;>
    simp [SpecificationTypeEl.ids, h, stIdent, List.filter_cons] <;>
    (intro a x k _ e; subst e; rfl)

theorem stdDatatypes_no_obj :
    stdDatatypes.flatMap (fun a => (a.values.getD []).map (fun v => Ident.obj v.uuid)) = [] := by decide

theorem defsU_filter_obj (m : Module) : (defsU m).filter Ident.isObj = (objUuids m).map Ident.obj := by
  unfold defsU objUuids
  simp only [List.filter_cons, Ident.isObj_obj, Ident.isObj_hier, if_true, List.filter_append, List.filter_flatMap,
    List.flatMap_append, stdDatatypes_no_obj, List.nil_append, DatatypeEl.ids_filter_obj,
    List.flatMap_map, SpecTypeEl.ids_filter_obj, SpecificationTypeEl.ids_filter_obj, List.map_cons,
    List.map_append, List.map_flatMap, List.map_map, List.map_nil]
  have h1 : filter Ident.isObj (map (fun r => Ident.obj (up r.uuid)) m.dfs) = map (fun r => Ident.obj (up r.uuid)) m.dfs := by
    simp [List.filter_eq_self]
  have h2 : filter Ident.isObj (map (fun r => Ident.hier (up r.uuid)) m.dfs) = [] := by simp
  have h3 : flatMap (fun a => map Ident.obj (specObjectType m a).rt.toList) (reqTypes m)
      = map Ident.obj (filterMap rtOf (reqTypes m)) := flatMap_toList_map rtOf Ident.obj _
  rw [h1, h2, h3]
  simp [specificationType, Function.comp_def]


/-- which part of the document a non-`obj` identifier can occur in -/
def Ident.sec : Ident → Nat
  | .obj _ => 0
  | .stdDatatype _ | .datatype _ _ => 1
  | .nullSpecObjectType | .stdAttr _ _ | .attrDef _ _ _ => 2
  | .nullSpecificationType | .stdSpecAttr _ _ => 3
  | .hier _ => 4

/-- the identifiers a `SPEC-OBJECT-TYPE` owns besides a `_<UUID>` of its own -/
def SpecTypeEl.ownIds (t : SpecTypeEl) : List Ident :=
  (match t.rt with | none => [Ident.nullSpecObjectType] | some _ => [])
    ++ (t.std.map (fun x => Ident.stdAttr t.rt x.1) ++ t.custom.map (·.ident t.rt))

def SpecificationTypeEl.ownIds (t : SpecificationTypeEl) : List Ident :=
  (match t.mt with | none => [Ident.nullSpecificationType] | some _ => [])
    ++ t.std.map (fun x => Ident.stdSpecAttr t.mt x.1)

theorem filter_const_true {α : Type} (l : List α) : l.filter (fun _ => true) = l := by
  induction l <;> simp_all

theorem SpecTypeEl.ids_filter_notObj (t : SpecTypeEl) :
    t.ids.filter (fun a => !a.isObj) = t.ownIds := by
  cases h : t.rt <;>
    simp [SpecTypeEl.ids, SpecTypeEl.ownIds, h, sotIdent, List.filter_cons, AttrDefEl.ident, List.filter_map,
      Function.comp_def, filter_const_true]

theorem SpecificationTypeEl.ids_filter_notObj (t : SpecificationTypeEl) :
    t.ids.filter (fun a => !a.isObj) = t.ownIds := by
  cases h : t.mt <;>
    simp [SpecificationTypeEl.ids, SpecificationTypeEl.ownIds, h, stIdent, List.filter_cons, List.filter_map,
      Function.comp_def, filter_const_true]

def nonObjIds (m : Module) : List Ident :=
  (stdDatatypes ++ customDatatypes m).map (·.key.ident)
    ++ (reqTypes m).flatMap (fun t => (specObjectType m t).ownIds)
    ++ (specificationType m).ownIds
    ++ m.dfs.map (fun r => Ident.hier (up r.uuid))

theorem defsU_filter_notObj (m : Module) : (defsU m).filter (fun a => !a.isObj) = nonObjIds m := by
  unfold defsU nonObjIds
  simp only [List.filter_cons, Ident.isObj_obj, List.filter_append, List.filter_flatMap,
    DatatypeEl.ids_filter_notObj, List.flatMap_map, SpecTypeEl.ids_filter_notObj,
    SpecificationTypeEl.ids_filter_notObj]
  have h1 : filter (fun a => !a.isObj) (map (fun r => Ident.obj (up r.uuid)) m.dfs) = [] := by simp
  have h2 : filter (fun a => !a.isObj) (map (fun r => Ident.hier (up r.uuid)) m.dfs)
      = map (fun r => Ident.hier (up r.uuid)) m.dfs := by simp [List.filter_eq_self]
  rw [h1, h2]
  have h3 : ∀ l : List DatatypeEl, flatMap (fun a => [a.key.ident]) l = map (fun x => x.key.ident) l := by
    intro l; induction l <;> simp_all
  simp [h3]


/-! #### each part on its own -/

theorem nodup_map_of_inj {α β : Type} {f : α → β} {l : List α} (h : l.Nodup)
    (hf : ∀ a ∈ l, ∀ b ∈ l, f a = f b → a = b) : (l.map f).Nodup := by
  rw [List.nodup_iff_pairwise_ne, List.pairwise_map]
  exact (List.Pairwise.and_mem.mp h).imp (fun ⟨ha, hb, hne⟩ e => hne (hf _ ha _ hb e))

theorem DtKey.ident_inj {a b : DtKey} (h : a.ident = b.ident) : a = b := by
  cases a <;> cases b <;> simp_all [DtKey.ident]

theorem customDatatypes_key {m : Module} {d : DatatypeEl} (h : d ∈ customDatatypes m) :
    ∃ dt k, d.key = .custom dt k := by
  have := mem_of_mem_dedupBy h
  simp only [List.mem_map] at this
  obtain ⟨k, _, rfl⟩ := this
  exact ⟨_, _, rfl⟩

theorem stdDatatypes_idents_nodup : (stdDatatypes.map (·.key.ident)).Nodup := by decide

theorem stdDatatypes_key : ∀ d ∈ stdDatatypes, ∃ n, d.key = .std n := by
  intro d hd
  simp only [stdDatatypes, List.mem_map] at hd
  obtain ⟨x, _, rfl⟩ := hd
  exact ⟨_, rfl⟩

theorem datatype_idents_nodup (m : Module) :
    ((stdDatatypes ++ customDatatypes m).map (·.key.ident)).Nodup := by
  rw [List.map_append, List.nodup_append]
  refine ⟨stdDatatypes_idents_nodup, ?_, ?_⟩
  · have := dedupBy_keys_nodup (·.key) ((allAdefs m).map datatypeEl)
    have h2 := nodup_map_of_inj this (f := DtKey.ident) (fun _ _ _ _ e => DtKey.ident_inj e)
    rw [List.map_map] at h2
    exact h2
  · intro a ha b hb e
    simp only [List.mem_map] at ha hb
    obtain ⟨d, hd, rfl⟩ := ha
    obtain ⟨d', hd', rfl⟩ := hb
    obtain ⟨n, hn⟩ := stdDatatypes_key d hd
    obtain ⟨dt, k, hk⟩ := customDatatypes_key hd'
    rw [hn, hk] at e
    cases e

theorem reqTypes_rtOf_nodup (m : Module) (h : ((reqTypes m).filterMap rtOf).Nodup) :
    ((reqTypes m).map rtOf).Nodup := by
  have hk : ((reqTypes m).map (fun t => t.map (·.uuid))).Nodup := dedupBy_keys_nodup _ _
  generalize reqTypes m = l at h hk
  induction l with
  | nil => simp
  | cons t l ih =>
    simp only [List.map_cons, List.nodup_cons] at hk ⊢
    cases t with
    | none =>
      simp only [List.filterMap_cons, rtOf, Option.map_none] at h
      refine ⟨?_, ih h hk.2⟩
      intro hmem
      simp only [List.mem_map] at hmem
      obtain ⟨t', ht', e⟩ := hmem
      cases t' with
      | none => exact hk.1 (List.mem_map.mpr ⟨none, ht', rfl⟩)
      | some _ => simp [rtOf] at e
    | some τ =>
      simp only [List.filterMap_cons, rtOf, Option.map_some, List.nodup_cons] at h
      refine ⟨?_, ih h.2 hk.2⟩
      intro hmem
      simp only [List.mem_map] at hmem
      obtain ⟨t', ht', e⟩ := hmem
      exact h.1 (List.mem_filterMap.mpr ⟨t', ht', e⟩)


theorem stdSpecObject_names_nodup : (stdSpecObjectAttrs.map (·.1)).Nodup := by decide

theorem defn_mem_allDefs {m : Module} {r : Req} (hr : r ∈ m.dfs) {a : Attr} (ha : a ∈ r.attrs) {d : AttrDef}
    (hd : a.defn = some d) : d ∈ allDefs m := by
  simp only [allDefs, List.mem_flatMap, List.mem_filterMap]
  exact ⟨r, hr, a, ha, hd⟩

/-- the requirement type (or `NULL-SPEC-OBJECT-TYPE`) an identifier is scoped by -/
def Ident.owner : Ident → Option (Option Str)
  | .stdAttr rt _ => some rt
  | .attrDef rt _ _ => some rt
  | .nullSpecObjectType => some none
  | _ => none

theorem specType_ownIds_owner (m : Module) (t : Option ReqType) :
    ∀ a ∈ (specObjectType m t).ownIds, a.owner = some (rtOf t) ∧ a.sec = 2 := by
  intro a ha
  simp only [SpecTypeEl.ownIds, specObjectType, List.mem_append, List.mem_map] at ha
  rcases ha with ha | ⟨x, _, rfl⟩ | ⟨x, _, rfl⟩
  · cases t with
    | none => simp [rtOf] at ha; subst ha; exact ⟨rfl, rfl⟩
    | some τ => simp [rtOf] at ha
  · exact ⟨rfl, rfl⟩
  · exact ⟨rfl, rfl⟩

theorem specType_ownIds_nodup (m : Module) (hI : Identity m) (t : Option ReqType) :
    (specObjectType m t).ownIds.Nodup := by
  simp only [SpecTypeEl.ownIds, specObjectType]
  rw [List.nodup_append, List.nodup_append]
  refine ⟨by cases rtOf t <;> simp, ⟨?_, ?_, ?_⟩, ?_⟩
  · rw [List.map_map]
    have := stdSpecObject_names_nodup
    rw [List.nodup_iff_pairwise_ne, List.pairwise_map] at this ⊢
    exact this.imp (fun h e => h (by simpa using e))
  · rw [List.map_map]
    refine nodup_map_of_inj ((m.setOrder_perm _ _).nodup_iff.mpr (nodup_dedup _)) ?_
    intro x hx y hy e
    simp only [Function.comp, AttrDefEl.ident, attrDefEl, Ident.attrDef.injEq, true_and] at e
    obtain ⟨e1, e2⟩ := e
    obtain ⟨r, hr, _, a, ha, rfl⟩ := exists_attr_of_mem_adefsOf hx
    obtain ⟨r', hr', _, a', ha', rfl⟩ := exists_attr_of_mem_adefsOf hy
    simp only [adKey] at e1 e2 ⊢
    cases hd : a.defn with
    | none =>
      cases hd' : a'.defn with
      | none => simp [e2]
      | some d' => simp [hd, hd'] at e1
    | some d =>
      cases hd' : a'.defn with
      | none => simp [hd, hd'] at e1
      | some d' =>
        simp only [hd, hd', Option.map_some, Option.some.injEq] at e1
        have := hI.defs d (defn_mem_allDefs hr ha hd) d' (defn_mem_allDefs hr' ha' hd') e1
        simp [this, e2]
  · intro a ha b hb e
    subst e
    simp only [List.mem_map] at ha hb
    obtain ⟨x, _, rfl⟩ := ha
    obtain ⟨y, _, e⟩ := hb
    simp [AttrDefEl.ident] at e
  · intro a ha b hb e
    subst e
    cases h : rtOf t with
    | some u => simp [h] at ha
    | none =>
      simp only [h, List.mem_singleton] at ha
      subst ha
      simp [AttrDefEl.ident] at hb

theorem specTypes_ownIds_nodup (m : Module) (hI : Identity m) :
    ((reqTypes m).flatMap (fun t => (specObjectType m t).ownIds)).Nodup := by
  rw [List.nodup_iff_pairwise_ne, List.pairwise_flatMap]
  refine ⟨fun t _ => specType_ownIds_nodup m hI t, ?_⟩
  have h : ((reqTypes m).filterMap rtOf).Nodup := by
    have := hI.objs
    simp only [objUuids, List.nodup_cons, List.nodup_append] at this
    exact this.2.1.1.1.2.1
  have := reqTypes_rtOf_nodup m h
  rw [List.nodup_iff_pairwise_ne, List.pairwise_map] at this
  refine this.imp ?_
  intro t₁ t₂ hne a ha b hb e
  subst e
  have h1 := (specType_ownIds_owner m t₁ a ha).1
  have h2 := (specType_ownIds_owner m t₂ a hb).1
  rw [h1] at h2
  exact hne (Option.some.inj h2)


theorem specificationType_ownIds (m : Module) :
    (specificationType m).ownIds.Nodup ∧ ∀ a ∈ (specificationType m).ownIds, a.sec = 3 := by
  simp only [SpecificationTypeEl.ownIds, specificationType, stdSpecificationAttrs]
  cases mtOf m <;> simp [Ident.sec]

theorem datatype_idents_sec (m : Module) :
    ∀ a ∈ (stdDatatypes ++ customDatatypes m).map (·.key.ident), a.sec = 1 := by
  intro a ha
  simp only [List.mem_map] at ha
  obtain ⟨d, _, rfl⟩ := ha
  cases d.key <;> rfl

theorem req_uuids_nodup (m : Module) (hI : Identity m) : (m.dfs.map (fun r => up r.uuid)).Nodup := by
  have := hI.objs
  simp only [objUuids, List.nodup_cons, List.nodup_append] at this
  exact this.2.1.2.1

theorem req_raw_uuids_nodup (m : Module) (hI : Identity m) : (m.dfs.map (·.uuid)).Nodup := by
  have := req_uuids_nodup m hI
  rw [List.nodup_iff_pairwise_ne, List.pairwise_map] at this ⊢
  exact this.imp (fun h e => h (congrArg up e))

theorem nonObjIds_nodup (m : Module) (hI : Identity m) : (nonObjIds m).Nodup := by
  unfold nonObjIds
  have hA := datatype_idents_nodup m
  have hAs := datatype_idents_sec m
  have hB := specTypes_ownIds_nodup m hI
  have hBs : ∀ a ∈ (reqTypes m).flatMap (fun t => (specObjectType m t).ownIds), a.sec = 2 := by
    intro a ha
    simp only [List.mem_flatMap] at ha
    obtain ⟨t, _, ha⟩ := ha
    exact (specType_ownIds_owner m t a ha).2
  obtain ⟨hC, hCs⟩ := specificationType_ownIds m
  have hD : (m.dfs.map (fun r => Ident.hier (up r.uuid))).Nodup := by
    have := req_uuids_nodup m hI
    rw [List.nodup_iff_pairwise_ne, List.pairwise_map] at this ⊢
    exact this.imp (fun h e => h (by simpa using e))
  have hDs : ∀ a ∈ m.dfs.map (fun r => Ident.hier (up r.uuid)), a.sec = 4 := by
    intro a ha
    simp only [List.mem_map] at ha
    obtain ⟨r, _, rfl⟩ := ha
    rfl
  rw [List.nodup_append, List.nodup_append, List.nodup_append]
  refine ⟨⟨⟨hA, hB, ?_⟩, hC, ?_⟩, hD, ?_⟩
  · intro a ha b hb e; subst e
    have := hAs a ha; rw [hBs a hb] at this; cases this
  · intro a ha b hb e; subst e
    rcases List.mem_append.mp ha with ha | ha
    · have := hAs a ha; rw [hCs a hb] at this; cases this
    · have := hBs a ha; rw [hCs a hb] at this; cases this
  · intro a ha b hb e; subst e
    rcases List.mem_append.mp ha with ha | ha
    · rcases List.mem_append.mp ha with ha | ha
      · have := hAs a ha; rw [hDs a hb] at this; cases this
      · have := hBs a ha; rw [hDs a hb] at this; cases this
    · have := hCs a ha; rw [hDs a hb] at this; cases this

/-- all identifiers of the exported document are pairwise distinct -/
theorem defs_nodup (x : Str → Option Str) (m : Module) (hI : Identity m) : (doc x m).defs.Nodup := by
  refine (defs_perm x m).nodup_iff.mpr (nodup_of_filter Ident.isObj _ ?_ ?_)
  · rw [defsU_filter_obj]
    exact nodup_map_of_inj hI.objs (fun _ _ _ _ e => by simpa using e)
  · rw [defsU_filter_notObj]
    exact nonObjIds_nodup m hI


/-! ### "contained in the module, directly or in nested folders" -/

theorem mem_dfsL_of_mem {fs : List Folder} {f : Folder} {r : Req} (hf : f ∈ fs) (hr : r ∈ f.dfs) :
    r ∈ dfsL fs := by
  induction fs with
  | nil => cases hf
  | cons g gs ih =>
    simp only [dfsL, List.mem_append]
    rcases List.mem_cons.mp hf with rfl | h
    · exact Or.inl hr
    · exact Or.inr (ih h)

theorem Folder.mem_dfs_of_contains {f : Folder} {r : Req} (h : f.Contains r) : r ∈ f.dfs := by
  induction h with
  | direct h => simp [Folder.dfs, h]
  | nested hf _ ih =>
    simp only [Folder.dfs, List.mem_append]
    exact Or.inr (mem_dfsL_of_mem hf ih)

mutual
theorem Folder.contains_of_mem_dfs : ∀ (f : Folder) (r : Req), r ∈ f.dfs → f.Contains r
  | .mk reqs fs, r, h => by
    simp only [Folder.dfs, List.mem_append] at h
    rcases h with h | h
    · exact .direct h
    · obtain ⟨f, hf, hc⟩ := contains_of_mem_dfsL fs r h
      exact .nested hf hc
theorem contains_of_mem_dfsL : ∀ (fs : List Folder) (r : Req), r ∈ dfsL fs → ∃ f ∈ fs, f.Contains r
  | [], _, h => by simp [dfsL] at h
  | g :: gs, r, h => by
    simp only [dfsL, List.mem_append] at h
    rcases h with h | h
    · exact ⟨g, List.mem_cons_self, Folder.contains_of_mem_dfs g r h⟩
    · obtain ⟨f, hf, hc⟩ := contains_of_mem_dfsL gs r h
      exact ⟨f, List.mem_cons_of_mem _ hf, hc⟩
end

theorem Module.mem_dfs_iff (m : Module) (r : Req) : r ∈ m.dfs ↔ m.Contains r := by
  simp only [Module.dfs, Module.Contains, List.mem_append]
  constructor
  · rintro (h | h)
    · exact Or.inl h
    · exact Or.inr (contains_of_mem_dfsL _ _ h)
  · rintro (h | ⟨f, hf, hc⟩)
    · exact Or.inl h
    · exact Or.inr (mem_dfsL_of_mem hf (Folder.mem_dfs_of_contains hc))

/-! ### values can be read back -/

theorem Value.decode_render (v : Value) (h : v.Proper) :
    Value.decode v.kind v.render v.enumRefs = some v.upper := by
  cases v with
  | bool b => cases b <;> simp [Value.kind, Value.render, Value.decode, Value.upper]
  | date d =>
    cases d with
    | none => exact absurd h (by simp [Value.Proper])
    | some s => simp [Value.kind, Value.render, Value.decode, Value.upper]
  | int n =>
    simp only [Value.kind, Value.render, Value.decode, Value.upper, String.ofList_toList, Int.toInt?_repr,
      Option.map_some]
  | real r =>
    cases r with
    | posInf => simp [Value.kind, Value.render, Value.decode, Value.upper]
    | negInf => simp [Value.kind, Value.render, Value.decode, Value.upper]
    | fin s =>
      simp only [Value.kind, Value.render, Value.decode, Value.upper, if_neg h.1, if_neg h.2]
  | string s => simp [Value.kind, Value.render, Value.decode, Value.upper]
  | «enum» vs => simp [Value.kind, Value.render, Value.decode, Value.upper, Value.enumRefs]

/-! ### when the exporter raises -/

theorem specTypeErr_none {m : Module} (hE : hasEnumWithoutDef m = false) (hC : hasClassViolation m = false) :
    (allAdefs m).filterMap specTypeErr = [] := by
  rw [List.filterMap_eq_nil_iff]
  intro x hx
  simp only [hasEnumWithoutDef, List.any_eq_false] at hE
  simp only [hasClassViolation, Bool.or_eq_false_iff, List.any_eq_false] at hC
  have h1 := hE x hx
  have h2 := hC.2 x hx
  unfold specTypeErr at h2 ⊢
  split
  · next hk =>
    rw [if_pos hk] at h2
    cases hd : x.1 with
    | none => simp [hd, hk] at h1
    | some d =>
      simp only [hd] at h2 ⊢
      cases hde : d.isEnum <;> simp_all
  · rfl

theorem export_ok (x : Str → Option Str) (m : Module) (hx : (x emptyDiv).isSome = true)
    (hdiv : ∀ s, (x (wrapDiv s)).isSome = true)
    (hE : hasEnumWithoutDef m = false) (hC : hasClassViolation m = false) : «export» x m = .ok (doc x m) := by
  have h1 : ∀ s, (toXhtml x s).isSome = true := by
    intro s
    unfold toXhtml
    cases x s <;> simp [hx]
  have hw : (dtWinners m).any dtAttrErr = false := by
    simp only [hasClassViolation, Bool.or_eq_false_iff] at hC
    exact hC.1
  have : errors x m = [] := by
    simp only [errors, hw, specTypeErr_none hE hC, Bool.false_eq_true, if_false, List.nil_append, List.append_eq_nil_iff]
    constructor
    · rw [if_neg]
      simp only [List.any_eq_true, not_exists, not_and]
      intro r _ v hv
      simp only [stdValues, List.mem_map] at hv
      obtain ⟨s, _, rfl⟩ := hv
      by_cases hs : s.2.1 = Kind.string
      · simp [hs]
      · have := h1 (htmlSource s.2.2 (s.2.2.get r))
        simp [hs, Option.isSome_iff_ne_none.mp this]
    · rw [if_neg]
      simp only [specification, List.any_eq_true, not_exists, not_and, List.mem_map]
      rintro v ⟨s, _, rfl⟩
      have := hdiv (escape m.longName)
      simp [Option.isSome_iff_ne_none.mp this]
  simp [«export», this]

theorem filterMap_specTypeErr_head {l : List ADKey} (h : ∃ x ∈ l, (specTypeErr x).isSome = true) :
    ∃ e rest, l.filterMap specTypeErr = e :: rest ∧ (e = .assertion ∨ e = .attribute) := by
  cases hl : l.filterMap specTypeErr with
  | nil =>
    obtain ⟨x, hx, hs⟩ := h
    rw [List.filterMap_eq_nil_iff] at hl
    simp [hl x hx] at hs
  | cons e rest =>
    refine ⟨e, rest, rfl, ?_⟩
    have : e ∈ l.filterMap specTypeErr := hl ▸ List.mem_cons_self ..
    obtain ⟨x, _, hx⟩ := List.mem_filterMap.mp this
    unfold specTypeErr at hx
    split at hx
    · split at hx
      · cases hx; exact Or.inl rfl
      · split at hx
        · cases hx
        · cases hx; exact Or.inr rfl
    · cases hx

/-- with an enumeration attribute without definition no document is written: the assertion, or (only
when the module also holds a class-violating link that is reached first) the `AttributeError` -/
theorem export_no_document (x : Str → Option Str) (m : Module)
    (h : hasEnumWithoutDef m = true ∨ hasClassViolation m = true) :
    ∃ e, «export» x m = .error e ∧ (e = .assertion ∨ e = .attribute) := by
  by_cases hw : (dtWinners m).any dtAttrErr = true
  · exact ⟨.attribute, by simp [«export», errors, hw], Or.inr rfl⟩
  · have hw' : (dtWinners m).any dtAttrErr = false := by simpa using hw
    have hex : ∃ x ∈ allAdefs m, (specTypeErr x).isSome = true := by
      rcases h with h | h
      · simp only [hasEnumWithoutDef, List.any_eq_true] at h
        obtain ⟨x, hx, hp⟩ := h
        refine ⟨x, hx, ?_⟩
        simp only [Bool.and_eq_true, Option.isNone_iff_eq_none, beq_iff_eq] at hp
        simp [specTypeErr, hp.1, hp.2]
      · simp only [hasClassViolation, hw', Bool.false_or, List.any_eq_true, beq_iff_eq] at h
        obtain ⟨x, hx, hp⟩ := h
        exact ⟨x, hx, by simp [hp]⟩
    obtain ⟨e, rest, he, hcls⟩ := filterMap_specTypeErr_head hex
    exact ⟨e, by simp [«export», errors, hw', he], hcls⟩

theorem export_assertion (x : Str → Option Str) (m : Module) (hE : hasEnumWithoutDef m = true)
    (hC : hasClassViolation m = false) : «export» x m = .error .assertion := by
  obtain ⟨e, he, hcls⟩ := export_no_document x m (Or.inl hE)
  rcases hcls with rfl | rfl
  · exact he
  · exfalso
    -- an `attribute` error needs a class violation
    simp only [hasClassViolation, Bool.or_eq_false_iff, List.any_eq_false] at hC
    have hw : (dtWinners m).any dtAttrErr = false := by
      simp only [List.any_eq_false]; exact hC.1
    simp only [«export», errors, hw, Bool.false_eq_true, if_false, List.nil_append] at he
    cases hl : (allAdefs m).filterMap specTypeErr with
    | nil =>
      rw [hl] at he
      simp only [List.nil_append] at he
      split at he
      · next e' _ heq =>
        cases he
        split at heq
        · split at heq <;> simp at heq
        · split at heq <;> simp at heq
      · cases he
    | cons e' rest =>
      rw [hl] at he
      simp only [List.cons_append] at he
      cases he
      have : Err.attribute ∈ (allAdefs m).filterMap specTypeErr := hl ▸ List.mem_cons_self ..
      obtain ⟨y, hy, hy'⟩ := List.mem_filterMap.mp this
      have := hC.2 y hy
      simp [hy'] at this


/-! ### identifier rendering is injective on uuid-shaped keys -/

theorem append_cons_inj_left {c : Char} : ∀ {a₁ a₂ b₁ b₂ : Str}, c ∉ a₁ → c ∉ a₂ →
    a₁ ++ c :: b₁ = a₂ ++ c :: b₂ → a₁ = a₂ ∧ b₁ = b₂
  | [], [], _, _, _, _, h => by simpa using h
  | [], x :: a₂, _, _, _, h₂, h => by
    simp only [List.nil_append, List.cons_append, List.cons.injEq] at h
    exact absurd (h.1 ▸ List.mem_cons_self) h₂
  | x :: a₁, [], _, _, h₁, _, h => by
    simp only [List.nil_append, List.cons_append, List.cons.injEq] at h
    exact absurd (h.1 ▸ List.mem_cons_self) h₁
  | x :: a₁, y :: a₂, _, _, h₁, h₂, h => by
    simp only [List.cons_append, List.cons.injEq] at h
    obtain ⟨rfl, h⟩ := h
    have := append_cons_inj_left (fun m => h₁ (List.mem_cons_of_mem _ m)) (fun m => h₂ (List.mem_cons_of_mem _ m)) h
    exact ⟨by rw [this.1], this.2⟩

theorem append_cons_inj_right {c : Char} {a₁ a₂ b₁ b₂ : Str} (h₁ : c ∉ b₁) (h₂ : c ∉ b₂)
    (h : a₁ ++ c :: b₁ = a₂ ++ c :: b₂) : a₁ = a₂ ∧ b₁ = b₂ := by
  have := congrArg List.reverse h
  simp only [List.reverse_append, List.reverse_cons, List.append_assoc, List.singleton_append] at this
  have := append_cons_inj_left (by simpa using h₁) (by simpa using h₂) this
  exact ⟨List.reverse_inj.mp this.2, List.reverse_inj.mp this.1⟩

theorem Kind.name_no_dash (k : Kind) : '-' ∉ k.name := by cases k <;> decide
theorem Kind.name_inj {a b : Kind} (h : a.name = b.name) : a = b := by
  cases a <;> cases b <;> first | rfl | (exfalso; revert h; decide)
theorem Kind.name_ne_hier (k : Kind) : k.name ≠ "HIER".toList := by cases k <;> decide
theorem Kind.name_ne_type (k : Kind) : k.name ≠ "TYPE".toList := by cases k <;> decide

/-- the text a key stands for: the uuid, or the `NULL-…` word -/
theorem getD_inj {o₁ o₂ : Option Str} {w : Str} (hw : ∃ c ∈ w, hexDash c = false)
    (h₁ : OptUuidLike o₁) (h₂ : OptUuidLike o₂) (h : o₁.getD w = o₂.getD w) : o₁ = o₂ := by
  obtain ⟨c, hc, hcf⟩ := hw
  cases o₁ with
  | none =>
    cases o₂ with
    | none => rfl
    | some u => simp only [Option.getD_none, Option.getD_some] at h; have := h₂ u rfl c (h ▸ hc); simp [hcf] at this
  | some u =>
    cases o₂ with
    | none => simp only [Option.getD_none, Option.getD_some] at h; have := h₁ u rfl c (h ▸ hc); simp [hcf] at this
    | some v => simp only [Option.getD_some] at h; rw [h]

theorem getD_no {o : Option Str} {w : Str} {c : Char} (hc : hexDash c = false) (hw : c ∉ w) (h : OptUuidLike o) :
    c ∉ o.getD w := by
  cases o with
  | none => simpa using hw
  | some u => intro hm; have := h u rfl c hm; simp [hc] at this


theorem uuidLike_no {u : Str} {c : Char} (hu : UuidLike u) (hc : hexDash c = false) : c ∉ u := by
  intro hm; have := hu c hm; simp [hc] at this

/-- two `<X>--<suffix>` texts with dash-free suffixes agree only if both parts agree -/
theorem dashed_inj {a₁ a₂ b₁ b₂ : Str} (h₁ : '-' ∉ b₁) (h₂ : '-' ∉ b₂)
    (h : a₁ ++ '-' :: '-' :: b₁ = a₂ ++ '-' :: '-' :: b₂) : a₁ = a₂ ∧ b₁ = b₂ := by
  have h' : (a₁ ++ ['-']) ++ '-' :: b₁ = (a₂ ++ ['-']) ++ '-' :: b₂ := by simpa using h
  obtain ⟨ha, hb⟩ := append_cons_inj_right h₁ h₂ h'
  exact ⟨List.append_cancel_right ha, hb⟩

theorem nullSOT_split : nullSOT = "NULL-SPEC-OBJECT".toList ++ '-' :: "TYPE".toList := by decide
theorem nullST_split : nullST = "NULL-SPECIFICATION".toList ++ '-' :: "TYPE".toList := by decide

theorem nonhex_nullDT : ∃ c ∈ nullDT, hexDash c = false := ⟨'N', by decide, by decide⟩
theorem nonhex_nullAD : ∃ c ∈ nullAD, hexDash c = false := ⟨'N', by decide, by decide⟩
theorem nonhex_nullSOT : ∃ c ∈ nullSOT, hexDash c = false := ⟨'N', by decide, by decide⟩
theorem nonhex_nullST : ∃ c ∈ nullST, hexDash c = false := ⟨'N', by decide, by decide⟩

/-- `<R>-ReqIF.<n>` determines `R` and `n` when `R` has no `R` -/
theorem reqif_inj {r₁ r₂ n₁ n₂ : Str} (h₁ : 'R' ∉ r₁) (h₂ : 'R' ∉ r₂)
    (h : r₁ ++ ("-ReqIF.".toList ++ n₁) = r₂ ++ ("-ReqIF.".toList ++ n₂)) : r₁ = r₂ ∧ n₁ = n₂ := by
  have h' : (r₁ ++ ['-']) ++ 'R' :: ("eqIF.".toList ++ n₁) = (r₂ ++ ['-']) ++ 'R' :: ("eqIF.".toList ++ n₂) := by
    simpa using h
  have m₁ : 'R' ∉ r₁ ++ ['-'] := by simp [h₁]
  have m₂ : 'R' ∉ r₂ ++ ['-'] := by simp [h₂]
  obtain ⟨ha, hb⟩ := append_cons_inj_left m₁ m₂ h'
  exact ⟨List.append_cancel_right ha, List.append_cancel_left hb⟩

/-- an attribute-definition identifier never starts like a `STD-…` identifier -/
theorem attrDef_head {ad : Option Str} (h : OptUuidLike ad) (t : Str) (s : Str) :
    ad.getD nullAD ++ '.' :: t ≠ 'S' :: s := by
  cases ad with
  | none =>
    have : nullAD = 'N' :: "ULL-ATTRIBUTE-DEFINITION".toList := by decide
    intro e
    rw [Option.getD_none, this] at e
    simp only [List.cons_append, List.cons.injEq] at e
    exact absurd e.1 (by decide)
  | some u =>
    cases u with
    | nil =>
      intro e
      simp only [Option.getD_some, List.nil_append, List.cons.injEq] at e
      exact absurd e.1 (by decide)
    | cons c u =>
      intro e
      simp only [Option.getD_some, List.cons_append, List.cons.injEq] at e
      have := h _ rfl c List.mem_cons_self
      rw [e.1] at this
      revert this; decide


theorem Kind.name_nonhex (k : Kind) : ∃ c ∈ k.name, hexDash c = false := by
  cases k
  · exact ⟨'O', by decide, by decide⟩
  · exact ⟨'T', by decide, by decide⟩
  · exact ⟨'I', by decide, by decide⟩
  · exact ⟨'R', by decide, by decide⟩
  · exact ⟨'S', by decide, by decide⟩
  · exact ⟨'N', by decide, by decide⟩
  · exact ⟨'X', by decide, by decide⟩

/-- apart from `_<UUID>` every identifier contains a character that no uuid contains -/
theorem body_not_uuidLike : ∀ i : Ident, (∀ u, i ≠ .obj u) → ∃ c ∈ i.body, hexDash c = false
  | .obj u, h => absurd rfl (h u)
  | .hier u, _ => ⟨'H', List.mem_append_right _ (by decide), by decide⟩
  | .datatype dt k, _ => by
    obtain ⟨c, hc, hcf⟩ := Kind.name_nonhex k
    exact ⟨c, List.mem_append_right _ (List.mem_cons_of_mem _ (List.mem_cons_of_mem _ hc)), hcf⟩
  | .attrDef rt ad k, _ =>
    ⟨'.', List.mem_append_left _ (List.mem_append_right _ List.mem_cons_self), by decide⟩
  | .stdDatatype n, _ => ⟨'S', List.mem_append_left _ (by decide), by decide⟩
  | .stdAttr rt n, _ =>
    ⟨'S', List.mem_append_left _ (List.mem_append_left _ (List.mem_append_left _ (by decide))), by decide⟩
  | .stdSpecAttr mt n, _ =>
    ⟨'S', List.mem_append_left _ (List.mem_append_left _ (List.mem_append_left _ (by decide))), by decide⟩
  | .nullSpecObjectType, _ => ⟨'N', by decide, by decide⟩
  | .nullSpecificationType, _ => ⟨'N', by decide, by decide⟩

def Ident.hasDot : Ident → Bool
  | .attrDef _ _ _ | .stdDatatype _ | .stdAttr _ _ | .stdSpecAttr _ _ => true
  | _ => false

theorem Kind.name_no_dot (k : Kind) : '.' ∉ k.name := by cases k <;> decide

theorem dot_mem_body : ∀ i : Ident, i.Shaped → ('.' ∈ i.body ↔ i.hasDot = true)
  | .obj u, h => by
    have : '.' ∉ u := uuidLike_no (c := '.') (show UuidLike u from h) (by decide)
    exact ⟨fun h' => absurd h' this, fun h' => by cases h'⟩
  | .hier u, h => by
    have h1 : '.' ∉ u := uuidLike_no (c := '.') (show UuidLike u from h) (by decide)
    have h2 : '.' ∉ "--HIER".toList := by decide
    refine ⟨fun h' => ?_, fun h' => by cases h'⟩
    rcases List.mem_append.mp h' with h' | h'
    · exact absurd h' h1
    · exact absurd h' h2
  | .datatype dt k, h => by
    have h1 := getD_no (w := nullDT) (c := '.') (by decide) (by decide) h
    have h2 := Kind.name_no_dot k
    have h3 : '.' ∉ '-' :: '-' :: k.name := by
      simp only [List.mem_cons, not_or]; exact ⟨by decide, by decide, h2⟩
    refine ⟨fun h' => ?_, fun h' => by cases h'⟩
    rcases List.mem_append.mp h' with h' | h'
    · exact absurd h' h1
    · exact absurd h' h3
  | .attrDef rt ad k, _ =>
    ⟨fun _ => rfl, fun _ => List.mem_append_left _ (List.mem_append_right _ List.mem_cons_self)⟩
  | .stdDatatype n, _ => ⟨fun _ => rfl, fun _ => List.mem_append_left _ (by decide)⟩
  | .stdAttr rt n, _ =>
    ⟨fun _ => rfl, fun _ => List.mem_append_left _ (List.mem_append_right _ (by decide))⟩
  | .stdSpecAttr mt n, _ =>
    ⟨fun _ => rfl, fun _ => List.mem_append_left _ (List.mem_append_right _ (by decide))⟩
  | .nullSpecObjectType, _ => by decide
  | .nullSpecificationType, _ => by decide



theorem hier_split (u : Str) : (Ident.hier u).body = (u ++ ['-']) ++ '-' :: "HIER".toList := by
  show u ++ "--HIER".toList = _
  rw [List.append_assoc]; rfl

theorem datatype_split (d : Option Str) (k : Kind) :
    (Ident.datatype d k).body = (d.getD nullDT ++ ['-']) ++ '-' :: k.name := by
  show _ ++ '-' :: '-' :: k.name = _
  rw [List.append_assoc]; rfl

theorem attrDef_split (r a : Option Str) (k : Kind) :
    (Ident.attrDef r a k).body = a.getD nullAD ++ '.' :: (r.getD nullSOT ++ '-' :: '-' :: k.name) := by
  show (_ ++ _) ++ _ = _
  rw [List.append_assoc]; rfl

theorem stdDatatype_head (n : Str) : ∃ s, (Ident.stdDatatype n).body = 'S' :: s := ⟨_, rfl⟩
theorem stdAttr_head (r : Option Str) (n : Str) : ∃ s, (Ident.stdAttr r n).body = 'S' :: s := ⟨_, rfl⟩
theorem stdSpecAttr_head (r : Option Str) (n : Str) : ∃ s, (Ident.stdSpecAttr r n).body = 'S' :: s := ⟨_, rfl⟩

theorem nullSOT_body : Ident.nullSpecObjectType.body = "NULL-SPEC-OBJECT".toList ++ '-' :: "TYPE".toList :=
  nullSOT_split
theorem nullST_body : Ident.nullSpecificationType.body = "NULL-SPECIFICATION".toList ++ '-' :: "TYPE".toList :=
  nullST_split


theorem stdDatatype_5 (n : Str) : ∃ s, (Ident.stdDatatype n).body = 'S' :: 'T' :: 'D' :: '-' :: 'D' :: s := ⟨_, rfl⟩
theorem stdAttr_5 (r : Option Str) (n : Str) :
    ∃ s, (Ident.stdAttr r n).body = 'S' :: 'T' :: 'D' :: '-' :: 'A' :: s := ⟨_, rfl⟩
theorem stdSpecAttr_5 (r : Option Str) (n : Str) :
    ∃ s, (Ident.stdSpecAttr r n).body = 'S' :: 'T' :: 'D' :: '-' :: 'S' :: s := ⟨_, rfl⟩


theorem obj_body_ne {u : Str} {j : Ident} (hb : (Ident.obj u).body = j.body) (hu : UuidLike u)
    (hj : ∀ v, j ≠ .obj v) : False := by
  obtain ⟨c, hc, hcf⟩ := body_not_uuidLike j hj
  rw [← hb] at hc
  have := hu c hc
  rw [hcf] at this
  cases this

/-- Two shaped identifiers with the same text are the same identifier. -/
theorem render_inj {i j : Ident} (hi : i.Shaped) (hj : j.Shaped) (h : i.render = j.render) : i = j := by
  have hb : i.body = j.body := by
    simp only [Ident.render, List.cons.injEq, true_and] at h
    exact h
  have hdot : i.hasDot = j.hasDot := by
    have h1 := dot_mem_body i hi
    have h2 := dot_mem_body j hj
    rw [hb] at h1
    cases hi' : i.hasDot <;> cases hj' : j.hasDot <;> simp_all
  cases i <;> cases j
  -- same constructor
  case obj.obj u v => exact congrArg _ hb
  case hier.hier u v => exact congrArg _ (List.append_cancel_right hb)
  case datatype.datatype d₁ k₁ d₂ k₂ =>
    obtain ⟨hd, hk⟩ := dashed_inj (Kind.name_no_dash k₁) (Kind.name_no_dash k₂) hb
    rw [getD_inj nonhex_nullDT hi hj hd, Kind.name_inj hk]
  case attrDef.attrDef r₁ a₁ k₁ r₂ a₂ k₂ =>
    have hb' : (a₁.getD nullAD ++ '.' :: r₁.getD nullSOT) ++ '-' :: '-' :: k₁.name
        = (a₂.getD nullAD ++ '.' :: r₂.getD nullSOT) ++ '-' :: '-' :: k₂.name := hb
    obtain ⟨hl, hk⟩ := dashed_inj (Kind.name_no_dash k₁) (Kind.name_no_dash k₂) hb'
    obtain ⟨ha, hr⟩ := append_cons_inj_left
      (getD_no (c := '.') (by decide) (by decide) hi.2) (getD_no (c := '.') (by decide) (by decide) hj.2) hl
    rw [getD_inj nonhex_nullAD hi.2 hj.2 ha, getD_inj nonhex_nullSOT hi.1 hj.1 hr, Kind.name_inj hk]
  case stdDatatype.stdDatatype n₁ n₂ => exact congrArg _ (List.append_cancel_left hb)
  case stdAttr.stdAttr r₁ n₁ r₂ n₂ =>
    have hb' : (("STD-ATTRIBUTE-".toList ++ r₁.getD nullSOT) ++ "-ReqIF.".toList) ++ n₁
        = (("STD-ATTRIBUTE-".toList ++ r₂.getD nullSOT) ++ "-ReqIF.".toList) ++ n₂ := hb
    rw [List.append_assoc, List.append_assoc, List.append_assoc, List.append_assoc] at hb'
    obtain ⟨hr, hn⟩ := reqif_inj (getD_no (c := 'R') (by decide) (by decide) hi)
      (getD_no (c := 'R') (by decide) (by decide) hj) (List.append_cancel_left hb')
    rw [getD_inj nonhex_nullSOT hi hj hr, hn]
  case stdSpecAttr.stdSpecAttr r₁ n₁ r₂ n₂ =>
    have hb' : (("STD-SPECIFICATION-ATTRIBUTE-".toList ++ r₁.getD nullST) ++ "-ReqIF.".toList) ++ n₁
        = (("STD-SPECIFICATION-ATTRIBUTE-".toList ++ r₂.getD nullST) ++ "-ReqIF.".toList) ++ n₂ := hb
    rw [List.append_assoc, List.append_assoc, List.append_assoc, List.append_assoc] at hb'
    obtain ⟨hr, hn⟩ := reqif_inj (getD_no (c := 'R') (by decide) (by decide) hi)
      (getD_no (c := 'R') (by decide) (by decide) hj) (List.append_cancel_left hb')
    rw [getD_inj nonhex_nullST hi hj hr, hn]
  case nullSpecObjectType.nullSpecObjectType => rfl
  case nullSpecificationType.nullSpecificationType => rfl
  -- `<X>--<suffix>` against each other and against the NULL type words
  case hier.datatype u d k =>
    exact absurd (dashed_inj (by decide) (Kind.name_no_dash k) hb).2.symm (Kind.name_ne_hier k)
  case datatype.hier d k u =>
    exact absurd (dashed_inj (Kind.name_no_dash k) (by decide) hb).2 (Kind.name_ne_hier k)
  case hier.nullSpecObjectType u =>
    rw [hier_split, nullSOT_body] at hb
    exact absurd (append_cons_inj_right (by decide) (by decide) hb).2 (by decide)
  case nullSpecObjectType.hier u =>
    rw [hier_split, nullSOT_body] at hb
    exact absurd (append_cons_inj_right (by decide) (by decide) hb).2 (by decide)
  case hier.nullSpecificationType u =>
    rw [hier_split, nullST_body] at hb
    exact absurd (append_cons_inj_right (by decide) (by decide) hb).2 (by decide)
  case nullSpecificationType.hier u =>
    rw [hier_split, nullST_body] at hb
    exact absurd (append_cons_inj_right (by decide) (by decide) hb).2 (by decide)
  case datatype.nullSpecObjectType d k =>
    rw [datatype_split, nullSOT_body] at hb
    exact absurd (append_cons_inj_right (Kind.name_no_dash k) (by decide) hb).2 (Kind.name_ne_type k)
  case nullSpecObjectType.datatype d k =>
    rw [datatype_split, nullSOT_body] at hb
    exact absurd (append_cons_inj_right (by decide) (Kind.name_no_dash k) hb).2.symm (Kind.name_ne_type k)
  case datatype.nullSpecificationType d k =>
    rw [datatype_split, nullST_body] at hb
    exact absurd (append_cons_inj_right (Kind.name_no_dash k) (by decide) hb).2 (Kind.name_ne_type k)
  case nullSpecificationType.datatype d k =>
    rw [datatype_split, nullST_body] at hb
    exact absurd (append_cons_inj_right (by decide) (Kind.name_no_dash k) hb).2.symm (Kind.name_ne_type k)
  case nullSpecObjectType.nullSpecificationType => exact absurd hb (by decide)
  case nullSpecificationType.nullSpecObjectType => exact absurd hb (by decide)
  -- identifiers with a dot: attribute definitions never start with `S`, the `STD-…` prefixes differ
  case attrDef.stdDatatype r a k n =>
    obtain ⟨t, ht⟩ := stdDatatype_head n
    rw [attrDef_split, ht] at hb
    exact absurd hb (attrDef_head hi.2 _ _)
  case stdDatatype.attrDef n r a k =>
    obtain ⟨t, ht⟩ := stdDatatype_head n
    rw [attrDef_split, ht] at hb
    exact absurd hb.symm (attrDef_head hj.2 _ _)
  case attrDef.stdAttr r a k r' n =>
    obtain ⟨t, ht⟩ := stdAttr_head r' n
    rw [attrDef_split, ht] at hb
    exact absurd hb (attrDef_head hi.2 _ _)
  case stdAttr.attrDef r' n r a k =>
    obtain ⟨t, ht⟩ := stdAttr_head r' n
    rw [attrDef_split, ht] at hb
    exact absurd hb.symm (attrDef_head hj.2 _ _)
  case attrDef.stdSpecAttr r a k r' n =>
    obtain ⟨t, ht⟩ := stdSpecAttr_head r' n
    rw [attrDef_split, ht] at hb
    exact absurd hb (attrDef_head hi.2 _ _)
  case stdSpecAttr.attrDef r' n r a k =>
    obtain ⟨t, ht⟩ := stdSpecAttr_head r' n
    rw [attrDef_split, ht] at hb
    exact absurd hb.symm (attrDef_head hj.2 _ _)
  case stdDatatype.stdAttr n r n' =>
    obtain ⟨s₁, h₁⟩ := stdDatatype_5 n; obtain ⟨s₂, h₂⟩ := stdAttr_5 r n'
    rw [h₁, h₂] at hb; simp only [List.cons.injEq] at hb; exact absurd hb.2.2.2.2.1 (by decide)
  case stdAttr.stdDatatype r n' n =>
    obtain ⟨s₁, h₁⟩ := stdDatatype_5 n; obtain ⟨s₂, h₂⟩ := stdAttr_5 r n'
    rw [h₁, h₂] at hb; simp only [List.cons.injEq] at hb; exact absurd hb.2.2.2.2.1 (by decide)
  case stdDatatype.stdSpecAttr n r n' =>
    obtain ⟨s₁, h₁⟩ := stdDatatype_5 n; obtain ⟨s₂, h₂⟩ := stdSpecAttr_5 r n'
    rw [h₁, h₂] at hb; simp only [List.cons.injEq] at hb; exact absurd hb.2.2.2.2.1 (by decide)
  case stdSpecAttr.stdDatatype r n' n =>
    obtain ⟨s₁, h₁⟩ := stdDatatype_5 n; obtain ⟨s₂, h₂⟩ := stdSpecAttr_5 r n'
    rw [h₁, h₂] at hb; simp only [List.cons.injEq] at hb; exact absurd hb.2.2.2.2.1 (by decide)
  case stdAttr.stdSpecAttr r n r' n' =>
    obtain ⟨s₁, h₁⟩ := stdAttr_5 r n; obtain ⟨s₂, h₂⟩ := stdSpecAttr_5 r' n'
    rw [h₁, h₂] at hb; simp only [List.cons.injEq] at hb; exact absurd hb.2.2.2.2.1 (by decide)
  case stdSpecAttr.stdAttr r' n' r n =>
    obtain ⟨s₁, h₁⟩ := stdAttr_5 r n; obtain ⟨s₂, h₂⟩ := stdSpecAttr_5 r' n'
    rw [h₁, h₂] at hb; simp only [List.cons.injEq] at hb; exact absurd hb.2.2.2.2.1 (by decide)
  -- the rest: exactly one side has a dot, or exactly one side is a bare `_<UUID>`
  all_goals first
    | (simp [Ident.hasDot] at hdot; done)
    | exact (obj_body_ne hb hi (fun v e => by cases e)).elim
    | exact (obj_body_ne hb.symm hj (fun v e => by cases e)).elim


theorem collected_subset_dfs {m : Module} {r : Req} (h : r ∈ collected m) : r ∈ m.dfs := by
  have := mem_of_mem_dedupBy h
  rwa [collectL_eq_dfsL] at this

theorem exists_req_of_reqType {m : Module} {t : Option ReqType} (h : t ∈ reqTypes m) :
    ∃ r ∈ m.dfs, r.type = t := by
  have := mem_of_mem_dedupBy h
  simp only [List.mem_map] at this
  obtain ⟨r, hr, rfl⟩ := this
  exact ⟨r, collected_subset_dfs hr, rfl⟩

theorem rtOf_shaped {m : Module} (hS : UuidShaped m) {t : Option ReqType} (h : t ∈ reqTypes m) :
    OptUuidLike (rtOf t) := by
  obtain ⟨r, hr, rfl⟩ := exists_req_of_reqType h
  intro s hs
  cases ht : r.type with
  | none => simp [rtOf, ht] at hs
  | some τ =>
    simp only [rtOf, ht, Option.map_some, Option.some.injEq] at hs
    exact hs ▸ hS.reqType r hr τ ht

theorem adKey_shaped {m : Module} (hS : UuidShaped m) {k : ADKey} (h : k ∈ allAdefs m) :
    OptUuidLike (k.1.map (fun d => up d.uuid)) ∧ OptUuidLike (dtUuid k.1) ∧
    ∀ v ∈ ((dtOf k.1).map (·.values)).getD [], UuidLike (up v.uuid) := by
  obtain ⟨r, hr, a, ha, rfl⟩ := exists_attr_of_mem_allAdefs h
  simp only [adKey]
  cases hd : a.defn with
  | none => exact ⟨fun s hs => by simp at hs, fun s hs => by simp [dtUuid, dtOf] at hs, by simp [dtOf]⟩
  | some d =>
    have hdm := defn_mem_allDefs hr ha hd
    refine ⟨fun s hs => ?_, ?_⟩
    · simp only [Option.map_some, Option.some.injEq] at hs
      exact hs ▸ hS.defn d hdm
    · cases hdt : d.dataType with
      | none => exact ⟨fun s hs => by simp [dtUuid, dtOf, hdt] at hs, by simp [dtOf, hdt]⟩
      | some t =>
        have htm : t ∈ allDataTypes m := by
          simp only [allDataTypes, List.mem_filterMap]
          exact ⟨d, hdm, hdt⟩
        refine ⟨fun s hs => ?_, ?_⟩
        · simp only [dtUuid, dtOf, Option.bind_some, hdt, Option.map_some, Option.some.injEq] at hs
          exact hs ▸ (hS.dataType t htm).1
        · simpa [dtOf, hdt] using (hS.dataType t htm).2

theorem defsU_shaped (m : Module) (hS : UuidShaped m) : ∀ i ∈ defsU m, i.Shaped := by
  intro i hi
  simp only [defsU, List.mem_cons, List.mem_append, List.mem_flatMap, List.mem_map] at hi
  rcases hi with rfl | (((⟨d, hd | hd, hi⟩ | ⟨_, ⟨t, ht, rfl⟩, hi⟩) | hi) | ⟨r, hr, rfl⟩) | rfl | ⟨r, hr, rfl⟩
  · exact hS.model
  · obtain ⟨n, hn⟩ := stdDatatypes_key d hd
    have hv : d.values = none := by
      simp only [stdDatatypes, List.mem_map] at hd
      obtain ⟨x, _, rfl⟩ := hd
      rfl
    simp only [DatatypeEl.ids, hn, hv, DtKey.ident, Option.getD_none, List.map_nil, List.mem_singleton] at hi
    subst hi; trivial
  · have := mem_of_mem_dedupBy hd
    simp only [List.mem_map] at this
    obtain ⟨k, hk, rfl⟩ := this
    obtain ⟨_, h2, h3⟩ := adKey_shaped hS hk
    simp only [DatatypeEl.ids, datatypeEl, DtKey.ident, List.mem_cons, List.mem_map] at hi
    rcases hi with rfl | ⟨v, hv, rfl⟩
    · exact h2
    · cases hk1 : k.1 with
      | none => simp [hk1] at hv
      | some dd =>
        simp only [hk1] at hv h3
        split at hv
        · simp only [Option.getD_some, List.mem_map] at hv
          obtain ⟨ev, hev, rfl⟩ := hv
          exact h3 ev hev
        · simp at hv
  · have hrt := rtOf_shaped hS ht
    simp only [SpecTypeEl.ids, specObjectType, List.mem_cons, List.mem_append, List.mem_map] at hi
    rcases hi with rfl | ⟨x, _, rfl⟩ | ⟨_, ⟨k, hk, rfl⟩, rfl⟩
    · cases h : rtOf t with
      | none => simp [sotIdent, Ident.Shaped]
      | some u => simpa [sotIdent, Ident.Shaped] using hrt u h
    · exact hrt
    · refine ⟨hrt, (adKey_shaped hS ?_).1⟩
      simp only [allAdefs, List.mem_flatMap]
      exact ⟨t, ht, hk⟩
  · have hmt : OptUuidLike (mtOf m) := by
      intro s hs
      cases ht : m.type with
      | none => simp [mtOf, ht] at hs
      | some τ =>
        simp only [mtOf, ht, Option.map_some, Option.some.injEq] at hs
        exact hs ▸ hS.moduleType τ ht
    simp only [SpecificationTypeEl.ids, specificationType, List.mem_cons, List.mem_map] at hi
    rcases hi with rfl | ⟨x, _, rfl⟩
    · cases h : mtOf m with
      | none => simp [stIdent, Ident.Shaped]
      | some u => simpa [stIdent, Ident.Shaped] using hmt u h
    · exact hmt
  · exact hS.req r hr
  · exact hS.module
  · exact hS.req r hr

/-- all identifiers of the exported document are pairwise distinct as strings -/
theorem rendered_defs_nodup (x : Str → Option Str) (m : Module) (hI : Identity m) (hS : UuidShaped m) :
    ((doc x m).defs.map Ident.render).Nodup := by
  refine nodup_map_of_inj (defs_nodup x m hI) ?_
  intro a ha b hb e
  have h1 := defsU_shaped m hS a ((defs_perm x m).mem_iff.mp ha)
  have h2 := defsU_shaped m hS b ((defs_perm x m).mem_iff.mp hb)
  exact render_inj h1 h2 e


end Capella.Reqif
