import Capella.Model.Reads

/-! Helper lemmas for C11 (read purity, coded vs. repaired diagram factories, PVMT). -/
namespace Capella.Reads

/-! ### attribute lists -/

theorem aget_aset_self (a : Attrs) (k v : Str) : aget (aset a k v) k = some v := by
  induction a with
  | nil => simp [aset, aget]
  | cons p r ih =>
    obtain ⟨k', v'⟩ := p
    unfold aset
    by_cases h : k' = k
    · simp [h, aget]
    · have hb : (k == k') = false := by
        simp only [beq_eq_false_iff_ne, ne_eq]; exact fun e => h e.symm
      simp only [h, if_false, aget, List.lookup, hb]
      exact ih

theorem aget_aset_ne (a : Attrs) (k k' v : Str) (h : k' ≠ k) :
    aget (aset a k v) k' = aget a k' := by
  induction a with
  | nil =>
    have hb : (k' == k) = false := by simp only [beq_eq_false_iff_ne, ne_eq]; exact h
    simp [aset, aget, List.lookup, hb]
  | cons p r ih =>
    obtain ⟨k0, v0⟩ := p
    unfold aset
    by_cases h0 : k0 = k
    · subst h0
      have hb : (k' == k0) = false := by simp only [beq_eq_false_iff_ne, ne_eq]; exact h
      simp [aget, List.lookup, hb]
    · simp only [h0, if_false, aget, List.lookup]
      cases hk : (k' == k0) with
      | true => rfl
      | false => exact ih

/-! ### the element store -/

theorem lookup_setAttr_self (es : List Elem) (u k v : Str) :
    lookup (setAttr es u k v) u = (lookup es u).map (fun e => { e with attrs := aset e.attrs k v }) := by
  induction es with
  | nil => rfl
  | cons e r ih =>
    unfold setAttr
    by_cases h : e.uid = u
    · simp [h, lookup]
    · simp [h, lookup, ih]

theorem lookup_setAttr_ne (es : List Elem) (u u' k v : Str) (h : u' ≠ u) :
    lookup (setAttr es u k v) u' = lookup es u' := by
  induction es with
  | nil => rfl
  | cons e r ih =>
    unfold setAttr
    by_cases h1 : e.uid = u
    · have h2 : e.uid ≠ u' := fun e2 => h (e2.symm.trans h1)
      rw [if_pos h1]
      simp only [lookup, if_neg h2]
    · rw [if_neg h1]
      by_cases h2 : e.uid = u'
      · simp only [lookup, if_pos h2]
      · simp only [lookup, if_neg h2, ih]

/-- writing attribute `k` of element `u` is invisible to every read of another element or of
another attribute -/
theorem view_setAttr (es : List Elem) (u u' k k' v : Str) (h : u' ≠ u ∨ k' ≠ k) :
    view (setAttr es u k v) u' k' = view es u' k' := by
  unfold view
  by_cases hu : u' = u
  · subst hu
    have hk : k' ≠ k := by
      cases h with
      | inl h => exact absurd rfl h
      | inr h => exact h
    rw [lookup_setAttr_self]
    cases lookup es u' with
    | none => rfl
    | some e => simp [aget_aset_ne _ _ _ _ hk]
  · rw [lookup_setAttr_ne _ _ _ _ _ hu]

theorem lookup_isSome_setAttr (es : List Elem) (u u' k v : Str) :
    (lookup (setAttr es u k v) u').isSome = (lookup es u').isSome := by
  by_cases hu : u' = u
  · subst hu; rw [lookup_setAttr_self]; cases lookup es u' <;> rfl
  · rw [lookup_setAttr_ne _ _ _ _ _ hu]

/-! ### one element: repaired factories leave the state alone and draw what the coded ones draw -/

theorem elemStep_repaired_state (s : State) (e : DElem) : (elemStep .repaired s e).1 = s := by
  unfold elemStep
  cases kindOf e.ttype <;> simp only
  · cases lookup s.sem e.sem <;> rfl
  · cases lookup s.sem e.sem <;> rfl

theorem generic_setName_self (s : State) (e : DElem) (x : Elem) (l : Str)
    (hx : lookup s.sem e.sem = some x) :
    generic { s with sem := setAttr s.sem e.sem kName l } e = generic s e (some l) := by
  unfold generic
  simp only [lookup_setAttr_self, hx, Option.map_some, aget_aset_self, Option.getD_some]

theorem elemStep_same_drawing (s : State) (e : DElem) :
    (elemStep .coded s e).2 = (elemStep .repaired s e).2 := by
  unfold elemStep
  cases kindOf e.ttype <;> simp only
  · -- reqrel
    cases hx : lookup s.sem e.sem with
    | none => rfl
    | some x =>
      simp only
      split
      · next hn =>
        unfold generic
        simp only [hx, reqrelLabel, if_pos hn]
      · exact generic_setName_self s e x _ hx
  · -- incext
    cases hx : lookup s.sem e.sem with
    | none => rfl
    | some x =>
      simp only
      split
      · next n hn =>
        unfold generic
        simp only [hx, incextLabel, hn, Option.getD_some]
      · next hn =>
        rw [generic_setName_self s e x _ hx]
        simp only [incextLabel, hn]
  · -- pseudo
    unfold generic
    simp only
    cases lookup s.sem e.sem with
    | none => rfl
    | some x => simp [aget_aset_self]

/-! ### whole diagrams -/

theorem renderElems_repaired_state (s : State) (es : List DElem) :
    (renderElems .repaired s es).1 = s := by
  induction es generalizing s with
  | nil => rfl
  | cons e r ih =>
    simp only [renderElems]
    rw [elemStep_repaired_state, ih]

theorem render_repaired_state (s : State) (d : Str) : (render .repaired s d).1 = s := by
  unfold render
  cases findDiagram s.dgs d with
  | none => rfl
  | some dg => exact renderElems_repaired_state s dg.elems

/-- two states that every factory reads identically: same ids, same attribute reads except `name`
of the elements in `W` (those the coded factories have written so far) -/
def Agree (W : List Str) (s t : State) : Prop :=
  (∀ u, (lookup t.sem u).isSome = (lookup s.sem u).isSome) ∧
  (∀ u k, (u ∉ W ∨ k ≠ kName) → view t.sem u k = view s.sem u k)

theorem Agree.refl (W : List Str) (s : State) : Agree W s s := ⟨fun _ => rfl, fun _ _ _ => rfl⟩

theorem kName_ne_kRelType : kRelType ≠ kName := by decide
theorem kName_ne_kLongName : kLongName ≠ kName := by decide

/-- what a factory draws for `e` only depends on reads the coded writes to *other* elements do not
disturb -/
theorem drawing_agree (W : List Str) (s t : State) (e : DElem) (h : Agree W s t)
    (he : e.sem ∉ W) : (elemStep .repaired t e).2 = (elemStep .repaired s e).2 := by
  obtain ⟨hex, hview⟩ := h
  have hname : view t.sem e.sem kName = view s.sem e.sem kName := hview _ _ (Or.inl he)
  have hrel : view t.sem e.sem kRelType = view s.sem e.sem kRelType :=
    hview _ _ (Or.inr kName_ne_kRelType)
  have hsome := hex e.sem
  unfold elemStep
  cases kindOf e.ttype <;> simp only
  · -- generic
    unfold generic
    unfold view at hname
    cases hs : lookup s.sem e.sem with
    | none =>
      rw [hs] at hsome
      cases ht : lookup t.sem e.sem with
      | none => rfl
      | some y => rw [ht] at hsome; simp at hsome
    | some x =>
      rw [hs] at hsome hname
      cases ht : lookup t.sem e.sem with
      | none => rw [ht] at hsome; simp at hsome
      | some y =>
        rw [ht] at hname
        simp only [Option.bind_some] at hname
        simp [hname]
  · -- reqrel
    unfold view at hname hrel
    cases hs : lookup s.sem e.sem with
    | none =>
      rw [hs] at hsome
      cases ht : lookup t.sem e.sem with
      | none => rfl
      | some y => rw [ht] at hsome; simp at hsome
    | some x =>
      rw [hs] at hsome hname hrel
      cases ht : lookup t.sem e.sem with
      | none => rw [ht] at hsome; simp at hsome
      | some y =>
        rw [ht] at hname hrel
        simp only [Option.bind_some] at hname hrel
        simp only
        unfold generic
        simp only [hs, ht]
        have hl : reqrelLabel t y = reqrelLabel s x := by
          unfold reqrelLabel
          simp only [hname, hrel]
          have : ∀ rt, view t.sem (linkId rt) kLongName = view s.sem (linkId rt) kLongName :=
            fun rt => hview _ _ (Or.inr kName_ne_kLongName)
          simp only [this]
        simp [hl]
  · -- incext
    unfold view at hname
    cases hs : lookup s.sem e.sem with
    | none =>
      rw [hs] at hsome
      cases ht : lookup t.sem e.sem with
      | none => rfl
      | some y => rw [ht] at hsome; simp at hsome
    | some x =>
      rw [hs] at hsome hname
      cases ht : lookup t.sem e.sem with
      | none => rw [ht] at hsome; simp at hsome
      | some y =>
        rw [ht] at hname
        simp only [Option.bind_some] at hname
        simp only
        unfold generic
        simp only [hs, ht]
        simp [incextLabel, hname]
  · -- pseudo
    unfold generic
    unfold view at hname
    cases hs : lookup s.sem e.sem with
    | none =>
      rw [hs] at hsome
      cases ht : lookup t.sem e.sem with
      | none => rfl
      | some y => rw [ht] at hsome; simp at hsome
    | some x =>
      rw [hs] at hsome hname
      cases ht : lookup t.sem e.sem with
      | none => rw [ht] at hsome; simp at hsome
      | some y =>
        rw [ht] at hname
        simp only [Option.bind_some] at hname
        simp [hname]

/-- the coded factory for `e` writes at most the `name` of `e.sem` (and the style of `e`) -/
theorem coded_step_agree (W : List Str) (s t : State) (e : DElem) (h : Agree W s t) :
    Agree (e.sem :: W) s (elemStep .coded t e).1 := by
  obtain ⟨hex, hview⟩ := h
  have key : ∀ l, Agree (e.sem :: W) s { t with sem := setAttr t.sem e.sem kName l } := by
    intro l
    refine ⟨fun u => ?_, fun u k hk => ?_⟩
    · simp only; rw [lookup_isSome_setAttr]; exact hex u
    · simp only
      have h1 : u ≠ e.sem ∨ k ≠ kName := by
        cases hk with
        | inl h => exact Or.inl (fun e2 => h (by simp [e2]))
        | inr h => exact Or.inr h
      rw [view_setAttr _ _ _ _ _ _ h1]
      apply hview
      cases hk with
      | inl h => exact Or.inl (fun hm => h (List.mem_cons_of_mem _ hm))
      | inr h => exact Or.inr h
  have weak : Agree (e.sem :: W) s t :=
    ⟨hex, fun u k hk => hview u k (by
      cases hk with
      | inl h => exact Or.inl (fun hm => h (List.mem_cons_of_mem _ hm))
      | inr h => exact Or.inr h)⟩
  unfold elemStep
  cases kindOf e.ttype <;> simp only
  · exact weak
  · cases lookup t.sem e.sem with
    | none => exact weak
    | some y =>
      simp only
      split
      · exact weak
      · exact key _
  · cases lookup t.sem e.sem with
    | none => exact weak
    | some y =>
      simp only
      split
      · exact weak
      · exact key _
  · exact ⟨fun u => by simpa using hex u, fun u k hk => by simpa using weak.2 u k hk⟩

/-- Simulation: started from states that agree outside `W`, the coded renderer draws what the
repaired renderer draws, provided no element drawn from here on shows a semantic element that was
already written (`W`) and no semantic element is shown twice. -/
theorem renderElems_same_drawing (W : List Str) (s t : State) (es : List DElem)
    (h : Agree W s t) (hW : ∀ e ∈ es, e.sem ∉ W) (hnd : (es.map (·.sem)).Nodup) :
    (renderElems .coded t es).2 = (renderElems .repaired s es).2 := by
  induction es generalizing W s t with
  | nil => rfl
  | cons e r ih =>
    have he : e.sem ∉ W := hW e (List.mem_cons_self ..)
    have hd1 : (elemStep .coded t e).2 = (elemStep .repaired s e).2 := by
      rw [elemStep_same_drawing, drawing_agree W s t e h he]
    have hs1 : (elemStep .repaired s e).1 = s := elemStep_repaired_state s e
    have hag := coded_step_agree W s t e h
    simp only [List.map_cons, List.nodup_cons] at hnd
    have hW' : ∀ e' ∈ r, e'.sem ∉ e.sem :: W := by
      intro e' he' hm
      cases List.mem_cons.mp hm with
      | inl h1 => exact hnd.1 (h1 ▸ List.mem_map_of_mem he')
      | inr h1 => exact hW e' (List.mem_cons_of_mem _ he') h1
    have := ih (e.sem :: W) s (elemStep .coded t e).1 hag hW' hnd.2
    simp only [renderElems]
    rw [hd1, hs1, this]

/-! ### read histories -/

theorem step_repaired_state (s : State) (op : ReadOp) : (step .repaired s op).1 = s := by
  cases op <;> try rfl
  case render d => exact render_repaired_state s d

theorem run_repaired_state (s : State) (ops : List ReadOp) : (run .repaired s ops).1 = s := by
  induction ops generalizing s with
  | nil => rfl
  | cons op r ih =>
    simp only [run]
    rw [step_repaired_state, ih]

/-- with the repaired renderer every answer of a history is the answer the *initial* state gives:
order and repetition of reads cannot matter -/
theorem run_repaired_outs (s : State) (ops : List ReadOp) :
    (run .repaired s ops).2 = ops.map (fun op => (step .repaired s op).2) := by
  induction ops generalizing s with
  | nil => rfl
  | cons op r ih =>
    simp only [run, List.map_cons]
    rw [step_repaired_state, ih]

/-! ### PVMT -/

theorem single_some_mem (gs : List PVGroup) (n : Str) (g : PVGroup) (h : single gs n = some g) :
    gs.filter (fun g => g.name = n) = [g] := by
  unfold single at h
  split at h
  · simp at h; subst h; assumption
  · simp at h

theorem pvmtApply_of_single (gs : List PVGroup) (d g : PVGroup) (h : single gs d.name = some g) :
    pvmtApply gs d = (gs, g) := by
  unfold pvmtApply; rw [h]

theorem pvmtApply_fst_prefix (gs : List PVGroup) (d : PVGroup) : gs <+: (pvmtApply gs d).1 := by
  unfold pvmtApply
  cases single gs d.name with
  | some g => exact List.prefix_refl _
  | none => exact List.prefix_append _ _

theorem filter_append_self (gs : List PVGroup) (d : PVGroup) :
    (gs ++ [d]).filter (fun g => g.name = d.name) = gs.filter (fun g => g.name = d.name) ++ [d] := by
  simp [List.filter_append]

/-- after an application from a state with at most one group of that name there is exactly one,
and it is the one returned -/
theorem pvmtApply_single (gs : List PVGroup) (d : PVGroup)
    (h : (gs.filter (fun g => g.name = d.name)).length ≤ 1) :
    single (pvmtApply gs d).1 d.name = some (pvmtApply gs d).2 := by
  unfold pvmtApply
  cases hs : single gs d.name with
  | some g => simpa using hs
  | none =>
    simp only
    unfold single at hs ⊢
    rw [filter_append_self]
    cases hf : gs.filter (fun g => g.name = d.name) with
    | nil => rfl
    | cons a r =>
      rw [hf] at h hs
      cases r with
      | nil => simp at hs
      | cons b r' => simp at h

end Capella.Reads
