import Capella.Lemmas.CoupledList

namespace Capella.CoupledList

theorem nids_deleteChild (kids : List Child) (x : Nat) (hn : (kids.map (·.1)).Nodup) :
    ((deleteChild kids x).map (·.1)).Nodup := by
  unfold deleteChild
  exact hn.sublist (List.Sublist.map _ List.filter_sublist)

theorem not_mem_deleteChild (kids : List Child) (x : Nat) : x ∉ (deleteChild kids x).map (·.1) := by
  simp [deleteChild]

theorem nids_insertChild (kids : List Child) (i : Int) (x : Nat)
    (hn : (kids.map (·.1)).Nodup) (hx : x ∉ kids.map (·.1)) :
    ((insertChild kids i x).map (·.1)).Nodup := by
  unfold insertChild
  simp only
  generalize (if normIndex (view kids).length i = 0 then 0 else
    match (view kids)[normIndex (view kids).length i - 1]? with
    | some prev => (match indexOf kids prev with | some p => p + 1 | none => kids.length)
    | none => kids.length) = pos
  have hperm : (kids.take pos ++ (x, true) :: kids.drop pos).Perm ((x, true) :: kids) := by
    have : (kids.take pos ++ (x, true) :: kids.drop pos).Perm ((x, true) :: (kids.take pos ++ kids.drop pos)) :=
      List.perm_middle
    rwa [List.take_append_drop] at this
  have := (hperm.map (·.1)).nodup_iff
  rw [this]
  simp only [List.map_cons, List.nodup_cons]
  exact ⟨hx, hn⟩

theorem length_le_of_nodup_subset (l : List Nat) : ∀ (m : List Nat), l.Nodup → (∀ a ∈ l, a ∈ m) →
    l.length ≤ m.length := by
  induction l with
  | nil => intro m _ _; simp
  | cons a l ih =>
    intro m hn hs
    have ham : a ∈ m := hs a List.mem_cons_self
    have hn' := (List.nodup_cons.mp hn)
    have hs' : ∀ b ∈ l, b ∈ m.erase a := by
      intro b hb
      have hne : b ≠ a := fun h => hn'.1 (h ▸ hb)
      exact (List.mem_erase_of_ne hne).mpr (hs b (List.mem_cons_of_mem _ hb))
    have := ih (m.erase a) hn'.2 hs'
    rw [List.length_erase_of_mem ham] at this
    have hpos : 0 < m.length := List.length_pos_of_mem ham
    simp only [List.length_cons]
    omega

theorem filter_ne_split (l : List Nat) (x : Nat) (i : Nat) (hx : x ∉ l.take i) :
    l.filter (· ≠ x) = l.take i ++ (l.drop i).filter (· ≠ x) := by
  conv => lhs; rw [← List.take_append_drop i l]
  rw [List.filter_append]
  congr 1
  rw [List.filter_eq_self]
  intro a ha
  simp only [ne_eq, decide_not, Bool.not_eq_true', decide_eq_false_iff_not]
  rintro rfl
  exact hx ha

theorem pyInsert_at_len {α} (a b : List α) (x : α) :
    pyInsert (a ++ b) (a.length : Int) x = a ++ x :: b := by
  unfold pyInsert normIndex
  have h1 : ¬ ((a.length : Int) < 0) := by omega
  simp only [h1, if_false, Int.toNat_natCast, List.length_append]
  rw [Nat.min_eq_left (Nat.le_add_right _ _)]
  simp

/-- invariant of the assignment loop -/
structure AssignInv (orig : List Child) (new : List Nat) (i : Nat) (ks : List Child) : Prop where
  nodup : (ks.map (·.1)).Nodup
  prefix_ok : (view ks).take i = new.take i
  len : i ≤ (view ks).length
  sub : ∀ a ∈ view ks, a ∈ new
  others_eq : others ks = others orig

theorem view_nodup (ks : List Child) (hn : (ks.map (·.1)).Nodup) : (view ks).Nodup := by
  unfold view
  exact hn.sublist (List.Sublist.map _ List.filter_sublist)

theorem assignStep_inv (orig : List Child) (new : List Nat) (i : Nat) (ks : List Child) (x : Nat)
    (hnew : new.Nodup) (hx : new[i]? = some x) (hfree : x ∉ others orig)
    (inv : AssignInv orig new i ks) : AssignInv orig new (i + 1) (assignStep ks i x) := by
  have hxnew : x ∈ new := List.mem_of_getElem? hx
  have hlt : i < new.length := by
    apply Classical.byContradiction
    intro h
    rw [List.getElem?_eq_none_iff.mpr (Nat.le_of_not_lt h)] at hx
    cases hx
  have htake : new.take (i + 1) = new.take i ++ [x] := by
    rw [List.take_add_one, hx]; rfl
  -- x is not among the first i members
  have hxpre : x ∉ (view ks).take i := by
    rw [inv.prefix_ok]
    intro hm
    have hd := hnew
    rw [← List.take_append_drop i new] at hd
    have hdis := (List.nodup_append.mp hd).2.2
    have hxd : x ∈ new.drop i := by
      rw [List.mem_iff_getElem?]
      exact ⟨0, by rw [List.getElem?_drop]; simpa using hx⟩
    exact (hdis x hm x hxd) rfl
  unfold assignStep
  by_cases hplace : (view ks)[i]? = some x
  · simp only [hplace, if_true]
    refine ⟨inv.nodup, ?_, ?_, inv.sub, inv.others_eq⟩
    · rw [List.take_add_one, inv.prefix_ok, hplace, htake]; rfl
    · have : i < (view ks).length := by
        apply Classical.byContradiction
        intro h
        rw [List.getElem?_eq_none_iff.mpr (Nat.le_of_not_lt h)] at hplace
        cases hplace
      omega
  · simp only [hplace, if_false]
    have hnd := nids_deleteChild ks x inv.nodup
    have hview : view (insertChild (deleteChild ks x) (i : Int) x)
        = (view ks).take i ++ x :: ((view ks).drop i).filter (· ≠ x) := by
      rw [insertChild_view' _ hnd, deleteChild_view', filter_ne_split _ x i hxpre]
      have hl : ((view ks).take i).length = i := List.length_take_of_le inv.len
      have := pyInsert_at_len ((view ks).take i) (((view ks).drop i).filter (· ≠ x)) x
      rw [hl] at this
      exact this
    refine ⟨nids_insertChild _ _ _ hnd (not_mem_deleteChild ks x), ?_, ?_, ?_, ?_⟩
    · rw [hview, htake, ← inv.prefix_ok]
      have hl : ((view ks).take i).length = i := List.length_take_of_le inv.len
      rw [List.take_append, hl]
      have h1 : ((view ks).take i).take (i + 1) = (view ks).take i :=
        List.take_of_length_le (by omega)
      rw [h1]
      simp
    · rw [hview]
      have hl : ((view ks).take i).length = i := List.length_take_of_le inv.len
      simp [hl]
    · intro a ha
      rw [hview] at ha
      simp only [List.mem_append, List.mem_cons, List.mem_filter] at ha
      rcases ha with ha | rfl | ⟨ha, _⟩
      · exact inv.sub a (List.mem_of_mem_take ha)
      · exact hxnew
      · exact inv.sub a (List.mem_of_mem_drop ha)
    · rw [insertChild_others', deleteChild_others', inv.others_eq]
      rw [List.filter_eq_self]
      intro a ha
      simp only [ne_eq, decide_not, Bool.not_eq_true', decide_eq_false_iff_not]
      rintro rfl
      exact hfree ha

theorem assignLoop_inv (orig : List Child) (new : List Nat) (hnew : new.Nodup)
    (hfree : ∀ x ∈ new, x ∉ others orig) :
    ∀ (rest : List Nat) (i : Nat) (ks : List Child), new.drop i = rest →
      AssignInv orig new i ks → AssignInv orig new new.length (assignLoop ks i rest) := by
  intro rest
  induction rest with
  | nil =>
    intro i ks hdrop inv
    have : new.length ≤ i := by
      have := congrArg List.length hdrop
      simp at this
      omega
    have hi : i = new.length := by
      have h1 := inv.len
      have h2 : (view ks).length ≤ new.length := by
        have hnd := view_nodup ks inv.nodup
        exact length_le_of_nodup_subset _ _ hnd inv.sub
      omega
    subst hi
    exact inv
  | cons x xs ih =>
    intro i ks hdrop inv
    have hx : new[i]? = some x := by
      have := congrArg (·[0]?) hdrop
      simpa [List.getElem?_drop] using this
    have hdrop' : new.drop (i + 1) = xs := by
      have := congrArg List.tail hdrop
      simpa [List.tail_drop] using this
    exact ih (i + 1) _ hdrop' (assignStep_inv orig new i ks x hnew hx (hfree x (List.mem_of_getElem? hx)) inv)

/-- the repaired list assignment yields exactly the assigned sequence, and touches no other child -/
theorem assign_spec' (kids : List Child) (new : List Nat) (hn : (kids.map (·.1)).Nodup)
    (hnew : new.Nodup) (hfree : ∀ x ∈ new, x ∉ others kids) :
    view (assign kids new) = new ∧ others (assign kids new) = others kids := by
  unfold assign
  generalize hk1' : kids.filter (fun c => !c.2 || new.contains c.1) = k1
  have hk1 : k1 = kids.filter (fun c => !c.2 || new.contains c.1) := hk1'.symm
  have hothers : others k1 = others kids := by
    simp only [hk1, others, List.filter_filter]
    congr 1
    apply List.filter_congr
    intro c _
    cases c.2 <;> simp
  have inv0 : AssignInv k1 new 0 k1 := by
    refine ⟨by rw [hk1]; exact hn.sublist (List.Sublist.map _ List.filter_sublist), by simp, Nat.zero_le _, ?_, rfl⟩
    intro a ha
    simp only [hk1, view, List.mem_map, List.mem_filter, Bool.or_eq_true, Bool.not_eq_true',
      List.contains_iff_mem] at ha
    obtain ⟨c, ⟨⟨_, h1⟩, h2⟩, rfl⟩ := ha
    rcases h1 with h1 | h1
    · rw [h1] at h2; cases h2
    · exact h1
  have hfree1 : ∀ x ∈ new, x ∉ others k1 := by rw [hothers]; exact hfree
  have inv := assignLoop_inv k1 new hnew hfree1 new 0 k1 (by simp) inv0
  refine ⟨?_, inv.others_eq.trans hothers⟩
  have hpre := inv.prefix_ok
  rw [List.take_length] at hpre
  have hnd := view_nodup _ inv.nodup
  -- the view starts with `new`, is duplicate-free and only holds members of `new`: it is `new`
  have hlen : (view (assignLoop k1 0 new)).length ≤ new.length :=
    length_le_of_nodup_subset _ _ hnd inv.sub
  have := List.take_of_length_le hlen
  rw [this] at hpre
  exact hpre

end Capella.CoupledList
