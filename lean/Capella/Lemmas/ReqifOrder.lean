import Capella.Lemmas.Reqif
/-! The iteration order of the exporter's sets (`Module.setOrder`) only rearranges the attribute
definitions inside a spec type; which datatypes are emitted, and with which content, does not depend on it
(C20). -/
namespace Capella.Reqif

/-- every definition collected for some requirement type, in first-seen order (no `setOrder` involved) -/
def allAdefsSeen (m : Module) : List ADKey := (reqTypes m).flatMap (fun t => adefsSeen m (t.map (·.uuid)))

theorem mem_allAdefs_iff_seen {m : Module} {x : ADKey} : x ∈ allAdefs m ↔ x ∈ allAdefsSeen m := by
  simp only [allAdefs, allAdefsSeen, List.mem_flatMap, adefsOf, (m.setOrder_perm _ _).mem_iff]

theorem custom_attrdefs_perm (m : Module) (t : Option ReqType) :
    (specObjectType m t).custom.Perm ((adefsSeen m (t.map (·.uuid))).map attrDefEl) :=
  (m.setOrder_perm _ _).map _

theorem datatype_keys_iff (m : Module) (k : DtKey) :
    (∃ d ∈ customDatatypes m, d.key = k) ↔ ∃ x ∈ allAdefsSeen m, (datatypeEl x).key = k := by
  constructor
  · rintro ⟨d, hd, rfl⟩
    have := mem_of_mem_dedupBy hd
    obtain ⟨x, hx, rfl⟩ := List.mem_map.mp this
    exact ⟨x, mem_allAdefs_iff_seen.mp hx, rfl⟩
  · rintro ⟨x, hx, rfl⟩
    obtain ⟨e, he, hk⟩ := exists_mem_dedupBy (·.key) ((allAdefs m).map datatypeEl) (datatypeEl x)
      (List.mem_map_of_mem (mem_allAdefs_iff_seen.mpr hx))
    exact ⟨e, he, hk⟩

/-- whichever definition reaches `visited_types` first, the datatype element is the same -/
theorem datatypeEl_determined (m : Module)
    (hD : ∀ t₁ ∈ allDataTypes m, ∀ t₂ ∈ allDataTypes m, up t₁.uuid = up t₂.uuid → t₁ = t₂)
    (hE : hasEnumWithoutDef m = false) (hC : hasClassViolation m = false)
    {x y : ADKey} (hx : x ∈ allAdefs m) (hy : y ∈ allAdefs m) (hk : (datatypeEl x).key = (datatypeEl y).key) :
    datatypeEl x = datatypeEl y := by
  obtain ⟨xd, xk⟩ := x
  obtain ⟨yd, yk⟩ := y
  simp only [datatypeEl, DtKey.custom.injEq] at hk
  obtain ⟨hu, rfl⟩ := hk
  -- the data types are the same record
  have hdt : dtOf xd = dtOf yd := by
    obtain ⟨r, hr, a, ha, hxa⟩ := exists_attr_of_mem_allAdefs hx
    obtain ⟨r', hr', a', ha', hya⟩ := exists_attr_of_mem_allAdefs hy
    simp only [adKey, Prod.mk.injEq] at hxa hya
    have hmem : ∀ {r : Req} {a : Attr} {d : AttrDef} {t : DataType}, r ∈ m.dfs → a ∈ r.attrs →
        a.defn = some d → d.dataType = some t → t ∈ allDataTypes m := by
      intro r a d t hr ha hd ht
      simp only [allDataTypes, allDefs, List.mem_filterMap, List.mem_flatMap]
      exact ⟨d, ⟨r, hr, a, ha, hd⟩, ht⟩
    cases hxd : xd with
    | none =>
      cases hyd : yd with
      | none => rfl
      | some d' =>
        cases hdt' : d'.dataType with
        | none => simp [dtOf, hdt']
        | some t' => simp [dtUuid, dtOf, hxd, hyd, hdt'] at hu
    | some d =>
      cases hdt1 : d.dataType with
      | none =>
        cases hyd : yd with
        | none => simp [dtOf, hdt1]
        | some d' =>
          cases hdt' : d'.dataType with
          | none => simp [dtOf, hdt1, hdt']
          | some t' => simp [dtUuid, dtOf, hxd, hyd, hdt1, hdt'] at hu
      | some t =>
        cases hyd : yd with
        | none => simp [dtUuid, dtOf, hxd, hyd, hdt1] at hu
        | some d' =>
          cases hdt' : d'.dataType with
          | none => simp [dtUuid, dtOf, hxd, hyd, hdt1, hdt'] at hu
          | some t' =>
            simp only [dtUuid, dtOf, hxd, hyd, Option.bind_some, hdt1, hdt', Option.map_some, Option.some.injEq] at hu
            have : t = t' := hD t (hmem hr ha (hxd ▸ hxa.1) hdt1) t' (hmem hr' ha' (hyd ▸ hya.1) hdt') hu
            simp [dtOf, hdt1, hdt', this]
  -- `SPECIFIED-VALUES`: only for enumeration kind, where both definitions are enumeration definitions
  have hval : ∀ z : ADKey, z ∈ allAdefs m → z.2 = .enumeration → ∃ d, z.1 = some d ∧ d.isEnum = true := by
    intro z hz hzk
    simp only [hasEnumWithoutDef, List.any_eq_false] at hE
    simp only [hasClassViolation, Bool.or_eq_false_iff, List.any_eq_false] at hC
    have h1 := hE z hz
    have h2 := hC.2 z hz
    cases hzd : z.1 with
    | none => simp [hzd, hzk] at h1
    | some d =>
      refine ⟨d, rfl, ?_⟩
      cases hde : d.isEnum with
      | true => rfl
      | false => simp [specTypeErr, hzk, hzd, hde] at h2
  simp only [datatypeEl, hu, hdt, DatatypeEl.mk.injEq, true_and]
  by_cases hke : xk = .enumeration
  · obtain ⟨d, hd, hde⟩ := hval _ hx hke
    obtain ⟨d', hd', hde'⟩ := hval _ hy hke
    simp only at hd hd'
    subst hd hd'
    simp [hde, hde', hke, hdt]
  · cases xd <;> cases yd <;> simp [hke]

end Capella.Reqif
