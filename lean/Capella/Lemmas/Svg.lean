import Capella.Model.Svg

/-! Helper lemmas for C18 (ids referenced ⊆ ids defined, groups, view box). Core Lean only. -/

namespace Capella.Svg

/-! ### Except plumbing -/

theorem collectM_ok {α : Type} {f : α → Except Err (List Str)} :
    ∀ {l : List α} {res : List Str}, collectM f l = .ok res →
      ∀ a ∈ l, ∃ xs, f a = .ok xs ∧ ∀ x ∈ xs, x ∈ res := by
  intro l
  induction l with
  | nil => intro res _ a ha; cases ha
  | cons b bs ih =>
    intro res h a ha
    simp only [collectM, bind, Except.bind] at h
    cases hb : f b with
    | error e => rw [hb] at h; cases h
    | ok x =>
      rw [hb] at h
      cases hbs : collectM f bs with
      | error e => rw [hbs] at h; cases h
      | ok xs =>
        rw [hbs] at h
        simp only [pure, Except.pure, Except.ok.injEq] at h
        subst h
        rcases List.mem_cons.mp ha with rfl | ha
        · exact ⟨x, hb, fun y hy => List.mem_append_left _ hy⟩
        · obtain ⟨ys, hys, hsub⟩ := ih hbs a ha
          exact ⟨ys, hys, fun y hy => List.mem_append_right _ (hsub y hy)⟩

/-- position by position, `d` is what `f` returned for `o` -/
inductive AllOk (f : Obj → Except Err Drawn) : List Obj → List Drawn → Prop
  | nil : AllOk f [] []
  | cons {o d os ds} : f o = .ok d → AllOk f os ds → AllOk f (o :: os) (d :: ds)

theorem drawAll_ok {f : Obj → Except Err Drawn} :
    ∀ {os : List Obj} {ds : List Drawn}, drawAll f os = .ok ds → AllOk f os ds := by
  intro os
  induction os with
  | nil => intro ds h; simp [drawAll] at h; subst h; exact .nil
  | cons o os ih =>
    intro ds h
    simp only [drawAll, bind, Except.bind] at h
    cases ho : f o with
    | error e => rw [ho] at h; cases h
    | ok d =>
      rw [ho] at h
      cases hos : drawAll f os with
      | error e => rw [hos] at h; cases h
      | ok ds' =>
        rw [hos] at h
        simp only [pure, Except.pure, Except.ok.injEq] at h
        subst h
        exact .cons ho (ih hos)

/-! ### markers and gradients: what is referenced is deployed -/

/-- reference and deployment use the same stroke whenever both succeed -/
theorem stroke_agree (defaults : List (Str × Val)) (s : Styling) {h h' : Str}
    (hr : hexOf (refStroke defaults s) = .ok h) (hd : hexOf (deployStroke defaults s) = .ok h') :
    h = h' := by
  unfold refStroke at hr
  unfold deployStroke at hd
  cases hs : lookup s.attrs strokeKey with
  | some v =>
    rw [hs] at hr hd
    cases v with
    | none => simp [hexOf] at hr
    | color x => simp at hr hd; rw [hr] at hd; exact Except.ok.inj hd
    | str x => simp at hr hd; rw [hr] at hd; exact Except.ok.inj hd
    | num x => simp at hr hd; rw [hr] at hd; exact Except.ok.inj hd
    | grad x => simp at hr hd; rw [hr] at hd; exact Except.ok.inj hd
    | other x => simp at hr hd; rw [hr] at hd; exact Except.ok.inj hd
  | none =>
    rw [hs] at hr hd
    cases hdv : lookup defaults (s.styleName strokeKey) with
    | none => rw [hdv] at hd; simp [hexOf] at hd
    | some v =>
      rw [hdv] at hr hd
      cases v with
      | none => simp [hexOf] at hd
      | color x => simp at hr hd; rw [hr] at hd; exact Except.ok.inj hd
      | str x => simp at hr hd; rw [hr] at hd; exact Except.ok.inj hd
      | num x => simp at hr hd; rw [hr] at hd; exact Except.ok.inj hd
      | grad x => simp at hr hd; rw [hr] at hd; exact Except.ok.inj hd
      | other x => simp at hr hd; rw [hr] at hd; exact Except.ok.inj hd

theorem refStep_mem {defaults : List (Str × Val)} {s : Styling} {acc acc' : List Str} {attr : Str}
    (h : refStep defaults s acc attr = .ok acc') :
    ∀ r ∈ acc', r ∈ acc ∨ ∃ m hx, lookup s.attrs attr = some (.str m) ∧
      hexOf (refStroke defaults s) = .ok hx ∧ r = joinId m [hx] := by
  intro r hr
  unfold refStep at h
  cases hl : lookup s.attrs attr with
  | none => rw [hl] at h; simp [pure, Except.pure] at h; subst h; exact .inl hr
  | some v =>
    rw [hl] at h
    cases v with
    | str m =>
      simp only [bind, Except.bind] at h
      cases hh : hexOf (refStroke defaults s) with
      | error e => rw [hh] at h; cases h
      | ok hx =>
        rw [hh] at h
        simp only [pure, Except.pure, Except.ok.injEq] at h
        subst h
        rcases List.mem_append.mp hr with hr | hr
        · exact .inl hr
        · simp at hr; exact .inr ⟨m, hx, rfl, rfl, hr⟩
    | color x => cases h
    | num x => cases h
    | none => cases h
    | grad x => cases h
    | other x => cases h

theorem deployStep_spec {defaults : List (Str × Val)} {markers : List MarkerRow} {s : Styling}
    {acc acc' : List Str} {attr : Str}
    (h : deployStep true defaults markers s acc attr = .ok acc') :
    (∀ r ∈ acc, r ∈ acc') ∧
    ∀ m, lookup s.attrs attr = some (.str m) →
      ∃ hx, hexOf (deployStroke defaults s) = .ok hx ∧ joinId m [hx] ∈ acc' ∧ hasMarker markers m = true := by
  unfold deployStep at h
  cases hm : deployMarkerName true defaults s attr with
  | none =>
    rw [hm] at h; simp [pure, Except.pure] at h; subst h
    refine ⟨fun r hr => hr, ?_⟩
    intro m hl
    simp [deployMarkerName, hl] at hm
  | some v =>
    rw [hm] at h
    cases v with
    | none =>
      simp [pure, Except.pure] at h; subst h
      refine ⟨fun r hr => hr, ?_⟩
      intro m hl
      simp [deployMarkerName, hl] at hm
    | str m' =>
      simp only [bind, Except.bind] at h
      cases hh : hexOf (deployStroke defaults s) with
      | error e => rw [hh] at h; cases h
      | ok hx =>
        rw [hh] at h
        by_cases hk : hasMarker markers m' = true
        · simp only [hk, if_true, pure, Except.pure, Except.ok.injEq] at h
          subst h
          refine ⟨fun r hr => List.mem_append_left _ hr, ?_⟩
          intro m hl
          simp [deployMarkerName, hl] at hm
          subst hm
          exact ⟨hx, rfl, by simp, hk⟩
        · simp [hk] at h
    | color x => cases h
    | num x => cases h
    | grad x => cases h
    | other x => cases h

/-- **every id referenced by a styling is deployed by `_deploy_defs` (repaired code)** -/
theorem styleRefs_sub_deploy {styles : List StyleEntry} {markers : List MarkerRow} {s : Styling}
    {rs ds : List Str} (hr : styleRefs styles s = .ok rs) (hd : deployIds styles markers s = .ok ds) :
    ∀ r ∈ rs, r ∈ ds := by
  unfold styleRefs at hr
  unfold deployIds deployIdsWith at hd
  simp only [bind, Except.bind] at hr hd
  cases hg : getStyle styles s.dc s.cls with
  | error e => rw [hg] at hr; cases hr
  | ok defaults =>
    rw [hg] at hr hd
    simp only at hr hd
    cases hr1 : refStep defaults s (gradRefs s.attrs) markerStart with
    | error e => rw [hr1] at hr; cases hr
    | ok acc1 =>
      rw [hr1] at hr
      cases hd1 : deployStep true defaults markers s (gradRefs s.attrs) markerStart with
      | error e => rw [hd1] at hd; cases hd
      | ok dacc1 =>
        rw [hd1] at hd
        simp only at hr hd
        have s1 := deployStep_spec hd1
        have s2 := deployStep_spec hd
        intro r hrm
        rcases refStep_mem hr r hrm with hin | ⟨m, hx, hl, hh, rfl⟩
        · rcases refStep_mem hr1 r hin with hin | ⟨m, hx, hl, hh, rfl⟩
          · exact s2.1 r (s1.1 r hin)
          · obtain ⟨hx', hh', hmem, _⟩ := s1.2 m hl
            rw [stroke_agree defaults s hh hh']
            exact s2.1 _ hmem
        · obtain ⟨hx', hh', hmem, _⟩ := s2.2 m hl
          rw [stroke_agree defaults s hh hh']
          exact hmem

/-! ### symbols -/

theorem findSymbol_name {symbols : List SymbolRow} {cls : Str} {r : SymbolRow}
    (h : findSymbol symbols cls = some r) : r.name = cls ++ symbolSuffix ∧ r ∈ symbols := by
  unfold findSymbol at h
  exact ⟨by simpa using List.find?_some h, List.mem_of_find?_eq_some h⟩

/-- the id `{cls}Symbol` referenced by a `use` element is defined by `_add_decofactory(cls)`
(for a registered symbol by its own fragment, otherwise by the renamed `Error` fragment) -/
theorem symbolDefs_has_id {symbols : List SymbolRow} (hwf : ∀ r ∈ symbols, symbolWF symbols r = true)
    {fuel : Nat} {cls : Str} {ds : List Str}
    (h : symbolDefsWith true symbols (fuel + 1) cls = .ok ds) : cls ++ symbolSuffix ∈ ds := by
  unfold symbolDefsWith at h
  cases hf : findSymbol symbols cls with
  | some r =>
    rw [hf] at h
    simp only [bind, Except.bind] at h
    cases hc : collectM (symbolDefsWith true symbols fuel) r.deps with
    | error e => rw [hc] at h; cases h
    | ok deps =>
      rw [hc] at h
      simp only [pure, Except.pure, Except.ok.injEq] at h
      subst h
      obtain ⟨hn, hm⟩ := findSymbol_name hf
      have := hwf r hm
      simp only [symbolWF, Bool.and_eq_true] at this
      have hc2 : r.ids.contains r.name = true := this.1.1.2
      rw [hn] at hc2
      exact List.mem_append_left _ (by simpa using hc2)
  | none =>
    rw [hf] at h
    cases he : findSymbol symbols errorName with
    | none => rw [he] at h; cases h
    | some e =>
      rw [he] at h
      simp only [if_true, Except.ok.injEq] at h
      subst h
      exact List.mem_cons_self

/-- the ids of a registered symbol's own fragment are among those deployed -/
theorem symbolDefs_has_ids {symbols : List SymbolRow} {fuel : Nat} {cls : Str} {ds : List Str} {r : SymbolRow}
    (hf : findSymbol symbols cls = some r)
    (h : symbolDefsWith true symbols (fuel + 1) cls = .ok ds) : ∀ x ∈ r.ids, x ∈ ds := by
  unfold symbolDefsWith at h
  rw [hf] at h
  simp only [bind, Except.bind] at h
  cases hc : collectM (symbolDefsWith true symbols fuel) r.deps with
  | error e => rw [hc] at h; cases h
  | ok deps =>
    rw [hc] at h
    simp only [pure, Except.pure, Except.ok.injEq] at h
    subst h
    exact fun x hx => List.mem_append_left _ hx

/-- every reference inside the deployed symbol fragments resolves inside the deployed fragments -/
theorem symbolInner_sub {symbols : List SymbolRow} (hwf : ∀ r ∈ symbols, symbolWF symbols r = true)
    (herr : errorSymbolOK symbols = true) :
    ∀ (fuel : Nat) (cls : Str) (ds : List Str), symbolDefsWith true symbols fuel cls = .ok ds →
      ∀ x ∈ symbolInnerRefs symbols fuel cls, x ∈ ds := by
  intro fuel
  induction fuel with
  | zero => intro cls ds h; simp [symbolDefsWith] at h
  | succ fuel ih =>
    intro cls ds h x hx
    have h0 := h
    unfold symbolDefsWith at h
    unfold symbolInnerRefs at hx
    cases hf : findSymbol symbols cls with
    | some r =>
      rw [hf] at h hx
      simp only [bind, Except.bind] at h
      cases hc : collectM (symbolDefsWith true symbols fuel) r.deps with
      | error e => rw [hc] at h; cases h
      | ok deps =>
        rw [hc] at h
        simp only [pure, Except.pure, Except.ok.injEq] at h
        subst h
        obtain ⟨_, hm⟩ := findSymbol_name hf
        have hw := hwf r hm
        simp only [symbolWF, Bool.and_eq_true, List.all_eq_true] at hw
        rcases List.mem_append.mp hx with hx | hx
        · -- a reference of the fragment itself
          have := hw.2 x hx
          simp only [Bool.or_eq_true, List.any_eq_true] at this
          rcases this with hin | ⟨d, hd, hds⟩
          · exact List.mem_append_left _ (by simpa using hin)
          · cases hfd : findSymbol symbols d with
            | none => rw [hfd] at hds; cases hds
            | some sd =>
              rw [hfd] at hds
              obtain ⟨xs, hxs, hsub⟩ := collectM_ok hc d hd
              cases fuel with
              | zero => simp [symbolDefsWith] at hxs
              | succ fuel' =>
                exact List.mem_append_right _ (hsub x (symbolDefs_has_ids hfd hxs x (by simpa using hds)))
        · -- a reference inside a dependency's fragments
          obtain ⟨d, hd, hxd⟩ := List.mem_flatMap.mp hx
          obtain ⟨xs, hxs, hsub⟩ := collectM_ok hc d hd
          exact List.mem_append_right _ (hsub x (ih d xs hxs x hxd))
    | none =>
      rw [hf] at hx
      unfold errorSymbolOK at herr
      cases he : findSymbol symbols errorName with
      | none => rw [he] at herr; cases herr
      | some e =>
        rw [he] at herr hx
        simp only [Bool.and_eq_true, List.isEmpty_iff] at herr
        simp [herr.1] at hx

/-! ### one object -/

structure Tables.WF (T : Tables) : Prop where
  symbols : ∀ r ∈ T.symbols, symbolWF T.symbols r = true
  error : errorSymbolOK T.symbols = true

/-- **`draw_object`: every id referenced from the group, and from the fragments it deploys, is
deployed** (repaired code) — for every object, diagram class and style override for which
drawing succeeds at all -/
theorem assemble_closed {T : Tables} (wf : T.WF) {o : Obj} {p : Prep} {d : Drawn}
    (h : assemble true T o p = .ok d) : ∀ r ∈ d.refs, r ∈ d.defs := by
  unfold assemble at h
  simp only [bind, Except.bind, if_true] at h
  cases h1 : styleRefs T.styles p.objStyle with
  | error e => rw [h1] at h; cases h
  | ok shapeRefs =>
    rw [h1] at h
    simp only at h
    cases h2 : textRefsOf T p with
    | error e => rw [h2] at h; cases h
    | ok textRefs =>
      rw [h2] at h
      simp only at h
      cases h3 : collectM (symbolDefs T.symbols) p.uses with
      | error e => rw [h3] at h; cases h
      | ok symIds =>
        rw [h3] at h
        simp only at h
        cases h4 : deployIdsWith true T.styles T.markers p.objStyle with
        | error e => rw [h4] at h; cases h
        | ok d1 =>
          rw [h4] at h
          simp only at h
          cases h5 : deployIdsWith true T.styles T.markers p.textStyle with
          | error e => rw [h5] at h; cases h
          | ok d2 =>
            rw [h5] at h
            simp only [pure, Except.pure, Except.ok.injEq] at h
            subst h
            intro r hr
            simp only [List.mem_append] at hr ⊢
            rcases hr with ((hr | hr) | hr) | hr
            · exact .inl (.inr (styleRefs_sub_deploy h1 h4 r hr))
            · unfold textRefsOf at h2
              by_cases ht : p.text = true
              · simp only [ht, if_true] at h2
                exact .inr (styleRefs_sub_deploy h2 h5 r hr)
              · simp only [ht] at h2
                simp at h2
                subst h2; cases hr
            · obtain ⟨u, hu, rfl⟩ := List.mem_map.mp hr
              obtain ⟨xs, hxs, hsub⟩ := collectM_ok h3 u hu
              exact .inl (.inl (hsub _ (symbolDefs_has_id wf.symbols hxs)))
            · obtain ⟨u, hu, hx⟩ := List.mem_flatMap.mp hr
              obtain ⟨xs, hxs, hsub⟩ := collectM_ok h3 u hu
              exact .inl (.inl (hsub _ (symbolInner_sub wf.symbols wf.error _ u xs hxs r hx)))

theorem drawObject_closed {T : Tables} (wf : T.WF) {dc : Option Str} {o : Obj} {d : Drawn}
    (h : drawObject T dc o = .ok d) : ∀ r ∈ d.refs, r ∈ d.defs := by
  unfold drawObject drawObjectWith at h
  simp only [bind, Except.bind] at h
  cases hg : getStyle T.styles dc (styleType o.kind ++ '.' :: o.cls) with
  | error e => rw [hg] at h; cases h
  | ok defaults =>
    rw [hg] at h
    simp only at h
    split at h
    · cases h
    · exact assemble_closed wf h

theorem assemble_group {fixed : Bool} {T : Tables} {o : Obj} {p : Prep} {d : Drawn}
    (h : assemble fixed T o p = .ok d) :
    d.group = { id := o.id, cls := groupClass o.kind o.cls o.context } := by
  unfold assemble at h
  simp only [bind, Except.bind] at h
  cases h1 : styleRefs T.styles p.objStyle with
  | error e => rw [h1] at h; cases h
  | ok a1 =>
    rw [h1] at h; simp only at h
    cases h2 : textRefsOf T p with
    | error e => rw [h2] at h; cases h
    | ok a2 =>
      rw [h2] at h; simp only at h
      cases h3 : collectM ((if fixed = true then symbolDefs else symbolDefsErrorId) T.symbols) p.uses with
      | error e => rw [h3] at h; cases h
      | ok a3 =>
        rw [h3] at h; simp only at h
        cases h4 : deployIdsWith fixed T.styles T.markers p.objStyle with
        | error e => rw [h4] at h; cases h
        | ok a4 =>
          rw [h4] at h; simp only at h
          cases h5 : deployIdsWith fixed T.styles T.markers p.textStyle with
          | error e => rw [h5] at h; cases h
          | ok a5 =>
            rw [h5] at h
            simp only [pure, Except.pure, Except.ok.injEq] at h
            subst h
            rfl

theorem drawObject_group {fixed : Bool} {T : Tables} {dc : Option Str} {o : Obj} {d : Drawn}
    (h : drawObjectWith fixed T dc o = .ok d) :
    d.group = { id := o.id, cls := groupClass o.kind o.cls o.context } := by
  unfold drawObjectWith at h
  simp only [bind, Except.bind] at h
  cases hg : getStyle T.styles dc (styleType o.kind ++ '.' :: o.cls) with
  | error e => rw [hg] at h; cases h
  | ok defaults =>
    rw [hg] at h
    simp only at h
    split at h
    · cases h
    · exact assemble_group h

/-! ### the whole document -/

theorem forall2_groups {f : Obj → Except Err Drawn} {g : Obj → Group}
    (hg : ∀ o d, f o = .ok d → d.group = g o) :
    ∀ {os : List Obj} {ds : List Drawn}, AllOk f os ds →
      ds.map (·.group) = os.map g := by
  intro os ds h
  induction h with
  | nil => rfl
  | cons ho _ ih => simp [hg _ _ ho, ih]

theorem forall2_closed {f : Obj → Except Err Drawn}
    (hc : ∀ o d, f o = .ok d → ∀ r ∈ d.refs, r ∈ d.defs) :
    ∀ {os : List Obj} {ds : List Drawn}, AllOk f os ds →
      ∀ r ∈ ds.flatMap (·.refs), r ∈ ds.flatMap (·.defs) := by
  intro os ds h
  induction h with
  | nil => intro r hr; cases hr
  | cons ho _ ih =>
    intro r hr
    simp only [List.flatMap_cons, List.mem_append] at hr ⊢
    rcases hr with hr | hr
    · exact .inl (hc _ _ ho r hr)
    · exact .inr (ih r hr)

end Capella.Svg
