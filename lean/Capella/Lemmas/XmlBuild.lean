import Capella.Model.XmlSpec
/-! Tokens → raw tree: `build` inverts `toksE` (layer 1 of the round trip; C01/C02). -/
namespace Capella.Xml

theorem isWs_isPySpace {c : Char} (h : isWs c = true) : isPySpace c = true := by
  simp only [isWs, Bool.or_eq_true, beq_iff_eq] at h
  rcases h with ((h | h) | h) | h <;> subst h <;> decide

theorem not_blank_of_pyNonBlank {t : Str} (h : pyNonBlank (some t) = true) : isBlank t = false := by
  simp only [pyNonBlank, List.any_eq_true, Bool.not_eq_true'] at h
  obtain ⟨c, hc, hs⟩ := h
  simp only [isBlank, Bool.eq_false_iff, ne_eq, List.all_eq_true]
  intro hall
  have hw := hall c hc
  rw [isWs_isPySpace hw] at hs; exact absurd hs (by simp)

theorem isBlank_nl_ind (n : Nat) : isBlank ('\n' :: ind n) = true := by
  simp [isBlank, ind, isWs, List.all_replicate]

theorem build_cons (st : BState) (t : Tok) (rest : List Tok) :
    build st (t :: rest) = (step st t rest.head?).bind fun st' => build st' rest := by
  simp only [build]
  cases step st t rest.head? <;> rfl

theorem textWritten_some {t : Str} (h : t ≠ []) : textWritten (some t) true = true := by
  cases t with
  | nil => exact absurd rfl h
  | cons c cs => simp [textWritten]

theorem wfElem_shape {pns : List (Str × Str)} {tag nsd attrs text tail kids}
    (h : wfElem pns (.mk tag nsd attrs text tail kids) = true) :
    tail = none ∧ (∀ t, text = some t → kids = [] ∧ t ≠ []) ∧
    wfKids (scope pns nsd) kids = true := by
  simp only [wfElem, Bool.and_eq_true] at h
  obtain ⟨⟨⟨⟨⟨⟨_, _⟩, _⟩, _⟩, ht⟩, htl⟩, hk⟩ := h
  refine ⟨by simpa using htl, ?_, hk⟩
  intro t hte
  subst hte
  simp only [textOk, Bool.and_eq_true] at ht
  exact ⟨by simpa using ht.1.1, by simpa using ht.1.2⟩

theorem toksE_head (pns : List (Str × Str)) (isRoot : Bool) (indent : Nat) (e : Elem) :
    ∃ n as sc rest, toksE pns isRoot indent e = .stag n as sc :: rest := by
  cases e with
  | mk tag nsd attrs text tail kids =>
    unfold toksE
    simp only
    split
    · exact ⟨_, _, _, _, rfl⟩
    · exact ⟨_, _, _, _, rfl⟩

theorem rawOf_tail (pns : List (Str × Str)) (isRoot : Bool) (e : Elem) :
    (rawOf pns isRoot e).tail = e.tail := by
  cases e; simp [rawOf, Elem.tail]

mutual
/-- a complete element's tokens put exactly its raw tree in place -/
theorem build_toksE (pns : List (Str × Str)) (isRoot : Bool) (indent : Nat) (e : Elem)
    (hwf : wfElem pns e = true) (st : BState) (rest : List Tok) :
    build st (toksE pns isRoot indent e ++ rest) =
      (st.place (rawOf pns isRoot e)).bind fun st' => build st' rest := by
  match e, hwf with
  | .mk tag nsd attrs text tail kids, hwf =>
    obtain ⟨htail, htext, hkids⟩ := wfElem_shape hwf
    subst htail
    unfold toksE rawOf
    simp only
    split
    · -- self-closing
      rename_i hsc
      simp only [Bool.and_eq_true, Option.isNone_iff_eq_none, List.isEmpty_iff] at hsc
      obtain ⟨⟨ht, hk⟩, _⟩ := hsc
      subst ht hk
      simp only [List.cons_append, List.nil_append, build_cons, step, ↓reduceIte, rawKids]
    · -- expanded
      rename_i hsc
      simp only [List.cons_append, List.append_assoc, build_cons, step, Bool.false_eq_true, ↓reduceIte]
      by_cases hroot : (st.stack.isEmpty && st.root.isSome) = true
      · -- a second root: both sides fail
        simp only [hroot, ↓reduceIte, Option.bind_none]
        simp only [Bool.and_eq_true, List.isEmpty_iff] at hroot
        simp [BState.place, hroot.1, hroot.2]
      · simp only [hroot, Bool.false_eq_true, ↓reduceIte, Option.bind_some]
        cases text with
        | some t =>
          obtain ⟨hk, hne⟩ := htext t rfl
          subst hk
          -- the text of a childless element is kept even when it is white space only
          have hdrop : ∀ (n n' : Str) (as : List (Str × Str)),
              dropBlank ⟨n, as, none, []⟩ (some (.etag n')) = false := by
            intro n n' as; simp [dropBlank, isEtag]
          simp only [List.isEmpty_nil, textWritten_some hne, ↓reduceIte, toksK, List.nil_append,
            List.cons_append, build_cons, step, List.head?_cons, hdrop, Bool.and_false,
            Bool.false_eq_true, Frame.addText, Option.getD_none, Option.bind_some, rawKids]
          simp [Frame.close]
        | none =>
          simp only [List.nil_append]
          have hK := build_toksK (scope pns nsd) (indent + 1) kids hkids
            { st with stack := ⟨unmap (scope pns nsd) tag,
                rawAttrs (if isRoot = true then [] else keysOf pns) (scope pns nsd) attrs, none, []⟩ :: st.stack }
            ⟨unmap (scope pns nsd) tag,
                rawAttrs (if isRoot = true then [] else keysOf pns) (scope pns nsd) attrs, none, []⟩
            st.stack rfl rfl (Or.inl rfl)
          rw [hK]
          cases kids with
          | nil =>
            simp only [List.isEmpty_nil, ↓reduceIte, List.nil_append, build_cons, step, rawKids,
              List.reverse_nil, List.append_nil]
            simp [Frame.close]
          | cons k ks =>
            have hlast : ∀ x xs, ((rawKids (scope pns nsd) (k :: ks)).reverse ++ ([] : List Elem)) = x :: xs → x.tail = none := by
              intro x xs hx
              have hmem : x ∈ rawKids (scope pns nsd) (k :: ks) := by
                have : x ∈ (rawKids (scope pns nsd) (k :: ks)).reverse ++ [] := by rw [hx]; exact List.mem_cons_self
                simpa using this
              exact rawKids_tail _ _ hkids x hmem
            simp only [List.isEmpty_cons, Bool.false_eq_true, ↓reduceIte, List.cons_append,
              List.nil_append, build_cons, step, isBlank_nl_ind, Bool.true_and, List.head?_cons]
            have hdrop : dropBlank
                ⟨unmap (scope pns nsd) tag,
                  rawAttrs (if isRoot = true then [] else keysOf pns) (scope pns nsd) attrs, none,
                  (rawKids (scope pns nsd) (k :: ks)).reverse ++ []⟩
                (some (.etag (unmap (scope pns nsd) tag))) = true := by
              simp only [dropBlank, Option.isSome_some, Option.isNone_none, Bool.true_and, Bool.and_true, isEtag]
              generalize hkk : (rawKids (scope pns nsd) (k :: ks)).reverse ++ ([] : List Elem) = kk at hlast
              cases kk with
              | nil => simp [rawKids] at hkk
              | cons x xs => simp [hlast x xs rfl]
            simp only [hdrop, ↓reduceIte, Option.bind_some]
            simp [Frame.close]

/-- the children's tokens append their raw trees to the open element -/
theorem build_toksK (nsmap : List (Str × Str)) (indent : Nat) (ks : List Elem)
    (hwf : wfKids nsmap ks = true) (st : BState) (f : Frame) (fs : List Frame)
    (hst : st.stack = f :: fs) (hft : f.text = none)
    (hfk : f.kids = [] ∨ ∃ x xs, f.kids = x :: xs ∧ x.tail = none) (rest : List Tok) :
    build st (toksK nsmap indent ks ++ rest) =
      build { st with stack := { f with kids := (rawKids nsmap ks).reverse ++ f.kids } :: fs } rest := by
  match ks, hwf with
  | [], _ =>
    simp only [toksK, List.nil_append, rawKids, List.reverse_nil]
    cases st; simp only at hst; subst hst; rfl
  | k :: ks', hwf =>
    simp only [wfKids, Bool.and_eq_true] at hwf
    obtain ⟨n, as, sc, tl, hhead⟩ := toksE_head nsmap false indent k
    have hdrop : dropBlank f (some (.stag n as sc)) = true := by
      simp only [dropBlank, Option.isSome_some, hft, Option.isNone_none, Bool.true_and, Bool.and_true, isEtag,
        Bool.and_false, Bool.not_false]
      rcases hfk with h | ⟨x, xs, h, hx⟩
      · simp [h]
      · simp [h, hx]
    have hhd : (toksE nsmap false indent k ++ (toksK nsmap indent ks' ++ rest)).head? = some (.stag n as sc) := by
      rw [hhead]; rfl
    simp only [toksK, List.cons_append, List.append_assoc, build_cons, step, hst, isBlank_nl_ind, Bool.true_and,
      hhd, hdrop, ↓reduceIte, Option.bind_some]
    rw [build_toksE nsmap false indent k hwf.1]
    simp only [BState.place, hst, Option.bind_some]
    have := build_toksK nsmap indent ks' hwf.2
      { st with stack := f.addKid (rawOf nsmap false k) :: fs } (f.addKid (rawOf nsmap false k)) fs rfl
      (by simpa [Frame.addKid] using hft)
      (Or.inr ⟨rawOf nsmap false k, f.kids, rfl, by
        rw [rawOf_tail]
        cases k with
        | mk tag nsd attrs text tail kids => exact (wfElem_shape hwf.1).1⟩) rest
    rw [this]
    simp [Frame.addKid, rawKids]

theorem rawKids_tail (nsmap : List (Str × Str)) (ks : List Elem) (hwf : wfKids nsmap ks = true) :
    ∀ x ∈ rawKids nsmap ks, x.tail = none := by
  match ks, hwf with
  | [], _ => simp [rawKids]
  | k :: ks', hwf =>
    simp only [wfKids, Bool.and_eq_true] at hwf
    intro x hx
    simp only [rawKids, List.mem_cons] at hx
    rcases hx with rfl | hx
    · rw [rawOf_tail]
      cases k with
      | mk tag nsd attrs text tail kids => exact (wfElem_shape hwf.1).1
    · exact rawKids_tail nsmap ks' hwf.2 x hx
end

/-! ### documents -/

theorem isBlank_append {a b : Str} (ha : isBlank a = true) (hb : isBlank b = true) :
    isBlank (a ++ b) = true := by
  simp only [isBlank, List.all_append, Bool.and_eq_true] at *
  exact ⟨ha, hb⟩

theorem toksCs_pend_blank (cs : List Comment) (pend : Str) (hp : isBlank pend = true) :
    isBlank (toksCs pend cs).2 = true := by
  induction cs generalizing pend with
  | nil => simpa [toksCs] using hp
  | cons c cs ih => simpa [toksCs] using ih ['\n'] (by decide)

/-- sibling comments in front of the root -/
theorem build_toksCs_pre (cs : List Comment) (hok : ∀ c ∈ cs, c.tail = none) (pend : Str)
    (hp : isBlank pend = true) (st : BState) (hs : st.stack = []) (hr : st.root = none)
    (rest : List Tok) :
    build st ((toksCs pend cs).1 ++ rest) = build { st with pre := cs.reverse ++ st.pre } rest := by
  induction cs generalizing pend st with
  | nil => simp [toksCs]
  | cons c cs ih =>
    have hc : c.tail = none := hok c List.mem_cons_self
    have hb : isBlank (pend ++ ['\n']) = true := isBlank_append hp (by decide)
    simp only [toksCs, List.cons_append, build_cons, step, hs, hb, ↓reduceIte, Option.bind_some, hr,
      Option.isSome_none, Bool.false_eq_true]
    rw [ih (fun x hx => hok x (List.mem_cons_of_mem _ hx)) ['\n'] (by decide) _ rfl rfl]
    have : (⟨c.text, none⟩ : Comment) = c := by cases c; simp only at hc; subst hc; rfl
    simp [this]

/-- sibling comments after the root -/
theorem build_toksCs_post (cs : List Comment) (hok : ∀ c ∈ cs, c.tail = none) (pend : Str)
    (hp : isBlank pend = true) (st : BState) (hs : st.stack = []) (hr : st.root.isSome = true)
    (rest : List Tok) :
    build st ((toksCs pend cs).1 ++ rest) = build { st with post := cs.reverse ++ st.post } rest := by
  induction cs generalizing pend st with
  | nil => simp [toksCs]
  | cons c cs ih =>
    have hc : c.tail = none := hok c List.mem_cons_self
    have hb : isBlank (pend ++ ['\n']) = true := isBlank_append hp (by decide)
    simp only [toksCs, List.cons_append, build_cons, step, hs, hb, ↓reduceIte, Option.bind_some, hr]
    rw [ih (fun x hx => hok x (List.mem_cons_of_mem _ hx)) ['\n'] (by decide)
      ⟨st.pre, [], st.root, ⟨c.text, none⟩ :: st.post⟩ rfl hr]
    have : (⟨c.text, none⟩ : Comment) = c := by cases c; simp only at hc; subst hc; rfl
    simp [this]

theorem commentOk_tail {c : Comment} (h : commentOk c = true) : c.tail = none := by
  simp only [commentOk, Bool.and_eq_true] at h
  simpa using h.1.1

/-- **tokens → raw document**: `build` inverts `toksDocP` on well-formed documents -/
theorem build_toksDocP (pend : Str) (hp : isBlank pend = true) (d : Doc) (hwf : wfDoc d = true) :
    (build BState.init (toksDocP pend d)).bind BState.finish = some (rawDoc d) := by
  simp only [wfDoc, Bool.and_eq_true, List.all_eq_true] at hwf
  obtain ⟨⟨hroot, hpre⟩, hpost⟩ := hwf
  unfold toksDocP
  simp only [List.append_assoc]
  rw [build_toksCs_pre d.pre (fun c hc => commentOk_tail (hpre c hc)) pend hp _ rfl rfl]
  have hb1 := toksCs_pend_blank d.pre pend hp
  have hb2 := toksCs_pend_blank d.post [] (by decide)
  have hE := fun st rest => build_toksE [] true 0 d.root hroot st rest
  -- the pending white space before the root
  have hskip : ∀ (st : BState) (rest : List Tok), st.stack = [] →
      build st (textTok (toksCs pend d.pre).2 ++ rest) = build st rest := by
    intro st rest hs
    unfold textTok
    split
    · rfl
    · simp [build_cons, step, hs, hb1]
  rw [hskip _ _ rfl, hE]
  simp only [BState.init, BState.place, List.append_nil, Option.isSome_none, Bool.false_eq_true,
    ↓reduceIte, Option.bind_some]
  rw [build_toksCs_post d.post (fun c hc => commentOk_tail (hpost c hc)) [] (by decide) _ rfl rfl]
  simp only [step, isBlank_append hb2 (by decide : isBlank ['\n'] = true), ↓reduceIte,
    build, Option.bind_some, BState.finish, List.append_nil, List.reverse_reverse, rawDoc]

theorem build_toksDoc (d : Doc) (hwf : wfDoc d = true) :
    (build BState.init (toksDoc d)).bind BState.finish = some (rawDoc d) :=
  build_toksDocP [] (by decide) d hwf

end Capella.Xml
