import Capella.Model.XmlBytes
import Capella.Lemmas.XmlLayout
/-! The tag width in UTF-8 bytes against the column in code points (C01). -/
namespace Capella.Xml

theorem utf8Bytes_length (c : Char) : (utf8Bytes c).length = c.utf8Size := by
  unfold utf8Bytes Char.utf8Size
  have hv : c.val.toNat = c.toNat := rfl
  by_cases h1 : c.toNat < 0x80
  · have : c.val ≤ 127 := by rw [UInt32.le_iff_toNat_le, hv]; simp; omega
    simp [h1, this]
  · have n1 : ¬ c.val ≤ 127 := by rw [UInt32.le_iff_toNat_le, hv]; simp; omega
    by_cases h2 : c.toNat < 0x800
    · have : c.val ≤ 0x7FF := by rw [UInt32.le_iff_toNat_le, hv]; simp; omega
      simp [h1, h2, n1, this]
    · have n2 : ¬ c.val ≤ 0x7FF := by rw [UInt32.le_iff_toNat_le, hv]; simp; omega
      by_cases h3 : c.toNat < 0x10000
      · have : c.val ≤ 0xFFFF := by rw [UInt32.le_iff_toNat_le, hv]; simp; omega
        simp [h1, h2, h3, n1, n2, this]
      · have n3 : ¬ c.val ≤ 0xFFFF := by rw [UInt32.le_iff_toNat_le, hv]; simp; omega
        simp [h1, h2, h3, n1, n2, n3]

/-- the width the writer adds for a tag is the number of bytes of its encoding -/
theorem utf8Len_eq_encode (s : Str) : utf8Len s = (encodeUtf8 s).length := by
  induction s with
  | nil => rfl
  | cons c cs ih =>
    simp only [utf8Len, List.map_cons, List.sum_cons, encodeUtf8, List.flatMap_cons, List.length_append,
      utf8Bytes_length] at ih ⊢
    rw [← ih]

theorem utf8Size_pos (c : Char) : 1 ≤ c.utf8Size := by
  rw [← utf8Bytes_length]; unfold utf8Bytes; simp only; split <;> (try split) <;> (try split) <;> simp

theorem utf8Size_ascii {c : Char} : c.utf8Size = 1 ↔ isAscii c = true := by
  rw [← utf8Bytes_length]
  unfold utf8Bytes isAscii
  simp only [decide_eq_true_eq]
  constructor
  · intro h
    by_cases hn : c.toNat < 128
    · exact hn
    · simp only [hn, ↓reduceIte] at h
      split at h <;> (try split at h) <;> simp at h
  · intro h; simp [h]

/-- a tag is never narrower in bytes than in code points … -/
theorem utf8Len_ge_length (s : Str) : s.length ≤ utf8Len s := by
  induction s with
  | nil => simp [utf8Len]
  | cons c cs ih =>
    simp only [utf8Len, List.map_cons, List.sum_cons, List.length_cons] at ih ⊢
    have := utf8Size_pos c
    omega

/-- … and exactly as wide iff it is ASCII -/
theorem utf8Len_eq_length_iff (s : Str) : utf8Len s = s.length ↔ s.all isAscii = true := by
  induction s with
  | nil => simp [utf8Len]
  | cons c cs ih =>
    have hge := utf8Len_ge_length cs
    have hpos := utf8Size_pos c
    simp only [utf8Len, List.map_cons, List.sum_cons, List.length_cons, List.all_cons, Bool.and_eq_true] at ih hge ⊢
    constructor
    · intro h
      have h1 : c.utf8Size = 1 := by omega
      exact ⟨utf8Size_ascii.mp h1, ih.mp (by omega)⟩
    · rintro ⟨h1, h2⟩
      rw [utf8Size_ascii.mpr h1, ih.mpr h2]; omega

/-- the column `_serialize_element` hands to the attribute loop (`pos + 1 + len(tag.encode())`) against
the true column after `<tag`: ahead by the number of continuation bytes of the tag -/
theorem stag_column (pos : Nat) (tagS : Str) (hnl : '\n' ∉ tagS) :
    pos + 1 + utf8Len tagS = colAfter pos ('<' :: tagS) + (utf8Len tagS - tagS.length) := by
  have hge := utf8Len_ge_length tagS
  simp only [colAfter, show ('<' : Char) ≠ '\n' by decide, ↓reduceIte]
  rw [colAfter_flat _ _ hnl]
  omega

end Capella.Xml
