import Capella.Model.SvgText

/-! The assumed escaping is safe: what is written parses back to the same string, contains no markup, and
stays within the XML character set. Core Lean only. -/
namespace Capella.SvgText

/-- reading back `pre ++ rest` where `pre` is what one character was escaped to -/
theorem unescGo_mono : ∀ (fuel : Nat) (s : Str) (r : Str), unescGo fuel s = some r → ∀ k, unescGo (fuel + k) s = some r := by
  intro fuel
  induction fuel with
  | zero =>
    intro s r h k
    cases s with
    | nil => simp [unescGo] at h ⊢; exact h
    | cons c t => simp [unescGo] at h
  | succ fuel ih =>
    intro s r h k
    cases s with
    | nil => simp [unescGo] at h ⊢; exact h
    | cons c t =>
      have hk : fuel + 1 + k = (fuel + k) + 1 := by omega
      rw [hk]
      simp only [unescGo] at h ⊢
      split
      · rename_i hc; simp [hc] at h
      · rename_i hc
        simp only [hc, if_false] at h
        split
        · rename_i hamp
          simp only [hamp, if_true] at h
          cases hm : matchRef t refs with
          | none => rw [hm] at h; cases h
          | some p =>
            obtain ⟨x, rest⟩ := p
            rw [hm] at h
            simp only [Option.map_eq_some_iff] at h ⊢
            obtain ⟨a, ha, rfl⟩ := h
            exact ⟨a, ih _ _ ha k, rfl⟩
        · rename_i hamp
          simp only [hamp, if_false, Option.map_eq_some_iff] at h ⊢
          obtain ⟨a, ha, rfl⟩ := h
          exact ⟨a, ih _ _ ha k, rfl⟩

def plain (c : Char) : Prop := c ≠ '&' ∧ c ≠ '<' ∧ c ≠ '\r'

theorem unescGo_plain (fuel : Nat) (c : Char) (t : Str) (hc : plain c) :
    unescGo (fuel + 1) (c :: t) = (unescGo fuel t).map (c :: ·) := by
  simp [unescGo, hc.1, hc.2.1, hc.2.2]

/-- one escaped character followed by anything reads back as that character followed by the rest -/
theorem unesc_step (c : Char) (e : Str) (rest r : Str) (fuel : Nat)
    (he : e = [c] ∧ plain c ∨ ∃ name, e = '&' :: name ∧ matchRef (name ++ rest) refs = some (c, rest))
    (hr : unescGo fuel rest = some r) : unescGo (fuel + e.length) (e ++ rest) = some (c :: r) := by
  rcases he with ⟨rfl, hp⟩ | ⟨name, rfl, hm⟩
  · simp only [List.length_singleton, List.singleton_append]
    rw [unescGo_plain _ _ _ hp, hr]; rfl
  · have : fuel + ('&' :: name).length = (fuel + name.length) + 1 := by simp; omega
    rw [this]
    simp only [List.cons_append, unescGo]
    have h1 : ¬ (('&' : Char) = '<' ∨ ('&' : Char) = '\r') := by decide
    simp only [h1, if_false, if_true, hm]
    rw [unescGo_mono _ _ _ hr]; rfl

theorem escText_roundtrip_aux : ∀ (s : Str), '\r' ∉ s → ∃ fuel, unescGo fuel (escText s) = some s := by
  intro s
  induction s with
  | nil => intro _; exact ⟨0, by simp [escText, unescGo]⟩
  | cons c t ih =>
    intro hcr
    obtain ⟨fuel, hf⟩ := ih (fun h => hcr (List.mem_cons_of_mem _ h))
    have hc : c ≠ '\r' := fun h => hcr (by rw [h]; exact List.mem_cons_self)
    simp only [escText]
    by_cases h1 : c = '&'
    · subst h1
      exact ⟨_, unesc_step '&' "&amp;".toList _ _ fuel (.inr ⟨"amp;".toList, rfl, by simp [matchRef, refs, List.isPrefixOf]⟩) hf⟩
    by_cases h2 : c = '<'
    · subst h2
      exact ⟨_, unesc_step '<' "&lt;".toList _ _ fuel (.inr ⟨"lt;".toList, rfl, by simp [matchRef, refs, List.isPrefixOf]⟩) hf⟩
    by_cases h3 : c = '>'
    · subst h3
      exact ⟨_, unesc_step '>' "&gt;".toList _ _ fuel (.inr ⟨"gt;".toList, rfl, by simp [matchRef, refs, List.isPrefixOf]⟩) hf⟩
    simp only [h1, h2, h3, if_false]
    exact ⟨_, unesc_step c [c] _ _ fuel (.inl ⟨rfl, h1, h2, hc⟩) hf⟩

theorem unescGo_enough : ∀ (fuel : Nat) (s r : Str), unescGo fuel s = some r → unescGo s.length s = some r := by
  intro fuel
  induction fuel with
  | zero =>
    intro s r h
    cases s with
    | nil => simpa [unescGo] using h
    | cons c t => simp [unescGo] at h
  | succ fuel ih =>
    intro s r h
    cases s with
    | nil => simp [unescGo] at h ⊢; exact h
    | cons c t =>
      simp only [unescGo, List.length_cons] at h ⊢
      split
      · rename_i hc; simp [hc] at h
      · rename_i hc
        simp only [hc, if_false] at h
        split
        · rename_i hamp
          simp only [hamp, if_true] at h
          cases hm : matchRef t refs with
          | none => rw [hm] at h; cases h
          | some p =>
            obtain ⟨x, rest⟩ := p
            rw [hm] at h
            simp only [Option.map_eq_some_iff] at h ⊢
            obtain ⟨a, ha, rfl⟩ := h
            have hlen : rest.length ≤ t.length := by
              have : ∀ (rs : List (Str × Char)), matchRef t rs = some (x, rest) → rest.length ≤ t.length := by
                intro rs
                induction rs with
                | nil => intro h'; cases h'
                | cons p ps ihp =>
                  intro h'
                  obtain ⟨nm, ch⟩ := p
                  simp only [matchRef] at h'
                  split at h'
                  · simp only [Option.some.injEq, Prod.mk.injEq] at h'
                    rw [← h'.2]; simp
                  · exact ihp h'
              exact this refs hm
            obtain ⟨k, hk⟩ := Nat.exists_eq_add_of_le hlen
            refine ⟨a, ?_, rfl⟩
            rw [hk]
            exact unescGo_mono _ _ _ (ih _ _ ha) k
        · rename_i hamp
          simp only [hamp, if_false, Option.map_eq_some_iff] at h ⊢
          obtain ⟨a, ha, rfl⟩ := h
          exact ⟨a, ih _ _ ha, rfl⟩

/-- **text written with `_escape_cdata` parses back to exactly the text** (so it is well-formed character data) -/
theorem escText_roundtrip (s : Str) (hcr : '\r' ∉ s) : unesc (escText s) = some s := by
  obtain ⟨fuel, hf⟩ := escText_roundtrip_aux s hcr
  exact unescGo_enough _ _ _ hf

theorem escAttr_roundtrip_aux : ∀ (s : Str), ∃ fuel, unescGo fuel (escAttr s) = some s := by
  intro s
  induction s with
  | nil => exact ⟨0, by simp [escAttr, unescGo]⟩
  | cons c t ih =>
    obtain ⟨fuel, hf⟩ := ih
    simp only [escAttr]
    by_cases h1 : c = '&'
    · subst h1
      exact ⟨_, unesc_step '&' "&amp;".toList _ _ fuel (.inr ⟨"amp;".toList, rfl, by simp [matchRef, refs, List.isPrefixOf]⟩) hf⟩
    by_cases h2 : c = '<'
    · subst h2
      exact ⟨_, unesc_step '<' "&lt;".toList _ _ fuel (.inr ⟨"lt;".toList, rfl, by simp [matchRef, refs, List.isPrefixOf]⟩) hf⟩
    by_cases h3 : c = '>'
    · subst h3
      exact ⟨_, unesc_step '>' "&gt;".toList _ _ fuel (.inr ⟨"gt;".toList, rfl, by simp [matchRef, refs, List.isPrefixOf]⟩) hf⟩
    by_cases h4 : c = '"'
    · subst h4
      exact ⟨_, unesc_step '"' "&quot;".toList _ _ fuel (.inr ⟨"quot;".toList, rfl, by simp [matchRef, refs, List.isPrefixOf]⟩) hf⟩
    by_cases h5 : c = '\r'
    · subst h5
      exact ⟨_, unesc_step '\r' "&#13;".toList _ _ fuel (.inr ⟨"#13;".toList, rfl, by simp [matchRef, refs, List.isPrefixOf]⟩) hf⟩
    by_cases h6 : c = '\n'
    · subst h6
      exact ⟨_, unesc_step '\n' "&#10;".toList _ _ fuel (.inr ⟨"#10;".toList, rfl, by simp [matchRef, refs, List.isPrefixOf]⟩) hf⟩
    by_cases h7 : c = '\t'
    · subst h7
      exact ⟨_, unesc_step '\t' "&#09;".toList _ _ fuel (.inr ⟨"#09;".toList, rfl, by simp [matchRef, refs, List.isPrefixOf]⟩) hf⟩
    simp only [h1, h2, h3, h4, h5, h6, h7, if_false]
    exact ⟨_, unesc_step c [c] _ _ fuel (.inl ⟨rfl, h1, h2, h5⟩) hf⟩

/-- **an attribute value written with `_escape_attrib` parses back to exactly the value** -/
theorem escAttr_roundtrip (s : Str) : unesc (escAttr s) = some s := by
  obtain ⟨fuel, hf⟩ := escAttr_roundtrip_aux s
  exact unescGo_enough _ _ _ hf

/-- nothing written is markup, a quote that would end the attribute, or outside the XML character set
(when the input is inside it) -/
theorem escText_safe (s : Str) : '<' ∉ escText s ∧ (s.all xmlLegal = true → (escText s).all xmlLegal = true) := by
  induction s with
  | nil => simp [escText]
  | cons c t ih =>
    simp only [escText]
    constructor
    · intro h
      rcases List.mem_append.mp h with h | h
      · split at h
        · revert h; decide
        · split at h
          · revert h; decide
          · split at h
            · revert h; decide
            · rename_i h2 _; simp only [List.mem_singleton] at h; exact h2 h.symm
      · exact ih.1 h
    · intro hl
      simp only [List.all_cons, Bool.and_eq_true] at hl
      rw [List.all_append, Bool.and_eq_true]
      refine ⟨?_, ih.2 hl.2⟩
      split
      · decide
      · split
        · decide
        · split
          · decide
          · simp [hl.1]

theorem escAttr_safe (s : Str) : '<' ∉ escAttr s ∧ '"' ∉ escAttr s ∧ (s.all xmlLegal = true → (escAttr s).all xmlLegal = true) := by
  induction s with
  | nil => simp [escAttr]
  | cons c t ih =>
    simp only [escAttr]
    refine ⟨?_, ?_, ?_⟩
    · intro h
      rcases List.mem_append.mp h with h | h
      · split at h
        · revert h; decide
        · split at h
          · revert h; decide
          · split at h
            · revert h; decide
            · split at h
              · revert h; decide
              · split at h
                · revert h; decide
                · split at h
                  · revert h; decide
                  · split at h
                    · revert h; decide
                    · rename_i h2 _ _ _ _ _; simp only [List.mem_singleton] at h; exact h2 h.symm
      · exact ih.1 h
    · intro h
      rcases List.mem_append.mp h with h | h
      · split at h
        · revert h; decide
        · split at h
          · revert h; decide
          · split at h
            · revert h; decide
            · split at h
              · revert h; decide
              · split at h
                · revert h; decide
                · split at h
                  · revert h; decide
                  · split at h
                    · revert h; decide
                    · rename_i h4 _ _ _; simp only [List.mem_singleton] at h; exact h4 h.symm
      · exact ih.2.1 h
    · intro hl
      simp only [List.all_cons, Bool.and_eq_true] at hl
      rw [List.all_append, Bool.and_eq_true]
      refine ⟨?_, ih.2.2 hl.2⟩
      split
      · decide
      · split
        · decide
        · split
          · decide
          · split
            · decide
            · split
              · decide
              · split
                · decide
                · split
                  · decide
                  · simp [hl.1]

end Capella.SvgText
