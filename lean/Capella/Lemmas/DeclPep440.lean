import Capella.Model.DeclYaml
set_option linter.unusedSimpArgs false
/-! The recogniser `isPep440` accepts exactly the renderings of versions
`[N!]N(.N)*[(a|b|rc)N][.postN][.devN]` (numbers without leading zeros). -/
namespace Capella.DeclYaml
/-- `(0|[1-9][0-9]*)` as a property of a whole string -/
def IsNum (n : Str) : Prop := n = ['0'] ∨ ∃ c t, n = c :: t ∧ isNz c = true ∧ t.all isDigit = true

/-- the next character, if any, is not a digit -/
def NoDigitHead (r : Str) : Prop := r = [] ∨ ∃ c t, r = c :: t ∧ isDigit c = false

theorem dropWhile_digits (t r : Str) (ht : t.all isDigit = true) (hr : NoDigitHead r) :
    (t ++ r).dropWhile isDigit = r := by
  induction t with
  | nil =>
    rcases hr with rfl | ⟨c, t', rfl, hc⟩
    · rfl
    · simp [List.dropWhile, hc]
  | cons c t ih =>
    simp only [List.all_cons, Bool.and_eq_true] at ht
    simp [List.dropWhile, ht.1, ih ht.2]

theorem num_append (n r : Str) (hn : IsNum n) (hr : NoDigitHead r) : num (n ++ r) = some r := by
  rcases hn with rfl | ⟨c, t, rfl, hc, ht⟩
  · simp [num]
  · have hc0 : c ≠ '0' := by
      intro h; subst h; simp [isNz] at hc
    simp [num, hc0, hc, dropWhile_digits t r ht hr]



inductive PreKind | a | b | rc
def PreKind.str : PreKind → Str
  | .a => "a".toList | .b => "b".toList | .rc => "rc".toList

/-- a version in the shape the regular expression of `_is_pep440` describes -/
structure Ver where
  epoch : Option Str
  rel : Str
  more : List Str
  pre : Option (PreKind × Str)
  post : Option Str
  dev : Option Str

def renderMore : List Str → Str
  | [] => []
  | n :: t => '.' :: n ++ renderMore t

def optS (pre : Str) : Option Str → Str
  | none => []
  | some n => pre ++ n

def Ver.render (v : Ver) : Str :=
  (match v.epoch with | some e => e ++ ['!'] | none => []) ++ v.rel ++ renderMore v.more ++
  (match v.pre with | some (k, n) => k.str ++ n | none => []) ++
  optS ".post".toList v.post ++ optS ".dev".toList v.dev

def optNum : Option Str → Prop
  | none => True
  | some n => IsNum n

def Ver.WF (v : Ver) : Prop :=
  (match v.epoch with | none => True | some e => IsNum e ∧ e ≠ ['0']) ∧ IsNum v.rel ∧ (∀ n ∈ v.more, IsNum n) ∧
  (match v.pre with | none => True | some (_, n) => IsNum n) ∧ optNum v.post ∧ optNum v.dev

theorem takeWhile_all (s : Str) : (s.takeWhile isDigit).all isDigit = true := by
  induction s with
  | nil => rfl
  | cons c t ih =>
    simp only [List.takeWhile]
    split
    · rename_i h; simp [h, ih]
    · rfl

theorem num_sound {s r : Str} (h : num s = some r) : ∃ n, IsNum n ∧ s = n ++ r := by
  cases s with
  | nil => simp [num] at h
  | cons c t =>
    simp only [num] at h
    split at h
    · rename_i hc; cases h; exact ⟨['0'], Or.inl rfl, by simp [hc]⟩
    · split at h
      · rename_i hz; cases h
        refine ⟨c :: t.takeWhile isDigit, Or.inr ⟨c, _, rfl, hz, takeWhile_all t⟩, ?_⟩
        simp [List.takeWhile_append_dropWhile]
      · cases h

theorem optGroup_sound (pre s : Str) : optGroup pre s = s ∨ ∃ n, IsNum n ∧ s = pre ++ n ++ optGroup pre s := by
  unfold optGroup
  split
  · rename_i hp
    split
    · rename_i r hr
      obtain ⟨n, hn, hs⟩ := num_sound hr
      right
      refine ⟨n, hn, ?_⟩
      have := List.prefix_iff_eq_append.mp (List.isPrefixOf_iff_prefix.mp hp)
      rw [List.append_assoc, ← hs]
      exact this.symm
    · left; rfl
  · left; rfl

theorem dotNums_sound : ∀ (fuel : Nat) (s : Str), ∃ more, (∀ n ∈ more, IsNum n) ∧ s = renderMore more ++ dotNums fuel s
  | 0, s => ⟨[], by simp, by simp [dotNums, renderMore]⟩
  | fuel + 1, s => by
    unfold dotNums
    split
    · rename_i t
      split
      · rename_i r hr
        obtain ⟨n, hn, ht⟩ := num_sound hr
        obtain ⟨more, hm, hr'⟩ := dotNums_sound fuel r
        refine ⟨n :: more, ?_, ?_⟩
        · intro x hx
          simp only [List.mem_cons] at hx
          rcases hx with rfl | hx
          · exact hn
          · exact hm x hx
        · simp only [renderMore, ht]
          conv => lhs; rw [hr']
          simp
      · exact ⟨[], by simp, by simp [renderMore]⟩
    · exact ⟨[], by simp, by simp [renderMore]⟩

theorem optEpoch_sound (s : Str) : optEpoch s = s ∨ ∃ e, IsNum e ∧ e ≠ ['0'] ∧ s = e ++ '!' :: optEpoch s := by
  unfold optEpoch
  split
  · rename_i c t
    split
    · rename_i hz
      split
      · rename_i r hr
        right
        refine ⟨c :: t.takeWhile isDigit, Or.inr ⟨c, _, rfl, hz, takeWhile_all t⟩, ?_, ?_⟩
        · intro h; simp at h; have := h.1; subst this; simp [isNz] at hz
        · have := List.takeWhile_append_dropWhile (p := isDigit) (l := t)
          rw [hr] at this
          simp [this]
      · left; rfl
    · left; rfl
  · left; rfl



theorem preStage_sound (r : Str) : preStage r = r ∨ ∃ k n, IsNum n ∧ r = PreKind.str k ++ n ++ preStage r := by
  unfold preStage
  split
  · next t =>
    rcases optGroup_sound "a".toList ('a' :: t) with h | ⟨n, hn, h⟩
    · left; exact h
    · right; exact ⟨.a, n, hn, h⟩
  · next t =>
    rcases optGroup_sound "b".toList ('b' :: t) with h | ⟨n, hn, h⟩
    · left; exact h
    · right; exact ⟨.b, n, hn, h⟩
  · next t =>
    rcases optGroup_sound "rc".toList ('r' :: t) with h | ⟨n, hn, h⟩
    · left; exact h
    · right; exact ⟨.rc, n, hn, h⟩
  · left; rfl

/-- **soundness of the matcher**: every accepted string is the rendering of a version
`[N!]N(.N)*[(a|b|rc)N][.postN][.devN]` whose numbers have no leading zeros -/
theorem isPep440_sound (s : Str) (h : isPep440 s = true) : ∃ v : Ver, v.WF ∧ v.render = s := by
  unfold isPep440 at h
  split at h
  · cases h
  · rename_i r0 hnum
    obtain ⟨rel, hrel, hs1⟩ := num_sound hnum
    obtain ⟨more, hmore, hr0⟩ := dotNums_sound r0.length r0
    generalize hr1 : dotNums r0.length r0 = r1 at h hr0
    have hpre := preStage_sound r1
    generalize hr2 : preStage r1 = r2 at h hpre
    have hpost := optGroup_sound ".post".toList r2
    generalize hr3 : optGroup ".post".toList r2 = r3 at h hpost
    have hdev := optGroup_sound ".dev".toList r3
    generalize hr4 : optGroup ".dev".toList r3 = r4 at h hdev
    have h4 : r4 = [] := by simpa using h
    subst h4
    have hep := optEpoch_sound s
    generalize hs0 : optEpoch s = s1 at hs1 hep
    -- assemble
    obtain ⟨dev, hdevwf, hdev'⟩ : ∃ d : Option Str, optNum d ∧ r3 = optS ".dev".toList d := by
      rcases hdev with h | ⟨n, hn, h⟩
      · exact ⟨none, trivial, by simpa [optS] using h.symm⟩
      · exact ⟨some n, hn, by simpa [optS] using h⟩
    obtain ⟨post, hpostwf, hpost'⟩ : ∃ d : Option Str, optNum d ∧ r2 = optS ".post".toList d ++ r3 := by
      rcases hpost with h | ⟨n, hn, h⟩
      · exact ⟨none, trivial, by simpa [optS] using h.symm⟩
      · exact ⟨some n, hn, by simpa [optS] using h⟩
    obtain ⟨pre, hprewf, hpre'⟩ : ∃ d : Option (PreKind × Str), (match d with | none => True | some (_, n) => IsNum n) ∧
        r1 = (match d with | some (k, n) => k.str ++ n | none => []) ++ r2 := by
      rcases hpre with h | ⟨k, n, hn, h⟩
      · exact ⟨none, trivial, by simpa using h.symm⟩
      · exact ⟨some (k, n), hn, by simpa using h⟩
    obtain ⟨ep, hepwf, hep'⟩ : ∃ d : Option Str, (match d with | none => True | some e => IsNum e ∧ e ≠ ['0']) ∧
        s = (match d with | some e => e ++ ['!'] | none => []) ++ s1 := by
      rcases hep with h | ⟨e, he, hne, h⟩
      · exact ⟨none, trivial, by simpa using h.symm⟩
      · exact ⟨some e, ⟨he, hne⟩, by simpa using h⟩
    refine ⟨⟨ep, rel, more, pre, post, dev⟩, ⟨hepwf, hrel, hmore, hprewf, hpostwf, hdevwf⟩, ?_⟩
    simp only [Ver.render]
    rw [hep', hs1, hr0, hpre', hpost', hdev']
    simp [List.append_assoc]



theorem optGroup_complete (pre n r : Str) (hn : IsNum n) (hr : NoDigitHead r) :
    optGroup pre (pre ++ n ++ r) = r := by
  unfold optGroup
  have hp : pre.isPrefixOf (pre ++ n ++ r) = true := by
    rw [List.isPrefixOf_iff_prefix, List.append_assoc]; exact List.prefix_append _ _
  simp only [List.append_assoc, List.drop_left'] at hp ⊢
  simp [hp, num_append n r hn hr]

theorem optGroup_skip (pre s : Str) (h : pre.isPrefixOf s = false) : optGroup pre s = s := by
  unfold optGroup; simp [h]

/-- what may follow the release numbers: nothing, or something that does not continue `(\.N)*` -/
def Stops (a : Str) : Prop :=
  NoDigitHead a ∧ (a = [] ∨ (∃ c t, a = c :: t ∧ c ≠ '.') ∨ (∃ t, a = '.' :: t ∧ num t = none))

theorem noDigitHead_more (more : List Str) (a : Str) (ha : NoDigitHead a) : NoDigitHead (renderMore more ++ a) := by
  cases more with
  | nil => simpa [renderMore] using ha
  | cons n t => right; exact ⟨'.', n ++ (renderMore t ++ a), by simp [renderMore], by decide⟩

theorem dotNums_complete : ∀ (more : List Str) (fuel : Nat) (a : Str), (∀ n ∈ more, IsNum n) → more.length ≤ fuel →
    Stops a → dotNums fuel (renderMore more ++ a) = a
  | [], fuel, a, _, _, hs => by
    simp only [renderMore, List.nil_append]
    cases fuel with
    | zero => rfl
    | succ f =>
      unfold dotNums
      rcases hs.2 with rfl | ⟨c, t, rfl, hc⟩ | ⟨t, rfl, ht⟩
      · rfl
      · split
        · rename_i t' heq; simp at heq; exact absurd heq.1 hc
        · rfl
      · simp [ht]
  | n :: more, fuel, a, hm, hf, hs => by
    cases fuel with
    | zero => simp at hf
    | succ f =>
      unfold dotNums
      simp only [renderMore, List.cons_append, List.append_assoc]
      rw [num_append n (renderMore more ++ a) (hm n (by simp)) (noDigitHead_more more a hs.1)]
      exact dotNums_complete more f a (fun x hx => hm x (by simp [hx])) (by simpa using hf) hs



/-- what follows a number inside a rendered version starts with one of `. a b r` (or is empty) -/
def HeadOk (a : Str) : Prop := a = [] ∨ ∃ c t, a = c :: t ∧ (c = '.' ∨ c = 'a' ∨ c = 'b' ∨ c = 'r')

theorem HeadOk.noDigit {a : Str} (h : HeadOk a) : NoDigitHead a := by
  rcases h with rfl | ⟨c, t, rfl, hc⟩
  · left; rfl
  · right; refine ⟨c, t, rfl, ?_⟩
    rcases hc with rfl | rfl | rfl | rfl <;> decide

theorem headOk_optS_dot (pre _n : Str) (h : ∃ t, pre = '.' :: t) (d : Option Str) (rest : Str) (hr : HeadOk rest) :
    HeadOk (optS pre d ++ rest) := by
  cases d with
  | none => simpa [optS] using hr
  | some n => obtain ⟨t, rfl⟩ := h; right; exact ⟨'.', t ++ n ++ rest, by simp [optS], Or.inl rfl⟩

def devS (v : Ver) : Str := optS ".dev".toList v.dev
def postS (v : Ver) : Str := optS ".post".toList v.post ++ devS v
def preS (v : Ver) : Str := (match v.pre with | some (k, n) => k.str ++ n | none => []) ++ postS v
def moreS (v : Ver) : Str := renderMore v.more ++ preS v

theorem render_eq (v : Ver) :
    v.render = (match v.epoch with | some e => e ++ ['!'] | none => []) ++ (v.rel ++ moreS v) := by
  simp [Ver.render, moreS, preS, postS, devS, List.append_assoc]

theorem headOk_dev (v : Ver) : HeadOk (devS v) := by
  have := headOk_optS_dot ".dev".toList [] ⟨_, rfl⟩ v.dev [] (Or.inl rfl)
  simpa [devS] using this

theorem headOk_post (v : Ver) : HeadOk (postS v) :=
  headOk_optS_dot ".post".toList [] ⟨_, rfl⟩ v.post _ (headOk_dev v)

theorem headOk_pre (v : Ver) : HeadOk (preS v) := by
  unfold preS
  cases hp : v.pre with
  | none => simpa using headOk_post v
  | some kn =>
    obtain ⟨k, n⟩ := kn
    right
    cases k
    · exact ⟨'a', n ++ postS v, by simp [PreKind.str], by simp⟩
    · exact ⟨'b', n ++ postS v, by simp [PreKind.str], by simp⟩
    · exact ⟨'r', 'c' :: (n ++ postS v), by simp [PreKind.str], by simp⟩

theorem headOk_more (v : Ver) : HeadOk (moreS v) := by
  unfold moreS
  cases hm : v.more with
  | nil => simpa [renderMore] using headOk_pre v
  | cons n t => right; exact ⟨'.', n ++ (renderMore t ++ preS v), by simp [renderMore], Or.inl rfl⟩

theorem dev_stage (v : Ver) (h : v.WF) : optGroup ".dev".toList (devS v) = [] := by
  unfold devS
  cases hd : v.dev with
  | none => simp [optS, optGroup]
  | some n =>
    have hn : IsNum n := by have := h.2.2.2.2.2; simpa [hd, optNum] using this
    have := optGroup_complete ".dev".toList n [] hn (Or.inl rfl)
    simpa [optS] using this

theorem post_stage (v : Ver) (h : v.WF) : optGroup ".post".toList (postS v) = devS v := by
  unfold postS
  cases hp : v.post with
  | some n =>
    have hn : IsNum n := by have := h.2.2.2.2.1; simpa [hp, optNum] using this
    have := optGroup_complete ".post".toList n (devS v) hn (headOk_dev v).noDigit
    simpa [optS] using this
  | none =>
    simp only [optS, List.nil_append]
    apply optGroup_skip
    unfold devS
    cases v.dev <;> simp [optS, List.isPrefixOf]

theorem pre_stage (v : Ver) (h : v.WF) : preStage (preS v) = postS v := by
  unfold preS
  cases hp : v.pre with
  | none =>
    simp only [List.nil_append]
    rcases headOk_post v with h0 | ⟨c, t, h0, hc⟩
    · simp [h0, preStage]
    · unfold postS at h0 ⊢
      cases hq : v.post with
      | none =>
        simp only [hq, optS, List.nil_append] at h0 ⊢
        unfold devS at h0 ⊢
        cases hd : v.dev with
        | none => simp [optS, preStage]
        | some n => simp [optS, preStage]
      | some n => simp [optS, preStage]
  | some kn =>
    obtain ⟨k, n⟩ := kn
    have hn : IsNum n := by have := h.2.2.2.1; simpa [hp] using this
    have hnd := (headOk_post v).noDigit
    cases k
    · have := optGroup_complete "a".toList n (postS v) hn hnd
      simpa [PreKind.str, preStage] using this
    · have := optGroup_complete "b".toList n (postS v) hn hnd
      simpa [PreKind.str, preStage] using this
    · have := optGroup_complete "rc".toList n (postS v) hn hnd
      simpa [PreKind.str, preStage] using this



theorem stops_pre (v : Ver) : Stops (preS v) := by
  refine ⟨(headOk_pre v).noDigit, ?_⟩
  unfold preS
  cases hp : v.pre with
  | some kn =>
    obtain ⟨k, n⟩ := kn
    right; left
    cases k
    · exact ⟨'a', n ++ postS v, by simp [PreKind.str], by decide⟩
    · exact ⟨'b', n ++ postS v, by simp [PreKind.str], by decide⟩
    · exact ⟨'r', 'c' :: (n ++ postS v), by simp [PreKind.str], by decide⟩
  | none =>
    simp only [List.nil_append]
    unfold postS
    cases hq : v.post with
    | some n => right; right; exact ⟨"post".toList ++ n ++ devS v, by simp [optS], by simp [num, isNz]⟩
    | none =>
      simp only [optS, List.nil_append]
      unfold devS
      cases hd : v.dev with
      | none => left; rfl
      | some n => right; right; exact ⟨"dev".toList ++ n, by simp [optS], by simp [num, isNz]⟩

theorem renderMore_length (more : List Str) : more.length ≤ (renderMore more).length := by
  induction more with
  | nil => simp [renderMore]
  | cons n t ih => simp [renderMore]; omega

theorem optEpoch_none (rel m : Str) (hr : IsNum rel) (hm : HeadOk m) : optEpoch (rel ++ m) = rel ++ m := by
  rcases hr with rfl | ⟨c, t, rfl, hc, ht⟩
  · simp [optEpoch, isNz]
  · simp only [optEpoch, List.cons_append, hc, if_true]
    rw [dropWhile_digits t m ht hm.noDigit]
    rcases hm with rfl | ⟨c', t', rfl, hc'⟩
    · rfl
    · rcases hc' with rfl | rfl | rfl | rfl <;> rfl

theorem optEpoch_some (e x : Str) (he : IsNum e) (hne : e ≠ ['0']) : optEpoch (e ++ '!' :: x) = x := by
  rcases he with rfl | ⟨c, t, rfl, hc, ht⟩
  · exact absurd rfl hne
  · simp only [optEpoch, List.cons_append, hc, if_true]
    rw [dropWhile_digits t ('!' :: x) ht (Or.inr ⟨'!', x, rfl, by decide⟩)]
    rfl

/-- **completeness of the matcher**: every version of that shape is accepted -/
theorem isPep440_complete (v : Ver) (h : v.WF) : isPep440 v.render = true := by
  rw [render_eq]
  have hep : optEpoch ((match v.epoch with | some e => e ++ ['!'] | none => []) ++ (v.rel ++ moreS v))
      = v.rel ++ moreS v := by
    cases he : v.epoch with
    | none => simpa using optEpoch_none v.rel (moreS v) h.2.1 (headOk_more v)
    | some e =>
      have := h.1
      simp only [he] at this
      simpa using optEpoch_some e (v.rel ++ moreS v) this.1 this.2
  unfold isPep440
  rw [hep, num_append v.rel (moreS v) h.2.1 (headOk_more v).noDigit]
  simp only
  have hd : dotNums (moreS v).length (moreS v) = preS v := by
    unfold moreS
    apply dotNums_complete v.more _ (preS v) h.2.2.1 _ (stops_pre v)
    have := renderMore_length v.more
    simp; omega
  rw [hd, pre_stage v h, post_stage v h, dev_stage v h]
  rfl

end Capella.DeclYaml
