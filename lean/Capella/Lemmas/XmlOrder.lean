import Capella.Lemmas.XmlNs
/-! `_ns_sortkey` is a total order on prefixes, hence the sorted declaration list is determined by
its set of bindings (used for: writing the canonical tree gives the same bytes). -/
namespace Capella.Xml

/-! ### `strLt` is a strict total order -/

theorem strLt_irrefl (a : Str) : strLt a a = false := by
  induction a with
  | nil => rfl
  | cons c cs ih => simp [strLt, ih]

theorem strLt_asymm {a b : Str} (h : strLt a b = true) : strLt b a = false := by
  induction a generalizing b with
  | nil => cases b <;> simp [strLt] at h ⊢
  | cons c cs ih =>
    cases b with
    | nil => simp [strLt] at h
    | cons d ds =>
      simp only [strLt, Bool.or_eq_true, decide_eq_true_eq, Bool.and_eq_true, beq_iff_eq] at h
      simp only [strLt, Bool.or_eq_false_iff, decide_eq_false_iff_not, Bool.and_eq_false_iff]
      rcases h with h | ⟨h1, h2⟩
      · refine ⟨by omega, Or.inl ?_⟩
        simp only [beq_eq_false_iff_ne, ne_eq]
        rintro rfl; omega
      · subst h1
        exact ⟨by omega, Or.inr (ih h2)⟩

theorem strLt_trans {a b c : Str} (h1 : strLt a b = true) (h2 : strLt b c = true) : strLt a c = true := by
  induction a generalizing b c with
  | nil =>
    cases c with
    | nil => cases b <;> simp [strLt] at h1 h2
    | cons _ _ => rfl
  | cons x xs ih =>
    cases b with
    | nil => simp [strLt] at h1
    | cons y ys =>
      cases c with
      | nil => simp [strLt] at h2
      | cons z zs =>
        simp only [strLt, Bool.or_eq_true, decide_eq_true_eq, Bool.and_eq_true, beq_iff_eq] at h1 h2 ⊢
        rcases h1 with h1 | ⟨e1, h1⟩ <;> rcases h2 with h2 | ⟨e2, h2⟩
        · left; omega
        · subst e2; left; exact h1
        · subst e1; left; exact h2
        · subst e1 e2; right; exact ⟨rfl, ih h1 h2⟩

theorem strLt_tricho {a b : Str} (h1 : strLt a b = false) (h2 : strLt b a = false) : a = b := by
  induction a generalizing b with
  | nil => cases b with
    | nil => rfl
    | cons _ _ => simp [strLt] at h1
  | cons x xs ih =>
    cases b with
    | nil => simp [strLt] at h2
    | cons y ys =>
      simp only [strLt, Bool.or_eq_false_iff, decide_eq_false_iff_not, Bool.and_eq_false_iff,
        beq_eq_false_iff_ne, ne_eq] at h1 h2
      have hxy : x = y := by
        apply Char.ext
        apply UInt32.toNat_inj.mp
        have : x.toNat = y.toNat := by omega
        exact this
      subst hxy
      rcases h1.2 with h | h
      · exact absurd rfl h
      · rcases h2.2 with h' | h'
        · exact absurd rfl h'
        · rw [ih h h']

/-! ### `nsLe` -/

theorem nsLe_total {a b : Str × Str} (h : nsLe a b = false) : nsLe b a = true := by
  simp only [nsLe, Bool.or_eq_false_iff, decide_eq_false_iff_not, Bool.and_eq_false_iff,
    beq_eq_false_iff_ne, ne_eq, Bool.not_eq_false'] at h
  simp only [nsLe, Bool.or_eq_true, decide_eq_true_eq, Bool.and_eq_true, beq_iff_eq, Bool.not_eq_true']
  by_cases hr : nsRank b.1 < nsRank a.1
  · left; exact hr
  · right
    rcases h.2 with h' | h'
    · omega
    · exact ⟨by omega, strLt_asymm h'⟩

theorem nsLe_trans {a b c : Str × Str} (h1 : nsLe a b = true) (h2 : nsLe b c = true) : nsLe a c = true := by
  simp only [nsLe, Bool.or_eq_true, decide_eq_true_eq, Bool.and_eq_true, beq_iff_eq, Bool.not_eq_true'] at *
  rcases h1 with h1 | ⟨e1, h1⟩ <;> rcases h2 with h2 | ⟨e2, h2⟩
  · left; omega
  · left; omega
  · left; omega
  · right
    refine ⟨by omega, ?_⟩
    -- a ≤ b ≤ c on prefixes
    cases hca : strLt c.1 a.1 with
    | false => rfl
    | true =>
      exfalso
      -- c < a, ¬ b < a, ¬ c < b : by trichotomy on (b, a) and (c, b)
      cases hab : strLt a.1 b.1 with
      | true =>
        have := strLt_trans hca hab
        rw [h2] at this; exact absurd this (by simp)
      | false =>
        have : a.1 = b.1 := strLt_tricho hab h1
        rw [this] at hca; rw [h2] at hca; exact absurd hca (by simp)

theorem nsLe_antisymm {a b : Str × Str} (h1 : nsLe a b = true) (h2 : nsLe b a = true) : a.1 = b.1 := by
  simp only [nsLe, Bool.or_eq_true, decide_eq_true_eq, Bool.and_eq_true, beq_iff_eq, Bool.not_eq_true'] at *
  rcases h1 with h1 | ⟨e1, h1⟩ <;> rcases h2 with h2 | ⟨e2, h2⟩
  · omega
  · omega
  · omega
  · exact strLt_tricho h2 h1

/-! ### `sortNs` sorts, and a sorted list is determined by its members -/

def Sorted (l : List (Str × Str)) : Prop := l.Pairwise fun a b => nsLe a b = true

theorem insertNs_sorted (x : Str × Str) {l : List (Str × Str)} (h : Sorted l) : Sorted (insertNs x l) := by
  induction l with
  | nil => simp [insertNs, Sorted]
  | cons y ys ih =>
    simp only [Sorted, List.pairwise_cons] at h
    simp only [insertNs]
    split
    · rename_i hxy
      simp only [Sorted, List.pairwise_cons, List.mem_cons]
      refine ⟨?_, h⟩
      rintro a (rfl | ha)
      · exact hxy
      · exact nsLe_trans hxy (h.1 a ha)
    · rename_i hxy
      have hyx : nsLe y x = true := nsLe_total (by simpa using hxy)
      simp only [Sorted, List.pairwise_cons]
      refine ⟨?_, ih h.2⟩
      intro a ha
      rcases List.mem_cons.mp ((insertNs_perm x ys).mem_iff.mp ha) with ha | ha
      · subst ha; exact hyx
      · exact h.1 a ha
    
theorem sortNs_sorted (l : List (Str × Str)) : Sorted (sortNs l) := by
  induction l with
  | nil => simp [sortNs, Sorted]
  | cons x xs ih => exact insertNs_sorted x ih

/-- two sorted lists with distinct keys and the same members are equal -/
theorem sorted_unique {l1 l2 : List (Str × Str)} (s1 : Sorted l1) (s2 : Sorted l2)
    (n1 : (keysOf l1).Nodup) (hm : ∀ x, x ∈ l1 ↔ x ∈ l2) (n2 : (keysOf l2).Nodup) : l1 = l2 := by
  induction l1 generalizing l2 with
  | nil =>
    cases l2 with
    | nil => rfl
    | cons b t2 => exact absurd ((hm b).mpr List.mem_cons_self) (by simp)
  | cons a t1 ih =>
    cases l2 with
    | nil => exact absurd ((hm a).mp List.mem_cons_self) (by simp)
    | cons b t2 =>
      simp only [Sorted, List.pairwise_cons] at s1 s2
      simp only [keysOf, List.map_cons, List.nodup_cons] at n1 n2
      have hab : a = b := by
        by_cases h : a = b
        · exact h
        · exfalso
          have ha2 : a ∈ t2 := by
            rcases List.mem_cons.mp ((hm a).mp List.mem_cons_self) with h' | h'
            · exact absurd h' h
            · exact h'
          have hb1 : b ∈ t1 := by
            rcases List.mem_cons.mp ((hm b).mpr List.mem_cons_self) with h' | h'
            · exact absurd h'.symm h
            · exact h'
          have hk := nsLe_antisymm (s1.1 b hb1) (s2.1 a ha2)
          exact n1.1 (by rw [hk]; exact List.mem_map.mpr ⟨b, hb1, rfl⟩)
      subst hab
      congr 1
      apply ih s1.2 s2.2 n1.2 _ n2.2
      intro x
      constructor
      · intro hx
        rcases List.mem_cons.mp ((hm x).mp (List.mem_cons_of_mem _ hx)) with h' | h'
        · subst h'; exact absurd (List.mem_map.mpr ⟨x, hx, rfl⟩) n1.1
        · exact h'
      · intro hx
        rcases List.mem_cons.mp ((hm x).mpr (List.mem_cons_of_mem _ hx)) with h' | h'
        · subst h'; exact absurd (List.mem_map.mpr ⟨x, hx, rfl⟩) n2.1
        · exact h'

/-- the written declaration list depends only on the set of bindings in scope and on the set of
the parent's prefixes -/
theorem canonNs_congr {pk pk' : List Str} {m m' : List (Str × Str)}
    (hn : (keysOf m).Nodup) (hn' : (keysOf m').Nodup) (hs : ∀ x, x ∈ m' ↔ x ∈ m)
    (hk : ∀ p, p ∈ pk' ↔ p ∈ pk) : canonNs pk' m' = canonNs pk m := by
  apply sorted_unique
  · exact List.Pairwise.filter _ (sortNs_sorted m')
  · exact List.Pairwise.filter _ (sortNs_sorted m)
  · exact canonNs_keys_nodup hn'
  · intro x
    simp only [mem_canonNs, hs x, hk]
  · exact canonNs_keys_nodup hn

end Capella.Xml
