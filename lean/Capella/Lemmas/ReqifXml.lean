import Capella.Model.ReqifXml
import Capella.Lemmas.Reqif
/-! Lemmas about the element tree of the ReqIF export (C20): the generic scans of the tree are the
abstract document's `defs`/`refs`, rendered; the skeleton. -/
namespace Capella.Reqif

/-! ### scans of lists -/

theorem identsL_append (a b : List Xml) : identsL (a ++ b) = identsL a ++ identsL b := by
  induction a with
  | nil => rfl
  | cons x xs ih => simp [identsL, ih]

theorem identsL_map {α : Type} (f : α → Xml) (l : List α) : identsL (l.map f) = l.flatMap (fun a => (f a).idents) := by
  induction l with
  | nil => rfl
  | cons x xs ih => simp [identsL, ih]

theorem refTextsL_append (a b : List Xml) : refTextsL (a ++ b) = refTextsL a ++ refTextsL b := by
  induction a with
  | nil => rfl
  | cons x xs ih => simp [refTextsL, ih]

theorem refTextsL_map {α : Type} (f : α → Xml) (l : List α) :
    refTextsL (l.map f) = l.flatMap (fun a => (f a).refTexts) := by
  induction l with
  | nil => rfl
  | cons x xs ih => simp [refTextsL, ih]

theorem allL_append (p) (a b : List Xml) : allL p (a ++ b) = (allL p a && allL p b) := by
  induction a with
  | nil => simp [allL]
  | cons x xs ih => simp [allL, ih, Bool.and_assoc]

theorem allL_map {α : Type} (p) (f : α → Xml) (l : List α) (h : ∀ a ∈ l, (f a).all p = true) :
    allL p (l.map f) = true := by
  induction l with
  | nil => rfl
  | cons x xs ih =>
    simp only [List.map, allL, Bool.and_eq_true]
    exact ⟨h x (List.mem_cons_self ..), ih fun a ha => h a (List.mem_cons_of_mem _ ha)⟩

theorem flatMap_singleton_map {α β : Type} (f : α → β) (l : List α) : l.flatMap (fun a => [f a]) = l.map f := by
  induction l with
  | nil => rfl
  | cons x xs ih => simp [ih]

/-! ### attribute lookup -/

theorem lookup_optAttr_ne {n k : Str} (h : n ≠ k) (o : Option Str) (rest : List (Str × Str)) :
    lookupAttr k (optAttr n o ++ rest) = lookupAttr k rest := by
  cases o <;> simp [optAttr, lookupAttr, h]

theorem lookup_optAttr_ne' {n k : Str} (h : n ≠ k) (o : Option Str) : lookupAttr k (optAttr n o) = none := by
  cases o <;> simp [optAttr, lookupAttr, h]

theorem lookup_ident_head (v : Str) (rest : List (Str × Str)) :
    lookupAttr sIDENTIFIER ((sIDENTIFIER, v) :: rest) = some v := by
  simp [lookupAttr]

/-! ### which tags are references -/

theorem ends_dtRef (k : Kind) : endsWith (tg "DATATYPE-DEFINITION-" ++ k.name ++ sREF) sREF = true := by
  cases k <;> decide
theorem ends_adRef (k : Kind) : endsWith (tg "ATTRIBUTE-DEFINITION-" ++ k.name ++ sREF) sREF = true := by
  cases k <;> decide
theorem ends_dt (k : Kind) : endsWith (tg "DATATYPE-DEFINITION-" ++ k.name) sREF = false := by
  cases k <;> decide
theorem ends_ad (k : Kind) : endsWith (tg "ATTRIBUTE-DEFINITION-" ++ k.name) sREF = false := by
  cases k <;> decide
theorem ends_av (k : Kind) : endsWith (tg "ATTRIBUTE-VALUE-" ++ k.name) sREF = false := by
  cases k <;> decide

/-! ### identifiers, element by element -/

theorem textEl_idents (t s : Str) : (textEl t s).idents = [] := by
  simp [textEl, Xml.idents, lookupAttr, identsL]

theorem wrapEl_idents (t : Str) (kids : List Xml) : (wrapEl t kids).idents = identsL kids := by
  simp [wrapEl, Xml.idents, lookupAttr]

theorem typeRef_idents (k : Kind) (r : Ident) : (typeRef k r).idents = [] := by
  simp [typeRef, wrapEl_idents, identsL, textEl_idents]

theorem definitionRef_idents (k : Kind) (r : Ident) : (definitionRef k r).idents = [] := by
  simp [definitionRef, wrapEl_idents, identsL, textEl_idents]

theorem EnumValueEl.toXml_idents (ts : Str) (v : EnumValueEl) : (v.toXml ts).idents = [(Ident.obj v.uuid).render] := by
  simp [EnumValueEl.toXml, Xml.idents, lookupAttr, identsL]

theorem DatatypeEl.toXml_idents (ts : Str) (d : DatatypeEl) : (d.toXml ts).idents = d.ids.map Ident.render := by
  cases hv : d.values with
  | none => simp [DatatypeEl.toXml, Xml.idents, lookupAttr, identsL, DatatypeEl.ids, hv]
  | some vs =>
    simp [DatatypeEl.toXml, Xml.idents, lookupAttr, identsL, DatatypeEl.ids, hv, wrapEl_idents, identsL_map,
      EnumValueEl.toXml_idents, flatMap_singleton_map, Function.comp_def]

theorem stdAttrDefXml_idents (ts : Str) (owner : Str → Ident) (x : Str × Kind) :
    (stdAttrDefXml ts owner x).idents = [(owner x.1).render] := by
  simp [stdAttrDefXml, Xml.idents, lookupAttr, identsL, typeRef_idents]

theorem AttrDefEl.toXml_idents (ts : Str) (rt : Option Str) (a : AttrDefEl) :
    (a.toXml ts rt).idents = [(a.ident rt).render] := by
  simp [AttrDefEl.toXml, Xml.idents, lookupAttr, identsL, typeRef_idents]

theorem specAttributes_idents (kids : List Xml) : identsL (specAttributes kids) = identsL kids := by
  unfold specAttributes
  split
  · next h => simp [h, identsL]
  · simp [identsL, wrapEl_idents]

theorem SpecTypeEl.toXml_idents (ts : Str) (t : SpecTypeEl) : (t.toXml ts).idents = t.ids.map Ident.render := by
  simp [SpecTypeEl.toXml, Xml.idents, lookupAttr, specAttributes_idents, identsL_append, identsL_map,
    stdAttrDefXml_idents, AttrDefEl.toXml_idents, SpecTypeEl.ids, flatMap_singleton_map, Function.comp_def]

theorem SpecificationTypeEl.toXml_idents (ts : Str) (t : SpecificationTypeEl) :
    (t.toXml ts).idents = t.ids.map Ident.render := by
  simp [SpecificationTypeEl.toXml, Xml.idents, lookupAttr, identsL, wrapEl_idents, identsL_map,
    stdAttrDefXml_idents, SpecificationTypeEl.ids, flatMap_singleton_map, Function.comp_def]

theorem sTHEVALUE_ne : sTHEVALUE ≠ sIDENTIFIER := by decide

theorem StdValueEl.toXml_idents (owner : Str → Ident) (v : StdValueEl) : (v.toXml owner).idents = [] := by
  unfold StdValueEl.toXml
  split <;> simp [Xml.idents, lookupAttr, identsL, definitionRef_idents, wrapEl_idents, sTHEVALUE_ne]

theorem AttrValueEl.toXml_idents (rt : Option Str) (v : AttrValueEl) : (v.toXml rt).idents = [] := by
  unfold AttrValueEl.toXml
  split
  · simp [Xml.idents, lookupAttr, identsL, definitionRef_idents, wrapEl_idents, identsL_map, textEl_idents]
  · simp [Xml.idents, lookup_optAttr_ne' sTHEVALUE_ne, identsL, definitionRef_idents]

theorem SpecObjectEl.toXml_idents (ts : Str) (o : SpecObjectEl) : (o.toXml ts).idents = [(Ident.obj o.uuid).render] := by
  simp [SpecObjectEl.toXml, Xml.idents, lookupAttr, identsL, wrapEl_idents, identsL_append, identsL_map,
    StdValueEl.toXml_idents, AttrValueEl.toXml_idents, textEl_idents]

theorem HierEl.toXml_idents (ts : Str) (h : HierEl) : (h.toXml ts).idents = [(Ident.hier h.uuid).render] := by
  simp [HierEl.toXml, Xml.idents, lookupAttr, identsL, wrapEl_idents, textEl_idents]

theorem SpecificationEl.toXml_idents (ts : Str) (s : SpecificationEl) :
    (s.toXml ts).idents = (Ident.obj s.uuid).render :: s.children.map (fun h => (Ident.hier h.uuid).render) := by
  simp [SpecificationEl.toXml, Xml.idents, lookupAttr, identsL, wrapEl_idents, identsL_map, textEl_idents,
    StdValueEl.toXml_idents, HierEl.toXml_idents, flatMap_singleton_map]

theorem HeaderEl.toXml_idents (h : HeaderEl) (u : Str) : (h.toXml u).idents = [(Ident.obj u).render] := by
  simp [HeaderEl.toXml, wrapEl_idents, Xml.idents, lookupAttr, identsL, textEl_idents]

theorem flatMap_map_render {α : Type} (f : α → List Ident) (l : List α) :
    l.flatMap (fun a => (f a).map Ident.render) = (l.flatMap f).map Ident.render := by
  induction l with
  | nil => rfl
  | cons x xs ih => simp [ih]

/-- The `IDENTIFIER` attributes of the tree, in document order, are the rendered `Doc.defs`. -/
theorem Doc.toXml_idents (h : HeaderEl) (d : Doc) : (d.toXml h).idents = d.defs.map Ident.render := by
  have hx : ¬ (tg "xsi:schemaLocation") = sIDENTIFIER := by decide
  simp [Doc.toXml, Doc.contentXml, Xml.idents, lookupAttr, identsL, wrapEl_idents, identsL_append, identsL_map,
    HeaderEl.toXml_idents, DatatypeEl.toXml_idents, SpecTypeEl.toXml_idents, SpecificationTypeEl.toXml_idents,
    SpecObjectEl.toXml_idents, SpecificationEl.toXml_idents, Doc.defs, flatMap_map_render, flatMap_singleton_map,
    Function.comp_def, hx]

/-! ### references, element by element -/

theorem textEl_refTexts (t s : Str) : (textEl t s).refTexts = if endsWith t sREF then [s] else [] := by
  simp [textEl, Xml.refTexts, refTextsL]

theorem wrapEl_refTexts {t : Str} (h : endsWith t sREF = false) (kids : List Xml) :
    (wrapEl t kids).refTexts = refTextsL kids := by
  simp [wrapEl, Xml.refTexts, h]

theorem typeRef_refTexts (k : Kind) (r : Ident) : (typeRef k r).refTexts = [r.render] := by
  rw [typeRef, wrapEl_refTexts (by decide)]
  simp [refTextsL, textEl_refTexts]
  exact ends_dtRef k

theorem definitionRef_refTexts (k : Kind) (r : Ident) : (definitionRef k r).refTexts = [r.render] := by
  rw [definitionRef, wrapEl_refTexts (by decide)]
  simp [refTextsL, textEl_refTexts]
  exact ends_adRef k

theorem EnumValueEl.toXml_refTexts (ts : Str) (v : EnumValueEl) : (v.toXml ts).refTexts = [] := by
  have : endsWith (tg "ENUM-VALUE") sREF = false := by decide
  simp [EnumValueEl.toXml, Xml.refTexts, refTextsL, this]

theorem DatatypeEl.toXml_refTexts (ts : Str) (d : DatatypeEl) : (d.toXml ts).refTexts = [] := by
  cases hv : d.values with
  | none => simp [DatatypeEl.toXml, Xml.refTexts, refTextsL, ends_dt, hv]
  | some vs =>
    simp [DatatypeEl.toXml, Xml.refTexts, refTextsL, ends_dt, hv, wrapEl_refTexts (t := (tg "SPECIFIED-VALUES")) (by decide),
      refTextsL_map, EnumValueEl.toXml_refTexts]

theorem stdAttrDefXml_refTexts (ts : Str) (owner : Str → Ident) (x : Str × Kind) :
    (stdAttrDefXml ts owner x).refTexts = [(Ident.stdDatatype x.1).render] := by
  simp [stdAttrDefXml, Xml.refTexts, refTextsL, ends_ad, typeRef_refTexts]

theorem AttrDefEl.toXml_refTexts (ts : Str) (rt : Option Str) (a : AttrDefEl) :
    (a.toXml ts rt).refTexts = [a.dtRef.render] := by
  simp [AttrDefEl.toXml, Xml.refTexts, refTextsL, ends_ad, typeRef_refTexts]

theorem specAttributes_refTexts (kids : List Xml) : refTextsL (specAttributes kids) = refTextsL kids := by
  unfold specAttributes
  split
  · next h => simp [h, refTextsL]
  · simp [refTextsL, wrapEl_refTexts (t := (tg "SPEC-ATTRIBUTES")) (by decide)]

theorem SpecTypeEl.toXml_refTexts (ts : Str) (t : SpecTypeEl) : (t.toXml ts).refTexts = t.refs.map Ident.render := by
  have : endsWith (tg "SPEC-OBJECT-TYPE") sREF = false := by decide
  simp [SpecTypeEl.toXml, Xml.refTexts, this, specAttributes_refTexts, refTextsL_append, refTextsL_map,
    stdAttrDefXml_refTexts, AttrDefEl.toXml_refTexts, SpecTypeEl.refs, flatMap_singleton_map, Function.comp_def]

theorem SpecificationTypeEl.toXml_refTexts (ts : Str) (t : SpecificationTypeEl) :
    (t.toXml ts).refTexts = t.refs.map Ident.render := by
  have : endsWith (tg "SPECIFICATION-TYPE") sREF = false := by decide
  simp [SpecificationTypeEl.toXml, Xml.refTexts, this, refTextsL, wrapEl_refTexts (t := (tg "SPEC-ATTRIBUTES")) (by decide),
    refTextsL_map, stdAttrDefXml_refTexts, SpecificationTypeEl.refs, flatMap_singleton_map, Function.comp_def]

theorem StdValueEl.toXml_refTexts (owner : Str → Ident) (v : StdValueEl) :
    (v.toXml owner).refTexts = [(owner v.name).render] := by
  unfold StdValueEl.toXml
  split <;> simp [Xml.refTexts, refTextsL, ends_av, definitionRef_refTexts,
    wrapEl_refTexts (t := sTHEVALUE) (by decide)]

theorem AttrValueEl.toXml_refTexts (rt : Option Str) (v : AttrValueEl) (hv : v.kind ≠ .enumeration → v.enumRefs = []) :
    (v.toXml rt).refTexts = (v.refs rt).map Ident.render := by
  have h1 : endsWith (tg "ENUM-VALUE-REF") sREF = true := by decide
  unfold AttrValueEl.toXml
  split
  · simp [Xml.refTexts, refTextsL, ends_av, definitionRef_refTexts, wrapEl_refTexts (t := (tg "VALUES")) (by decide),
      refTextsL_map, textEl_refTexts, h1, AttrValueEl.refs, flatMap_singleton_map, Function.comp_def]
  · next hk =>
    simp [Xml.refTexts, refTextsL, ends_av, definitionRef_refTexts, AttrValueEl.refs, hv hk]

/-- simple values carry no enumeration references (true of everything `attrValue` builds) -/
def SpecObjectEl.ValuesShaped (o : SpecObjectEl) : Prop := ∀ v ∈ o.attrs, v.kind ≠ .enumeration → v.enumRefs = []

theorem specObject_valuesShaped (x : Str → Option Str) (r : Req) : (specObject x r).ValuesShaped := by
  intro v hv hk
  simp only [specObject, List.mem_map] at hv
  obtain ⟨a, _, rfl⟩ := hv
  simp only [attrValue] at hk ⊢
  cases hval : a.value <;> simp_all [Value.enumRefs, Value.kind]

theorem flatMap_congr' {α β : Type} {f g : α → List β} {l : List α} (h : ∀ a ∈ l, f a = g a) :
    l.flatMap f = l.flatMap g := by
  induction l with
  | nil => rfl
  | cons x xs ih =>
    simp only [List.flatMap_cons]
    rw [h x (List.mem_cons_self ..), ih fun a ha => h a (List.mem_cons_of_mem _ ha)]

theorem SpecObjectEl.toXml_refTexts (ts : Str) (o : SpecObjectEl) (ho : o.ValuesShaped) :
    (o.toXml ts).refTexts = o.refs.map Ident.render := by
  have h0 : endsWith (tg "SPEC-OBJECT") sREF = false := by decide
  have h1 : endsWith (tg "SPEC-OBJECT-TYPE-REF") sREF = true := by decide
  have h2 : o.attrs.flatMap (fun a => (a.toXml o.rt).refTexts) = o.attrs.flatMap (fun a => (a.refs o.rt).map Ident.render) :=
    flatMap_congr' fun a ha => AttrValueEl.toXml_refTexts o.rt a (ho a ha)
  simp [SpecObjectEl.toXml, Xml.refTexts, h0, refTextsL, wrapEl_refTexts (t := (tg "VALUES")) (by decide),
    wrapEl_refTexts (t := (tg "TYPE")) (by decide), refTextsL_append, refTextsL_map, StdValueEl.toXml_refTexts,
    textEl_refTexts, h1, h2, SpecObjectEl.refs, flatMap_singleton_map, flatMap_map_render, Function.comp_def]

theorem HierEl.toXml_refTexts (ts : Str) (h : HierEl) : (h.toXml ts).refTexts = [(Ident.obj h.uuid).render] := by
  have h0 : endsWith (tg "SPEC-HIERARCHY") sREF = false := by decide
  have h1 : endsWith (tg "SPEC-OBJECT-REF") sREF = true := by decide
  simp [HierEl.toXml, Xml.refTexts, h0, refTextsL, wrapEl_refTexts (t := (tg "OBJECT")) (by decide), textEl_refTexts, h1]

theorem SpecificationEl.toXml_refTexts (ts : Str) (s : SpecificationEl) :
    (s.toXml ts).refTexts = (stIdent s.mt).render ::
      (s.values.map (fun v => (Ident.stdSpecAttr s.mt v.name).render) ++ s.children.map (fun h => (Ident.obj h.uuid).render)) := by
  have h0 : endsWith (tg "SPECIFICATION") sREF = false := by decide
  have h1 : endsWith (tg "SPECIFICATION-TYPE-REF") sREF = true := by decide
  simp [SpecificationEl.toXml, Xml.refTexts, h0, refTextsL, wrapEl_refTexts (t := (tg "TYPE")) (by decide),
    wrapEl_refTexts (t := (tg "VALUES")) (by decide), wrapEl_refTexts (t := (tg "CHILDREN")) (by decide),
    refTextsL_map, textEl_refTexts, h1, StdValueEl.toXml_refTexts, HierEl.toXml_refTexts, flatMap_singleton_map]

theorem HeaderEl.toXml_refTexts (h : HeaderEl) (u : Str) : (h.toXml u).refTexts = [] := by
  have h0 : endsWith (tg "REQ-IF-HEADER") sREF = false := by decide
  simp [HeaderEl.toXml, wrapEl_refTexts (t := (tg "THE-HEADER")) (by decide), Xml.refTexts, h0, refTextsL, textEl_refTexts]
  decide

def Doc.ValuesShaped (d : Doc) : Prop := ∀ o ∈ d.specObjects, o.ValuesShaped

/-- The texts of the `*-REF` elements of the tree, in document order, are the rendered `Doc.refs`. -/
theorem Doc.toXml_refTexts (h : HeaderEl) (d : Doc) (hd : d.ValuesShaped) :
    (d.toXml h).refTexts = d.refs.map Ident.render := by
  have h0 : endsWith (tg "REQ-IF") sREF = false := by decide
  have h2 : d.specObjects.flatMap (fun o => (o.toXml h.creationTime).refTexts)
      = d.specObjects.flatMap (fun o => o.refs.map Ident.render) :=
    flatMap_congr' fun o ho => SpecObjectEl.toXml_refTexts _ o (hd o ho)
  simp [Doc.toXml, Doc.contentXml, Xml.refTexts, h0, refTextsL, HeaderEl.toXml_refTexts,
    wrapEl_refTexts (t := (tg "CORE-CONTENT")) (by decide), wrapEl_refTexts (t := (tg "REQ-IF-CONTENT")) (by decide),
    wrapEl_refTexts (t := (tg "DATATYPES")) (by decide), wrapEl_refTexts (t := (tg "SPEC-TYPES")) (by decide),
    wrapEl_refTexts (t := (tg "SPEC-OBJECTS")) (by decide), wrapEl_refTexts (t := (tg "SPEC-RELATIONS")) (by decide),
    wrapEl_refTexts (t := (tg "SPECIFICATIONS")) (by decide), wrapEl_refTexts (t := (tg "SPEC-RELATION-GROUPS")) (by decide),
    refTextsL_append, refTextsL_map, DatatypeEl.toXml_refTexts, SpecTypeEl.toXml_refTexts, SpecificationTypeEl.toXml_refTexts,
    h2, SpecificationEl.toXml_refTexts, Doc.refs, flatMap_map_render, Function.comp_def]

theorem doc_valuesShaped (x : Str → Option Str) (m : Module) : (doc x m).ValuesShaped := by
  intro o ho
  rw [doc_specObjects] at ho
  obtain ⟨r, _, rfl⟩ := List.mem_map.mp ho
  exact specObject_valuesShaped x r

/-! ### every identifiable element has IDENTIFIER and LAST-CHANGE, nothing else has -/

theorem needs_dt (k : Kind) : needsId ((tg "DATATYPE-DEFINITION-") ++ k.name) = true := by cases k <;> decide
theorem needs_ad (k : Kind) : needsId ((tg "ATTRIBUTE-DEFINITION-") ++ k.name) = true := by cases k <;> decide
theorem needs_dtRef (k : Kind) : needsId ((tg "DATATYPE-DEFINITION-") ++ (k.name ++ sREF)) = false := by cases k <;> decide
theorem needs_adRef (k : Kind) : needsId ((tg "ATTRIBUTE-DEFINITION-") ++ (k.name ++ sREF)) = false := by cases k <;> decide
theorem needs_av (k : Kind) : needsId ((tg "ATTRIBUTE-VALUE-") ++ k.name) = false := by cases k <;> decide

theorem all_plain {ts tag : Str} (hn : needsId tag = false) {attrs : List (Str × Str)}
    (h1 : lookupAttr sIDENTIFIER attrs = none) (h2 : lookupAttr sLASTCHANGE attrs = none) (x : Option Str) (kids : List Xml) :
    (Xml.el tag attrs x kids).all (identCheck ts) = allL (identCheck ts) kids := by
  simp [Xml.all, identCheck, hn, h1, h2]

theorem all_ident {ts tag : Str} (hn : needsId tag = true) {attrs : List (Str × Str)} {i : Str}
    (h1 : lookupAttr sIDENTIFIER attrs = some i) (h2 : lookupAttr sLASTCHANGE attrs = some ts) (x : Option Str) (kids : List Xml) :
    (Xml.el tag attrs x kids).all (identCheck ts) = allL (identCheck ts) kids := by
  simp [Xml.all, identCheck, hn, h1, h2]

theorem all_ident2 {ts tag : Str} (hn : needsId tag = true) (i : Str) (rest : List (Str × Str)) (x : Option Str)
    (kids : List Xml) (attrs : List (Str × Str)) (h : attrs = (sIDENTIFIER, i) :: (sLASTCHANGE, ts) :: rest) :
    (Xml.el tag attrs x kids).all (identCheck ts) = allL (identCheck ts) kids := by
  subst h
  have : ¬ sIDENTIFIER = sLASTCHANGE := by decide
  exact all_ident hn (i := i) (by simp [lookupAttr]) (by simp [lookupAttr, this]) x kids

theorem lookup_nil (k : Str) : lookupAttr k [] = none := rfl

theorem lookup_ident_lc (i ts : Str) (rest : List (Str × Str)) :
    lookupAttr sIDENTIFIER ((sIDENTIFIER, i) :: (sLASTCHANGE, ts) :: rest) = some i ∧
    lookupAttr sLASTCHANGE ((sIDENTIFIER, i) :: (sLASTCHANGE, ts) :: rest) = some ts := by
  have : ¬ sIDENTIFIER = sLASTCHANGE := by decide
  simp [lookupAttr, this]

theorem textEl_all {ts t : Str} (hn : needsId t = false) (s : Str) : (textEl t s).all (identCheck ts) = true := by
  rw [textEl, all_plain hn rfl rfl]; rfl

theorem wrapEl_all {ts t : Str} (hn : needsId t = false) (kids : List Xml) :
    (wrapEl t kids).all (identCheck ts) = allL (identCheck ts) kids := by
  rw [wrapEl, all_plain hn rfl rfl]

theorem typeRef_all (ts : Str) (k : Kind) (r : Ident) : (typeRef k r).all (identCheck ts) = true := by
  rw [typeRef, wrapEl_all (by decide)]
  simp [allL, List.append_assoc, textEl_all (needs_dtRef k)]

theorem definitionRef_all (ts : Str) (k : Kind) (r : Ident) : (definitionRef k r).all (identCheck ts) = true := by
  rw [definitionRef, wrapEl_all (by decide)]
  simp [allL, List.append_assoc, textEl_all (needs_adRef k)]

theorem EnumValueEl.toXml_all (ts : Str) (v : EnumValueEl) : (v.toXml ts).all (identCheck ts) = true := by
  rw [EnumValueEl.toXml, all_ident2 (by decide) (Ident.obj v.uuid).render (optAttr sLONGNAME v.longName ++ optAttr sDESC v.desc)
    _ _ _ (by simp)]; rfl

theorem DatatypeEl.toXml_all (ts : Str) (d : DatatypeEl) : (d.toXml ts).all (identCheck ts) = true := by
  rw [DatatypeEl.toXml, all_ident2 (needs_dt _) d.key.ident.render (optAttr sLONGNAME d.longName ++ datatypeConstants d.key d.kind)
    _ _ _ (by simp)]
  cases d.values with
  | none => rfl
  | some vs =>
    simp only [allL, Bool.and_true]
    rw [wrapEl_all (by decide)]
    exact allL_map _ _ _ fun v _ => EnumValueEl.toXml_all ts v

theorem stdAttrDefXml_all (ts : Str) (owner : Str → Ident) (x : Str × Kind) :
    (stdAttrDefXml ts owner x).all (identCheck ts) = true := by
  rw [stdAttrDefXml, all_ident2 (needs_ad _) (owner x.1).render [(sLONGNAME, "ReqIF.".toList ++ x.1)] _ _ _ rfl]
  simp [allL, typeRef_all]

theorem AttrDefEl.toXml_all (ts : Str) (rt : Option Str) (a : AttrDefEl) : (a.toXml ts rt).all (identCheck ts) = true := by
  rw [AttrDefEl.toXml, all_ident2 (needs_ad _) (a.ident rt).render
    (optAttr sLONGNAME a.longName ++ (optAttr sDESC a.desc ++ optAttr (tg "MULTI-VALUED") (a.multiValued.map boolText)))
    _ _ _ (by simp)]
  simp [allL, typeRef_all]

theorem specAttributes_all (ts : Str) (kids : List Xml) (h : allL (identCheck ts) kids = true) :
    allL (identCheck ts) (specAttributes kids) = true := by
  unfold specAttributes
  split
  · rfl
  · simp [allL, wrapEl_all (t := (tg "SPEC-ATTRIBUTES")) (by decide), h]

theorem SpecTypeEl.toXml_all (ts : Str) (t : SpecTypeEl) : (t.toXml ts).all (identCheck ts) = true := by
  rw [SpecTypeEl.toXml, all_ident2 (by decide) (sotIdent t.rt).render (optAttr sLONGNAME t.longName ++ optAttr sDESC t.desc)
    _ _ _ (by simp)]
  apply specAttributes_all
  rw [allL_append, allL_map _ _ _ fun x _ => stdAttrDefXml_all ts _ x, allL_map _ _ _ fun a _ => AttrDefEl.toXml_all ts _ a]
  rfl

theorem SpecificationTypeEl.toXml_all (ts : Str) (t : SpecificationTypeEl) : (t.toXml ts).all (identCheck ts) = true := by
  rw [SpecificationTypeEl.toXml, all_ident2 (by decide) (stIdent t.mt).render (optAttr sLONGNAME t.longName ++ optAttr sDESC t.desc)
    _ _ _ (by simp)]
  simp only [allL, Bool.and_true]
  rw [wrapEl_all (by decide)]
  exact allL_map _ _ _ fun x _ => stdAttrDefXml_all ts _ x

theorem sTHEVALUE_ne_lc : sTHEVALUE ≠ sLASTCHANGE := by decide

theorem StdValueEl.toXml_all (ts : Str) (owner : Str → Ident) (v : StdValueEl) : (v.toXml owner).all (identCheck ts) = true := by
  unfold StdValueEl.toXml
  split
  · rw [all_plain (needs_av _) rfl rfl]
    simp [allL, definitionRef_all, wrapEl_all (t := sTHEVALUE) (by decide), Xml.all]
  · rw [all_plain (needs_av _) (by simp [lookupAttr, sTHEVALUE_ne]) (by simp [lookupAttr, sTHEVALUE_ne_lc])]
    simp [allL, definitionRef_all]

theorem AttrValueEl.toXml_all (ts : Str) (rt : Option Str) (v : AttrValueEl) : (v.toXml rt).all (identCheck ts) = true := by
  unfold AttrValueEl.toXml
  split
  · rw [all_plain (needs_av _) rfl rfl]
    simp only [allL, definitionRef_all, Bool.and_true, Bool.true_and]
    rw [wrapEl_all (by decide)]
    exact allL_map _ _ _ fun u _ => textEl_all (by decide) _
  · rw [all_plain (needs_av _) (lookup_optAttr_ne' sTHEVALUE_ne _) (lookup_optAttr_ne' sTHEVALUE_ne_lc _)]
    simp [allL, definitionRef_all]

theorem SpecObjectEl.toXml_all (ts : Str) (o : SpecObjectEl) : (o.toXml ts).all (identCheck ts) = true := by
  rw [SpecObjectEl.toXml, all_ident2 (by decide) (Ident.obj o.uuid).render (optAttr sLONGNAME o.longName) _ _ _ (by simp)]
  simp only [allL, Bool.and_true, Bool.and_eq_true]
  refine ⟨?_, ?_⟩
  · rw [wrapEl_all (by decide), allL_append, allL_map _ _ _ fun v _ => StdValueEl.toXml_all ts _ v,
      allL_map _ _ _ fun v _ => AttrValueEl.toXml_all ts _ v]
    rfl
  · rw [wrapEl_all (by decide)]
    simp [allL, textEl_all (t := (tg "SPEC-OBJECT-TYPE-REF")) (by decide)]

theorem HierEl.toXml_all (ts : Str) (h : HierEl) : (h.toXml ts).all (identCheck ts) = true := by
  rw [HierEl.toXml, all_ident2 (by decide) (Ident.hier h.uuid).render [] _ _ _ rfl]
  simp [allL, wrapEl_all (t := (tg "OBJECT")) (by decide), textEl_all (t := (tg "SPEC-OBJECT-REF")) (by decide)]

theorem SpecificationEl.toXml_all (ts : Str) (s : SpecificationEl) : (s.toXml ts).all (identCheck ts) = true := by
  rw [SpecificationEl.toXml, all_ident2 (by decide) (Ident.obj s.uuid).render (optAttr sLONGNAME s.longName ++ optAttr sDESC s.desc)
    _ _ _ (by simp)]
  simp only [allL, Bool.and_true, Bool.and_eq_true]
  refine ⟨?_, ?_, ?_⟩
  · rw [wrapEl_all (by decide)]
    simp [allL, textEl_all (t := (tg "SPECIFICATION-TYPE-REF")) (by decide)]
  · rw [wrapEl_all (by decide)]
    exact allL_map _ _ _ fun v _ => StdValueEl.toXml_all ts _ v
  · rw [wrapEl_all (by decide)]
    exact allL_map _ _ _ fun v _ => HierEl.toXml_all ts v

theorem HeaderEl.toXml_all (h : HeaderEl) (ts u : Str) : (h.toXml u).all (identCheck ts) = true := by
  rw [HeaderEl.toXml, wrapEl_all (by decide)]
  simp only [allL, Bool.and_true]
  simp [Xml.all, identCheck, lookupAttr, allL,
    textEl_all (t := (tg "COMMENT")) (by decide), textEl_all (t := (tg "CREATION-TIME")) (by decide),
    textEl_all (t := (tg "REQ-IF-TOOL-ID")) (by decide), textEl_all (t := (tg "REQ-IF-VERSION")) (by decide),
    textEl_all (t := (tg "SOURCE-TOOL-ID")) (by decide), textEl_all (t := (tg "TITLE")) (by decide)]
  decide

theorem Doc.toXml_all (h : HeaderEl) (d : Doc) : (d.toXml h).all (identCheck h.creationTime) = true := by
  have hx1 : lookupAttr sIDENTIFIER [((tg "xsi:schemaLocation"), schemaLocation)] = none := by
    have : ¬ (tg "xsi:schemaLocation") = sIDENTIFIER := by decide
    simp [lookupAttr, this]
  have hx2 : lookupAttr sLASTCHANGE [((tg "xsi:schemaLocation"), schemaLocation)] = none := by
    have : ¬ (tg "xsi:schemaLocation") = sLASTCHANGE := by decide
    simp [lookupAttr, this]
  rw [Doc.toXml, all_plain (by decide) hx1 hx2]
  simp only [allL, Bool.and_true, Bool.and_eq_true]
  refine ⟨HeaderEl.toXml_all _ _ _, ?_⟩
  rw [wrapEl_all (by decide)]
  simp only [allL, Bool.and_true, Doc.contentXml]
  rw [wrapEl_all (by decide)]
  simp only [allL, Bool.and_true, Bool.and_eq_true]
  refine ⟨?_, ?_, ?_, ?_, ?_, ?_⟩
  · rw [wrapEl_all (by decide)]
    exact allL_map _ _ _ fun x _ => DatatypeEl.toXml_all _ x
  · rw [wrapEl_all (by decide), allL_append, allL_map _ _ _ fun x _ => SpecTypeEl.toXml_all _ x]
    simp [allL, SpecificationTypeEl.toXml_all]
  · rw [wrapEl_all (by decide)]
    exact allL_map _ _ _ fun x _ => SpecObjectEl.toXml_all _ x
  · rw [wrapEl_all (by decide)]; rfl
  · rw [wrapEl_all (by decide)]
    simp [allL, SpecificationEl.toXml_all]
  · rw [wrapEl_all (by decide)]; rfl

end Capella.Reqif
