import Capella.Lemmas.PodsH

/-!
Floats: special values (`*` for +inf, nan / -inf rejected), elision of everything that compares equal to `0.0`,
and the exact acceptance set of the setter — over the abstract float of `Params` with its decidable
classification (`FloatV`, `fIsZero`).
-/
namespace Capella.Pods

variable (P : Params)

/-- the values that compare equal to the float default `0.0`: `0.0`, `-0.0`, `0`, `False` -/
def floatZeroLike : PyVal P → Bool
  | .float (.fin x) => P.fIsZero x
  | .int i => decide (i = 0)
  | .bool b => !b
  | _ => false

theorem xmlOk_star : xmlOk star = true := by decide

theorem float_special (attr : Str) (w : Bool) (a : Attrs) (hw : w = true ∨ a.has attr = false) :
    set P ⟨.float, attr, w⟩ a (.float .inf) = .ok (a.set attr star) ∧
      get P ⟨.float, attr, w⟩ (a.set attr star) = .ok (.float .inf) ∧
      set P ⟨.float, attr, w⟩ a (.float .nan) = .error .valueError ∧
      set P ⟨.float, attr, w⟩ a (.float .ninf) = .error .valueError := by
  have hc : (!w && a.has attr) = false := by
    rcases hw with h | h <;> simp [h]
  refine ⟨?_, ?_, ?_, ?_⟩
  · simp [set, hc, isNone, neDefault, neZero, toXml, floatToXml, xmlOk_star]
  · simp [get, Attrs.get_set_same, fromXml, floatFromXml]
  · simp [set, hc, isNone, neDefault, neZero, toXml, floatToXml]
  · simp [set, hc, isNone, neDefault, neZero, toXml, floatToXml]

theorem float_zero_elided (hP : P.Lawful) (attr : Str) (a : Attrs) (v : PyVal P)
    (hz : floatZeroLike P v = true) : set P ⟨.float, attr, true⟩ a v = .ok (a.pop attr) := by
  have _ := hP
  cases v with
  | float f =>
    cases f <;> simp [floatZeroLike] at hz
    simp [set, isNone, neDefault, neZero, hz]
  | int i =>
    simp [floatZeroLike] at hz
    simp [set, isNone, neDefault, neZero, hz]
  | bool b =>
    simp [floatZeroLike] at hz
    simp [set, isNone, neDefault, neZero, hz]
  | _ => simp [floatZeroLike] at hz

theorem float_accepts_iff (hP : P.Lawful) (h0 : (P.fOfInt 0).isSome = true) (attr : Str) (a : Attrs)
    (v : PyVal P) :
    (∃ a', set P ⟨.float, attr, true⟩ a v = .ok a') ↔ valid P ⟨.float, attr, true⟩ v = true := by
  cases v with
  | none => simp [set, isNone, valid]
  | float f =>
    cases f with
    | nan => simp [set, isNone, neDefault, neZero, toXml, floatToXml, valid]
    | ninf => simp [set, isNone, neDefault, neZero, toXml, floatToXml, valid]
    | inf => simp [set, isNone, neDefault, neZero, toXml, floatToXml, valid, xmlOk_star]
    | fin x =>
      by_cases hz : P.fIsZero x = true
      · simp [set, isNone, neDefault, neZero, hz, valid]
      · simp [set, isNone, neDefault, neZero, hz, toXml, floatToXml, valid, hP.float_xml x]
  | int i =>
    by_cases hi : i = 0
    · subst hi; simp [set, isNone, neDefault, neZero, valid, h0]
    · cases hx : P.fOfInt i with
      | none => simp [set, isNone, neDefault, neZero, hi, toXml, hx, valid]
      | some x => simp [set, isNone, neDefault, neZero, hi, toXml, hx, floatToXml, valid, hP.float_xml x]
  | bool b =>
    cases b with
    | false => simp [set, isNone, neDefault, neZero, valid, h0]
    | true =>
      cases hx : P.fOfInt 1 with
      | none => simp [set, isNone, neDefault, neZero, toXml, hx, valid]
      | some x => simp [set, isNone, neDefault, neZero, toXml, hx, floatToXml, valid, hP.float_xml x]
  | str s => simp [set, isNone, neDefault, neZero, toXml, valid]
  | member c n x => simp [set, isNone, neDefault, neZero, toXml, valid]
  | naive n => simp [set, isNone, neDefault, neZero, toXml, valid]
  | aware t => simp [set, isNone, neDefault, neZero, toXml, valid]
  | selector r => simp [set, isNone, neDefault, neZero, toXml, valid]
  | other => simp [set, isNone, neDefault, neZero, toXml, valid]

end Capella.Pods
