import Capella.Model.QueryList
import Capella.Lemmas.Query
/-!
Python's index and slice semantics (`Capella.QList.pyIndex/pySlice`) and ordered search results.
Core Lean only.
-/
namespace Capella.QList
open Capella.Query

/-! ### strictly ascending lists -/

theorem pairwise_lt_ext : ∀ (l₁ l₂ : List Nat), l₁.Pairwise (· < ·) → l₂.Pairwise (· < ·) →
    (∀ x, x ∈ l₁ ↔ x ∈ l₂) → l₁ = l₂ := by
  intro l₁
  induction l₁ with
  | nil =>
    intro l₂ _ _ h
    cases l₂ with
    | nil => rfl
    | cons b s => exact absurd ((h b).mpr (List.mem_cons_self ..)) (by simp)
  | cons a r ih =>
    intro l₂ h1 h2 h
    cases l₂ with
    | nil => exact absurd ((h a).mp (List.mem_cons_self ..)) (by simp)
    | cons b s =>
      have h1' := List.pairwise_cons.mp h1
      have h2' := List.pairwise_cons.mp h2
      have hab : a = b := by
        have ha := (h a).mp (List.mem_cons_self ..)
        have hb := (h b).mpr (List.mem_cons_self ..)
        cases List.mem_cons.mp ha with
        | inl e => exact e
        | inr hs =>
          cases List.mem_cons.mp hb with
          | inl e => exact e.symm
          | inr hr =>
            have := h1'.1 b hr
            have := h2'.1 a hs
            omega
      subst hab
      congr 1
      apply ih s h1'.2 h2'.2
      intro x
      constructor
      · intro hx
        have hlt := h1'.1 x hx
        cases List.mem_cons.mp ((h x).mp (List.mem_cons_of_mem _ hx)) with
        | inl e => omega
        | inr hs => exact hs
      · intro hx
        have hlt := h2'.1 x hx
        cases List.mem_cons.mp ((h x).mpr (List.mem_cons_of_mem _ hx)) with
        | inl e => omega
        | inr hr => exact hr

theorem pairwise_of_adjacent : ∀ (l : List Nat), (l.zip l.tail).all (fun p => decide (p.1 < p.2)) = true →
    l.Pairwise (· < ·) := by
  intro l
  induction l with
  | nil => intro _; exact List.Pairwise.nil
  | cons a r ih =>
    intro h
    cases r with
    | nil => exact List.pairwise_singleton _ _
    | cons b t =>
      simp only [List.tail_cons, List.zip_cons_cons, List.all_cons, Bool.and_eq_true, decide_eq_true_eq] at h
      have hr := ih (by simpa using h.2)
      refine List.pairwise_cons.mpr ⟨?_, hr⟩
      intro x hx
      cases List.mem_cons.mp hx with
      | inl e => subst e; exact h.1
      | inr ht => exact Nat.lt_trans h.1 ((List.pairwise_cons.mp hr).1 x ht)

/-! ### integer indices -/

theorem pyIndex_nonneg {α : Type} (l : List α) (i : Int) (h : 0 ≤ i) : pyIndex l i = l[i.toNat]? := by
  unfold pyIndex
  simp only []
  have : ¬ i < 0 := by omega
  rw [if_neg this]
  by_cases hlt : (l.length : Int) ≤ i
  · rw [if_pos (Or.inr hlt)]
    exact (List.getElem?_eq_none (by omega)).symm
  · rw [if_neg (by omega)]

theorem pyIndex_neg {α : Type} (l : List α) (i : Int) (h : i < 0) :
    pyIndex l i = if (l.length : Int) + i < 0 then none else l[((l.length : Int) + i).toNat]? := by
  unfold pyIndex
  simp only []
  rw [if_pos h]
  by_cases hlt : i + (l.length : Int) < 0
  · rw [if_pos (Or.inl hlt), if_pos (by omega)]
  · rw [if_neg (by omega), if_neg (by omega)]
    congr 2
    omega

/-! ### slices -/

theorem takeStep_spec {α : Type} (l : List α) (step : Int) :
    ∀ (k : Nat) (cur : Int), (∀ j : Nat, j < k → 0 ≤ cur + j * step ∧ cur + j * step < l.length) →
      (takeStep l step cur k).length = k ∧
      ∀ j : Nat, j < k → (takeStep l step cur k)[j]? = l[(cur + j * step).toNat]? := by
  intro k
  induction k with
  | zero => intro cur _; exact ⟨rfl, fun j hj => absurd hj (Nat.not_lt_zero j)⟩
  | succ k ih =>
    intro cur h
    have h0 := h 0 (Nat.succ_pos k)
    simp only [Int.natCast_zero, Int.zero_mul, Int.add_zero] at h0
    have hlt : cur.toNat < l.length := by omega
    unfold takeStep
    rw [List.getElem?_eq_getElem hlt]
    simp only []
    have hshift : ∀ j : Nat, cur + ((j + 1 : Nat) : Int) * step = (cur + step) + (j : Int) * step := by
      intro j
      rw [Int.natCast_add, Int.add_mul]
      simp only [Int.natCast_one, Int.one_mul]
      omega
    obtain ⟨hl, hg⟩ := ih (cur + step) (by
      intro j hj
      have := h (j + 1) (Nat.succ_lt_succ hj)
      rw [hshift j] at this
      exact this)
    refine ⟨by simp [hl], ?_⟩
    intro j hj
    cases j with
    | zero =>
      simp only [List.getElem?_cons_zero, Int.natCast_zero, Int.zero_mul, Int.add_zero]
      exact (List.getElem?_eq_getElem hlt).symm
    | succ j =>
      simp only [List.getElem?_cons_succ]
      rw [hg j (Nat.lt_of_succ_lt_succ hj), hshift j]

theorem sliceIndices_pos (s : Slice) (n : Nat) (a b st : Int) (h : sliceIndices s n = some (a, b, st))
    (hst : 0 < st) : 0 ≤ a ∧ a ≤ n ∧ 0 ≤ b ∧ b ≤ n := by
  unfold sliceIndices at h
  simp only [] at h
  split at h
  · cases h
  · simp only [Option.some.injEq, Prod.mk.injEq] at h
    obtain ⟨ha, hb, hs⟩ := h
    have hneg : ¬ (s.step.getD 1 < 0) := by omega
    simp only [hneg, decide_false, Bool.false_eq_true, if_false] at ha hb
    unfold adjust at ha hb
    refine ⟨?_, ?_, ?_, ?_⟩ <;> (first | (split at ha <;> (try split at ha) <;> (try split at ha) <;> omega) | (split at hb <;> (try split at hb) <;> (try split at hb) <;> omega))

theorem sliceIndices_neg (s : Slice) (n : Nat) (a b st : Int) (h : sliceIndices s n = some (a, b, st))
    (hst : st < 0) : -1 ≤ a ∧ a ≤ (n : Int) - 1 ∧ -1 ≤ b ∧ b ≤ (n : Int) - 1 := by
  unfold sliceIndices at h
  simp only [] at h
  split at h
  · cases h
  · simp only [Option.some.injEq, Prod.mk.injEq] at h
    obtain ⟨ha, hb, hs⟩ := h
    have hneg : s.step.getD 1 < 0 := by omega
    simp only [hneg, decide_true, if_true] at ha hb
    unfold adjust at ha hb
    refine ⟨?_, ?_, ?_, ?_⟩ <;> (first | (split at ha <;> (try split at ha) <;> (try split at ha) <;> omega) | (split at hb <;> (try split at hb) <;> (try split at hb) <;> omega))

/-- the progression of a forward slice stays before `stop`, and the next index would not -/
theorem sliceLen_pos (a b st : Int) (hst : 0 < st) :
    (∀ j : Nat, j < sliceLen a b st → a + j * st < b) ∧ b ≤ a + (sliceLen a b st : Int) * st ∨ (b ≤ a ∧ sliceLen a b st = 0) := by
  by_cases hab : a < b
  · left
    unfold sliceLen
    rw [if_pos hst, if_pos hab]
    have hq : 0 ≤ (b - a - 1) / st := Int.ediv_nonneg (by omega) (by omega)
    have hle : (b - a - 1) / st * st ≤ b - a - 1 := Int.ediv_mul_le _ (by omega)
    have hgt : b - a - 1 < ((b - a - 1) / st + 1) * st := Int.lt_ediv_add_one_mul_self _ hst
    constructor
    · intro j hj
      have hj' : (j : Int) ≤ (b - a - 1) / st := by omega
      have := Int.mul_le_mul_of_nonneg_right hj' (by omega : 0 ≤ st)
      omega
    · have : (((b - a - 1) / st + 1).toNat : Int) = (b - a - 1) / st + 1 := by omega
      rw [this]
      omega
  · right
    unfold sliceLen
    rw [if_pos hst, if_neg hab]
    exact ⟨by omega, rfl⟩

/-- the same for a backward slice -/
theorem sliceLen_neg (a b st : Int) (hst : st < 0) :
    (∀ j : Nat, j < sliceLen a b st → b < a + j * st) ∧ a + (sliceLen a b st : Int) * st ≤ b ∨ (a ≤ b ∧ sliceLen a b st = 0) := by
  have hns : ¬ 0 < st := by omega
  by_cases hab : b < a
  · left
    unfold sliceLen
    rw [if_neg hns, if_pos hab]
    have hp : 0 < -st := by omega
    have hq : 0 ≤ (a - b - 1) / (-st) := Int.ediv_nonneg (by omega) (by omega)
    have hle : (a - b - 1) / (-st) * (-st) ≤ a - b - 1 := Int.ediv_mul_le _ (by omega)
    have hgt : a - b - 1 < ((a - b - 1) / (-st) + 1) * (-st) := Int.lt_ediv_add_one_mul_self _ hp
    constructor
    · intro j hj
      have hj' : (j : Int) ≤ (a - b - 1) / (-st) := by omega
      have h1 := Int.mul_le_mul_of_nonneg_right hj' (by omega : 0 ≤ -st)
      have h2 : (j : Int) * (-st) = -((j : Int) * st) := Int.mul_neg _ _
      omega
    · have h3 : (((a - b - 1) / (-st) + 1).toNat : Int) = (a - b - 1) / (-st) + 1 := by omega
      rw [h3]
      have h4 : ((a - b - 1) / (-st) + 1) * (-st) = -(((a - b - 1) / (-st) + 1) * st) := Int.mul_neg _ _
      omega
  · right
    unfold sliceLen
    rw [if_neg hns, if_neg hab]
    exact ⟨by omega, rfl⟩

end Capella.QList
