import Capella.Model.Symlink
import Capella.Lemmas.Path

/-!
# Physical confinement in the presence of symbolic links (C14)
-/
namespace Capella.Path

/-- a link target that cannot lead out of the directory it is resolved in: relative, and without `..` -/
def SafeTarget (t : Str) : Prop := t.head? ≠ some '/' ∧ dotdot ∉ splitSlash t

/-- every symbolic link located below `root` has a safe target -/
def SafeLinks (ls : Links) (root : List Str) : Prop :=
  ∀ l t, linkAt ls l = some t → root <+: l → SafeTarget t

/-- Path resolution never leaves `root` if it starts inside, no remaining component is `..`, and every
link met below `root` has a safe target.  Any fuel; `none` (a loop) opens nothing at all. -/
theorem realpath_confined (ls : Links) (root : List Str) (hs : SafeLinks ls root) :
    ∀ (fuel : Nat) (acc comps : List Str), root <+: acc → dotdot ∉ comps →
      ∀ r, realpath ls fuel acc comps = some r → root <+: r := by
  intro fuel
  induction fuel with
  | zero =>
    intro acc comps hacc _ r h
    cases comps with
    | nil => simp [realpath] at h; subst h; exact hacc
    | cons c rest => simp [realpath] at h
  | succ n ih =>
    intro acc comps hacc hdd r h
    cases comps with
    | nil => simp [realpath] at h; subst h; exact hacc
    | cons c rest =>
      have hrest : dotdot ∉ rest := fun hm => hdd (List.mem_cons_of_mem _ hm)
      have hc : c ≠ dotdot := fun he => hdd (by rw [he]; exact List.mem_cons_self)
      by_cases h1 : c = [] ∨ c = dot
      · rw [realpath] at h
        simp only [h1, if_true] at h
        exact ih acc rest hacc hrest r h
      · rw [realpath] at h
        simp only [h1, hc, if_false] at h
        cases ht : linkAt ls (acc ++ [c]) with
        | none =>
          rw [ht] at h
          exact ih (acc ++ [c]) rest (hacc.trans (List.prefix_append _ _)) hrest r h
        | some t =>
          rw [ht] at h
          simp only at h
          have hsafe := hs (acc ++ [c]) t ht (hacc.trans (List.prefix_append _ _))
          have hcomps : dotdot ∉ splitSlash t ++ rest := by
            intro hm
            rcases List.mem_append.mp hm with hm | hm
            · exact hsafe.2 hm
            · exact hrest hm
          simp only [hsafe.1, if_false] at h
          exact ih acc (splitSlash t ++ rest) hacc hcomps r h

/-- without any link the physical location is the lexical one -/
theorem realpath_no_links (comps : List Str) (hc : Clean comps) :
    ∀ (fuel : Nat) (acc : List Str), comps.length ≤ fuel → realpath [] fuel acc comps = some (acc ++ comps) := by
  induction comps with
  | nil => intro fuel acc _; cases fuel <;> simp [realpath]
  | cons c rest ih =>
    intro fuel acc hf
    cases fuel with
    | zero => simp at hf
    | succ n =>
      have hcc := hc c List.mem_cons_self
      have h1 : ¬ (c = [] ∨ c = dot) := by
        intro h; rcases h with h | h
        · exact hcc.1 h
        · exact hcc.2.1 h
      simp only [realpath, h1, if_false, hcc.2.2.1, linkAt, List.find?_nil, Option.map_none]
      rw [ih (fun x hx => hc x (List.mem_cons_of_mem _ hx)) n (acc ++ [c]) (by simp at hf; omega)]
      simp

end Capella.Path
