import Capella.Lemmas.GitTxn
import Capella.Model.GitPush

/-!
# Lemmas about pushing (C16)
-/
namespace Capella.Git
variable {P : Type} [DecidableEq P]

/-- two ref stores answer every lookup alike (they may be different lists) -/
def SameRefs (a b : List (Str × Nat)) : Prop := ∀ n, getRef a n = getRef b n

theorem SameRefs.refl (a : List (Str × Nat)) : SameRefs a a := fun _ => rfl

theorem getRef_filter_ne (refs : List (Str × Nat)) (n m : Str) (h : m ≠ n) :
    getRef (refs.filter (fun e => e.1 ≠ n)) m = getRef refs m := by
  simp only [getRef, List.find?_filter]
  congr 1
  induction refs with
  | nil => rfl
  | cons a as ih =>
    by_cases ha : a.1 = m
    · have : a.1 ≠ n := fun hh => h (by rw [← ha, hh])
      simp [List.find?_cons, ha, h]
    · simp only [List.find?_cons, ha, decide_false, Bool.and_false]
      simpa using ih

theorem getRef_filter_eq (refs : List (Str × Nat)) (n : Str) :
    getRef (refs.filter (fun e => e.1 ≠ n)) n = none := by
  simp only [getRef, Option.map_eq_none_iff, List.find?_eq_none]
  intro e he
  have := (List.mem_filter.mp he).2
  simpa using this

theorem getRef_setRef (refs : List (Str × Nat)) (n m : Str) (c : Nat) :
    getRef (setRef refs n c) m = if m = n then some c else getRef refs m := by
  by_cases h : m = n
  · subst h; simp [getRef, setRef]
  · have h' : n ≠ m := fun hh => h hh.symm
    have := getRef_filter_ne refs n m h
    simp only [getRef, setRef, List.find?_cons, h', decide_false, h, if_false] at this ⊢
    exact this

theorem getRef_delRef (refs : List (Str × Nat)) (n m : Str) :
    getRef (delRef refs n) m = if m = n then none else getRef refs m := by
  by_cases h : m = n
  · subst h; simp only [delRef, if_true]; exact getRef_filter_eq refs m
  · simp only [delRef, h, if_false]; exact getRef_filter_ne refs n m h

/-- putting the branch back: set to the old commit, or delete it if it did not exist -/
theorem restore_sameRefs (refs : List (Str × Nat)) (target : Str) (c : Nat) :
    SameRefs (putBack (setRef refs target c) target (getRef refs target)) refs := by
  intro n
  cases h : getRef refs target with
  | some t =>
    simp only [putBack, getRef_setRef]
    by_cases hn : n = target
    · subst hn; simp [h]
    · simp [hn]
  | none =>
    simp only [putBack, getRef_delRef, getRef_setRef]
    by_cases hn : n = target
    · subst hn; simp [h]
    · simp [hn]

variable (fault : Option Nat)

/-- **Without `push` nothing is new**: the transaction is the one of `Model/Git.lean`, the remote is
not touched — every theorem about `transaction` is a theorem about `push=False`. -/
theorem transactionPush_off (rev : Str) (o : Opts) (po : PushOpts) (body : List (Op P)) (s : St P)
    (rem : Remote) (h : po.push = false) :
    transactionPush fault rev o po body s rem = (transaction fault rev o body s, rem) := by
  unfold transactionPush transaction
  simp only [finishPush, h, Bool.false_and, Bool.not_false, if_true]
  generalize (if o.remoteBranch.getD rev = headStr then
      (call fault Cmd.revParseSym { s with calls := 0, trace := [] }).1
    else { s with calls := 0, trace := [] }) = s0
  cases objectLike (o.remoteBranch.getD rev)
  · simp only [Bool.false_eq_true, if_false]
    rcases call fault Cmd.revParseHead s0 with ⟨s1, _ | _⟩
    · simp only
      cases s1.txnOpen
      · simp only [Bool.false_eq_true, if_false]
        rcases runBody fault (objectLike rev) body { s1 with txnOpen := true } with ⟨s2, _ | e⟩
        · simp only
          rcases finish fault o (qualify (o.remoteBranch.getD rev)) s1.head s2 with ⟨s3, e, _ | _⟩ <;> rfl
        · rfl
      · rfl
    · rfl
  · rfl

/-- `finishPush` never changes the remote unless it reports the ref as moved, and then the remote's
target ref is the handler's new HEAD, which is also where the local target ref points -/
theorem finishPush_remote (o : Opts) (po : PushOpts) (target : Str) (old : Nat) (s : St P) (rem : Remote) :
    (finishPush fault o po target old s rem).2 = rem ∨
    ((finishPush fault o po target old s rem).1.2.2 = true ∧
      (finishPush fault o po target old s rem).1.2.1 = none ∧
      po.push = true ∧ o.dry = false ∧ po.declines = false ∧
      (finishPush fault o po target old s rem).2 =
        setRef rem target (finishPush fault o po target old s rem).1.1.head ∧
      getRef (finishPush fault o po target old s rem).1.1.refs target =
        some (finishPush fault o po target old s rem).1.1.head) := by
  unfold finishPush
  by_cases hp : (po.push && !o.dry) = true
  · simp only [hp, Bool.not_true, Bool.false_eq_true, if_false]
    have hpush : po.push = true := by revert hp; cases po.push <;> simp
    have hdry : o.dry = false := by revert hp; cases po.push <;> cases o.dry <;> simp
    rcases hc : call fault (.revParseTarget target) s with ⟨s1, _ | _⟩
    · simp only
      have hk := finish_keeps fault o target old s1
      rcases hf : finish fault o target old s1 with ⟨s2, e, _ | _⟩
      · exact Or.inl (by simp)
      · rw [hf] at hk
        simp only
        have hr3 : (call fault (.push target) s2).1.refs = s2.refs := rfl
        have hh3 : (call fault (.push target) s2).1.head = s2.head := rfl
        rcases hcp : call fault (.push target) s2 with ⟨s3, _ | _⟩
        · rw [hcp] at hr3 hh3
          simp only
          by_cases ha : remoteAccepts po.declines s3.commits rem target s3.head = true
          · right
            have hm := hk.2.2.1 rfl
            simp only at hm hr3 hh3
            have hdec : po.declines = false := by
              revert ha; unfold remoteAccepts; cases po.declines <;> simp
            simp only [ha, if_true]
            refine ⟨trivial, hm.1, hpush, hdry, hdec, trivial, ?_⟩
            rw [hr3, hh3, hm.2.2.1, hm.2.2.2, getRef_setRef]; simp
          · exact Or.inl (by simp [ha])
        · exact Or.inl (by simp)
    · exact Or.inl (by simp)
  · simp only [hp, Bool.not_false, if_true]
    exact Or.inl trivial

/-- **The remote sees one commit or none**, for every body, every failing git command, every option:
after a transaction the remote's refs are exactly as before, or the transaction reported success, was a
real (non-dry) pushing one, and the remote's target ref now is the handler's new HEAD, which is also
where the local target ref points; no other remote ref changed (`setRef`). -/
theorem transactionPush_remote (rev : Str) (o : Opts) (po : PushOpts) (body : List (Op P)) (s : St P)
    (rem : Remote) :
    (transactionPush fault rev o po body s rem).2 = rem ∨
    ((transactionPush fault rev o po body s rem).1.2 = none ∧ po.push = true ∧ o.dry = false ∧
      po.declines = false ∧
      (transactionPush fault rev o po body s rem).2 =
        setRef rem (qualify (o.remoteBranch.getD rev)) (transactionPush fault rev o po body s rem).1.1.head ∧
      getRef (transactionPush fault rev o po body s rem).1.1.refs (qualify (o.remoteBranch.getD rev)) =
        some (transactionPush fault rev o po body s rem).1.1.head) := by
  simp only [transactionPush]
  generalize (if o.remoteBranch.getD rev = headStr then
      (call fault Cmd.revParseSym { s with calls := 0, trace := [] }).1
    else { s with calls := 0, trace := [] }) = s0
  cases objectLike (o.remoteBranch.getD rev)
  · simp only [Bool.false_eq_true, if_false]
    rcases call fault Cmd.revParseHead s0 with ⟨s1, _ | _⟩
    · simp only
      cases s1.txnOpen
      · simp only [Bool.false_eq_true, if_false]
        rcases runBody fault (objectLike rev) body { s1 with txnOpen := true } with ⟨s2, _ | e⟩
        · simp only
          have hr := finishPush_remote fault o po (qualify (o.remoteBranch.getD rev)) s1.head s2 rem
          rcases hfp : finishPush fault o po (qualify (o.remoteBranch.getD rev)) s1.head s2 rem with ⟨⟨s3, e, _ | _⟩, rem'⟩
          · rw [hfp] at hr
            rcases hr with hr | ⟨hb, _⟩
            · exact Or.inl hr
            · cases hb
          · rw [hfp] at hr
            rcases hr with hr | ⟨_, h1, h2, h3, h4, h5, h6⟩
            · exact Or.inl hr
            · exact Or.inr ⟨h1, h2, h3, h4, h5, h6⟩
        · exact Or.inl (by simp)
      · exact Or.inl (by simp)
    · exact Or.inl (by simp)
  · exact Or.inl (by simp)

/-! ## without git failure -/

theorem transactionPush_none (rev : Str) (o : Opts) (po : PushOpts) (body : List (Op P)) (s : St P)
    (rem : Remote) (hobj : objectLike (o.remoteBranch.getD rev) = false) (ho : s.txnOpen = false) :
    transactionPush none rev o po body s rem =
      match runBody none (objectLike rev) body (entered s) with
      | (s2, some e) => (rollback none s.head (some e) { s2 with txnOpen := false }, rem)
      | (s2, none) =>
        match finishPush none o po (qualify (o.remoteBranch.getD rev)) s.head s2 rem with
        | ((s3, e, true), rem') => (({ s3 with txnOpen := false }, e), rem')
        | ((s3, e, false), rem') => (rollback none s.head e { s3 with txnOpen := false }, rem') := by
  have hne : o.remoteBranch.getD rev ≠ headStr := by
    intro h; rw [h, objectLike_head] at hobj; cases hobj
  simp only [transactionPush, hne, hobj, ho, entered, if_false, call_none, Bool.false_eq_true]
  rcases runBody none (objectLike rev) body _ with ⟨s2, _ | e⟩
  · simp only
    rcases finishPush none o po (qualify (o.remoteBranch.getD rev)) s.head s2 rem with ⟨⟨s3, e, _ | _⟩, rem'⟩ <;> rfl
  · rfl

/-- a committing `__finish` with `push=True`, no git failure: the commit is created and the branch
moved as without push; then either the remote takes it, or the branch is put back -/
theorem finishPush_none_commit (o : Opts) (po : PushOpts) (target : Str) (old : Nat) (s : St P) (rem : Remote)
    (hp : po.push = true) (hd : o.dry = false)
    (hn : o.ignoreEmpty = false ∨ s.index.same (treeOf s old) = false) :
    ∃ s', s'.commits = s.commits ++ [newCommit o old s] ∧ s'.head = s.commits.length ∧
      s'.index = s.index ∧ s'.files = s.files ∧ s'.txnOpen = s.txnOpen ∧
      ((remoteAccepts po.declines (s.commits ++ [newCommit o old s]) rem target s.commits.length = true ∧
          finishPush none o po target old s rem = ((s', none, true), setRef rem target s.commits.length) ∧
          s'.refs = setRef s.refs target s.commits.length) ∨
       (remoteAccepts po.declines (s.commits ++ [newCommit o old s]) rem target s.commits.length = false ∧
          finishPush none o po target old s rem = ((s', some .gitfail, false), rem) ∧
          SameRefs s'.refs s.refs)) := by
  obtain ⟨s2, hf, hc, hr, hh, hi, hfl, ht⟩ :=
    finish_none_commit o target old { s with calls := s.calls + 1, trace := Cmd.revParseTarget target :: s.trace } hd
      (by simpa [treeOf] using hn)
  simp only at hc hr hh hi hfl ht
  have hnc : newCommit o old { s with calls := s.calls + 1, trace := Cmd.revParseTarget target :: s.trace } =
      newCommit o old s := rfl
  rw [hnc] at hc
  have ha2 : remoteAccepts po.declines s2.commits rem target s2.head =
      remoteAccepts po.declines (s.commits ++ [newCommit o old s]) rem target s.commits.length := by rw [hc, hh]
  cases ha : remoteAccepts po.declines (s.commits ++ [newCommit o old s]) rem target s.commits.length
  · rw [ha] at ha2
    refine ⟨{ s2 with calls := s2.calls + 1 + 1, trace := Cmd.updateRef target :: Cmd.push target :: s2.trace,
                      refs := putBack s2.refs target (getRef s.refs target) }, hc, hh, hi, hfl, ht, Or.inr ⟨rfl, ?_, ?_⟩⟩
    · simp only [finishPush, hp, hd, Bool.not_false, Bool.and_true, Bool.not_true, Bool.false_eq_true, if_false,
        call_none, hf, ha2, restoreRef]
    · simp only [hr]
      exact restore_sameRefs s.refs target s.commits.length
  · rw [ha] at ha2
    refine ⟨{ s2 with calls := s2.calls + 1, trace := Cmd.push target :: s2.trace }, hc, hh, hi, hfl, ht,
      Or.inl ⟨rfl, ?_, hr⟩⟩
    simp only [finishPush, hp, hd, Bool.not_false, Bool.and_true, Bool.not_true, Bool.false_eq_true, if_false,
      call_none, hf, ha2, if_true]
    rw [hh]

/-- the work-tree part of `rolled_restores` (refs aside) -/
theorem rolled_worktree (s s2 : St P) (hv : Valid s)
    (ht : ∀ p, (treeOf s2 s.head).get p = (treeOf s s.head).get p) :
    (rolled s.head s2).head = s.head ∧ (rolled s.head s2).files = s.files ∧
    ∀ p, (rolled s.head s2).index.get p = s.index.get p := by
  refine ⟨rfl, ?_, ?_⟩
  · funext p
    simp only [rolled]
    rw [ht p, hv.2.2.2 p, hv.2.2.1 p]
  · intro p
    simp only [rolled]
    rw [ht p, hv.2.2.1 p]

/-- **A pushing save, no git failure**: exactly one commit is created (parent = the handler's HEAD, tree =
the written files over the parent's tree).  If the remote accepts it, local and remote target refs both
point at it, HEAD follows, the handler is clean.  If the remote refuses (declines, or the update is not a
fast-forward), the caller sees the git error, the remote is untouched, every local ref answers as before,
and HEAD, files and index are those from before the transaction; the handler is clean and usable. -/
theorem push_spec' (rev : Str) (o : Opts) (po : PushOpts) (ws : List (P × Bytes)) (s : St P) (rem : Remote)
    (hv : Valid s) (hobj : objectLike (o.remoteBranch.getD rev) = false) (hp : po.push = true)
    (hd : o.dry = false)
    (hn : o.ignoreEmpty = false ∨ (applyWrites ws s.index).same (treeOf s s.head) = false) :
    let r := transactionPush none rev o po (writeOps ws) s rem
    let k : Commit P := { parent := some s.head, tree := applyWrites ws s.index, info := o.info }
    let target := qualify (o.remoteBranch.getD rev)
    r.1.1.commits = s.commits ++ [k] ∧ Valid r.1.1 ∧
    ((remoteAccepts po.declines (s.commits ++ [k]) rem target s.commits.length = true ∧
        r.1.2 = none ∧ r.2 = setRef rem target s.commits.length ∧
        r.1.1.refs = setRef s.refs target s.commits.length ∧ r.1.1.head = s.commits.length) ∨
     (remoteAccepts po.declines (s.commits ++ [k]) rem target s.commits.length = false ∧
        r.1.2 = some .gitfail ∧ r.2 = rem ∧ SameRefs r.1.1.refs s.refs ∧ r.1.1.head = s.head ∧
        r.1.1.files = s.files ∧ (∀ p, r.1.1.index.get p = s.index.get p))) := by
  intro r k target
  have hr : r = transactionPush none rev o po (writeOps ws) s rem := rfl
  rw [transactionPush_none rev o po _ s rem hobj hv.1, body_writes] at hr
  obtain ⟨h1, h2, h3, h4, h5, h6⟩ := afterWrites_frame ws (entered s)
  have hn' : o.ignoreEmpty = false ∨
      (afterWrites ws (entered s)).index.same (treeOf (afterWrites ws (entered s)) s.head) = false := by
    rcases hn with hn | hn
    · exact Or.inl hn
    · right; rw [h5, treeOf_congr s _ s.head h1]; exact hn
  have hnc : newCommit o s.head (afterWrites ws (entered s)) = k := by
    simp only [newCommit, h5]; rfl
  have hlen : (afterWrites ws (entered s)).commits.length = s.commits.length := by rw [h1]; rfl
  have hcs : (afterWrites ws (entered s)).commits = s.commits := h1
  obtain ⟨s', hc, hh, hi, hfl, ht, hcase⟩ :=
    finishPush_none_commit o po (qualify (o.remoteBranch.getD rev)) s.head (afterWrites ws (entered s)) rem hp hd hn'
  rw [hnc, hcs] at hc
  rw [hnc, hcs] at hcase
  rw [hcs] at hh
  rcases hcase with ⟨ha, hf, hrefs⟩ | ⟨ha, hf, hrefs⟩
  · simp only [hf] at hr
    rw [hr]
    refine ⟨hc, ?_, Or.inl ⟨ha, rfl, rfl, by simp only [hrefs, h2]; rfl, hh⟩⟩
    refine ⟨rfl, ?_, ?_, ?_⟩
    · simp only [hh, hc]; simp
    · intro p
      simp only [hh, hi, h5]
      rw [treeOf_append_new s _ _ (by simpa using hc)]
      rfl
    · intro p
      simp only [hfl, hi, h5]
      rw [h6 p, applyWrites_get]
      cases lastWrite ws p with
      | some c => rfl
      | none => exact hv.2.2.2 p
  · simp only [hf, rollback_none] at hr
    rw [hr]
    have htree : ∀ p, (treeOf { s' with txnOpen := false } s.head).get p = (treeOf s s.head).get p := by
      intro p
      exact congrArg (fun t => Tree.get t p) (treeOf_append_old s _ _ s.head hv.2.1 (by simpa using hc))
    obtain ⟨w1, w2, w3⟩ := rolled_worktree s { s' with txnOpen := false } hv htree
    refine ⟨by simpa [rolled] using hc, rolled_valid s _ hv (Or.inr ⟨_, by simpa using hc⟩) rfl,
      Or.inr ⟨ha, rfl, rfl, ?_, w1, w2, w3⟩⟩
    intro n
    simp only [rolled]
    rw [hrefs n, h2]; rfl

/-! ## any failing git command: the local refs -/

/-- `finishPush` and the local refs, whatever command fails: if the target ref is not reported as moved,
every ref answers as before — unless the command that was refused is the `update-ref` that puts the
branch back after a failed push (nothing can restore the ref then); if it is reported as moved, exactly
the target ref was set to the new commit and there is no error. -/
theorem finishPush_refs (o : Opts) (po : PushOpts) (target : Str) (old : Nat) (s : St P) (rem : Remote)
    (s' : St P) (e : Option Err) (b : Bool) (rem' : Remote)
    (h : finishPush fault o po target old s rem = ((s', e, b), rem')) :
    s'.txnOpen = s.txnOpen ∧
    (b = false → SameRefs s'.refs s.refs ∨
      (e = some .gitfail ∧ po.push = true ∧ s'.trace.head? = some (.updateRef target) ∧
        s'.refs = setRef s.refs target s.commits.length)) ∧
    (b = true → e = none ∧ o.dry = false ∧ s'.refs = setRef s.refs target s.commits.length) := by
  unfold finishPush at h
  by_cases hp : (po.push && !o.dry) = true
  · simp only [hp, Bool.not_true, Bool.false_eq_true, if_false] at h
    have hpush : po.push = true := by revert hp; cases po.push <;> simp
    have hr1 : (call fault (.revParseTarget target) s).1.refs = s.refs := rfl
    have hc1 : (call fault (.revParseTarget target) s).1.commits = s.commits := rfl
    have ht1 : (call fault (.revParseTarget target) s).1.txnOpen = s.txnOpen := rfl
    rcases hc : call fault (.revParseTarget target) s with ⟨s1, _ | _⟩
    · rw [hc] at hr1 hc1 ht1 h
      simp only at hr1 hc1 ht1 h
      have hk := finish_keeps fault o target old s1
      rcases hf : finish fault o target old s1 with ⟨s2, e2, _ | _⟩
      · rw [hf] at hk h
        simp only [Prod.mk.injEq] at h
        obtain ⟨⟨rfl, rfl, rfl⟩, rfl⟩ := h
        refine ⟨by rw [hk.1, ht1], fun _ => Or.inl ?_, fun hh => by cases hh⟩
        intro n; rw [hk.2.1 rfl, hr1]
      · rw [hf] at hk h
        simp only at h
        obtain ⟨hm1, hm2, hm3, _⟩ := hk.2.2.1 rfl
        simp only at hm1 hm2 hm3
        have hr3 : (call fault (.push target) s2).1.refs = s2.refs := rfl
        have ht3 : (call fault (.push target) s2).1.txnOpen = s2.txnOpen := rfl
        -- the restoring step, from any state with these refs
        have hrest : ∀ s3 : St P, s3.refs = s2.refs → s3.txnOpen = s2.txnOpen →
            restoreRef fault target (getRef s1.refs target) s3 = (s', e, b) →
            s'.txnOpen = s.txnOpen ∧ b = false ∧
            (SameRefs s'.refs s.refs ∨
              (e = some .gitfail ∧ s'.trace.head? = some (.updateRef target) ∧
               s'.refs = setRef s.refs target s.commits.length)) := by
          intro s3 h3 h3t hrr
          unfold restoreRef at hrr
          by_cases hfu : fault = some s3.calls
          · simp only [call, hfu, decide_true, Prod.mk.injEq] at hrr
            obtain ⟨rfl, rfl, rfl⟩ := hrr
            refine ⟨by simp only; rw [h3t, hk.1, ht1], rfl, Or.inr ⟨rfl, by simp, ?_⟩⟩
            simp only
            rw [h3, hm3, hr1, hc1]
          · simp only [call, hfu, decide_false, Prod.mk.injEq] at hrr
            obtain ⟨rfl, rfl, rfl⟩ := hrr
            refine ⟨by simp only; rw [h3t, hk.1, ht1], rfl, Or.inl ?_⟩
            simp only
            rw [h3, hm3]
            intro n
            rw [restore_sameRefs s1.refs target s1.commits.length n, hr1]
        rcases hcp : call fault (.push target) s2 with ⟨s3, _ | _⟩
        · rw [hcp] at hr3 ht3 h
          simp only at hr3 ht3 h
          by_cases ha : remoteAccepts po.declines s3.commits rem target s3.head = true
          · simp only [ha, if_true, Prod.mk.injEq] at h
            obtain ⟨⟨rfl, rfl, rfl⟩, rfl⟩ := h
            refine ⟨by rw [ht3, hk.1, ht1], fun hh => (by cases hh), fun _ => ⟨hm1, hm2, ?_⟩⟩
            rw [hr3, hm3, hr1, hc1]
          · simp only [ha, Bool.false_eq_true, if_false, Prod.mk.injEq] at h
            obtain ⟨q1, q2, q3⟩ := hrest s3 hr3 ht3 h.1
            refine ⟨q1, fun _ => ?_, fun hh => by rw [q2] at hh; cases hh⟩
            rcases q3 with q3 | ⟨a1, a2, a3⟩
            · exact Or.inl q3
            · exact Or.inr ⟨a1, hpush, a2, a3⟩
        · rw [hcp] at hr3 ht3 h
          simp only [Prod.mk.injEq] at hr3 ht3 h
          obtain ⟨q1, q2, q3⟩ := hrest s3 hr3 ht3 h.1
          refine ⟨q1, fun _ => ?_, fun hh => by rw [q2] at hh; cases hh⟩
          rcases q3 with q3 | ⟨a1, a2, a3⟩
          · exact Or.inl q3
          · exact Or.inr ⟨a1, hpush, a2, a3⟩
    · rw [hc] at hr1 ht1 h
      simp only [Prod.mk.injEq] at hr1 ht1 h
      obtain ⟨⟨rfl, rfl, rfl⟩, rfl⟩ := h
      exact ⟨ht1, fun _ => Or.inl (fun n => by rw [hr1]), fun hh => by cases hh⟩
  · simp only [hp, Bool.not_false, if_true, Prod.mk.injEq] at h
    have hk := finish_keeps fault o target old s
    rw [h.1] at hk
    refine ⟨hk.1, fun hh => Or.inl (fun n => by rw [hk.2.1 hh]), fun hh => ?_⟩
    obtain ⟨h1, h2, h3, _⟩ := hk.2.2.1 hh
    exact ⟨h1, h2, h3⟩

/-- **Any failing command, any body, with or without push**: the transaction is closed afterwards, and
either every local ref answers as before, or the transaction reported success and exactly the target ref
was set to the new commit, or the one command that could have put the branch back after a refused push
(`update-ref`) was itself refused (then the caller sees the git error and the branch keeps the commit). -/
theorem transactionPush_refs_safe (rev : Str) (o : Opts) (po : PushOpts) (body : List (Op P)) (s : St P)
    (rem : Remote) (ho : s.txnOpen = false) :
    (transactionPush fault rev o po body s rem).1.1.txnOpen = false ∧
    (SameRefs (transactionPush fault rev o po body s rem).1.1.refs s.refs ∨
      ((transactionPush fault rev o po body s rem).1.2 = none ∧ o.dry = false ∧
        (transactionPush fault rev o po body s rem).1.1.refs =
          setRef s.refs (qualify (o.remoteBranch.getD rev)) s.commits.length) ∨
      ((transactionPush fault rev o po body s rem).1.2 = some .gitfail ∧ po.push = true ∧
        (transactionPush fault rev o po body s rem).1.1.refs =
          setRef s.refs (qualify (o.remoteBranch.getD rev)) s.commits.length)) := by
  by_cases hobj : objectLike (o.remoteBranch.getD rev) = true
  · have hne : (if o.remoteBranch.getD rev = headStr then
        (call fault Cmd.revParseSym { s with calls := 0, trace := [] }).1
      else { s with calls := 0, trace := [] }).refs = s.refs ∧
      (if o.remoteBranch.getD rev = headStr then
        (call fault Cmd.revParseSym { s with calls := 0, trace := [] }).1
      else { s with calls := 0, trace := [] }).txnOpen = s.txnOpen := by
      split <;> exact ⟨rfl, rfl⟩
    simp only [transactionPush, hobj, if_true]
    exact ⟨by rw [hne.2, ho], Or.inl (fun n => by rw [hne.1])⟩
  · simp only [Bool.not_eq_true] at hobj
    have hne : o.remoteBranch.getD rev ≠ headStr := by
      intro h; rw [h, objectLike_head] at hobj; cases hobj
    simp only [transactionPush, hne, hobj, if_false, Bool.false_eq_true]
    by_cases hf0 : fault = some 0
    · simp only [call, hf0, decide_true]
      exact ⟨ho, Or.inl (SameRefs.refl _)⟩
    · simp only [call, hf0, decide_false, ho, Bool.false_eq_true, if_false]
      have hfr := runBody_frame fault (objectLike rev) body
        { commits := s.commits, refs := s.refs, head := s.head, index := s.index, files := s.files,
          txnOpen := true, calls := 0 + 1, trace := [Cmd.revParseHead] }
      rcases hr : runBody fault (objectLike rev) body
        { commits := s.commits, refs := s.refs, head := s.head, index := s.index, files := s.files,
          txnOpen := true, calls := 0 + 1, trace := [Cmd.revParseHead] } with ⟨s2, _ | e⟩
      · rw [hr] at hfr
        simp only
        rcases hfin : finishPush fault o po (qualify (o.remoteBranch.getD rev)) s.head s2 rem with ⟨⟨s3, e3, _ | _⟩, rem'⟩
        · have hk := finishPush_refs fault o po _ s.head s2 rem s3 e3 false rem' hfin
          simp only
          have hrb := rollback_keeps fault s.head e3 { s3 with txnOpen := false }
          refine ⟨hrb.2.2, ?_⟩
          rcases hk.2.1 rfl with hsame | ⟨he3, hpush, _, hrefs⟩
          · left
            intro n
            rw [hrb.1]
            simp only
            rw [hsame n, hfr.2.1]
          · right; right
            refine ⟨?_, hpush, ?_⟩
            · subst he3
              simp only [rollback, call]
              by_cases h1 : fault = some s3.calls <;> by_cases h2 : fault = some (s3.calls + 1) <;>
                simp [h1, h2, resetHard, cleanAll]
            · rw [hrb.1]
              simp only
              rw [hrefs, hfr.2.1, hfr.1]
        · have hk := finishPush_refs fault o po _ s.head s2 rem s3 e3 true rem' hfin
          simp only
          obtain ⟨h1, h2, h3⟩ := hk.2.2 rfl
          refine ⟨trivial, Or.inr (Or.inl ⟨h1, h2, ?_⟩)⟩
          rw [h3, hfr.2.1, hfr.1]
      · rw [hr] at hfr
        simp only
        have := rollback_keeps fault s.head (some e) { s2 with txnOpen := false }
        exact ⟨this.2.2, Or.inl (fun n => by rw [this.1]; simp only; rw [hfr.2.1])⟩

end Capella.Git
