import Capella.Lemmas.XmlLex
/-! Every token consumes input, hence `lex` (fuel = length + 1) never runs out of fuel. -/
namespace Capella.Xml

theorem dropWhile_length_le (p : Char → Bool) (s : Str) : (s.dropWhile p).length ≤ s.length := by
  induction s with
  | nil => simp
  | cons c cs ih =>
    simp only [List.dropWhile]
    split
    · simp only [List.length_cons]; omega
    · simp

theorem skipWs_length_le (s : Str) : (skipWs s).length ≤ s.length := dropWhile_length_le _ s

theorem splitComment_length {r b rest : Str} (h : splitComment r = some (b, rest)) :
    rest.length < r.length := by
  induction r generalizing b with
  | nil => simp [splitComment] at h
  | cons c cs ih =>
    rw [splitComment.eq_def] at h
    split at h
    · rename_i heq
      simp only [Option.some.injEq, Prod.mk.injEq] at h
      rw [heq, ← h.2]; simp only [List.length_cons]; omega
    · simp at h
    · rename_i heq
      simp only [List.cons.injEq] at heq
      obtain ⟨h1, h2⟩ := heq
      subst h1 h2
      cases h3 : splitComment cs with
      | none => simp [h3] at h
      | some p =>
        simp only [h3, Option.map_some, Option.some.injEq, Prod.mk.injEq] at h
        have := ih (b := p.1) (by rw [h3, ← h.2])
        simp only [List.length_cons]; omega
    · simp at h

theorem tagCloser_length {s r : Str} {sc : Bool} (h : tagCloser s = some (sc, r)) : r.length < s.length := by
  unfold tagCloser at h
  split at h
  · simp only [Option.some.injEq, Prod.mk.injEq] at h; rw [← h.2]; simp only [List.length_cons]; omega
  · simp only [Option.some.injEq, Prod.mk.injEq] at h; rw [← h.2]; simp only [List.length_cons]; omega
  · simp at h

theorem lexOneAttr_length {s n v r : Str} (h : lexOneAttr s = some (n, v, r)) : r.length < s.length := by
  unfold lexOneAttr at h
  simp only at h
  split at h
  · simp at h
  · split at h
    · rename_i s3 heq
      split at h
      · rename_i q s4 heq2
        split at h
        · split at h
          · rename_i x s5 heq3
            split at h
            · simp at h
            · split at h
              · simp at h
              · simp only [Option.some.injEq, Prod.mk.injEq] at h
                obtain ⟨_, _, h3⟩ := h
                subst h3
                have l1 := dropWhile_length_le (· != q) s4
                rw [heq3] at l1
                have l2 := skipWs_length_le s3
                rw [heq2] at l2
                have l3 := skipWs_length_le (s.dropWhile nameChar)
                rw [heq] at l3
                have l4 := dropWhile_length_le nameChar s
                simp only [List.length_cons] at l1 l2 l3
                omega
          · simp at h
        · simp at h
      · simp at h
    · simp at h

theorem lexAttrs_length {f : Nat} {s : Str} {as : List (Str × Str)} {sc : Bool} {r : Str}
    (h : lexAttrs f s = some (as, sc, r)) : r.length < s.length := by
  induction f generalizing s as sc r with
  | zero => simp [lexAttrs] at h
  | succ f ih =>
    unfold lexAttrs at h
    split at h
    · rename_i sc' r' heq
      simp only [Option.some.injEq, Prod.mk.injEq] at h
      have := tagCloser_length heq
      have := skipWs_length_le s
      rw [← h.2.2]; omega
    · split at h
      · simp at h
      · split at h
        · simp at h
        · rename_i name v s5 heq
          cases h2 : lexAttrs f s5 with
          | none => simp [h2] at h
          | some x =>
            obtain ⟨as', sc', r'⟩ := x
            simp only [h2, Option.some.injEq, Prod.mk.injEq] at h
            have := ih h2
            have := lexOneAttr_length heq
            have := skipWs_length_le s
            rw [← h.2.2]; omega

/-- every token consumes at least one character -/
theorem nextTok_length {s r : Str} {t : Tok} (h : nextTok s = .tok t r) : r.length < s.length := by
  unfold nextTok at h
  split at h
  · simp at h
  · rename_i m
    unfold lexMarkup at h
    split at h
    · rename_i r'
      unfold lexBang at h
      split at h
      · rename_i r''
        split at h
        · rename_i body rest heq
          simp only [Res.tok.injEq] at h
          have := splitComment_length heq
          rw [← h.2]; simp only [List.length_cons]; omega
        · simp at h
      · simp at h
    · simp at h
    · rename_i r'
      unfold lexEtag at h
      simp only at h
      split at h
      · rename_i rest heq
        split at h
        · simp at h
        · simp only [Res.tok.injEq] at h
          have l1 := skipWs_length_le (r'.dropWhile nameChar)
          rw [heq] at l1
          have l2 := dropWhile_length_le nameChar r'
          rw [← h.2]; simp only [List.length_cons] at l1 ⊢; omega
      · simp at h
    · unfold lexStag at h
      simp only at h
      split at h
      · simp at h
      · split at h
        · rename_i as sc rest heq
          split at h
          · simp only [Res.tok.injEq] at h
            have l1 := lexAttrs_length heq
            have l2 := dropWhile_length_le nameChar m
            rw [← h.2]; simp only [List.length_cons]; omega
          · simp at h
        · simp at h
  · rename_i hne hlt
    unfold lexText at h
    simp only at h
    split at h
    · simp at h
    · split at h
      · simp only [Res.tok.injEq] at h
        rw [← h.2]
        cases s with
        | nil => exact absurd rfl hne
        | cons c cs =>
          have hc : c ≠ '<' := fun hc => hlt cs (by rw [hc])
          have hd : (c :: cs).dropWhile (· != '<') = cs.dropWhile (· != '<') := by
            have : (c != '<') = true := by simpa using hc
            simp [List.dropWhile, this]
          rw [hd]
          have := dropWhile_length_le (· != '<') cs
          simp only [List.length_cons]; omega
      · simp at h

/-- if some amount of fuel suffices, the default `length + 1` does -/
theorem lexAll_adequate (f : Nat) (s : Str) (r : List Tok) (h : lexAll f s = some r) :
    lex s = some r := by
  unfold lex
  induction f generalizing s r with
  | zero => simp [lexAll] at h
  | succ f ih =>
    unfold lexAll at h ⊢
    split at h
    · exact h
    · simp at h
    · rename_i t rest heq
      cases h2 : lexAll f rest with
      | none => simp [h2] at h
      | some x =>
        simp only [h2] at h
        have hlen := nextTok_length heq
        have := ih rest x h2
        have hm := lexAll_mono (rest.length + 1) rest x this (s.length - (rest.length + 1))
        rw [show rest.length + 1 + (s.length - (rest.length + 1)) = s.length by omega] at hm
        rw [hm]; exact h

end Capella.Xml
