import Capella.Model.PodsDt
import Capella.Lemmas.Pods

/-!
C07, `DatetimePOD` made concrete: `fromisoformat (isoformat (t, "milliseconds"))` on the integer
model of `Capella/Model/PodsDt.lean` is `t` cut to milliseconds — except for CPython's quirk on
offsets of less than a second, which is characterised exactly. Continued in `PodsDt2.lean`.
-/
namespace Capella.Pods

theorem dch_fin : ∀ k : Fin 10, (dch k.val).isDigit = true ∧ dval (dch k.val) = k.val := by decide

theorem dch_isDigit (n : Nat) : (dch n).isDigit = true := by
  have h := (dch_fin ⟨n % 10, Nat.mod_lt _ (by decide)⟩).1
  have e : dch (n % 10) = dch n := by simp [dch]
  simpa [e] using h

theorem dval_dch (n : Nat) : dval (dch n) = n % 10 := by
  have h := (dch_fin ⟨n % 10, Nat.mod_lt _ (by decide)⟩).2
  have e : dch (n % 10) = dch n := by simp [dch]
  simpa [e] using h

theorem num2_pad (n : Nat) (h : n < 100) : num2 (dch (n / 10)) (dch n) = n := by
  simp only [num2, dval_dch]; omega

theorem num3_pad (n : Nat) (h : n < 1000) : num3 (dch (n / 100)) (dch (n / 10)) (dch n) = n := by
  simp only [num3, dval_dch]; omega

theorem num4_pad (n : Nat) (h : n < 10000) :
    num4 (dch (n / 1000)) (dch (n / 100)) (dch (n / 10)) (dch n) = n := by
  simp only [num4, dval_dch]; omega

theorem num6_pad (n : Nat) (h : n < 1000000) :
    num6 (dch (n / 100000)) (dch (n / 10000)) (dch (n / 1000)) (dch (n / 100)) (dch (n / 10)) (dch n) = n := by
  simp only [num6, dval_dch]; omega

theorem isSign_sgn (off : Int) : isSign (sgn off) = true := by
  unfold sgn; split <;> decide

theorem sgn_neg (off : Int) : (sgn off == '-') = decide (off < 0) := by
  unfold sgn; split <;> simp_all

/-- `isoParse` on a text laid out like `isoFormat`'s -/
theorem isoParse_cons (y1 y2 y3 y4 m1 m2 d1 d2 h1 h2 n1 n2 s1 s2 f1 f2 f3 sg o1 o2 o3 o4 : Char) (tail : Str)
    (hd : [y1, y2, y3, y4, m1, m2, d1, d2, h1, h2, n1, n2, s1, s2, f1, f2, f3, o1, o2, o3, o4].all Char.isDigit = true)
    (hs : isSign sg = true) :
    isoParse (y1 :: y2 :: y3 :: y4 :: '-' :: m1 :: m2 :: '-' :: d1 :: d2 :: 'T' :: h1 :: h2 :: ':' :: n1 :: n2 ::
      ':' :: s1 :: s2 :: '.' :: f1 :: f2 :: f3 :: sg :: o1 :: o2 :: ':' :: o3 :: o4 :: tail) =
    isoTail (isoBuild (num4 y1 y2 y3 y4) (num2 m1 m2) (num2 d1 d2) (num2 h1 h2) (num2 n1 n2)
        (num2 s1 s2) (num3 f1 f2 f3) (sg == '-')) (num2 o1 o2 * 3600 + num2 o3 o4 * 60) tail := by
  simp only [isoParse, hd, hs, beq_self_eq_true, Bool.and_self, if_true]

theorem isoFormat_cons (t : DT) :
    isoFormat t = dch (t.y / 1000) :: dch (t.y / 100) :: dch (t.y / 10) :: dch t.y :: '-' ::
      dch (t.mo / 10) :: dch t.mo :: '-' :: dch (t.d / 10) :: dch t.d :: 'T' ::
      dch (t.h / 10) :: dch t.h :: ':' :: dch (t.mi / 10) :: dch t.mi :: ':' ::
      dch (t.s / 10) :: dch t.s :: '.' ::
      dch (t.us / 1000 / 100) :: dch (t.us / 1000 / 10) :: dch (t.us / 1000) ::
      sgn t.off :: dch (t.off.natAbs / 3600000000 / 10) :: dch (t.off.natAbs / 3600000000) :: ':' ::
      dch (t.off.natAbs / 60000000 % 60 / 10) :: dch (t.off.natAbs / 60000000 % 60) ::
      offTail t.off.natAbs := by
  simp only [isoFormat, isoHead, fmtOffset, pad2, pad3, pad4, sgn, offTail, List.cons_append, List.nil_append]

theorem isoTail_offTail (b : Nat → Nat → IsoRes) (hm a : Nat) :
    isoTail b hm (offTail a) = b (hm + a / 1000000 % 60) (a % 1000000) := by
  unfold offTail
  by_cases h1 : a % 1000000 = 0
  · by_cases h2 : a / 1000000 % 60 = 0
    · simp [h1, h2, isoTail]
    · simp [h1, h2, isoTail, pad2, dch_isDigit, num2_pad (a / 1000000 % 60) (by omega)]
  · simp [h1, isoTail, pad2, pad6, dch_isDigit, num2_pad (a / 1000000 % 60) (by omega),
      num6_pad (a % 1000000) (by omega)]


structure DT.Bounds (t : DT) : Prop where
  y1 : 1 ≤ t.y
  y2 : t.y ≤ 9999
  mo1 : 1 ≤ t.mo
  mo2 : t.mo ≤ 12
  d1 : 1 ≤ t.d
  d2 : t.d ≤ daysInMonth t.y t.mo
  h : t.h < 24
  mi : t.mi < 60
  s : t.s < 60
  us : t.us < 1000000
  off1 : -86400000000 < t.off
  off2 : t.off < 86400000000

theorem DT.valid_iff (t : DT) : t.valid = true ↔ t.Bounds := by
  simp only [DT.valid, Bool.and_eq_true, decide_eq_true_eq]
  constructor
  · rintro ⟨⟨⟨⟨⟨⟨⟨⟨⟨⟨⟨a, b⟩, c⟩, d⟩, e⟩, f⟩, g⟩, h⟩, i⟩, j⟩, k⟩, l⟩
    exact ⟨a, b, c, d, e, f, g, h, i, j, k, l⟩
  · rintro ⟨a, b, c, d, e, f, g, h, i, j, k, l⟩
    exact ⟨⟨⟨⟨⟨⟨⟨⟨⟨⟨⟨a, b⟩, c⟩, d⟩, e⟩, f⟩, g⟩, h⟩, i⟩, j⟩, k⟩, l⟩

theorem daysInMonth_le (y mo : Nat) : daysInMonth y mo ≤ 31 := by
  unfold daysInMonth; split <;> (try split) <;> omega

/-- `fromisoformat ∘ isoformat` before the range checks -/
theorem isoParse_isoFormat_build (t : DT) (hv : t.valid = true) :
    isoParse (isoFormat t) =
      isoBuild t.y t.mo t.d t.h t.mi t.s (t.us / 1000) (decide (t.off < 0))
        (t.off.natAbs / 1000000) (t.off.natAbs % 1000000) := by
  have b := (DT.valid_iff t).1 hv
  have hd := daysInMonth_le t.y t.mo
  have hoff : t.off.natAbs < 86400000000 := by have := b.off1; have := b.off2; omega
  rw [isoFormat_cons, isoParse_cons _ _ _ _ _ _ _ _ _ _ _ _ _ _ _ _ _ _ _ _ _ _ _
    (by simp [dch_isDigit]) (isSign_sgn _), isoTail_offTail, sgn_neg,
    num4_pad _ (by have := b.y2; omega), num2_pad t.mo (by have := b.mo2; omega),
    num2_pad t.d (by have := b.d2; omega), num2_pad t.h (by have := b.h; omega),
    num2_pad t.mi (by have := b.mi; omega), num2_pad t.s (by have := b.s; omega),
    num3_pad (t.us / 1000) (by have := b.us; omega),
    num2_pad (t.off.natAbs / 3600000000) (by omega),
    num2_pad (t.off.natAbs / 60000000 % 60) (by omega)]
  congr 1
  omega


/-- the range checks of `fromisoformat` pass on what `isoformat` wrote for a valid value -/
theorem isoBuild_valid (t : DT) (hv : t.valid = true) :
    isoBuild t.y t.mo t.d t.h t.mi t.s (t.us / 1000) (decide (t.off < 0))
        (t.off.natAbs / 1000000) (t.off.natAbs % 1000000) =
      .ok { truncMs t with off := if t.off.natAbs / 1000000 = 0 then 0 else t.off } := by
  have b := (DT.valid_iff t).1 hv
  have hoff : t.off.natAbs < 86400000000 := by have := b.off1; have := b.off2; omega
  have hg : ¬ (t.y = 0 ∨ t.mo = 0 ∨ 12 < t.mo ∨ t.d = 0 ∨ daysInMonth t.y t.mo < t.d ∨ 23 < t.h ∨
      59 < t.mi ∨ 59 < t.s ∨
      dayUs ≤ t.off.natAbs / 1000000 * 1000000 + t.off.natAbs % 1000000) := by
    have := b.y1; have := b.mo1; have := b.mo2; have := b.d1; have := b.d2; have := b.h
    have := b.mi; have := b.s
    simp only [dayUs]
    omega
  simp only [isoBuild, hg, if_false, truncMs]
  congr 2
  by_cases h0 : t.off.natAbs / 1000000 = 0
  · simp only [h0, if_true]
  · simp only [h0, if_false, decide_eq_true_eq]
    split <;> omega

/-- **`fromisoformat(isoformat(t, "milliseconds"))` is `t` cut to milliseconds**, unless the offset is
a non-zero fraction of a second. -/
theorem isoParse_isoFormat (t : DT) (hv : t.valid = true) (hq : ¬ subSecondOffset t) :
    isoParse (isoFormat t) = .ok (truncMs t) := by
  rw [isoParse_isoFormat_build t hv, isoBuild_valid t hv]
  congr 1
  simp only [subSecondOffset, Classical.not_and_iff_not_or_not, Classical.not_not, Nat.not_lt] at hq
  have : (if t.off.natAbs / 1000000 = 0 then 0 else t.off) = t.off := by
    split <;> omega
  rw [this]; rfl

/-- the CPython quirk: an offset of less than a second (but not 0) is read back as UTC -/
theorem isoParse_isoFormat_subsecond (t : DT) (hv : t.valid = true) (hq : subSecondOffset t) :
    isoParse (isoFormat t) = .ok { truncMs t with off := 0 } := by
  rw [isoParse_isoFormat_build t hv, isoBuild_valid t hv]
  obtain ⟨_, h2⟩ := hq
  have : t.off.natAbs / 1000000 = 0 := by omega
  simp only [this, if_true]

end Capella.Pods
