import Capella.Lemmas.DeclCE
/-!
Lemmas about the `decl.apply` machine, part 6: facts that hold for **every** document
(create, extend, set, sync — found and create branch —, delete).

* `DefUnbound` — every entry parked in `deferred` is filed under a promise id that is not bound
  (an entry is parked only on the `_UnresolvablePromise(p)` signal, which `_resolve` raises only when
  `p` is not in `promises`; binding `p` pops everything filed under `p`).  At the end of the loop this is
  the "no progress" fixpoint: nothing runnable, and whatever is left waits for an id nobody bound.
-/
namespace Capella.Decl

/-- every parked entry waits for a promise id that is not bound -/
def DefUnbound (s : State) : Prop := ∀ e ∈ s.deferred, s.ps.lookup e.1 = none

theorem defer_unbound {s : State} {p : Str} {a : Action} (h : DefUnbound s) (hp : s.ps.lookup p = none) :
    DefUnbound (s.defer p a) := by
  intro e he
  simp only [State.defer, List.mem_append, List.mem_singleton] at he
  rcases he with he | rfl
  · exact h e he
  · exact hp

theorem lookup_append_single' (ps : Promises) (p q : Str) (i : Id) (h : ps.lookup q = none) (hne : (q == p) = false) :
    (ps ++ [(p, i)]).lookup q = none := by
  rw [List.lookup_append, h]
  simp [List.lookup, hne]

theorem fulfil_unbound {s s' : State} {p : Str} {i : Id} (h : DefUnbound s) (hf : s.fulfil p i = .ok s') :
    DefUnbound s' := by
  unfold State.fulfil at hf
  split at hf
  · cases hf
  · cases hf
    intro e he
    simp only [List.mem_filter] at he
    have hne : (e.1 == p) = false := by simpa using he.2
    exact lookup_append_single' _ _ _ _ (h e he.1) hne

theorem fulfilOpt_unbound {s s' : State} {pid : Option Str} {i : Id} (h : DefUnbound s)
    (hf : s.fulfilOpt pid i = .ok s') : DefUnbound s' := by
  cases pid with
  | none => simp [State.fulfilOpt] at hf; subst hf; exact h
  | some p => exact fulfil_unbound h hf

theorem resolveFind_unres {ps g cands ty keys p}
    (h : resolveFind ps g cands ty keys = .error (.unres p)) : ps.lookup p = none := by
  simp only [resolveFind, bind, Except.bind] at h
  split at h
  · rename_i e he; cases h; exact (resolveKeys_unres he).2
  · split at h <;> cases h

theorem resolveRefs_unres {ps g p} : ∀ (l : List Item), (resolveRefs ps g l).2 = some (.unres p) →
    ps.lookup p = none
  | [], h => by simp [resolveRefs] at h
  | .obj n q t s k :: l, h => by
    simp only [resolveRefs] at h
    exact resolveRefs_unres l h
  | .str n s :: l, h => by
    simp only [resolveRefs] at h
    exact resolveRefs_unres l h
  | .ref v :: l, h => by
    simp only [resolveRefs] at h
    split at h
    · rename_i e he
      simp at h; subst h
      exact (resolveVal_unres he).2
    · exact resolveRefs_unres l h
    · exact resolveRefs_unres l h

theorem checkSetScalars_unres {ps g p} : ∀ (set : List (Str × SetVal)),
    checkSetScalars ps g set = some (.unres p) → ps.lookup p = none
  | [], h => by simp [checkSetScalars] at h
  | (_, .scalar v) :: t, h => by
    simp only [checkSetScalars] at h
    split at h
    · rename_i e he; simp at h; subst h; exact (resolveVal_unres he).2
    · exact checkSetScalars_unres t h
  | (_, .list _) :: t, h => by
    simp only [checkSetScalars] at h
    exact checkSetScalars_unres t h

theorem stepItem_unbound {mm s s' par attr} {x : Item} (hd : DefUnbound s)
    (h : stepItem mm s par attr x = .ok s') : DefUnbound s' := by
  unfold stepItem at h
  split at h
  · cases h
  · cases x with
    | ref v =>
      simp only at h
      split at h
      · rename_i p hr; cases h; exact defer_unbound hd (resolveVal_unres hr).2
      · cases h
      · cases h; exact hd
      · cases h
    | str nid str =>
      simp only at h
      split at h
      · cases h
      · split at h
        · cases h
        · cases h; exact hd
    | obj nid pid ty scal kids =>
      simp only at h
      split at h
      · rename_i p hr; cases h; exact defer_unbound hd (resolveScal_unres hr).2
      · cases h
      · split at h
        · cases h
        · simp only [bind, Except.bind, pure, Except.pure] at h
          split at h
          · cases h
          · rename_i s2 hs2
            cases h
            have h2 : DefUnbound s2 := fulfilOpt_unbound (hf := hs2) (by exact hd)
            exact h2

theorem stepSet_unbound {s s' par attr} {v : SetVal} (hd : DefUnbound s)
    (h : stepSet s par attr v = .ok s') : DefUnbound s' := by
  cases v with
  | scalar v =>
    simp only [stepSet] at h
    split at h
    · rename_i p hr; cases h; exact defer_unbound hd (resolveVal_unres hr).2
    · cases h
    · cases h; exact hd
  | list l =>
    simp only [stepSet] at h
    split at h
    · rename_i l' p heq
      cases h
      have : (resolveRefs s.ps s.g l).2 = some (.unres p) := by rw [heq]
      exact defer_unbound hd (resolveRefs_unres l this)
    · cases h
    · cases h; exact hd

theorem stepSync_unbound {s s' par attr} {so : SyncObj} (hd : DefUnbound s)
    (h : stepSync s par attr so = .ok s') : DefUnbound s' := by
  obtain ⟨nid, nid2, ty, keys, pid, set, ext, sync⟩ := so
  simp only [stepSync] at h
  split at h
  · rename_i p hr; cases h; exact defer_unbound hd (resolveFind_unres hr)
  · cases h
  · cases h; exact hd
  · split at h
    · rename_i p hr; cases h; exact defer_unbound hd (checkSetScalars_unres set hr)
    · cases h
    · cases h; exact hd

theorem stepResync_unbound {mm s s' par attr nid2 ty keys sync} (hd : DefUnbound s)
    (h : stepResync mm s par attr nid2 ty keys sync = .ok s') : DefUnbound s' := by
  simp only [stepResync] at h
  split at h
  · rename_i p hr; cases h; exact defer_unbound hd (resolveFind_unres hr)
  · cases h
  · cases h; exact hd
  · split at h
    · cases h
    · split at h
      · cases h
      · split at h <;> first | (cases h; exact hd) | cases h

theorem stepDel_unbound {s s' par attr} {v : Val} (hd : DefUnbound s)
    (h : stepDel s par attr v = .ok s') : DefUnbound s' := by
  unfold stepDel at h
  split at h
  · cases h
  · split at h
    · cases h
    · cases h
    · cases h
    · split at h <;> first | (cases h; exact hd) | cases h

/-- every transition keeps `DefUnbound` -/
theorem step_unbound {mm s s'} (hd : DefUnbound s) (h : step mm s = .ok (some s')) : DefUnbound s' := by
  unfold step at h
  split at h
  · rename_i w rest _
    simp only [Except.map] at h
    split at h
    · cases h
    · rename_i s2 hw
      simp at h; subst h
      have hd' : DefUnbound { s with agenda := rest } := hd
      cases w with
      | items par attr l =>
        cases l with
        | nil => have := checkTarget_items_nil hw; subst this; exact hd'
        | cons x l => exact stepItem_unbound (h := hw) (by exact hd)
      | sets par l =>
        cases l with
        | nil => cases hw; exact hd'
        | cons x l => exact stepSet_unbound (h := hw) (by exact hd)
      | syncs par attr l =>
        cases l with
        | nil => cases hw; exact hd'
        | cons x l => exact stepSync_unbound (h := hw) (by exact hd)
      | resync par attr nid2 ty keys sync => exact stepResync_unbound hd' hw
      | fulfil p i => exact fulfil_unbound hd' hw
      | dels par attr l =>
        cases l with
        | nil => cases hw; exact hd'
        | cons x l => exact stepDel_unbound (h := hw) (by exact hd)
  · split at h
    · cases h
    · rename_i a q _
      simp only [Except.map] at h
      split at h
      · cases h
      · rename_i s2 hw
        simp at h; subst h
        have hd' : DefUnbound { s with queue := q } := hd
        cases a with
        | whole i =>
          simp only [startAction] at hw
          split at hw
          · rename_i p hr; cases hw; exact defer_unbound hd' (resolveVal_unres hr).2
          · cases hw
          · cases hw
          · cases hw; exact hd'
        | piece par pc =>
          cases pc with
          | item attr x => exact stepItem_unbound hd' hw
          | setE attr v => exact stepSet_unbound hd' hw
          | sync attr so => exact stepSync_unbound hd' hw
          | resync attr nid2 ty keys sy => exact stepResync_unbound hd' hw

/-- the loop as coded: when `while instructions:` ends, nothing is runnable any more and every entry
still parked waits for a promise id that is not bound — the state in which no further progress is possible -/
theorem run_end_fixpoint {mm} : ∀ (n : Nat) (s sf : State), DefUnbound s → run mm n s = some (.ok sf) →
    sf.agenda = [] ∧ sf.queue = [] ∧ DefUnbound sf
  | 0, _, _, _, h => by simp [run] at h
  | n + 1, s, sf, hd, h => by
    unfold run at h
    split at h
    · simp at h
    · rename_i hs
      simp at h; subst h
      obtain ⟨ha, hq⟩ := step_none hs
      exact ⟨ha, hq, hd⟩
    · rename_i s' hs
      exact run_end_fixpoint n s' sf (step_unbound hd hs) h

theorem init_unbound (g : Graph) (doc : List Instr) : DefUnbound (init g doc) := by
  intro e he; simp [init] at he

end Capella.Decl
