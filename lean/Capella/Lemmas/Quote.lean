import Capella.Model.Quote
namespace Capella.Quote

theorem byte_cases : ∀ n, n < 256 → ∀ s : Bool,
    (isSafe s n = true → (Char.ofNat n ≠ '%' ∧ (UInt8.ofNat (Char.ofNat n).toNat).toNat = n)) ∧
    hexVal (hexDigit (n / 16)) = some (n / 16) ∧ hexVal (hexDigit (n % 16)) = some (n % 16) := by
  decide +kernel

theorem unquote_lit (c : Char) (rest : List Char) (h : c ≠ '%') :
    unquote (c :: rest) = UInt8.ofNat c.toNat :: unquote rest := by
  rw [unquote.eq_def]
  split
  · rename_i heq; simp at heq; exact absurd heq.1 h
  · rename_i heq; simp at heq; obtain ⟨rfl, rfl⟩ := heq; rfl
  · rename_i heq; simp at heq

theorem unquote_pct (a b : Char) (x y : Nat) (rest : List Char)
    (ha : hexVal a = some x) (hb : hexVal b = some y) :
    unquote ('%' :: a :: b :: rest) = UInt8.ofNat (16 * x + y) :: unquote rest := by
  rw [unquote.eq_def]
  simp [ha, hb]

theorem unquote_quoteByte (s : Bool) (b : UInt8) (rest : List Char) :
    unquote (quoteByte s b ++ rest) = b :: unquote rest := by
  have hb : b.toNat < 256 := b.toNat_lt
  obtain ⟨h1, h2, h3⟩ := byte_cases b.toNat hb s
  unfold quoteByte
  split
  · rename_i hs
    obtain ⟨hne, hval⟩ := h1 hs
    simp only [List.singleton_append]
    rw [unquote_lit _ _ hne]
    congr 1
    apply UInt8.toNat_inj.mp
    exact hval
  · simp only [List.cons_append, List.nil_append]
    rw [unquote_pct _ _ _ _ _ h2 h3]
    congr 1
    apply UInt8.toNat_inj.mp
    simp only [UInt8.toNat_ofNat']
    omega

theorem unquote_quote' (s : Bool) (bs : List UInt8) : unquote (quote s bs) = bs := by
  induction bs with
  | nil => rfl
  | cons b bs ih =>
    simp only [quote, List.flatMap_cons] at *
    rw [unquote_quoteByte, ih]

/-- characters `quote` can emit -/
def okChar (s : Bool) (c : Char) : Bool :=
  c == '%' || alwaysSafe c.toNat || (s && c == '/')

theorem quoteByte_chars : ∀ n, n < 256 → ∀ s : Bool,
    (isSafe s n = true → okChar s (Char.ofNat n) = true) ∧
    okChar s (hexDigit (n / 16)) = true ∧ okChar s (hexDigit (n % 16)) = true := by
  decide +kernel

theorem quote_chars (s : Bool) (bs : List UInt8) : ∀ c ∈ quote s bs, okChar s c = true := by
  intro c hc
  simp only [quote, List.mem_flatMap] at hc
  obtain ⟨b, _, hc⟩ := hc
  obtain ⟨h1, h2, h3⟩ := quoteByte_chars b.toNat b.toNat_lt s
  unfold quoteByte at hc
  split at hc
  · rename_i hs; simp at hc; subst hc; exact h1 hs
  · simp at hc
    rcases hc with rfl | rfl | rfl
    · rfl
    · exact h2
    · exact h3

end Capella.Quote
